(* C19 - B1 tie: the option tables and the order facts extracted from the working tree (Gen/C19Tables.v) are the
   ones the model is about; well-formedness of the generated tables by computation. *)
From Coq Require Import String ZArith List Bool.
From Replicat Require Import Model.PyVal Model.Options Proofs.OptionsProofs Gen.C19Tables.
Import ListNotations.

Lemma gen_general_rows_eq_model : C19Tables.general_rows = Options.general_rows.
Proof. reflexivity. Qed.

Lemma gen_exclusive_pairs_eq_model : C19Tables.excl_file = Options.excl_file /\ C19Tables.excl_cli = Options.excl_cli.
Proof. split; reflexivity. Qed.

(* main(): file (apply_known), then environment (apply_env), then the command line (second parse) *)
Lemma gen_source_order_eq_model :
  C19Tables.general_source_order = Options.source_order /\ C19Tables.backend_source_order = Options.source_order.
Proof. split; reflexivity. Qed.

(* read_config: default section updated by the profile *)
Lemma gen_file_merge_order_eq_model : C19Tables.file_merge_order = Options.file_merge_order.
Proof. reflexivity. Qed.

Lemma gen_cli_repository_selects_backend : C19Tables.cli_repository_selects_backend = true.
Proof. reflexivity. Qed.

Lemma gen_config_values_become_parser_defaults : C19Tables.config_values_become_parser_defaults = true.
Proof. reflexivity. Qed.

Lemma gen_backend_coercions_eq_model : C19Tables.backend_coercions = (CoGuessCli, CoGuessCfg, CoGuessCfg).
Proof. reflexivity. Qed.

Lemma gen_guess_type_passes_non_str : C19Tables.guess_type_passes_non_str = true.
Proof. reflexivity. Qed.

Lemma gen_general_env_eq_model : C19Tables.general_env = Options.general_env.
Proof. reflexivity. Qed.

(* Backend.__init_subclass__: a backend class that does not pass short_name= gets its own class name, so the
   environment variables of a backend derived from another backend carry the derived class's name *)
Lemma gen_env_prefix_is_own_class_name : C19Tables.env_prefix_is_own_class_name = true.
Proof. reflexivity. Qed.

Lemma gen_backends_eq_model : C19Tables.backends = Options.builtin_backends.
Proof. reflexivity. Qed.

(* the table of a run with a given backend: generated general rows + one row per constructor keyword *)
Definition gen_full_table (params : list (string * option value)) : list optrow :=
  C19Tables.general_rows ++ map backend_row params.

(* computed over the generated tables: option names are distinct (general, and general + each built-in backend);
   every member of an exclusive pair is an option; rows writing one destination share the built-in default's source *)
Lemma gen_general_names_distinct : nodupb (map o_name C19Tables.general_rows) = true.
Proof. vm_compute. reflexivity. Qed.

Lemma gen_backend_names_distinct :
  forallb (fun b => nodupb (map o_name (gen_full_table (snd b)))) C19Tables.backends = true.
Proof. vm_compute. reflexivity. Qed.

Lemma gen_exclusive_members_are_options :
  forallb (fun p => existsb (String.eqb (fst p)) (map o_name C19Tables.general_rows) &&
                    existsb (String.eqb (snd p)) (map o_name C19Tables.general_rows))
          (C19Tables.excl_file ++ C19Tables.excl_cli) = true.
Proof. vm_compute. reflexivity. Qed.

Lemma gen_general_rows_agree : forallb row_agrees C19Tables.general_rows = true.
Proof. vm_compute. reflexivity. Qed.

(* every environment variable of a general option belongs to an option that has an environment coercion *)
Lemma gen_env_rows :
  forallb (fun r => Bool.eqb (match o_env r with Some _ => true | None => false end)
                             (existsb (fun e => String.eqb (fst e) (o_name r)) C19Tables.general_env))
          C19Tables.general_rows = true.
Proof. vm_compute. reflexivity. Qed.
