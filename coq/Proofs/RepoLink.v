(* Link between the two semantics of Model/Repo.v: every sequential command [exec] is one particular
   history of the interleaving step relation (start / check / put / commit, plan / del_snap /
   del_chunk / done), so everything proved for all reachable states covers the states the
   correspondence harness observes.  Stores are compared up to the order of the chunk list. *)
From Coq Require Import List Arith Lia Bool.
From Replicat Require Import Model.Repo Proofs.RepoProofs.
Import ListNotations.

Definition store_equiv (a b : store) : Prop :=
  snaps a = snaps b /\ forall c, In c (chunks a) <-> In c (chunks b).

Lemma reachable_trans g0 g1 g2 : reachable g0 g1 -> reachable g1 g2 -> reachable g0 g2.
Proof. intros H1 H2. induction H2 as [|g g' _ IH Hs]; [exact H1 | eapply reach_step; [exact IH|exact Hs]]. Qed.

Definition mk_inst u f id tab pend dn : sinst :=
  {| i_fam := f; i_usr := u; i_id := id; i_all := tab; i_pending := pend; i_toput := []; i_done := dn |}.

(* one chunk: check, and upload if missing *)
Lemma process_one st u f id tab d rest dn :
  exists st', reachable {| g_st := st; g_run := [mk_inst u f id tab (d :: rest) dn]; g_des := None |}
                        {| g_st := st'; g_run := [mk_inst u f id tab rest (d :: dn)]; g_des := None |} /\
              snaps st' = snaps st /\ forall c, In c (chunks st') <-> In c (chunks st) \/ c = (f, d).
Proof.
  destruct (memc (f, d) (chunks st)) eqn:Em.
  - exists st. split; [|split; [reflexivity|]].
    + eapply reach_step; [apply reach_refl|].
      pose proof (S_check st [] (mk_inst u f id tab (d :: rest) dn) [] d rest eq_refl) as Hs.
      cbn [app i_fam mk_inst] in Hs. rewrite Em in Hs. exact Hs.
    + intros c. split; [tauto|]. intros [H| ->]; [exact H|]. apply memc_In. exact Em.
  - exists {| chunks := (f, d) :: chunks st; snaps := snaps st |}. split; [|split; [reflexivity|]].
    + eapply reach_step.
      * eapply reach_step; [apply reach_refl|].
        pose proof (S_check st [] (mk_inst u f id tab (d :: rest) dn) [] d rest eq_refl) as Hs.
        cbn [app i_fam mk_inst] in Hs. rewrite Em in Hs. exact Hs.
      * pose proof (S_put st [] {| i_fam := f; i_usr := u; i_id := id; i_all := tab; i_pending := rest; i_toput := [d]; i_done := dn |}
                      [] d [] [] eq_refl) as Hs.
        cbn [app i_fam i_usr i_id i_all i_pending i_done] in Hs. exact Hs.
    + intros c. cbn [chunks In]. split; [intros [H|H]; [right; symmetry; exact H|left; exact H] | intros [H|H]; [right; exact H|left; symmetry; exact H]].
Qed.

Lemma process_all u f id tab : forall pend st dn,
  exists st', reachable {| g_st := st; g_run := [mk_inst u f id tab pend dn]; g_des := None |}
                        {| g_st := st'; g_run := [mk_inst u f id tab [] (rev pend ++ dn)]; g_des := None |} /\
              snaps st' = snaps st /\ forall c, In c (chunks st') <-> In c (chunks st) \/ (fst c = f /\ In (snd c) pend).
Proof.
  induction pend as [|d rest IH]; intros st dn.
  - exists st. split; [apply reach_refl|]. split; [reflexivity|]. intros c. cbn. tauto.
  - destruct (process_one st u f id tab d rest dn) as [st1 [R1 [S1 C1]]].
    destruct (IH st1 (d :: dn)) as [st2 [R2 [S2 C2]]].
    exists st2. split; [|split; [congruence|]].
    + cbn [rev]. rewrite <- app_assoc. cbn [app]. eapply reachable_trans; [exact R1|exact R2].
    + intros [cf cd]. rewrite C2, C1. cbn [fst snd In]. split.
      * intros [[H|E]|[Hf Hd]];
          [left; exact H | inversion E; subst; right; split; [reflexivity|left; reflexivity] | right; split; [exact Hf|right; exact Hd]].
      * intros [H|[Hf [E|Hd]]]; [left; left; exact H | subst; left; right; reflexivity | right; split; assumption].
Qed.

Theorem exec_snapshot_is_a_history st u f id tab :
  exists st', reachable (quiescent st) (quiescent st') /\ store_equiv st' (fst (exec st (OSnap u f id tab))).
Proof.
  destruct (process_all u f id tab tab st []) as [st1 [R [S C]]].
  exists {| chunks := chunks st1; snaps := {| s_id := id; s_fam := f; s_usr := u; s_tab := tab |} :: snaps st1 |}. split.
  - eapply reach_step.
    + eapply reachable_trans; [|exact R].
      eapply reach_step; [apply reach_refl|]. apply (S_start (mk_inst u f id tab tab []) st []). repeat split.
    + pose proof (S_commit st1 [] (mk_inst u f id tab [] (rev tab ++ [])) [] eq_refl eq_refl) as Hs.
      cbn [app mk_inst i_id i_fam i_usr i_all] in Hs. exact Hs.
  - split; cbn [exec fst snaps chunks]; [rewrite S; reflexivity|].
    intros c. rewrite C, add_chunks_spec. reflexivity.
Qed.

(* deleting the snapshot objects one by one, then the chunk objects one by one *)
Lemma remove_snaps_nil f l : remove_snaps f [] l = l.
Proof.
  unfold remove_snaps. induction l as [|s l IHl]; cbn [filter]; [reflexivity|].
  cbn [existsb]. rewrite andb_false_r. cbn [negb]. f_equal. exact IHl.
Qed.

Lemma remove_snaps_cons f id ids l : remove_snaps f ids (remove_snaps f [id] l) = remove_snaps f (id :: ids) l.
Proof.
  unfold remove_snaps. induction l as [|s l IHl]; cbn [filter]; [reflexivity|].
  cbn [existsb]. rewrite orb_false_r.
  destruct (Nat.eqb (s_fam s) f) eqn:Ef; cbn [andb negb].
  - destruct (Nat.eqb (s_id s) id) eqn:Ei; cbn [negb orb]; [exact IHl|].
    cbn [filter]. rewrite Ef. cbn [andb]. destruct (existsb (Nat.eqb (s_id s)) ids); cbn [negb]; [exact IHl|f_equal; exact IHl].
  - cbn [filter]. rewrite Ef. cbn [andb negb]. f_equal. exact IHl.
Qed.

Lemma del_snaps_steps f cs : forall ids st,
  reachable {| g_st := st; g_run := []; g_des := Some {| d_fam := f; d_snaps := ids; d_chunks := cs |} |}
            {| g_st := {| chunks := chunks st; snaps := remove_snaps f ids (snaps st) |}; g_run := [];
               g_des := Some {| d_fam := f; d_snaps := []; d_chunks := cs |} |}.
Proof.
  induction ids as [|id ids IH]; intros st.
  - rewrite remove_snaps_nil. destruct st. apply reach_refl.
  - eapply reachable_trans.
    + eapply reach_step; [apply reach_refl|]. exact (S_del_snap st f [] id ids cs).
    + cbn [app]. specialize (IH {| chunks := chunks st; snaps := remove_snaps f [id] (snaps st) |}).
      cbn [chunks snaps] in IH. rewrite remove_snaps_cons in IH. exact IH.
Qed.

Lemma del_chunks_steps f : forall cs st,
  exists st', reachable {| g_st := st; g_run := []; g_des := Some {| d_fam := f; d_snaps := []; d_chunks := cs |} |}
                        {| g_st := st'; g_run := []; g_des := Some {| d_fam := f; d_snaps := []; d_chunks := [] |} |} /\
              snaps st' = snaps st /\ forall c, In c (chunks st') <-> In c (chunks st) /\ ~ In c cs.
Proof.
  induction cs as [|x cs IH]; intros st.
  - exists st. split; [apply reach_refl|]. split; [reflexivity|]. intros c. cbn. tauto.
  - destruct (IH {| chunks := filter (fun y => negb (pair_eqb x y)) (chunks st); snaps := snaps st |}) as [st' [R [S C]]].
    exists st'. split; [|split; [exact S|]].
    + eapply reachable_trans; [|exact R]. eapply reach_step; [apply reach_refl|]. exact (S_del_chunk st f [] x cs).
    + intros c. rewrite C. cbn [chunks In]. rewrite filter_In, negb_true_iff. split.
      * intros [[H1 H2] H3]. split; [exact H1|]. intros [E|H]; [|exact (H3 H)]. subst x.
        assert (Ht : pair_eqb c c = true) by (apply pair_eqb_spec; reflexivity). congruence.
      * intros [H1 H2]. split; [split; [exact H1|] | tauto].
        destruct (pair_eqb x c) eqn:E; [|reflexivity]. apply pair_eqb_spec in E. subst. exfalso. apply H2. left. reflexivity.
Qed.

Theorem exec_delete_is_a_history st u f ids st' : exec st (ODel u f ids) = (st', true) ->
  exists st'', reachable (quiescent st) (quiescent st'') /\ store_equiv st'' st'.
Proof.
  cbn [exec]. destruct (plan_delete u f ids st) as [p|] eqn:Hp; [|intros E; inversion E].
  intros E. inversion E; subst; clear E.
  destruct (plan_delete_spec _ _ _ _ _ Hp) as [Hf [Hi _]]. destruct p as [pf pids pcs]. cbn [d_fam d_snaps d_chunks] in *. subst pf pids.
  destruct (del_chunks_steps f pcs {| chunks := chunks st; snaps := remove_snaps f ids (snaps st) |}) as [st2 [R2 [S2 C2]]].
  exists st2. split.
  - eapply reach_step; [|exact (S_des_done st2 [] f)].
    eapply reachable_trans; [|exact R2].
    eapply reachable_trans; [|apply del_snaps_steps].
    eapply reach_step; [apply reach_refl|]. exact (S_plan_delete st u f ids _ Hp).
  - split; cbn [snaps chunks] in *; [exact S2|]. intros c. rewrite C2, remove_chunks_spec. reflexivity.
Qed.

Theorem exec_clean_is_a_history st f :
  exists st'', reachable (quiescent st) (quiescent st'') /\ store_equiv st'' (fst (exec st (OClean f))).
Proof.
  destruct (del_chunks_steps f (d_chunks (plan_clean f st)) st) as [st2 [R2 [S2 C2]]].
  exists st2. split.
  - eapply reach_step; [|exact (S_des_done st2 [] f)].
    eapply reachable_trans; [|exact R2].
    eapply reach_step; [apply reach_refl|]. exact (S_plan_clean st f).
  - split; cbn [exec fst snaps chunks]; [exact S2|]. intros c. rewrite C2, remove_chunks_spec. reflexivity.
Qed.
