(* Proofs about Model/Sched.v: every statement holds for every schedule (= every sequence of steps). *)
From Coq Require Import List Arith Lia Bool Permutation.
From Replicat Require Import Model.Sched.
Import ListNotations.

(* ------------------------------------------------------------------ helpers on set_nth *)
Lemma nth_error_split {A} (l : list A) i a : nth_error l i = Some a ->
  l = firstn i l ++ a :: skipn (S i) l /\ length (firstn i l) = i.
Proof.
  revert i. induction l as [|x t IH]; intros i H; destruct i; cbn in *; try discriminate.
  - inversion H; subst. split; reflexivity.
  - destruct (IH i H) as [E L]. split; [f_equal; exact E | f_equal; exact L].
Qed.

Section Count.
Context {A : Type}.
Variable f : A -> bool.
Definition cnt (l : list A) : nat := length (filter f l).
Lemma cnt_app l1 l2 : cnt (l1 ++ l2) = cnt l1 + cnt l2.
Proof. unfold cnt. rewrite filter_app, app_length. reflexivity. Qed.
Lemma cnt_set_nth l i a b : nth_error l i = Some a ->
  cnt (set_nth l i b) + (if f a then 1 else 0) = cnt l + (if f b then 1 else 0).
Proof.
  intros H. destruct (nth_error_split l i a H) as [E _]. unfold set_nth.
  assert (E1 : cnt (firstn i l ++ b :: skipn (S i) l) = cnt (firstn i l) + ((if f b then 1 else 0) + cnt (skipn (S i) l))).
  { rewrite cnt_app. unfold cnt. cbn [filter]. destruct (f b); reflexivity. }
  assert (E2 : cnt l = cnt (firstn i l) + ((if f a then 1 else 0) + cnt (skipn (S i) l))).
  { rewrite E at 1. rewrite cnt_app. unfold cnt. cbn [filter]. destruct (f a); reflexivity. }
  lia.
Qed.
End Count.

(* ------------------------------------------------------------------ 1. slots *)
Definition isH (t : tstate) : bool := match t with THolding => true | _ => false end.
Lemma holding_cnt s : holding s = cnt isH (tasks s).
Proof. reflexivity. Qed.

Inductive sreach (s0 : slots) : slots -> Prop :=
| sreach_refl : sreach s0 s0
| sreach_step s s' : sreach s0 s -> sstep s s' -> sreach s0 s'.

Definition slots_init (n ntasks : nat) : slots := {| free := n; tasks := repeat TIdle ntasks |}.

Lemma sstep_inv n s s' : sstep s s' -> free s + holding s = n -> free s' + holding s' = n.
Proof.
  intros H Hi. rewrite holding_cnt in *. destruct H as [s i Hn Hf|s i failed Hn|s i Hn]; cbn [free tasks].
  - pose proof (cnt_set_nth isH _ _ _ THolding Hn) as E. cbn [isH] in E. lia.
  - pose proof (cnt_set_nth isH _ _ _ TDone Hn) as E. cbn [isH] in E. lia.
  - pose proof (cnt_set_nth isH _ _ _ TIdle Hn) as E. cbn [isH] in E. lia.
Qed.

Lemma holding_init n k : holding (slots_init n k) = 0.
Proof.
  unfold holding, slots_init. cbn [tasks]. induction k as [|k IH]; cbn [repeat filter isH]; [reflexivity|exact IH].
Qed.

(* in every reachable state: outstanding transfers <= N, and tokens are conserved *)
Theorem slots_bounded n k s : sreach (slots_init n k) s -> free s + holding s = n /\ holding s <= n.
Proof.
  intros R. assert (H : free s + holding s = n).
  { induction R as [|s s' _ IH Hs]; [cbn [free]; rewrite holding_init; cbn; lia | exact (sstep_inv n s s' Hs IH)]. }
  split; [exact H | lia].
Qed.

(* when no transfer is outstanding (after success or failure alike) all N slots are back *)
Theorem slots_restored n k s : sreach (slots_init n k) s -> holding s = 0 -> free s = n.
Proof. intros R H. destruct (slots_bounded n k s R) as [E _]. lia. Qed.

(* a held slot can always be released: no transfer is stuck because of the slot discipline *)
Theorem slots_progress s i : nth_error (tasks s) i = Some THolding -> exists s', sstep s s'.
Proof. intros H. eexists. exact (s_release s i false H). Qed.

(* an idle task can start as soon as any holder releases *)
Theorem slots_no_deadlock n k s : sreach (slots_init n k) s -> 0 < n -> free s = 0 -> exists i, nth_error (tasks s) i = Some THolding.
Proof.
  intros R Hn Hf. destruct (slots_bounded n k s R) as [E _]. assert (Hh : 0 < holding s) by lia.
  unfold holding in Hh. destruct (filter _ (tasks s)) as [|t l] eqn:Ef; [cbn in Hh; lia|].
  assert (Hin : In t (filter (fun t => match t with THolding => true | _ => false end) (tasks s))) by (rewrite Ef; left; reflexivity).
  apply filter_In in Hin as [Hin Ht]. destruct t; try discriminate.
  apply In_nth_error in Hin as [i Hi]. exists i. exact Hi.
Qed.

(* ------------------------------------------------------------------ 2. pipeline *)
Definition oc (o : option nat) : list nat := match o with Some c => [c] | None => [] end.
Definition occ (c : nat) (l : list nat) : nat := count_occ Nat.eq_dec l c.

Lemma occ_app c l1 l2 : occ c (l1 ++ l2) = occ c l1 + occ c l2.
Proof. apply count_occ_app. Qed.

Lemma occ_flat_set c (l : list (option nat)) w a b : nth_error l w = Some a ->
  occ c (flat_map oc (set_nth l w b)) + occ c (oc a) = occ c (flat_map oc l) + occ c (oc b).
Proof.
  intros H. destruct (nth_error_split l w a H) as [E _]. unfold set_nth. rewrite E at 3.
  rewrite !flat_map_app. cbn [flat_map]. rewrite !occ_app. lia.
Qed.

Inductive preach (cap : nat) (p0 : pipe) : pipe -> Prop :=
| preach_refl : preach cap p0 p0
| preach_step p p' : preach cap p0 p -> pstep cap p p' -> preach cap p0 p'.

Definition pinv (chunks : list nat) (p : pipe) : Prop :=
  (forall c, occ c (all_chunks p) = occ c chunks) /\
  (In true (exited p) -> to_produce p = [] /\ queue p = []).

Lemma In_firstn_in {A} (y : A) : forall n l, In y (firstn n l) -> In y l.
Proof.
  induction n as [|n IH]; intros l H; [destruct H|]. destruct l as [|x t]; [destruct H|].
  destruct H as [H|H]; [left; exact H|right; apply IH; exact H].
Qed.
Lemma In_skipn_in {A} (y : A) : forall n l, In y (skipn n l) -> In y l.
Proof.
  induction n as [|n IH]; intros l H; [exact H|]. destruct l as [|x t]; [destruct H|]. right. apply IH. exact H.
Qed.
Lemma In_set_nth {A} (l : list A) i x y : In y (set_nth l i x) -> y = x \/ In y l.
Proof.
  unfold set_nth. rewrite in_app_iff. cbn [In]. intros [H|[H|H]].
  - right. eapply In_firstn_in. exact H.
  - left. symmetry. exact H.
  - right. eapply In_skipn_in. exact H.
Qed.

Lemma pstep_inv cap chunks p p' : pstep cap p p' -> pinv chunks p -> pinv chunks p'.
Proof.
  intros Hs [Hocc Hex]. unfold pinv, all_chunks, in_flight in *.
  change (fun o : option nat => match o with Some c => [c] | None => [] end) with oc in *.
  destruct Hs as [p c rest Ht Hc|p w c rest Hq Hw He|p w c Hw|p w Hw He Hq Hd]; cbn [to_produce queue in_hand exited processed].
  - split.
    + intros x. specialize (Hocc x). rewrite Ht in Hocc. rewrite !occ_app in *. cbn [occ count_occ] in *.
      unfold occ in *. cbn [count_occ] in *. destruct (Nat.eq_dec c x); lia.
    + intros Hin. destruct (Hex Hin) as [E _]. congruence.
  - split.
    + intros x. specialize (Hocc x). rewrite Hq in Hocc. rewrite !occ_app in *.
      pose proof (occ_flat_set x (in_hand p) w None (Some c) Hw) as E. cbn [oc] in E.
      unfold occ in *. cbn [count_occ] in *. destruct (Nat.eq_dec c x); lia.
    + intros Hin. destruct (Hex Hin) as [_ E]. congruence.
  - split.
    + intros x. specialize (Hocc x). rewrite !occ_app in *.
      pose proof (occ_flat_set x (in_hand p) w (Some c) None Hw) as E. cbn [oc] in E.
      unfold occ in *. cbn [count_occ] in *. destruct (Nat.eq_dec c x); lia.
    + exact Hex.
  - split; [exact Hocc|]. intros _. split; [|exact Hq].
    unfold producer_done in Hd. destruct (to_produce p); [reflexivity|discriminate].
Qed.

Lemma pinv_init chunks n : pinv chunks (pipe_init chunks n).
Proof.
  split.
  - intros c. unfold all_chunks, in_flight, pipe_init. cbn [to_produce queue in_hand processed].
    assert (E : flat_map (fun o : option nat => match o with Some c0 => [c0] | None => [] end) (repeat None n) = []).
    { induction n as [|n IH]; cbn; [reflexivity|exact IH]. }
    rewrite E. cbn [app]. rewrite app_nil_r. reflexivity.
  - cbn [pipe_init exited]. intros H. apply repeat_spec in H. discriminate.
Qed.

Theorem pipe_invariant cap chunks n p : preach cap (pipe_init chunks n) p -> pinv chunks p.
Proof. intros R. induction R as [|p p' _ IH Hs]; [apply pinv_init | exact (pstep_inv cap chunks p p' Hs IH)]. Qed.

(* EXACTLY ONCE: when some worker has left its loop and nothing is in a worker's hands, every chunk
   the chunker produced has been processed exactly once (as a multiset) - for every schedule *)
Theorem pipe_exactly_once cap chunks n p : preach cap (pipe_init chunks n) p ->
  In true (exited p) -> in_flight p = [] -> Permutation (processed p) chunks.
Proof.
  intros R He Hf. destruct (pipe_invariant cap chunks n p R) as [Hocc Hex].
  destruct (Hex He) as [E1 E2]. apply (Permutation_count_occ Nat.eq_dec). intros c.
  specialize (Hocc c). unfold all_chunks in Hocc. rewrite E1, E2, Hf in Hocc. cbn [app] in Hocc. exact Hocc.
Qed.

(* no worker leaves while a chunk is queued or still to be produced *)
Theorem pipe_no_early_exit cap chunks n p : preach cap (pipe_init chunks n) p ->
  In true (exited p) -> to_produce p = [] /\ queue p = [].
Proof. intros R. exact (proj2 (pipe_invariant cap chunks n p R)). Qed.

(* progress: unless everything is processed and all workers may leave, some step is enabled
   (given at least one worker and queue capacity >= 1) *)
Theorem pipe_progress cap p : 0 < cap ->
  (exists w, nth_error (in_hand p) w = Some None /\ nth_error (exited p) w = Some false) ->
  exists p', pstep cap p p'.
Proof.
  intros Hcap [w [Hw He]].
  destruct (queue p) as [|c rest] eqn:Hq.
  - destruct (to_produce p) as [|c rest] eqn:Ht.
    + eexists. apply (p_exit cap p w Hw He Hq). unfold producer_done. rewrite Ht. reflexivity.
    + eexists. apply (p_put cap p c rest Ht). rewrite Hq. exact Hcap.
  - eexists. exact (p_get cap p w c rest Hq Hw He).
Qed.

(* ------------------------------------------------------------------ 3. restore finalisation *)
Definition wf (p : pending) : Prop :=
  NoDup (map fst p) /\ Forall (fun fd => NoDup (snd fd) /\ snd fd <> []) p.

Lemma remove_nat_perm d : forall ds, In d ds -> Permutation ds (d :: remove_nat d ds).
Proof.
  induction ds as [|x t IH]; intros H; [destruct H|]. cbn [remove_nat].
  destruct (Nat.eqb_spec x d) as [->|Hne]; [apply Permutation_refl|].
  destruct H as [H|H]; [congruence|]. eapply perm_trans; [apply perm_skip; apply IH; exact H|apply perm_swap].
Qed.

Lemma remove_nat_NoDup d ds : NoDup ds -> NoDup (remove_nat d ds).
Proof.
  induction 1 as [|x t Hx Ht IH]; cbn [remove_nat]; [constructor|].
  destruct (Nat.eqb x d); [exact Ht|]. constructor; [|exact IH].
  intros H. apply Hx. clear -H. induction t as [|y t IH]; [destruct H|]. cbn [remove_nat] in H.
  destruct (Nat.eqb y d); [right; exact H|]. destruct H as [H|H]; [left; exact H|right; apply IH; exact H].
Qed.

Lemma finish_spec f d : forall p ds, wf p -> In (f, ds) p -> In d ds ->
  let (p', fin) := finish_digest f d p in
  wf p' /\ Permutation (events_of p) ((f, d) :: events_of p') /\
  Permutation (map fst p) ((if fin then [f] else []) ++ map fst p').
Proof.
  induction p as [|[g gs] t IH]; intros ds [Hnd Hfa] Hin Hd; [destruct Hin|].
  inversion Hnd as [|? ? Hg Hnt]; subst. inversion Hfa as [|? ? [Hgn Hge] Hft]; subst. cbn [fst snd] in *.
  cbn [finish_digest]. destruct (Nat.eqb_spec g f) as [->|Hne].
  - assert (gs = ds).
    { destruct Hin as [E|Hin]; [congruence|]. exfalso. apply Hg. apply in_map_iff. exists (f, ds). split; [reflexivity|exact Hin]. }
    subst gs. pose proof (remove_nat_perm d ds Hd) as Hp.
    destruct (remove_nat d ds) as [|y r] eqn:Er.
    + split; [split; assumption|]. split.
      * unfold events_of. cbn [flat_map fst snd].
        eapply perm_trans; [apply Permutation_app_tail; apply (Permutation_map (fun d0 => (f, d0))); exact Hp|].
        cbn [map app]. apply Permutation_refl.
      * cbn [map fst app]. apply Permutation_refl.
    + split.
      * split; [cbn [map fst]; constructor; assumption|]. constructor; [|exact Hft]. cbn [snd]. split; [|discriminate].
        rewrite <- Er. apply remove_nat_NoDup. exact Hgn.
      * split; [|cbn [map fst app]; apply Permutation_refl].
        unfold events_of. cbn [flat_map fst snd].
        eapply perm_trans; [apply Permutation_app_tail; apply (Permutation_map (fun d0 => (f, d0))); exact Hp|].
        cbn [map app]. apply Permutation_refl.
  - assert (Hin' : In (f, ds) t) by (destruct Hin as [E|H]; [congruence|exact H]).
    specialize (IH ds (conj Hnt Hft) Hin' Hd). destruct (finish_digest f d t) as [t' b].
    destruct IH as [[Hnd' Hfa'] [Hev Hfs]]. split; [|split].
    + split.
      * cbn [map fst]. constructor; [|exact Hnd']. intros H. apply Hg.
        eapply Permutation_in; [apply Permutation_sym; exact Hfs|]. apply in_or_app. right. exact H.
      * constructor; [cbn [snd]; split; assumption|exact Hfa'].
    + unfold events_of in *. cbn [flat_map fst snd].
      eapply perm_trans; [apply Permutation_app_head; exact Hev|]. apply Permutation_sym, Permutation_middle.
    + cbn [map fst]. eapply perm_trans; [apply perm_skip; exact Hfs|]. apply Permutation_middle.
Qed.

Lemma events_in p f d : In (f, d) (events_of p) -> exists ds, In (f, ds) p /\ In d ds.
Proof.
  unfold events_of. intros H. apply in_flat_map in H as [[g gs] [Hg Hm]]. cbn [fst snd] in Hm.
  apply in_map_iff in Hm as [d' [E Hd]]. inversion E; subst. exists gs. split; assumption.
Qed.

(* FINALISE ONCE: whatever the order in which loaders finish their chunks, every file is finalised
   exactly once, nothing stays pending, and no step refers to a file that is already gone *)
Theorem finalise_once : forall evs p, wf p -> Permutation evs (events_of p) ->
  Permutation (fst (run_events evs p)) (map fst p) /\ snd (run_events evs p) = [].
Proof.
  induction evs as [|[f d] rest IH]; intros p Hwf Hperm.
  - cbn [run_events fst snd]. apply Permutation_sym in Hperm.
    destruct p as [|[g gs] t]; [split; [constructor|reflexivity]|]. exfalso.
    destruct Hwf as [_ Hfa]. inversion Hfa as [|? ? [_ Hne] _]; subst. cbn [snd] in Hne.
    destruct gs as [|x gs]; [congruence|]. unfold events_of in Hperm. cbn in Hperm.
    apply Permutation_sym, Permutation_nil in Hperm. discriminate.
  - assert (Hin : In (f, d) (events_of p)) by (eapply Permutation_in; [exact Hperm|left; reflexivity]).
    destruct (events_in p f d Hin) as [ds [Hfd Hd]].
    pose proof (finish_spec f d p ds Hwf Hfd Hd) as Hs. cbn [run_events].
    destruct (finish_digest f d p) as [p' fin]. destruct Hs as [Hwf' [Hev Hfs]].
    assert (Hrest : Permutation rest (events_of p')).
    { eapply Permutation_cons_inv. eapply perm_trans; [exact Hperm|exact Hev]. }
    destruct (IH p' Hwf' Hrest) as [H1 H2]. destruct (run_events rest p') as [fs p''].
    cbn [fst snd] in *. split; [|exact H2].
    eapply perm_trans; [apply Permutation_app_head; exact H1|]. apply Permutation_sym. exact Hfs.
Qed.

(* a file is finalised by the event that removes its LAST pending digest, never earlier *)
Theorem finalise_after_all_writes f d p ds : wf p -> In (f, ds) p -> In d ds ->
  snd (finish_digest f d p) = true -> ds = [d].
Proof.
  revert ds. induction p as [|[g gs] t IH]; intros ds [Hnd Hfa] Hin Hd Hfin; [destruct Hin|].
  inversion Hnd as [|? ? Hg Hnt]; subst. inversion Hfa as [|? ? [Hgn Hge] Hft]; subst. cbn [fst snd] in *.
  cbn [finish_digest] in Hfin. destruct (Nat.eqb_spec g f) as [->|Hne].
  - assert (gs = ds).
    { destruct Hin as [E|Hin]; [congruence|]. exfalso. apply Hg. apply in_map_iff. exists (f, ds). split; [reflexivity|exact Hin]. }
    subst gs. pose proof (remove_nat_perm d ds Hd) as Hp.
    destruct (remove_nat d ds) as [|y r] eqn:Er; [|discriminate].
    apply Permutation_length_1_inv. apply Permutation_sym. exact Hp.
  - assert (Hin' : In (f, ds) t) by (destruct Hin as [E|H]; [congruence|exact H]).
    destruct (finish_digest f d t) as [t' b] eqn:Ef. cbn [snd] in Hfin. subst b.
    apply (IH ds (conj Hnt Hft) Hin' Hd). try rewrite Ef. reflexivity.
Qed.

(* ------------------------------------------------------------------ 1b. accepted slot traces *)
Lemma remove_tok_length t : forall l, existsb (Nat.eqb t) l = true -> S (length (remove_tok t l)) = length l.
Proof.
  induction l as [|x r IH]; cbn [existsb remove_tok length]; [discriminate|].
  destruct (Nat.eqb_spec x t) as [->|Hne].
  - rewrite Nat.eqb_refl. reflexivity.
  - destruct (Nat.eqb_spec t x) as [E|_]; [congruence|]. cbn [orb]. intros H. cbn [length]. rewrite IH by exact H. reflexivity.
Qed.

(* every trace the executable checker accepts keeps tokens + held constant and never holds more than there are tokens *)
Theorem slot_trace_sound : forall evs free held mh free' held' mh' n,
  slot_trace free evs held mh = Some (free', held', mh') ->
  length free + held = n -> mh <= n -> length free' + held' = n /\ mh' <= n /\ mh <= mh'.
Proof.
  induction evs as [|e evs IH]; intros free held mh free' held' mh' n H Hn Hm; cbn [slot_trace] in H.
  - injection H as <- <- <-. repeat split; [exact Hn|exact Hm|apply le_n].
  - destruct e as [t|t].
    + destruct (existsb (Nat.eqb t) free) eqn:E; [|discriminate].
      pose proof (remove_tok_length t free E) as Hl.
      destruct (IH _ _ _ _ _ _ n H ltac:(lia) ltac:(lia)) as [A [B C]]. repeat split; [exact A|exact B|lia].
    + destruct (existsb (Nat.eqb t) free) eqn:E; [discriminate|]. destruct held as [|h]; [discriminate|].
      destruct (IH _ _ _ _ _ _ n H ltac:(cbn [length]; lia) Hm) as [A [B C]]. repeat split; assumption.
Qed.

(* ------------------------------------------------------------------ 2b. accepted pipeline traces *)
Lemma remove_first_occ c x : forall l l', remove_first c l = Some l' -> occ x l = occ x l' + (if Nat.eq_dec c x then 1 else 0).
Proof.
  induction l as [|y r IH]; intros l' H; cbn [remove_first] in H; [discriminate|].
  destruct (Nat.eqb_spec y c) as [Eyc|Hne].
  - injection H as <-. subst y. unfold occ. cbn [count_occ]. destruct (Nat.eq_dec c x); lia.
  - destruct (remove_first c r) as [r'|] eqn:E; [|discriminate]. injection H as <-.
    pose proof (IH r' eq_refl) as IH'. unfold occ in *. cbn [count_occ].
    destruct (Nat.eq_dec y x); destruct (Nat.eq_dec c x); lia.
Qed.

Lemma puts_put c evs : puts_of (EvPut c :: evs) = c :: puts_of evs.  Proof. reflexivity. Qed.
Lemma puts_get c evs : puts_of (EvGet c :: evs) = puts_of evs.  Proof. reflexivity. Qed.
Lemma puts_fin c evs : puts_of (EvFin c :: evs) = puts_of evs.  Proof. reflexivity. Qed.
Lemma occ_cons x c l : occ x (c :: l) = (if Nat.eq_dec c x then 1 else 0) + occ x l.
Proof. unfold occ. cbn [count_occ]. destruct (Nat.eq_dec c x); reflexivity. Qed.
Lemma occ_nil x : occ x [] = 0.  Proof. reflexivity. Qed.

(* every accepted trace conserves chunks: what was put = what is queued + in a worker's hands + processed, chunk by chunk;
   in particular with an empty queue and idle workers at the end every chunk put was processed exactly once *)
Theorem pipe_trace_sound cap : forall evs q hand done q' hand' done',
  pipe_trace cap q hand done evs = Some (q', hand', done') ->
  forall x, occ x (q ++ hand ++ done) + occ x (puts_of evs) = occ x (q' ++ hand' ++ done').
Proof.
  induction evs as [|e evs IH]; intros q hand done q' hand' done' H x; cbn [pipe_trace] in H.
  - injection H as <- <- <-. cbn [puts_of flat_map]. rewrite occ_nil. lia.
  - destruct e as [c|c|c].
    + destruct (length q <? cap); [|discriminate]. rewrite <- (IH _ _ _ _ _ _ H x).
      rewrite puts_put, occ_cons, !occ_app, occ_cons, occ_nil. lia.
    + destruct q as [|y q0]; [discriminate|]. destruct (Nat.eqb_spec y c) as [Eyc|]; [|discriminate]. subst y.
      rewrite <- (IH _ _ _ _ _ _ H x). rewrite puts_get. cbn [app]. rewrite !occ_app, !occ_cons, !occ_app. lia.
    + destruct (remove_first c hand) as [h2|] eqn:E; [|discriminate].
      rewrite <- (IH _ _ _ _ _ _ H x). rewrite puts_fin, !occ_app. cbn [app]. rewrite occ_cons.
      pose proof (remove_first_occ c x hand h2 E) as Ho. lia.
Qed.

Corollary pipe_trace_exactly_once cap evs done' :
  pipe_trace cap [] [] [] evs = Some ([], [], done') -> Permutation done' (puts_of evs).
Proof.
  intros H. apply (Permutation_count_occ Nat.eq_dec). intros x.
  pose proof (pipe_trace_sound cap evs [] [] [] [] [] done' H x) as E. cbn [app] in E. rewrite occ_nil in E. unfold occ in E. lia.
Qed.
