(* C18: the cache is transparent.  Generic part under "hash injective"; symbolic instance closed. *)
From Coq Require Import List NArith Bool Lia.
From Replicat Require Import Model.Crypto Model.Objects Model.Cache Proofs.CryptoProofs.
Import ListNotations.

Section Generic.
Variables (P B D Body : Type).
Variable hash : B -> D.
Variable deqb : D -> D -> bool.
Variable expected : P -> option D.
Variable decode : B -> res Body.
Hypothesis deqb_spec : forall x y, deqb x y = true <-> x = y.

Lemma deqb_refl : forall x, deqb x x = true.
Proof. intros x; apply deqb_spec; reflexivity. Qed.

Lemma download_ok : forall (be : P -> option B) p d b, download hash deqb be p d = Ok b -> be p = Some b /\ hash b = d.
Proof.
  intros be p d b H. unfold download in H. destruct (be p) as [x|]; [|discriminate H].
  destruct (deqb (hash x) d) eqn:E; [|discriminate H]. injection H as <-. split; [reflexivity | apply deqb_spec, E].
Qed.

Lemma download_intact : forall (be : P -> option B) p d b, be p = Some b -> hash b = d -> download hash deqb be p d = Ok b.
Proof. intros be p d b H1 H2. unfold download. rewrite H1, H2, deqb_refl. reflexivity. Qed.

(* whatever the cache holds, accepted bytes hash to the expected digest *)
Lemma fetch_sound : forall ca (be : P -> option B) p d x, fetch hash deqb true ca be p d = Ok x -> hash x = d.
Proof.
  intros ca be p d x H. unfold fetch in H.
  destruct ca as [c|]; [|apply download_ok in H; apply H].
  destruct (c p) as [y|]; [|apply download_ok in H; apply H].
  destruct (deqb (hash y) d) eqn:E; [injection H as <-; apply deqb_spec, E | apply download_ok in H; apply H].
Qed.

(* only verified bytes of the backend object are written into the cache *)
Lemma fetch_stores_valid : forall ca (be : P -> option B) p d b, fetch_stores hash deqb true ca be p d = Some b -> be p = Some b /\ hash b = d.
Proof.
  intros ca be p d b H. unfold fetch_stores in H. destruct ca as [c|]; [|discriminate H].
  destruct (download hash deqb be p d) as [y|e] eqn:Dl.
  - apply download_ok in Dl. destruct (c p) as [x|]; [destruct (deqb (hash x) d); [discriminate H|]|]; injection H as <-; exact Dl.
  - destruct (c p) as [x|]; [destruct (deqb (hash x) d)|]; discriminate H.
Qed.

(* after a successful fetch the entry is the object: either it already was, or it has just been stored *)
Lemma fetch_repairs : forall c (be : P -> option B) p d x, fetch hash deqb true (Some c) be p d = Ok x ->
  (c p = Some x /\ fetch_stores hash deqb true (Some c) be p d = None) \/ fetch_stores hash deqb true (Some c) be p d = Some x.
Proof.
  intros c be p d x H. unfold fetch in H. unfold fetch_stores.
  destruct (c p) as [y|].
  - destruct (deqb (hash y) d); [injection H as <-; left; split; reflexivity | right; rewrite H; reflexivity].
  - right; rewrite H; reflexivity.
Qed.

Hypothesis hash_inj : forall a b, hash a = hash b -> a = b.

(* MAIN (one object): with an intact backend object every cache state gives the cache-less result *)
Lemma fetch_transparent : forall ca (be : P -> option B) p d b, be p = Some b -> hash b = d ->
  fetch hash deqb true ca be p d = fetch hash deqb true None be p d.
Proof.
  intros ca be p d b Hb Hd. cbn [fetch]. destruct ca as [c|]; [|reflexivity]. cbn [fetch].
  destruct (c p) as [x|]; [|reflexivity].
  destruct (deqb (hash x) d) eqn:E; [|reflexivity].
  apply deqb_spec in E. rewrite (download_intact be p d b Hb Hd).
  f_equal. apply hash_inj. congruence.
Qed.

(* without assuming anything about the backend object: the cache never turns a success into
   something else, and whatever it returns is the unique bytes with the expected digest *)
Lemma fetch_monotone : forall ca (be : P -> option B) p d y, fetch hash deqb true None be p d = Ok y -> fetch hash deqb true ca be p d = Ok y.
Proof.
  intros ca be p d y H. cbn [fetch] in H. destruct (download_ok _ _ _ _ H) as [Hb Hd].
  rewrite (fetch_transparent ca be p d y Hb Hd). exact H.
Qed.

Lemma load_path_transparent : forall ca (be : P -> option B) p,
  (forall d, expected p = Some d -> exists b, be p = Some b /\ hash b = d) ->
  load_path hash deqb expected decode true ca be p = load_path hash deqb expected decode true None be p.
Proof.
  intros ca be p H. unfold load_path. destruct (expected p) as [d|]; [|reflexivity].
  destruct (H d eq_refl) as [b [Hb Hd]]. rewrite (fetch_transparent ca be p d b Hb Hd). reflexivity.
Qed.

(* MAIN (a load): for every cache state, load returns what the cache-less load returns *)
Theorem load_transparent : forall ca be listing, intact hash expected be listing ->
  load hash deqb expected decode true ca be listing = load hash deqb expected decode true None be listing.
Proof.
  intros ca be listing H. unfold load. f_equal. apply mapM_ext. intros p Hp.
  apply load_path_transparent. intros d Hd. exact (H p d Hp Hd).
Qed.

(* entries under paths the backend does not list are never looked at (any verification setting) *)
Theorem load_reads_listed_only : forall vc c1 c2 be listing, (forall p, In p listing -> c1 p = c2 p) ->
  load hash deqb expected decode vc (Some c1) be listing = load hash deqb expected decode vc (Some c2) be listing.
Proof.
  intros vc c1 c2 be listing H. unfold load. f_equal. apply mapM_ext. intros p Hp.
  unfold load_path, fetch. rewrite (H p Hp). reflexivity.
Qed.

(* histories of arbitrary commands, each seeing an arbitrary cache *)
Variables (St Out : Type).
Variable objs : St -> P -> option B.
Variable names : St -> list P.
Variable Inv : St -> Prop.
Hypothesis Inv_intact : forall s, Inv s -> intact hash expected (objs s) (names s).

Theorem run_transparent : forall (h : list (option (P -> option B) * command P Body St Out)) s,
  (forall ca c, In (ca, c) h -> forall s', Inv s' -> Inv (snd (c (load hash deqb expected decode true None (objs s') (names s')) s'))) ->
  Inv s ->
  run hash deqb expected decode objs names true h s = run hash deqb expected decode objs names true (without_cache h) s.
Proof.
  induction h as [|[ca c] r IH]; intros s Hp Hs; [reflexivity|].
  cbn [run without_cache map snd].
  rewrite (load_transparent ca (objs s) (names s) (Inv_intact s Hs)).
  destruct (c (load hash deqb expected decode true None (objs s) (names s)) s) as [o s'] eqn:Ec.
  assert (Hs' : Inv s') by (specialize (Hp ca c (or_introl eq_refl) s Hs); rewrite Ec in Hp; exact Hp).
  fold (without_cache r). rewrite (IH s'); [reflexivity | | exact Hs'].
  intros ca' c' Hin; apply (Hp ca' c'); right; exact Hin.
Qed.
End Generic.

(* ---------------------------------------------------------------- stores *)
Lemma loc_eqb_refl : forall l, loc_eqb l l = true.
Proof. destruct l; cbn [loc_eqb]; rewrite ?term_eqb_refl, ?N.eqb_refl; reflexivity. Qed.

Lemma loc_eqb_eq : forall a b, loc_eqb a b = true -> a = b.
Proof.
  destruct a, b; cbn [loc_eqb]; intros H; try discriminate H.
  - apply andb_prop in H; destruct H as [H1 H2]; apply term_eqb_eq in H1, H2; subst; reflexivity.
  - apply andb_prop in H; destruct H as [H1 H2]; apply term_eqb_eq in H1, H2; subst; reflexivity.
  - apply N.eqb_eq in H; subst; reflexivity.
Qed.

Lemma lookup_remove : forall st p q, lookup (remove st p) q = if loc_eqb q p then None else lookup st q.
Proof.
  induction st as [|[l t] r IH]; intros p q; cbn [remove lookup].
  - destruct (loc_eqb q p); reflexivity.
  - destruct (loc_eqb p l) eqn:E.
    + apply loc_eqb_eq in E; subst l. rewrite IH. destruct (loc_eqb q p); reflexivity.
    + cbn [lookup]. rewrite IH. destruct (loc_eqb q l) eqn:E2; [|reflexivity].
      apply loc_eqb_eq in E2; subst l. destruct (loc_eqb q p) eqn:E3; [|reflexivity].
      apply loc_eqb_eq in E3; subst q. rewrite loc_eqb_refl in E; discriminate E.
Qed.

Lemma lookup_in : forall st p x, In (p, x) st -> exists y, lookup st p = Some y.
Proof.
  induction st as [|[l t] r IH]; intros p x H; [contradiction|]. cbn [lookup].
  destruct (loc_eqb p l) eqn:E; [eexists; reflexivity|].
  destruct H as [H|H]; [injection H as -> ->; rewrite loc_eqb_refl in E; discriminate E | eapply IH; exact H].
Qed.

Lemma snapshot_paths_in : forall st p, In p (snapshot_paths st) -> exists n t x, p = LSnap n t /\ In (p, x) st.
Proof.
  intros st p H. unfold snapshot_paths in H. apply in_flat_map in H. destruct H as [[l x] [Hin Hp]].
  cbn [fst] in Hp. destruct l as [n t|n t|i]; cbn in Hp; try contradiction.
  destruct Hp as [<-|[]]. exists n, t, x. split; [reflexivity | exact Hin].
Qed.

(* every object stored at a snapshot location is named by its hash *)
Definition sym_intact (st : store) : Prop := forall n t obj, lookup st (LSnap n t) = Some obj -> Hash obj = n.

Lemma sym_intact_generic : forall m sel st, sym_intact st ->
  intact Hash (sym_expected m sel) (lookup st) (snapshot_paths st).
Proof.
  intros m sel st H p d Hp He. destruct (snapshot_paths_in st p Hp) as [n [t [x [-> Hin]]]].
  destruct (lookup_in st _ _ Hin) as [y Hy]. exists y; split; [exact Hy|].
  rewrite (H n t y Hy). cbn [sym_expected] in He.
  destruct (negb (sel n)); [discriminate He|].
  destruct m as [k|]; [destruct (term_eqb (Mac (k_mac k) n) t); [|discriminate He]|]; injection He as <-; reflexivity.
Qed.

Lemma hash_term_inj : forall a b : term, Hash a = Hash b -> a = b.
Proof. intros a b H; injection H as H; exact H. Qed.

Theorem sym_load_transparent : forall m sel ca st, sym_intact st -> sym_load true m sel ca st = sym_load true m sel None st.
Proof.
  intros m sel ca st H. unfold sym_load.
  apply (load_transparent loc term term body Hash term_eqb (sym_expected m sel) (decode_body m) term_eqb_spec hash_term_inj).
  apply sym_intact_generic, H.
Qed.

(* ---------------------------------------------------------------- histories of the concrete operations *)
Definition wf_op (o : op) : Prop :=
  match o with
  | OPut (LSnap n t) obj => n = Hash obj      (* snapshot names the object by its hash *)
  | _ => True
  end.

Lemma sym_intact_remove : forall st p, sym_intact st -> sym_intact (remove st p).
Proof.
  intros st p H n t obj L. rewrite lookup_remove in L. destruct (loc_eqb (LSnap n t) p); [discriminate L | exact (H n t obj L)].
Qed.

Lemma sym_intact_fold_remove : forall {A} (f : A -> loc) (l : list A) st, sym_intact st -> sym_intact (fold_left (fun s x => remove s (f x)) l st).
Proof.
  intros A f; induction l as [|x r IH]; intros st H; cbn [fold_left]; [exact H | apply IH, sym_intact_remove, H].
Qed.

Lemma sym_intact_put : forall st p obj, sym_intact st -> wf_op (OPut p obj) -> sym_intact ((p, obj) :: remove st p).
Proof.
  intros st p obj H W n t x L. cbn [lookup] in L. destruct (loc_eqb (LSnap n t) p) eqn:E.
  - apply loc_eqb_eq in E; subst p. injection L as <-. cbn [wf_op] in W. symmetry; exact W.
  - rewrite lookup_remove, E in L. exact (H n t x L).
Qed.

(* a step: same observation, same resulting store, with any cache as without *)
Lemma step_transparent : forall m ca st o, sym_intact st -> wf_op o ->
  fst (fst (step true m ca st o)) = fst (fst (step true m None st o)) /\
  snd (step true m ca st o) = snd (step true m None st o) /\
  sym_intact (snd (step true m ca st o)).
Proof.
  intros m ca st o H W. destruct o as [p obj|sel|nms|p e|p]; cbn [step].
  - cbn [fst snd]. repeat split. apply sym_intact_put; assumption.
  - rewrite (sym_load_transparent m _ ca st H).
    destruct (sym_load true m _ None st); cbn [fst snd option_map]; repeat split; exact H.
  - rewrite (sym_load_transparent m _ ca st H).
    destruct (sym_load true m (fun _ => true) None st) as [l|e]; cbn [fst snd option_map]; [|repeat split; exact H].
    destruct (forallb _ nms && forallb _ _); cbn [fst snd option_map]; repeat split; try exact H.
    apply sym_intact_fold_remove, H.
  - cbn [fst snd option_map]. repeat split. exact H.
  - cbn [fst snd]. repeat split. apply sym_intact_remove, H.
Qed.

Definition strip (h : list (option nat * mode * op)) : list (option nat * mode * op) :=
  map (fun x => (None, snd (fst x), snd x)) h.

(* MAIN (histories): any number of clients with any keys, any initial cache contents, caches shared
   between clients, entries rewritten at any time: observations and the final store are those of the
   cache-less run *)
Theorem run_ops_transparent : forall h caches st, sym_intact st -> Forall (fun x => wf_op (snd x)) h ->
  observations (run_ops true caches st h) = observations (run_ops true [] st (strip h)) /\
  snd (run_ops true caches st h) = snd (run_ops true [] st (strip h)).
Proof.
  induction h as [|[[cl m] o] r IH]; intros caches st H W; [split; reflexivity|].
  inversion W as [|x l Wo Wr]; subst. cbn [snd] in Wo.
  cbn [run_ops strip map snd fst].
  set (ca := match cl with Some i => nth_error caches i | None => None end).
  destruct (step_transparent m ca st o H Wo) as [E1 [E2 E3]].
  destruct (step true m ca st o) as [[ob ca'] st'] eqn:S1.
  destruct (step true m None st o) as [[ob0 ca0] st0] eqn:S0.
  cbn [fst snd] in E1, E2, E3. subst ob0 st0.
  fold (strip r).
  set (caches' := match cl, ca' with Some i, Some c => set_nth i c caches | _, _ => caches end).
  destruct (IH caches' st' E3 Wr) as [I1 I2].
  assert (Hc : match ca0 with Some c => set_nth 0 c [] | None => [] end = @nil store) by (destruct ca0; reflexivity).
  destruct (run_ops true caches' st' r) as [[obs cs] s] eqn:R1.
  destruct (run_ops true [] st' (strip r)) as [[obs0 cs0] s0] eqn:R0.
  unfold observations in *. cbn [fst snd map] in *. subst. split; [f_equal; exact I1 | reflexivity].
Qed.
