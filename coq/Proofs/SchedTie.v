(* B1 tie for C09: structural facts found in the working tree (Gen/SchedFacts.v). *)
From Coq Require Import Bool.
From Replicat Require Import Gen.SchedFacts.
Lemma sched_facts_hold : all_sched_facts = true.
Proof. reflexivity. Qed.
Lemma fact_slot_discipline :
  fact_every_transfer_inside_a_slot && fact_slots_not_nested && fact_slot_released_in_finally && fact_concurrent_tokens
  && fact_threads_never_wait_for_a_closed_loop = true.
Proof. reflexivity. Qed.
Lemma fact_pipeline_shape : fact_worker_exit_test && fact_abort_stops_producer = true.
Proof. reflexivity. Qed.
Lemma fact_restore_shape : fact_finalisation_decided_under_lock && fact_writes_serialised_per_file = true.
Proof. reflexivity. Qed.
