(* Order of timestamp strings = order of instants (Model/Timestamp.v), and the order properties of
   Python's str comparison that the selection proofs need. *)
From Coq Require Import List Arith NArith Ascii String Lia Bool.
From Replicat Require Import Model.Timestamp.
Import ListNotations.
Local Open Scope N_scope.

(* ------------------------------------------------------------------ lexicographic comparison *)
Lemma lex_cmp_refl a : lex_cmp a a = Eq.
Proof. induction a as [|x a IH]; cbn [lex_cmp]; [reflexivity|]. rewrite N.compare_refl. exact IH. Qed.

Lemma lex_cmp_eq : forall a b, lex_cmp a b = Eq -> a = b.
Proof.
  induction a as [|x a IH]; intros [|y b] H; cbn [lex_cmp] in H; try discriminate; [reflexivity|].
  destruct (N.compare_spec x y) as [E|E|E]; try discriminate. subst. f_equal. apply IH. exact H.
Qed.

Lemma lex_cmp_antisym : forall a b, lex_cmp b a = CompOpp (lex_cmp a b).
Proof.
  induction a as [|x a IH]; intros [|y b]; cbn [lex_cmp CompOpp]; try reflexivity.
  rewrite (N.compare_antisym x y).
  destruct (x ?= y); cbn [CompOpp]; [apply IH|reflexivity|reflexivity].
Qed.

Lemma lex_cmp_le_trans : forall a b c, lex_cmp a b <> Gt -> lex_cmp b c <> Gt -> lex_cmp a c <> Gt.
Proof.
  induction a as [|x a IH]; intros [|y b] [|z c] H1 H2; cbn [lex_cmp] in *; try congruence.
  destruct (N.compare_spec x y) as [E1|E1|E1], (N.compare_spec y z) as [E2|E2|E2],
           (N.compare_spec x z) as [E3|E3|E3]; subst; try congruence; try lia.
  exact (IH _ _ H1 H2).
Qed.

Lemma lex_cmp_app : forall x1 x2 r1 r2, List.length x1 = List.length x2 ->
  lex_cmp (x1 ++ r1) (x2 ++ r2) = thenc (lex_cmp x1 x2) (lex_cmp r1 r2).
Proof.
  induction x1 as [|a x1 IH]; intros [|b x2] r1 r2 Hl; cbn [List.length] in Hl; try discriminate.
  - reflexivity.
  - cbn [app lex_cmp]. destruct (a ?= b); cbn [thenc]; [|reflexivity|reflexivity].
    apply IH. injection Hl as Hl. exact Hl.
Qed.

Lemma lex_cmp_cons_same c r1 r2 : lex_cmp (c :: r1) (c :: r2) = lex_cmp r1 r2.
Proof. cbn [lex_cmp]. rewrite N.compare_refl. reflexivity. Qed.

(* ------------------------------------------------------------------ strings *)
Lemma of_codes_codes s : of_codes (codes s) = s.
Proof. induction s as [|c s IH]; cbn [codes of_codes]; [reflexivity|]. rewrite ascii_N_embedding, IH. reflexivity. Qed.

Lemma codes_inj s t : codes s = codes t -> s = t.
Proof. intros H. rewrite <- (of_codes_codes s), <- (of_codes_codes t), H. reflexivity. Qed.

Lemma codes_of_codes l : Forall (fun c => c < 256) l -> codes (of_codes l) = l.
Proof.
  induction 1 as [|c l Hc _ IH]; cbn [codes of_codes]; [reflexivity|].
  rewrite N_ascii_embedding by exact Hc. rewrite IH. reflexivity.
Qed.

Lemma str_cmp_eq s t : str_cmp s t = Eq <-> s = t.
Proof.
  unfold str_cmp. split; [intros H; apply codes_inj, lex_cmp_eq, H | intros ->; apply lex_cmp_refl].
Qed.

Lemma str_leb_refl s : str_leb s s = true.
Proof. unfold str_leb, str_cmp. rewrite lex_cmp_refl. reflexivity. Qed.

Lemma str_leb_total s t : str_leb s t = false -> str_leb t s = true.
Proof.
  unfold str_leb, str_cmp. rewrite (lex_cmp_antisym (codes s) (codes t)).
  destruct (lex_cmp (codes s) (codes t)); cbn [CompOpp]; congruence.
Qed.

Lemma str_leb_trans s t u : str_leb s t = true -> str_leb t u = true -> str_leb s u = true.
Proof.
  unfold str_leb, str_cmp. intros H1 H2.
  assert (G : lex_cmp (codes s) (codes u) <> Gt).
  { apply (lex_cmp_le_trans _ (codes t)).
    - destruct (lex_cmp (codes s) (codes t)); congruence.
    - destruct (lex_cmp (codes t) (codes u)); congruence. }
  destruct (lex_cmp (codes s) (codes u)); congruence.
Qed.

Lemma str_leb_antisym s t : str_leb s t = true -> str_leb t s = true -> s = t.
Proof.
  unfold str_leb. intros H1 H2. apply str_cmp_eq. unfold str_cmp in *.
  rewrite (lex_cmp_antisym (codes s) (codes t)) in H2.
  destruct (lex_cmp (codes s) (codes t)); cbn [CompOpp] in H2; congruence.
Qed.

(* the empty string (the key of a snapshot without readable details) is below everything *)
Lemma str_leb_empty s : str_leb "" s = true.
Proof. unfold str_leb, str_cmp. destruct s; reflexivity. Qed.

(* ------------------------------------------------------------------ fixed-width decimal fields *)
Lemma cmp_mixed P qa ra qb rb : ra < P -> rb < P ->
  (P * qa + ra ?= P * qb + rb) = thenc (qa ?= qb) (ra ?= rb).
Proof.
  intros Ha Hb.
  destruct (N.compare_spec qa qb) as [E|E|E]; cbn [thenc].
  - subst. destruct (N.compare_spec ra rb) as [F|F|F].
    + subst. apply N.compare_refl.
    + apply N.compare_lt_iff. lia.
    + apply N.compare_gt_iff. lia.
  - apply N.compare_lt_iff. nia.
  - apply N.compare_gt_iff. nia.
Qed.

Lemma add_cmp p n m : (p + n ?= p + m) = (n ?= m).
Proof.
  destruct (N.compare_spec n m) as [E|E|E].
  - subst. apply N.compare_refl.
  - apply N.compare_lt_iff. lia.
  - apply N.compare_gt_iff. lia.
Qed.

Lemma digits_length : forall w n, List.length (digits w n) = w.
Proof. induction w as [|w IH]; intros n; cbn [digits List.length]; [reflexivity|]. rewrite IH. reflexivity. Qed.

Lemma pow10_pos k : 0 < 10 ^ k.
Proof. apply N.neq_0_lt_0, N.pow_nonzero. discriminate. Qed.

Lemma digits_cmp : forall w a b, a < 10 ^ N.of_nat w -> b < 10 ^ N.of_nat w ->
  lex_cmp (digits w a) (digits w b) = (a ?= b).
Proof.
  induction w as [|w IH]; intros a b Ha Hb.
  - cbn [N.of_nat] in Ha, Hb. rewrite N.pow_0_r in Ha, Hb. cbn [digits lex_cmp].
    assert (a = 0) by lia. assert (b = 0) by lia. subst. reflexivity.
  - cbn [digits lex_cmp]. set (P := 10 ^ N.of_nat w) in *.
    assert (HP : 0 < P) by apply pow10_pos.
    rewrite add_cmp.
    pose proof (N.mod_lt a P ltac:(lia)) as Hra. pose proof (N.mod_lt b P ltac:(lia)) as Hrb.
    rewrite (N.div_mod a P) at 3 by lia. rewrite (N.div_mod b P) at 3 by lia.
    rewrite cmp_mixed by assumption.
    destruct (a / P ?= b / P); cbn [thenc]; [|reflexivity|reflexivity].
    apply IH; assumption.
Qed.

Lemma digits_small : forall w n, n < 10 ^ N.of_nat w -> Forall (fun c => c < 256) (digits w n).
Proof.
  induction w as [|w IH]; intros n Hn; cbn [digits]; constructor.
  - set (P := 10 ^ N.of_nat w) in *. assert (HP : 0 < P) by apply pow10_pos.
    assert (n / P < 10).
    { apply N.div_lt_upper_bound; [lia|]. rewrite Nat2N.inj_succ, N.pow_succ_r' in Hn. lia. }
    lia.
  - apply IH. apply N.mod_lt. pose proof (pow10_pos (N.of_nat w)). lia.
Qed.

Lemma fraction_cmp u v : u < 1000000 -> v < 1000000 -> lex_cmp (fraction u) (fraction v) = (u ?= v).
Proof.
  intros Hu Hv. unfold fraction.
  destruct (N.eqb_spec u 0) as [Eu|Eu], (N.eqb_spec v 0) as [Ev|Ev]; subst.
  - reflexivity.
  - (* "...:SS" against "...:SS.ffffff": the proper prefix sorts first, and it is the earlier instant *)
    cbn [lex_cmp]. symmetry. apply N.compare_lt_iff. lia.
  - cbn [lex_cmp]. symmetry. apply N.compare_gt_iff. lia.
  - rewrite lex_cmp_cons_same. apply (digits_cmp 6); assumption.
Qed.

(* ------------------------------------------------------------------ the rendering *)
Theorem render_codes_cmp a b : wf_dt a -> wf_dt b -> lex_cmp (render_codes a) (render_codes b) = dt_cmp a b.
Proof.
  intros (Ya & Ma & Da & ha & ma & sa & ua) (Yb & Mb & Db & hb & mb & sb & ub).
  unfold render_codes, dt_cmp.
  rewrite lex_cmp_app by (rewrite !digits_length; reflexivity). rewrite (digits_cmp 4) by assumption.
  f_equal. rewrite lex_cmp_cons_same.
  rewrite lex_cmp_app by (rewrite !digits_length; reflexivity). rewrite (digits_cmp 2) by assumption.
  f_equal. rewrite lex_cmp_cons_same.
  rewrite lex_cmp_app by (rewrite !digits_length; reflexivity). rewrite (digits_cmp 2) by assumption.
  f_equal. rewrite lex_cmp_cons_same.
  rewrite lex_cmp_app by (rewrite !digits_length; reflexivity). rewrite (digits_cmp 2) by assumption.
  f_equal. rewrite lex_cmp_cons_same.
  rewrite lex_cmp_app by (rewrite !digits_length; reflexivity). rewrite (digits_cmp 2) by assumption.
  f_equal. rewrite lex_cmp_cons_same.
  rewrite lex_cmp_app by (rewrite !digits_length; reflexivity). rewrite (digits_cmp 2) by assumption.
  f_equal. apply fraction_cmp; assumption.
Qed.

Lemma fraction_small u : u < 1000000 -> Forall (fun c => c < 256) (fraction u).
Proof.
  intros H. unfold fraction. destruct (u =? 0); [constructor|].
  constructor; [reflexivity | apply (digits_small 6); exact H].
Qed.

Lemma render_codes_small a : wf_dt a -> Forall (fun c => c < 256) (render_codes a).
Proof.
  intros (Ya & Ma & Da & ha & ma & sa & ua). unfold render_codes.
  repeat (first [ apply Forall_app; split | apply Forall_cons; [reflexivity|] ]);
    first [ apply (digits_small 4); assumption | apply (digits_small 2); assumption | apply fraction_small; assumption ].
Qed.

(* TS_STRING_ORDER: Python's comparison of the two strings = chronological comparison *)
Theorem ts_string_order a b : wf_dt a -> wf_dt b -> str_cmp (render a) (render b) = dt_cmp a b.
Proof.
  intros Ha Hb. unfold str_cmp, render.
  rewrite !codes_of_codes by (apply render_codes_small; assumption).
  apply render_codes_cmp; assumption.
Qed.

Lemma thenc_eq c d : thenc c d = Eq -> c = Eq /\ d = Eq.
Proof. destruct c; cbn [thenc]; intros H; try discriminate. split; [reflexivity|exact H]. Qed.

Lemma dt_cmp_eq a b : dt_cmp a b = Eq -> a = b.
Proof.
  unfold dt_cmp. intros H.
  repeat (apply thenc_eq in H; destruct H as [?H H]).
  repeat match goal with E : (_ ?= _) = Eq |- _ => apply N.compare_eq in E end.
  destruct a, b. cbn in *. subst. reflexivity.
Qed.

(* distinct instants have distinct strings (the property's "distinct timestamps") *)
Corollary render_inj a b : wf_dt a -> wf_dt b -> render a = render b -> a = b.
Proof.
  intros Ha Hb E. apply dt_cmp_eq. rewrite <- ts_string_order by assumption. apply str_cmp_eq. exact E.
Qed.

Corollary ts_leb_chronological a b : wf_dt a -> wf_dt b ->
  str_leb (render a) (render b) = match dt_cmp a b with Gt => false | _ => true end.
Proof. intros Ha Hb. unfold str_leb. rewrite ts_string_order by assumption. reflexivity. Qed.

(* the subtle case spelled out: same second, no fractional part against a fractional part *)
Definition whole_second (t : dt) : dt := mkdt (dY t) (dM t) (dD t) (dh t) (dm t) (ds t) 0.

Lemma render_codes_prefix t : render_codes t = render_codes (whole_second t) ++ fraction (dus t).
Proof.
  unfold render_codes, whole_second. cbn [dY dM dD dh dm ds dus].
  change (fraction 0) with (@nil N).
  repeat (rewrite <- ?app_assoc; cbn [app]; try reflexivity; f_equal).
Qed.

Theorem ts_prefix_case t : wf_dt t -> dus t <> 0 ->
  str_cmp (render (whole_second t)) (render t) = Lt /\ dt_cmp (whole_second t) t = Lt.
Proof.
  intros Ht Hu.
  assert (Hw : wf_dt (whole_second t)).
  { destruct Ht as (? & ? & ? & ? & ? & ? & ?). unfold wf_dt, whole_second. cbn. repeat split; try assumption. }
  assert (D : dt_cmp (whole_second t) t = Lt).
  { unfold dt_cmp, whole_second. cbn [dY dM dD dh dm ds dus]. rewrite !N.compare_refl. cbn [thenc].
    apply N.compare_lt_iff. lia. }
  split; [|exact D]. rewrite ts_string_order by assumption. exact D.
Qed.

(* the TIMESTAMP / SNAPSHOT DATE column: the first 19 characters are the instant's whole second *)
Lemma substring_of_codes : forall n l, substring 0 n (of_codes l) = of_codes (firstn n l).
Proof.
  induction n as [|n IH]; intros [|c l]; cbn [substring of_codes firstn]; try reflexivity.
  rewrite IH. reflexivity.
Qed.

Theorem seconds_part_render t : seconds_part (render t) = render (whole_second t).
Proof.
  unfold seconds_part, render. rewrite substring_of_codes. apply f_equal.
  rewrite render_codes_prefix.
  assert (L : List.length (render_codes (whole_second t)) = 19%nat).
  { unfold render_codes. change (fraction (dus (whole_second t))) with (@nil N).
    repeat (rewrite ?app_length, ?digits_length; cbn [List.length]). reflexivity. }
  rewrite firstn_app, L, Nat.sub_diag, firstn_O, app_nil_r.
  rewrite <- L. apply firstn_all.
Qed.
