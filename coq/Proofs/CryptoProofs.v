(* Basic facts about symbolic terms: decidable equality, decryption, list encoding, mapM. *)
From Coq Require Import List NArith Bool Lia.
From Replicat Require Import Model.Crypto.
Import ListNotations.

Lemma term_eqb_refl : forall t, term_eqb t t = true.
Proof.
  induction t; cbn [term_eqb]; rewrite ?N.eqb_refl, ?IHt, ?IHt1, ?IHt2, ?IHt3; reflexivity.
Qed.

Lemma term_eqb_eq : forall x y, term_eqb x y = true -> x = y.
Proof.
  induction x; destruct y; cbn [term_eqb]; intros H; try discriminate H;
    repeat (apply andb_prop in H; let H2 := fresh "H" in destruct H as [H H2]);
    repeat match goal with
           | [ E : N.eqb _ _ = true |- _ ] => apply N.eqb_eq in E; subst
           | [ IH : forall y, term_eqb ?a y = true -> ?a = y, E : term_eqb ?a _ = true |- _ ] => apply IH in E; subst
           end; reflexivity.
Qed.

Lemma term_eqb_spec : forall x y, term_eqb x y = true <-> x = y.
Proof. split; [apply term_eqb_eq | intros ->; apply term_eqb_refl]. Qed.

Lemma term_eqb_neq : forall x y, term_eqb x y = false <-> x <> y.
Proof.
  intros x y; split.
  - intros H E; subst; rewrite term_eqb_refl in H; discriminate.
  - intros H; destruct (term_eqb x y) eqn:E; [apply term_eqb_eq in E; contradiction | reflexivity].
Qed.

Lemma term_eq_dec : forall x y : term, {x = y} + {x <> y}.
Proof.
  intros x y; destruct (term_eqb x y) eqn:E; [left; apply term_eqb_eq, E | right; apply term_eqb_neq, E].
Qed.

(* decryption succeeds exactly with the key the ciphertext was made with *)
Lemma dec_some : forall k c t, dec k c = Some t <-> exists n, c = Enc k n t.
Proof.
  intros k c t; split.
  - destruct c; cbn [dec]; try discriminate. destruct (term_eqb k c1) eqn:E; [|discriminate].
    intros H; injection H as <-. apply term_eqb_eq in E; subst. eexists; reflexivity.
  - intros [n ->]; cbn [dec]; rewrite term_eqb_refl; reflexivity.
Qed.

Lemma dec_enc : forall k n t, dec k (Enc k n t) = Some t.
Proof. intros; apply dec_some; eexists; reflexivity. Qed.

Lemma dec_wrong_key : forall k k' n t, k <> k' -> dec k (Enc k' n t) = None.
Proof. intros k k' n t H; cbn [dec]; apply term_eqb_neq in H; rewrite H; reflexivity. Qed.

Lemma untlist_tlist : forall l, untlist (tlist l) = Some l.
Proof. induction l as [|x r IH]; cbn [tlist untlist]; [reflexivity | rewrite IH; reflexivity]. Qed.

Lemma untlist_some : forall t l, untlist t = Some l -> t = tlist l.
Proof.
  induction t; intros l H; cbn [untlist] in H; try discriminate H.
  - injection H as <-; reflexivity.
  - destruct (untlist t2) as [l2|] eqn:E; [|discriminate H]. injection H as <-.
    cbn [tlist]; rewrite (IHt2 l2 eq_refl); reflexivity.
Qed.

Lemma tlist_inj : forall l1 l2, tlist l1 = tlist l2 -> l1 = l2.
Proof.
  intros l1 l2 H. assert (E : untlist (tlist l1) = untlist (tlist l2)) by (rewrite H; reflexivity).
  rewrite !untlist_tlist in E; injection E as E; exact E.
Qed.

(* ---------------------------------------------------------------- mapM *)
Lemma mapM_ok : forall {A B} (f : A -> res B) l ys, mapM f l = Ok ys -> Forall2 (fun x y => f x = Ok y) l ys.
Proof.
  intros A B f; induction l as [|x r IH]; intros ys H; cbn [mapM bind] in H.
  - injection H as <-; constructor.
  - destruct (f x) as [y|e] eqn:Ex; cbn [bind] in H; [|discriminate H].
    destruct (mapM f r) as [ys'|e] eqn:Er; cbn [bind] in H; [|discriminate H].
    injection H as <-. constructor; [exact Ex | apply IH; reflexivity].
Qed.

Lemma mapM_of_Forall2 : forall {A B} (f : A -> res B) l ys, Forall2 (fun x y => f x = Ok y) l ys -> mapM f l = Ok ys.
Proof.
  intros A B f l ys H; induction H as [|x y l ys Hx _ IH]; cbn [mapM bind]; [reflexivity|].
  rewrite Hx; cbn [bind]; rewrite IH; reflexivity.
Qed.

Lemma mapM_ext : forall {A B} (f g : A -> res B) l, (forall x, In x l -> f x = g x) -> mapM f l = mapM g l.
Proof.
  intros A B f g; induction l as [|x r IH]; intros H; cbn [mapM]; [reflexivity|].
  rewrite (H x (or_introl eq_refl)), IH; [reflexivity | intros y Hy; apply H; right; exact Hy].
Qed.
