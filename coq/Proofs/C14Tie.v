(* B1 tie for C14: the definitions translated from replicat/repository.py and replicat/utils/__init__.py
   (Gen/LocationGen.v, Gen/BodyGen.v) ARE the model's, by computation.  A changed slice, separator,
   prefix, key, field name or base64 flavour in the source breaks the lemma named after it. *)
From Coq Require Import String Ascii List Bool.
From Replicat Require Import Lib.PyStr Model.Json Model.Location Model.SnapBody Proofs.LocationProofs.
From Replicat Require Gen.LocationGen Gen.BodyGen Gen.SrcFacts.
Import ListNotations.
Local Open Scope string_scope.

Lemma tie_prefixes :
  LocationGen.CHUNK_PREFIX = CHUNK_PREFIX /\ LocationGen.SNAPSHOT_PREFIX = SNAPSHOT_PREFIX /\
  SrcFacts.CHUNK_PREFIX = CHUNK_PREFIX /\ SrcFacts.SNAPSHOT_PREFIX = SNAPSHOT_PREFIX.
Proof. repeat split; reflexivity. Qed.

Lemma tie_get_chunk_location : LocationGen.gen_get_chunk_location = get_chunk_location.
Proof. reflexivity. Qed.
Lemma tie_parse_chunk_location : LocationGen.gen_parse_chunk_location = parse_chunk_location.
Proof. reflexivity. Qed.
Lemma tie_get_snapshot_location : LocationGen.gen_get_snapshot_location = get_snapshot_location.
Proof. reflexivity. Qed.
Lemma tie_parse_snapshot_location : LocationGen.gen_parse_snapshot_location = parse_snapshot_location.
Proof. reflexivity. Qed.

Lemma tie_chunk_parts : forall B mac hex enc d, @LocationGen.gen_chunk_parts B mac hex enc d = chunk_parts mac hex enc d.
Proof. reflexivity. Qed.
Lemma tie_snapshot_parts : forall B mac hex enc d, @LocationGen.gen_snapshot_parts B mac hex enc d = snapshot_parts mac hex enc d.
Proof. reflexivity. Qed.
Lemma tie_locations_from_digests : LocationGen.gen_locations_from_digests = true.
Proof. reflexivity. Qed.

Lemma tie_encrypt_snapshot_body : forall B Num R serialize encrypt hash derive userkey,
  @BodyGen.gen_encrypt_snapshot_body B Num R serialize encrypt hash derive userkey
  = encrypt_snapshot_body serialize encrypt hash derive userkey.
Proof. reflexivity. Qed.
Lemma tie_decrypt_snapshot_body : forall B Num deserialize decrypt hash derive userkey,
  @BodyGen.gen_decrypt_snapshot_body B Num deserialize decrypt hash derive userkey
  = decrypt_snapshot_body deserialize decrypt hash derive userkey.
Proof. reflexivity. Qed.
Lemma tie_chunk_ciphertext : forall B R encrypt hash derive,
  @BodyGen.gen_chunk_ciphertext B R encrypt hash derive = chunk_ciphertext encrypt hash derive.
Proof. reflexivity. Qed.
Lemma tie_chunk_plaintext : forall B decrypt derive,
  @BodyGen.gen_chunk_plaintext B decrypt derive = chunk_plaintext decrypt derive.
Proof. reflexivity. Qed.
Lemma tie_chunk_verified : BodyGen.gen_chunk_verified_after_decryption = true.
Proof. reflexivity. Qed.

Lemma tie_type_hint : forall B Num b64, @BodyGen.gen_type_hint B Num b64 = type_hint b64.
Proof. reflexivity. Qed.
Lemma tie_type_reverse : forall B Num unb64, @BodyGen.gen_type_reverse B Num unb64 = type_reverse unb64.
Proof. reflexivity. Qed.
(* encoder and decoder are the same (standard) base64 alphabet *)
Lemma tie_base64_flavour :
  BodyGen.gen_b64_encoder = "standard_b64encode" /\ BodyGen.gen_b64_decoder = "standard_b64decode".
Proof. split; reflexivity. Qed.
Lemma tie_serialize_wiring : BodyGen.gen_serialize_wiring_ok = true.
Proof. reflexivity. Qed.

Lemma tie_restore_metadata : forall T, @BodyGen.gen_restore_metadata T = restore_metadata.
Proof. reflexivity. Qed.
Lemma tie_metadata_only_finalises : BodyGen.gen_metadata_only_finalises = true.
Proof. reflexivity. Qed.
Lemma tie_key_fields : BodyGen.gen_mac_and_subkey_fields = ["mac_params"; "shared_key"; "shared_kdf_params"].
Proof. reflexivity. Qed.

(* the round trips, about the TRANSLATED definitions *)
Lemma gen_chunk_roundtrip (name tag : string) : hexs name -> hexs tag -> 4 <= String.length tag ->
  LocationGen.gen_parse_chunk_location (LocationGen.gen_get_chunk_location name tag) = Some (name, tag).
Proof. rewrite tie_get_chunk_location, tie_parse_chunk_location. apply chunk_roundtrip. Qed.
Lemma gen_snapshot_roundtrip (name tag : string) : hexs name -> hexs tag -> 2 <= String.length tag ->
  LocationGen.gen_parse_snapshot_location (LocationGen.gen_get_snapshot_location name tag) = Some (name, tag).
Proof. rewrite tie_get_snapshot_location, tie_parse_snapshot_location. apply snapshot_roundtrip. Qed.
