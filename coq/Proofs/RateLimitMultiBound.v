(* C20 - several streams on one limiter with negligible (zero) underlying latency:
   bytes in any window [t, t+T] of passing instants <= L*T + L*PL + (n+1)*dmax. *)
From Coq Require Import QArith Lqa List Bool ZArith Lia Arith PeanoNat.
From Replicat Require Import Model.RateLimit Proofs.RateLimitProofs.
Import ListNotations.
Open Scope Q_scope.

Lemma pause_spec : forall PL TH clock a s, a + s <= PL ->
  (a + s <= TH /\ pause PL TH 0 clock a s = (clock, a + s, 0)) \/
  (TH < a + s /\ pause PL TH 0 clock a s = (clock + (a + s + 0), a + s - (clock + (a + s + 0) - clock), a + s)).
Proof. intros. rewrite pause_no_cap by assumption. apply pause_nocap_spec. Qed.

Section Multi.
Variables PL TH L quarter : Q.
Hypothesis HTH : 0 <= TH.
Hypothesis Hcap : TH + quarter <= PL.
Hypothesis Hquarter : 0 <= quarter.

Definition mq (c : mcall) : Q := m_size c / L.
Definition mr (c : mcall) : Q := m_begin c + m_lat c.
(* negligible latency, size within the quarter-second bound *)
Definition mc_ok (c : mcall) : Prop := m_lat c == 0 /\ 0 <= mq c <= quarter.
Definition minv (st : mstate) : Prop := 0 <= ms_debt st <= TH.

Lemma mcall_ok_facts : forall st c, mcall_ok st c = true ->
  ready_of (ms_ready st) (m_thread c) <= m_begin c /\ 0 <= m_lat c /\ mr c <= m_lock c /\ ms_lockfree st <= m_lock c.
Proof.
  intros st c H. unfold mcall_ok in H.
  apply andb_prop in H; destruct H as [H H4]. apply andb_prop in H; destruct H as [H H3]. apply andb_prop in H; destruct H as [H1 H2].
  apply Qle_bool_true in H1, H2, H3, H4. unfold mr. tauto.
Qed.

(* one step *)
Lemma mstep_facts : forall st c, mc_ok c -> minv st -> mcall_ok st c = true ->
  let st' := fst (mstep PL TH L st c) in
  exists D s, D == ms_debt st + mq c /\ D <= PL /\ 0 <= s /\
    ms_lockfree st' == m_lock c + s /\ ms_debt st' == D - s /\ minv st' /\
    ms_ready st' = (m_thread c, ms_lockfree st') :: ms_ready st.
Proof.
  intros st c (Hlat & Hq0 & Hq1) (Hd0 & Hd1) Hok. cbv zeta. unfold mstep.
  destruct (py_max_0_spec (m_size c / L - m_lat c)) as (P1 & P2 & P3 & P4).
  fold (mq c) in *. set (p := py_max (mq c - m_lat c) 0) in *.
  assert (Hp : p == mq c). { assert (p <= mq c - m_lat c) by (apply P3; lra). lra. }
  destruct (pause_spec PL TH (m_lock c) (ms_debt st) p) as [[HD Heq]|[HD Heq]]; [lra| |]; rewrite Heq; cbn [fst ms_lockfree ms_debt ms_ready].
  - exists (ms_debt st + p), 0. unfold minv. cbn [ms_debt]. repeat split; try reflexivity; rewrite ?Qred_correct; lra.
  - exists (ms_debt st + p), (ms_debt st + p). unfold minv. cbn [ms_debt]. repeat split; try reflexivity; rewrite ?Qred_correct; lra.
Qed.

Definition q_lock_upto (U : Q) (cs : list mcall) : Q := sumQ (map mq (filter (fun c => Qle_bool (m_lock c) U) cs)).
Definition q_lock_window (t T : Q) (cs : list mcall) : Q :=
  sumQ (map mq (filter (fun c => Qle_bool t (m_lock c) && Qle_bool (m_lock c) (t + T)) cs)).
Definition r_in_window (t T : Q) (c : mcall) : bool := Qle_bool t (mr c) && Qle_bool (mr c) (t + T).
Definition q_r_window (t T : Q) (cs : list mcall) : Q := sumQ (map mq (filter (r_in_window t T) cs)).
(* calls whose bytes passed by U but which took the lock only after U *)
Definition is_late (U : Q) (c : mcall) : bool := Qle_bool (mr c) U && negb (Qle_bool (m_lock c) U).

Lemma lock_upto_bound : forall cs st U B, Forall mc_ok cs -> mvalid PL TH L st cs = true -> minv st ->
  0 <= B -> U - ms_lockfree st + PL - ms_debt st <= B -> q_lock_upto U cs <= B.
Proof.
  induction cs as [|c cs IH]; intros st U B Hcs Hv Hinv HB0 HB.
  - unfold q_lock_upto. cbn. lra.
  - inversion Hcs as [|c' cs' Hc Hcs']; subst. cbn [mvalid] in Hv. apply andb_prop in Hv. destruct Hv as [Hok Hv].
    destruct (mcall_ok_facts st c Hok) as (F1 & F2 & F3 & F4).
    destruct (mstep_facts st c Hc Hinv Hok) as (D & s & E1 & E2 & E3 & E4 & E5 & Hinv' & _).
    set (st' := fst (mstep PL TH L st c)) in *.
    destruct Hc as (_ & Hq0 & Hq1). destruct Hinv as (Hd0 & Hd1).
    unfold q_lock_upto. cbn [filter]. destruct (Qle_bool (m_lock c) U) eqn:E.
    + apply Qle_bool_true in E. cbn [map sumQ fold_right]. fold (sumQ (map mq (filter (fun c0 => Qle_bool (m_lock c0) U) cs))).
      fold (q_lock_upto U cs).
      assert (q_lock_upto U cs <= B - mq c) by (apply (IH st'); auto; lra). lra.
    + apply Qle_bool_false in E. fold (q_lock_upto U cs). apply (IH st'); auto. lra.
Qed.

Lemma mq_nonneg : forall cs, Forall mc_ok cs -> Forall (fun c => 0 <= mq c) cs.
Proof. intros cs H. eapply Forall_impl; [|exact H]. intros c (_ & H0 & _). exact H0. Qed.

Lemma lock_window_le_upto : forall cs t T, Forall (fun c => 0 <= mq c) cs -> q_lock_window t T cs <= q_lock_upto (t + T) cs.
Proof.
  induction cs as [|c cs IH]; intros t T Hnn; unfold q_lock_window, q_lock_upto; cbn [filter]; [cbn; lra|].
  inversion Hnn as [|x xs H0 Hrest]; subst. specialize (IH t T Hrest). unfold q_lock_window, q_lock_upto in IH.
  destruct (Qle_bool t (m_lock c)); destruct (Qle_bool (m_lock c) (t + T)); cbn [andb map sumQ fold_right];
    fold (sumQ (map mq (filter (fun c0 => Qle_bool t (m_lock c0) && Qle_bool (m_lock c0) (t + T)) cs)));
    fold (sumQ (map mq (filter (fun c0 => Qle_bool (m_lock c0) (t + T)) cs))); lra.
Qed.

Lemma lock_window_bound : forall cs st t T qmax, Forall mc_ok cs -> Forall (fun c => mq c <= qmax) cs ->
  mvalid PL TH L st cs = true -> minv st -> 0 <= T -> 0 <= qmax ->
  q_lock_window t T cs <= T + PL + qmax.
Proof.
  induction cs as [|c cs IH]; intros st t T qmax Hcs Hmax Hv Hinv HT Hqm.
  - unfold q_lock_window. cbn. lra.
  - inversion Hcs as [|c' cs' Hc Hcs']; subst. inversion Hmax as [|c'' cs'' Hm Hmax']; subst.
    cbn [mvalid] in Hv. apply andb_prop in Hv. destruct Hv as [Hok Hv].
    destruct (mcall_ok_facts st c Hok) as (F1 & F2 & F3 & F4).
    destruct (mstep_facts st c Hc Hinv Hok) as (D & s & E1 & E2 & E3 & E4 & E5 & Hinv' & _).
    set (st' := fst (mstep PL TH L st c)) in *.
    destruct Hc as (_ & Hq0 & Hq1). destruct Hinv as (Hd0 & Hd1).
    unfold q_lock_window. cbn [filter]. destruct (Qle_bool t (m_lock c)) eqn:Et.
    + apply Qle_bool_true in Et.
      assert (Hrest : q_lock_window t T cs <= T + PL - D).
      { eapply Qle_trans; [apply lock_window_le_upto; apply mq_nonneg; assumption|].
        apply (lock_upto_bound cs st'); auto; lra. }
      unfold q_lock_window in Hrest.
      destruct (Qle_bool (m_lock c) (t + T)); cbn [andb map sumQ fold_right];
        fold (sumQ (map mq (filter (fun c0 => Qle_bool t (m_lock c0) && Qle_bool (m_lock c0) (t + T)) cs))); lra.
    + cbn [andb]. fold (q_lock_window t T cs). apply (IH st'); auto.
Qed.

(* every later call of a thread starts after the thread is ready again *)
Lemma ready_le_begin : forall cs st c', Forall mc_ok cs -> mvalid PL TH L st cs = true -> minv st -> In c' cs ->
  ready_of (ms_ready st) (m_thread c') <= m_begin c'.
Proof.
  induction cs as [|c cs IH]; intros st c' Hcs Hv Hinv Hin; [destruct Hin|].
  inversion Hcs as [|x xs Hc Hcs']; subst. cbn [mvalid] in Hv. apply andb_prop in Hv. destruct Hv as [Hok Hv].
  destruct (mcall_ok_facts st c Hok) as (F1 & F2 & F3 & F4).
  destruct Hin as [->|Hin]; [exact F1|].
  destruct (mstep_facts st c Hc Hinv Hok) as (D & s & E1 & E2 & E3 & E4 & E5 & Hinv' & Hready).
  set (st' := fst (mstep PL TH L st c)) in *.
  pose proof (IH st' c' Hcs' Hv Hinv' Hin) as H. rewrite Hready in H. cbn [ready_of] in H.
  destruct (Nat.eqb (m_thread c) (m_thread c')) eqn:E; [|exact H].
  apply Nat.eqb_eq in E. rewrite <- E. unfold mr in F3. lra.
Qed.

Lemma late_threads_nodup : forall cs st U, Forall mc_ok cs -> mvalid PL TH L st cs = true -> minv st ->
  NoDup (map m_thread (filter (is_late U) cs)).
Proof.
  induction cs as [|c cs IH]; intros st U Hcs Hv Hinv; [constructor|].
  inversion Hcs as [|x xs Hc Hcs']; subst. pose proof Hv as Hv0. cbn [mvalid] in Hv. apply andb_prop in Hv. destruct Hv as [Hok Hv].
  destruct (mstep_facts st c Hc Hinv Hok) as (D & s & E1 & E2 & E3 & E4 & E5 & Hinv' & Hready).
  set (st' := fst (mstep PL TH L st c)) in *.
  cbn [filter]. destruct (is_late U c) eqn:El; [|apply (IH st'); assumption].
  cbn [map]. constructor; [|apply (IH st'); assumption].
  intro Hin. apply in_map_iff in Hin. destruct Hin as (c' & Hth & Hin'). apply filter_In in Hin'. destruct Hin' as [Hin' Hl'].
  pose proof (ready_le_begin cs st' c' Hcs' Hv Hinv' Hin') as Hr. rewrite Hready in Hr. cbn [ready_of] in Hr.
  rewrite <- Hth in Hr. rewrite Nat.eqb_refl in Hr.
  unfold is_late in El, Hl'. apply andb_prop in El. destruct El as [_ El]. apply negb_true_iff in El. apply Qle_bool_false in El.
  apply andb_prop in Hl'. destruct Hl' as [Hl' _]. apply Qle_bool_true in Hl'.
  assert (Hlat : 0 <= m_lat c').
  { rewrite Forall_forall in Hcs'. destruct (Hcs' c' Hin') as (Hz & _). lra. }
  unfold mr in Hl'. lra.
Qed.

Lemma sum_le_count : forall (l : list mcall) qmax, Forall (fun c => mq c <= qmax) l ->
  sumQ (map mq l) <= inject_Z (Z.of_nat (List.length l)) * qmax.
Proof.
  induction l as [|c l IH]; intros qmax H; [cbn [map sumQ fold_right List.length Z.of_nat]; change (inject_Z 0) with 0; lra|].
  inversion H as [|x xs Hc Hl]; subst. specialize (IH qmax Hl).
  cbn [map sumQ fold_right List.length]. fold (sumQ (map mq l)).
  rewrite Nat2Z.inj_succ. unfold Z.succ. rewrite inject_Z_plus. change (inject_Z 1) with 1. lra.
Qed.

Lemma late_bound : forall cs st U qmax n, Forall mc_ok cs -> Forall (fun c => mq c <= qmax) cs ->
  mvalid PL TH L st cs = true -> minv st -> 0 <= qmax -> Forall (fun c => (m_thread c < n)%nat) cs ->
  sumQ (map mq (filter (is_late U) cs)) <= inject_Z (Z.of_nat n) * qmax.
Proof.
  intros cs st U qmax n Hcs Hmax Hv Hinv Hqm Hth.
  eapply Qle_trans.
  - apply sum_le_count. rewrite Forall_forall in *. intros c Hin. apply filter_In in Hin. apply Hmax. tauto.
  - apply Qmult_le_compat_r; [|exact Hqm]. rewrite <- Zle_Qle. apply Nat2Z.inj_le.
    rewrite <- (map_length m_thread). rewrite <- (seq_length n 0).
    apply NoDup_incl_length; [apply (late_threads_nodup cs st U); assumption|].
    intros th Hin. apply in_map_iff in Hin. destruct Hin as (c & <- & Hin). apply filter_In in Hin. destruct Hin as [Hin _].
    rewrite Forall_forall in Hth. apply in_seq. specialize (Hth c Hin). lia.
Qed.

Lemma valid_r_le_lock : forall cs st, Forall mc_ok cs -> mvalid PL TH L st cs = true -> minv st ->
  Forall (fun c => mr c <= m_lock c) cs.
Proof.
  induction cs as [|c cs IH]; intros st Hcs Hv Hinv; [constructor|].
  inversion Hcs as [|x xs Hc Hcs']; subst. cbn [mvalid] in Hv. apply andb_prop in Hv. destruct Hv as [Hok Hv].
  destruct (mcall_ok_facts st c Hok) as (F1 & F2 & F3 & F4).
  destruct (mstep_facts st c Hc Hinv Hok) as (D & s & E1 & E2 & E3 & E4 & E5 & Hinv' & _).
  constructor; [exact F3|]. apply (IH (fst (mstep PL TH L st c))); assumption.
Qed.

(* a call whose bytes passed inside the window either took the lock inside the window or is late *)
Lemma r_window_split : forall cs t T, Forall (fun c => 0 <= mq c) cs -> Forall (fun c => mr c <= m_lock c) cs ->
  q_r_window t T cs <= q_lock_window t T cs + sumQ (map mq (filter (is_late (t + T)) cs)).
Proof.
  induction cs as [|c cs IH]; intros t T Hnn Hrl; unfold q_r_window, q_lock_window; cbn [filter]; [cbn; lra|].
  inversion Hnn as [|x xs H0 Hnn']; subst. inversion Hrl as [|y ys H1 Hrl']; subst.
  specialize (IH t T Hnn' Hrl'). unfold q_r_window, q_lock_window in IH.
  unfold r_in_window at 1. unfold is_late at 1.
  destruct (Qle_bool t (mr c)) eqn:A1; destruct (Qle_bool (mr c) (t + T)) eqn:A2;
    destruct (Qle_bool t (m_lock c)) eqn:A3; destruct (Qle_bool (m_lock c) (t + T)) eqn:A4;
    cbn [andb negb map sumQ fold_right];
    fold (sumQ (map mq (filter (r_in_window t T) cs)));
    fold (sumQ (map mq (filter (fun c0 => Qle_bool t (m_lock c0) && Qle_bool (m_lock c0) (t + T)) cs)));
    fold (sumQ (map mq (filter (is_late (t + T)) cs)));
    try lra.
  (* in the r-window, lock before t: impossible since r <= lock *)
  all: apply Qle_bool_true in A1; apply Qle_bool_false in A3; lra.
Qed.

Lemma multi_window_bound_q : forall cs t T qmax n, Forall mc_ok cs -> Forall (fun c => mq c <= qmax) cs ->
  mvalid PL TH L mstate0 cs = true -> 0 <= T -> 0 <= qmax -> Forall (fun c => (m_thread c < n)%nat) cs ->
  q_r_window t T cs <= T + PL + (inject_Z (Z.of_nat n) + 1) * qmax.
Proof.
  intros cs t T qmax n Hcs Hmax Hv HT Hqm Hth.
  assert (Hinv : minv mstate0) by (unfold minv; cbn; lra).
  eapply Qle_trans; [apply r_window_split; [apply mq_nonneg; assumption|apply (valid_r_le_lock cs mstate0); assumption]|].
  pose proof (lock_window_bound cs mstate0 t T qmax Hcs Hmax Hv Hinv HT Hqm).
  pose proof (late_bound cs mstate0 (t + T) qmax n Hcs Hmax Hv Hinv Hqm Hth).
  lra.
Qed.
End Multi.

(* ------------------------------------------------------------------ events of mrun and bytes *)
Lemma mrun_events : forall PL TH L cs st,
  map (fun ev => (ev_time ev, ev_bytes ev)) (mrun PL TH L st cs) = map (fun c => (m_begin c + m_lat c, m_size c)) cs.
Proof.
  induction cs as [|c cs IH]; intros st; [reflexivity|].
  cbn [mrun]. unfold mstep at 1. destruct (pause _ _ _ _ _ _) as [[c1 d1] s1]. cbn [map ev_time ev_bytes]. f_equal. apply IH.
Qed.

Lemma window_bytes_as_calls : forall PL TH L cs st t T,
  window_bytes t T (mrun PL TH L st cs)
  = sumQ (map m_size (filter (r_in_window t T) cs)).
Proof.
  intros PL TH L cs st t T. unfold window_bytes.
  assert (G : forall (evs : list event) (cs : list mcall),
             map (fun ev => (ev_time ev, ev_bytes ev)) evs = map (fun c => (m_begin c + m_lat c, m_size c)) cs ->
             map ev_bytes (filter (in_window t T) evs) = map m_size (filter (r_in_window t T) cs)).
  { induction evs as [|ev evs IH]; intros [|c cs'] H; try discriminate; [reflexivity|].
    cbn [map] in H. injection H as H1 H2 H3. cbn [filter]. unfold in_window at 1, r_in_window at 1, mr. rewrite H1.
    destruct (Qle_bool t (m_begin c + m_lat c) && Qle_bool (m_begin c + m_lat c) (t + T)); cbn [map]; rewrite ?H2; f_equal; apply IH; assumption. }
  rewrite (G _ cs (mrun_events PL TH L cs st)). reflexivity.
Qed.

Lemma sum_sizes_scale : forall L (l : list mcall), ~ L == 0 -> sumQ (map m_size l) == L * sumQ (map (mq L) l).
Proof.
  intros L l HL. induction l as [|c l IH]; cbn [map sumQ fold_right]; [ring|].
  fold (sumQ (map m_size l)). fold (sumQ (map (mq L) l)). rewrite IH. unfold mq. field. exact HL.
Qed.

Definition msize_in (dmax : Q) (c : mcall) : Prop := 0 <= m_size c <= dmax.

(* n threads (ids < n) share one limiter; every underlying call has zero latency; sizes 0 <= d <= dmax <= L*quarter,
   TH + quarter <= PL; any valid lock order: bytes whose passing instant lies in [t, t+T] <= L*T + L*PL + (n+1)*dmax *)
Theorem multi_stream_window_bound : forall PL TH L quarter dmax (n : nat) cs t T,
  0 <= TH -> TH + quarter <= PL -> 0 < L -> 0 <= dmax -> dmax <= L * quarter ->
  Forall (msize_in dmax) cs -> Forall (fun c => m_lat c == 0) cs -> Forall (fun c => (m_thread c < n)%nat) cs ->
  mvalid PL TH L mstate0 cs = true -> 0 <= T ->
  window_bytes t T (mrun PL TH L mstate0 cs) <= L * T + L * PL + (inject_Z (Z.of_nat n) + 1) * dmax.
Proof.
  intros PL TH L quarter dmax n cs t T HTH Hcap HL Hd0 Hdm Hsz Hlat Hth Hv HT.
  assert (HL' : ~ L == 0) by (intro HH; rewrite HH in HL; now apply Qlt_irrefl in HL).
  assert (Hquarter : 0 <= quarter).
  { apply Qle_trans with (dmax / L); [apply Qle_shift_div_l; [exact HL|lra]|apply Qle_shift_div_r; [exact HL|lra]]. }
  assert (Hok : Forall (mc_ok L quarter) cs /\ Forall (fun c => mq L c <= dmax / L) cs).
  { clear - HL HL' Hdm Hsz Hlat. induction cs as [|c cs IH]; [split; constructor|].
    inversion Hsz as [|x xs (Hs0 & Hs1) Hsz']; inversion Hlat as [|y ys Hl Hlat']; subst. destruct (IH Hsz' Hlat') as [I1 I2].
    assert (Hq0 : 0 <= m_size c / L) by (apply Qle_shift_div_l; [exact HL|lra]).
    assert (Hq1 : m_size c / L <= dmax / L).
    { apply Qle_shift_div_r; [exact HL|]. unfold Qdiv. rewrite <- Qmult_assoc, (Qmult_comm (/ L)), Qmult_inv_r by exact HL'. lra. }
    assert (Hq2 : dmax / L <= quarter) by (apply Qle_shift_div_r; [exact HL|lra]).
    split; constructor; auto. unfold mc_ok, mq. repeat split; try assumption; lra. }
  destruct Hok as [Hok Hmax].
  rewrite window_bytes_as_calls. rewrite sum_sizes_scale by exact HL'.
  assert (Hqm : 0 <= dmax / L) by (apply Qle_shift_div_l; [exact HL|lra]).
  pose proof (multi_window_bound_q PL TH L quarter HTH Hcap Hquarter cs t T (dmax / L) n Hok Hmax Hv HT Hqm Hth) as H.
  unfold q_r_window in H.
  assert (Hm : L * sumQ (map (mq L) (filter (r_in_window t T) cs)) <= L * (T + PL + (inject_Z (Z.of_nat n) + 1) * (dmax / L))).
  { apply Qmult_le_l; assumption. }
  eapply Qle_trans; [exact Hm|].
  assert (E : L * (T + PL + (inject_Z (Z.of_nat n) + 1) * (dmax / L)) == L * T + L * PL + (inject_Z (Z.of_nat n) + 1) * dmax) by (field; exact HL').
  rewrite E. apply Qle_refl.
Qed.
