(* The location codec round trips on hex names/tags, for every prefix of the form P ++ "/" and in
   particular for the model's CHUNK_PREFIX / SNAPSHOT_PREFIX. *)
From Coq Require Import String Ascii List Arith Bool Lia.
From Replicat Require Import Lib.PyStr Model.Location.
Import ListNotations.
Local Open Scope string_scope.

Definition hexs (s : string) : Prop := is_hex s = true.

Lemma hex_no_slash s : hexs s -> has_char "/" s = false.
Proof. apply is_hex_no_char. reflexivity. Qed.
Lemma hex_no_dash s : hexs s -> has_char "-" s = false.
Proof. apply is_hex_no_char. reflexivity. Qed.

Lemma is_hex_take n : forall s, is_hex s = true -> is_hex (take n s) = true.
Proof.
  induction n as [|n IH]; intros s H; [reflexivity|].
  destruct s as [|a s]; cbn in *; [reflexivity|].
  apply andb_true_iff in H. destruct H as [H1 H2]. rewrite H1, IH by exact H2. reflexivity.
Qed.
Lemma is_hex_drop n : forall s, is_hex s = true -> is_hex (drop n s) = true.
Proof.
  induction n as [|n IH]; intros s H; [exact H|].
  destruct s as [|a s]; cbn in *; [reflexivity|].
  apply andb_true_iff in H. apply IH. apply H.
Qed.
Lemma hex_slice s lo hi : hexs s -> hexs (py_slice s lo hi).
Proof.
  unfold hexs, py_slice. intros H. destruct hi; [apply is_hex_take|]; apply is_hex_drop; exact H.
Qed.

(* tail of a path component: '<rest of tag>-<name>' never starts with '/' *)
Lemma last_no_leading_slash (r name : string) : has_char "/" r = false ->
  startswith "/" (r ++ "-" ++ name) = false.
Proof.
  destruct r as [|a r]; [reflexivity|]. cbn [append startswith has_char]. intros H.
  apply orb_false_iff in H. destruct H as [H _]. rewrite Ascii.eqb_sym, H. reflexivity.
Qed.

Section Shapes.
Variable P : string.

Lemma join_shape3 (a b c : string) : a <> "" -> b <> "" -> has_char "/" a = false -> has_char "/" b = false ->
  startswith "/" c = false ->
  posix_join (P ++ "/") [a; b; c] = P ++ "/" ++ a ++ "/" ++ b ++ "/" ++ c.
Proof.
  intros Ha Hb Sa Sb Sc. unfold posix_join. cbn [fold_left].
  rewrite join2_after_slash by (apply startswith_no_char; exact Sa).
  replace (P ++ "/" ++ a) with ((P ++ "/") ++ a) by apply append_assoc.
  rewrite join2_after_seg by (try exact Ha; try exact Sa; apply startswith_no_char; exact Sb).
  replace ((P ++ "/") ++ a ++ "/" ++ b) with (((P ++ "/") ++ a ++ "/") ++ b) by (rewrite !append_assoc; reflexivity).
  rewrite join2_after_seg by assumption.
  rewrite !append_assoc. reflexivity.
Qed.

Lemma join_shape2 (a c : string) : a <> "" -> has_char "/" a = false -> startswith "/" c = false ->
  posix_join (P ++ "/") [a; c] = P ++ "/" ++ a ++ "/" ++ c.
Proof.
  intros Ha Sa Sc. unfold posix_join. cbn [fold_left].
  rewrite join2_after_slash by (apply startswith_no_char; exact Sa).
  replace (P ++ "/" ++ a) with ((P ++ "/") ++ a) by apply append_assoc.
  rewrite join2_after_seg by assumption.
  rewrite !append_assoc. reflexivity.
Qed.

Lemma rsplit_shape3 (a b c : string) : has_char "/" a = false -> has_char "/" b = false -> has_char "/" c = false ->
  rsplit "/" 3 (P ++ "/" ++ a ++ "/" ++ b ++ "/" ++ c) = [P; a; b; c].
Proof.
  intros Sa Sb Sc.
  replace (P ++ "/" ++ a ++ "/" ++ b ++ "/" ++ c) with ((P ++ "/" ++ a ++ "/" ++ b) ++ String "/" c)
    by (rewrite !append_assoc; reflexivity).
  rewrite rsplit_S_app by exact Sc.
  replace (P ++ "/" ++ a ++ "/" ++ b) with ((P ++ "/" ++ a) ++ String "/" b) by (rewrite !append_assoc; reflexivity).
  rewrite rsplit_S_app by exact Sb.
  change (P ++ "/" ++ a) with (P ++ String "/" a).
  rewrite rsplit_S_app by exact Sa. reflexivity.
Qed.

Lemma rsplit_shape2 (a c : string) : has_char "/" a = false -> has_char "/" c = false ->
  rsplit "/" 2 (P ++ "/" ++ a ++ "/" ++ c) = [P; a; c].
Proof.
  intros Sa Sc.
  replace (P ++ "/" ++ a ++ "/" ++ c) with ((P ++ "/" ++ a) ++ String "/" c) by (rewrite !append_assoc; reflexivity).
  rewrite rsplit_S_app by exact Sc.
  change (P ++ "/" ++ a) with (P ++ String "/" a).
  rewrite rsplit_S_app by exact Sa. reflexivity.
Qed.
End Shapes.

Lemma slice_head_nonempty (tag : string) n : 0 < n -> 1 <= String.length tag -> py_slice tag None (Some n) <> "".
Proof.
  intros Hn Hl. change (take (n - 0) tag <> ""). rewrite Nat.sub_0_r. apply take_nonempty; [exact Hn|].
  intros E. subst. cbn in Hl. lia.
Qed.
Lemma slice_mid_nonempty (tag : string) : 3 <= String.length tag -> py_slice tag (Some 2) (Some 4) <> "".
Proof.
  intros Hl. change (take 2 (drop 2 tag) <> ""). apply take_nonempty; [lia|].
  intros E. pose proof (drop_length 2 tag) as D. rewrite E in D. cbn in D. lia.
Qed.

(* ------------------------------------------------------------------ chunks *)
(* the documented shape data/<tag[:2]>/<tag[2:4]>/<tag[4:]>-<name> *)
Lemma chunk_shape (name tag : string) : hexs tag -> 4 <= String.length tag ->
  get_chunk_location name tag =
  CHUNK_PREFIX ++ py_slice tag None (Some 2) ++ "/" ++ py_slice tag (Some 2) (Some 4) ++ "/" ++
  py_slice tag (Some 4) None ++ "-" ++ name.
Proof.
  intros Ht Hl. unfold get_chunk_location. change CHUNK_PREFIX with ("data" ++ "/").
  rewrite join_shape3.
  - rewrite !append_assoc. reflexivity.
  - apply slice_head_nonempty; lia.
  - apply slice_mid_nonempty; lia.
  - apply hex_no_slash, hex_slice, Ht.
  - apply hex_no_slash, hex_slice, Ht.
  - apply last_no_leading_slash, hex_no_slash, hex_slice, Ht.
Qed.

Theorem chunk_roundtrip (name tag : string) : hexs name -> hexs tag -> 4 <= String.length tag ->
  parse_chunk_location (get_chunk_location name tag) = Some (name, tag).
Proof.
  intros Hn Ht Hl. rewrite chunk_shape by assumption.
  set (t1 := py_slice tag None (Some 2)). set (t2 := py_slice tag (Some 2) (Some 4)). set (t3 := py_slice tag (Some 4) None).
  assert (S1 : has_char "/" t1 = false) by apply hex_no_slash, hex_slice, Ht.
  assert (S2 : has_char "/" t2 = false) by apply hex_no_slash, hex_slice, Ht.
  assert (S3 : has_char "/" t3 = false) by apply hex_no_slash, hex_slice, Ht.
  unfold parse_chunk_location. rewrite startswith_app. cbn [negb].
  replace (CHUNK_PREFIX ++ t1 ++ "/" ++ t2 ++ "/" ++ t3 ++ "-" ++ name)
    with (("data" ++ "/" ++ t1 ++ "/" ++ t2 ++ "/" ++ t3) ++ String "-" name)
    by (unfold CHUNK_PREFIX; rewrite !append_assoc; reflexivity).
  rewrite rpartition_app by (apply hex_no_dash, Hn).
  unfold rp_head, rp_tail. cbn [fst snd].
  rewrite rsplit_shape3 by assumption.
  cbn [py_index nth_error oconcat opair obind].
  rewrite append_assoc. unfold t1, t2, t3. rewrite slices_2_4. reflexivity.
Qed.

Theorem chunk_prefix (name tag : string) : hexs tag -> 4 <= String.length tag ->
  startswith CHUNK_PREFIX (get_chunk_location name tag) = true.
Proof. intros Ht Hl. rewrite chunk_shape by assumption. apply startswith_app. Qed.

Theorem chunk_injective (n1 t1 n2 t2 : string) :
  hexs n1 -> hexs t1 -> 4 <= String.length t1 -> hexs n2 -> hexs t2 -> 4 <= String.length t2 ->
  get_chunk_location n1 t1 = get_chunk_location n2 t2 -> n1 = n2 /\ t1 = t2.
Proof.
  intros A1 A2 A3 B1 B2 B3 E.
  pose proof (chunk_roundtrip n1 t1 A1 A2 A3) as R1. pose proof (chunk_roundtrip n2 t2 B1 B2 B3) as R2.
  rewrite E, R2 in R1. inversion R1. split; reflexivity.
Qed.

(* the file name proper: no '/', one '-' separating hex from hex, bounded length *)
Theorem chunk_last_component (name tag : string) : hexs name -> hexs tag -> 4 <= String.length tag ->
  exists dir last, get_chunk_location name tag = dir ++ "/" ++ last /\
    last = py_slice tag (Some 4) None ++ "-" ++ name /\ has_char "/" last = false /\
    String.length last = String.length tag - 4 + 1 + String.length name.
Proof.
  intros Hn Ht Hl.
  exists (CHUNK_PREFIX ++ py_slice tag None (Some 2) ++ "/" ++ py_slice tag (Some 2) (Some 4)),
         (py_slice tag (Some 4) None ++ "-" ++ name).
  split; [rewrite chunk_shape by assumption; rewrite !append_assoc; reflexivity|].
  split; [reflexivity|]. split.
  - rewrite !has_char_app. rewrite (hex_no_slash _ (hex_slice tag (Some 4) None Ht)), (hex_no_slash _ Hn). reflexivity.
  - rewrite !length_append. change (py_slice tag (Some 4) None) with (drop 4 tag). rewrite drop_length. cbn. lia.
Qed.

(* ------------------------------------------------------------------ snapshots *)
Lemma snapshot_shape (name tag : string) : hexs tag -> 2 <= String.length tag ->
  get_snapshot_location name tag =
  SNAPSHOT_PREFIX ++ py_slice tag None (Some 2) ++ "/" ++ py_slice tag (Some 2) None ++ "-" ++ name.
Proof.
  intros Ht Hl. unfold get_snapshot_location. change SNAPSHOT_PREFIX with ("snapshots" ++ "/").
  rewrite join_shape2.
  - rewrite !append_assoc. reflexivity.
  - apply slice_head_nonempty; lia.
  - apply hex_no_slash, hex_slice, Ht.
  - apply last_no_leading_slash, hex_no_slash, hex_slice, Ht.
Qed.

Theorem snapshot_roundtrip (name tag : string) : hexs name -> hexs tag -> 2 <= String.length tag ->
  parse_snapshot_location (get_snapshot_location name tag) = Some (name, tag).
Proof.
  intros Hn Ht Hl. rewrite snapshot_shape by assumption.
  set (t1 := py_slice tag None (Some 2)). set (t2 := py_slice tag (Some 2) None).
  assert (S1 : has_char "/" t1 = false) by apply hex_no_slash, hex_slice, Ht.
  assert (S2 : has_char "/" t2 = false) by apply hex_no_slash, hex_slice, Ht.
  unfold parse_snapshot_location. rewrite startswith_app. cbn [negb].
  replace (SNAPSHOT_PREFIX ++ t1 ++ "/" ++ t2 ++ "-" ++ name)
    with (("snapshots" ++ "/" ++ t1 ++ "/" ++ t2) ++ String "-" name)
    by (unfold SNAPSHOT_PREFIX; rewrite !append_assoc; reflexivity).
  rewrite rpartition_app by (apply hex_no_dash, Hn).
  unfold rp_head, rp_tail. cbn [fst snd].
  rewrite rsplit_shape2 by assumption.
  cbn [py_index nth_error oconcat opair obind].
  unfold t1, t2. rewrite slices_2. reflexivity.
Qed.

Theorem snapshot_prefix (name tag : string) : hexs tag -> 2 <= String.length tag ->
  startswith SNAPSHOT_PREFIX (get_snapshot_location name tag) = true.
Proof. intros Ht Hl. rewrite snapshot_shape by assumption. apply startswith_app. Qed.

Theorem snapshot_injective (n1 t1 n2 t2 : string) :
  hexs n1 -> hexs t1 -> 2 <= String.length t1 -> hexs n2 -> hexs t2 -> 2 <= String.length t2 ->
  get_snapshot_location n1 t1 = get_snapshot_location n2 t2 -> n1 = n2 /\ t1 = t2.
Proof.
  intros A1 A2 A3 B1 B2 B3 E.
  pose proof (snapshot_roundtrip n1 t1 A1 A2 A3) as R1. pose proof (snapshot_roundtrip n2 t2 B1 B2 B3) as R2.
  rewrite E, R2 in R1. inversion R1. split; reflexivity.
Qed.

Theorem snapshot_last_component (name tag : string) : hexs name -> hexs tag -> 2 <= String.length tag ->
  exists dir last, get_snapshot_location name tag = dir ++ "/" ++ last /\
    last = py_slice tag (Some 2) None ++ "-" ++ name /\ has_char "/" last = false /\
    String.length last = String.length tag - 2 + 1 + String.length name.
Proof.
  intros Hn Ht Hl.
  exists (SNAPSHOT_PREFIX ++ py_slice tag None (Some 2)), (py_slice tag (Some 2) None ++ "-" ++ name).
  split; [rewrite snapshot_shape by assumption; rewrite !append_assoc; reflexivity|].
  split; [reflexivity|]. split.
  - rewrite !has_char_app. rewrite (hex_no_slash _ (hex_slice tag (Some 2) None Ht)), (hex_no_slash _ Hn). reflexivity.
  - rewrite !length_append. change (py_slice tag (Some 2) None) with (drop 2 tag). rewrite drop_length. cbn. lia.
Qed.

(* a chunk location is never taken for a snapshot location and vice versa *)
Theorem prefixes_disjoint (name tag : string) : hexs tag -> 4 <= String.length tag ->
  parse_snapshot_location (get_chunk_location name tag) = None /\
  parse_chunk_location (get_snapshot_location name tag) = None.
Proof.
  intros Ht Hl. split.
  - rewrite chunk_shape by assumption. reflexivity.
  - rewrite snapshot_shape by (try assumption; lia). reflexivity.
Qed.

(* ------------------------------------------------------------------ names from digests *)
Section PartsFacts.
Context {B : Type}.
Variables (mac : B -> B) (hex : B -> string).
Hypothesis hex_is_hex : forall b, hexs (hex b).
Hypothesis hex_inj : forall a b, hex a = hex b -> a = b.
Hypothesis mac_inj : forall a b, mac a = mac b -> a = b.

(* distinct digests get distinct chunk names, as long as tags are at least 4 hex characters *)
Theorem chunk_location_injective (enc : bool) (d1 d2 : B) :
  (forall b, 4 <= String.length (hex b)) ->
  chunk_location mac hex enc d1 = chunk_location mac hex enc d2 -> d1 = d2.
Proof.
  intros Hl E. unfold chunk_location, chunk_parts in E. cbn [fst snd] in E.
  apply chunk_injective in E; try apply hex_is_hex; try apply Hl.
  destruct E as [E _]. apply hex_inj in E. destruct enc; [apply mac_inj|]; exact E.
Qed.

Theorem chunk_location_parses (enc : bool) (d : B) : (forall b, 4 <= String.length (hex b)) ->
  parse_chunk_location (chunk_location mac hex enc d) = Some (chunk_parts mac hex enc d).
Proof. intros Hl. unfold chunk_location, chunk_parts. cbn [fst snd]. apply chunk_roundtrip; try apply hex_is_hex. apply Hl. Qed.

Theorem snapshot_location_parses (enc : bool) (d : B) : (forall b, 2 <= String.length (hex b)) ->
  parse_snapshot_location (snapshot_location mac hex enc d) = Some (snapshot_parts mac hex enc d).
Proof. intros Hl. unfold snapshot_location, snapshot_parts. cbn [fst snd]. apply snapshot_roundtrip; try apply hex_is_hex. apply Hl. Qed.
End PartsFacts.
