(* Proofs about Model/Chunker.v, generic in the hash function and in the junk memory. *)
From Coq Require Import List NArith Arith Lia Bool.
From Replicat Require Import Model.Chunker.
Import ListNotations.

Section C.
Context {B : Type}.
Variable hash : list B -> N.
Variables mn mx : nat.

Notation scan := (scan hash).
Notation ref_cut := (ref_cut hash mn mx).
Notation next_cut := (next_cut hash mn mx).
Notation drain := (drain hash mn mx).
Notation feed := (feed hash mn mx).
Notation chunkify := (chunkify hash mn mx).
Notation head := (head hash mn mx).
Notation ncand := (ncand mx).

(* ---------------------------------------------------------------- lossless *)
Lemma drain_concat fuel : forall buf final junk calls out b c,
  drain fuel buf final junk calls = (out, b, c) -> concat out ++ b = buf.
Proof.
  induction fuel as [|f IH]; intros buf final junk calls out b c H; cbn [Chunker.drain] in H.
  - inversion H; subst; reflexivity.
  - destruct (next_cut buf (junk calls) final) as [|pos'] eqn:Hp.
    + inversion H; subst; reflexivity.
    + destruct (drain f (skipn (S pos') buf) final junk (S calls)) as [[o1 b1] c1] eqn:Hd.
      inversion H; subst. cbn [concat]. rewrite <- app_assoc.
      rewrite (IH _ _ _ _ _ _ _ Hd). exact (firstn_skipn (S pos') buf).
Qed.

Lemma skipn_add {A} (a b : nat) : forall l : list A, skipn (a + b) l = skipn b (skipn a l).
Proof.
  induction a as [|a IH]; intros l; [reflexivity|].
  destruct l as [|x l]; cbn [plus skipn]; [rewrite skipn_nil; reflexivity | apply IH].
Qed.

Lemma align4_pos n : 1 <= n -> 4 <= align4 n.
Proof.
  intros H. unfold align4.
  assert (1 <= (n + 3) / 4) by (apply Nat.div_le_lower_bound; lia). lia.
Qed.

Lemma align4_ge n : n <= align4 n.
Proof.
  unfold align4. pose proof (Nat.div_mod (n + 3) 4 ltac:(lia)).
  pose proof (Nat.mod_upper_bound (n + 3) 4 ltac:(lia)). lia.
Qed.

Lemma align4_lt n : align4 n < n + 4.
Proof.
  unfold align4. pose proof (Nat.div_mod (n + 3) 4 ltac:(lia)).
  pose proof (Nat.mod_upper_bound (n + 3) 4 ltac:(lia)). lia.
Qed.

Lemma align4_mod n : align4 n mod 4 = 0.
Proof. unfold align4. rewrite Nat.mul_comm. apply Nat.mod_mul. lia. Qed.

Lemma ref_cut_pos mem : 1 <= mn -> 1 <= ref_cut mem.
Proof.
  intros Hmn. unfold Chunker.ref_cut.
  destruct (Nat.ltb_spec (scan mem 4 ncand 0 0%N) mn) as [Hlt|Hge].
  - pose proof (align4_pos mn Hmn); lia.
  - lia.
Qed.

Lemma next_cut_final_pos buf junk :
  1 <= mn -> mn <= mx -> buf <> [] -> 1 <= next_cut buf junk true.
Proof.
  intros Hmn Hmx Hne. unfold Chunker.next_cut. cbn [andb negb].
  assert (Hl : 1 <= length buf) by (destruct buf; [congruence | cbn; lia]).
  destruct (Nat.ltb_spec (length buf) (2 * mx)).
  - destruct (Nat.leb_spec (length buf) mx); [lia|].
    destruct (Nat.ltb_spec (length buf) (mx + mn)); [|lia].
    assert (2 <= length buf) by lia.
    assert (1 <= length buf / 2) by (apply Nat.div_le_lower_bound; lia). lia.
  - cbn. apply ref_cut_pos; assumption.
Qed.

Lemma drain_final_empty fuel : 1 <= mn -> mn <= mx -> forall buf junk calls out b c,
  length buf < fuel -> drain fuel buf true junk calls = (out, b, c) -> b = [].
Proof.
  intros Hmn Hmx. induction fuel as [|f IH]; intros buf junk calls out b c Hf H; [lia|].
  cbn [Chunker.drain] in H. destruct buf as [|x buf'].
  - assert (E : next_cut [] (junk calls) true = 0).
    { unfold Chunker.next_cut; cbn [length andb].
      destruct (Nat.ltb_spec 0 (2 * mx)); [reflexivity|]. assert (mx = 0) by lia. lia. }
    rewrite E in H. inversion H; reflexivity.
  - pose proof (next_cut_final_pos (x :: buf') (junk calls) Hmn Hmx ltac:(congruence)) as Hpos.
    destruct (next_cut (x :: buf') (junk calls) true) as [|pos'] eqn:Hp; [lia|].
    destruct (drain f (skipn (S pos') (x :: buf')) true junk (S calls)) as [[o1 b1] c1] eqn:Hd.
    inversion H; subst. eapply IH; [|exact Hd].
    rewrite skipn_length. cbn [length] in *. lia.
Qed.

Lemma feed_lossless : 1 <= mn -> mn <= mx -> forall pieces buf junk calls,
  pieces <> [] -> concat (feed pieces buf junk calls) = buf ++ concat pieces.
Proof.
  intros Hmn Hmx. induction pieces as [|p rest IH]; intros buf junk calls Hne; [congruence|].
  cbn [Chunker.feed]. destruct (drain _ _ _ junk calls) as [[out b] c] eqn:Hd.
  rewrite concat_app. pose proof (drain_concat _ _ _ _ _ _ _ _ Hd) as Hc.
  destruct rest as [|q rest'].
  - cbn [Chunker.feed concat]. rewrite app_nil_r.
    assert (b = []) by (eapply drain_final_empty; [exact Hmn|exact Hmx| |exact Hd]; lia).
    subst b. rewrite app_nil_r in Hc. rewrite Hc, app_nil_r. reflexivity.
  - rewrite IH by congruence. rewrite app_assoc, Hc. cbn [concat]. rewrite <- app_assoc. reflexivity.
Qed.

Theorem lossless : 1 <= mn -> mn <= mx -> forall pieces junk,
  concat (chunkify pieces junk) = concat pieces.
Proof.
  intros Hmn Hmx pieces junk. unfold Chunker.chunkify. destruct pieces as [|p r]; [reflexivity|].
  rewrite feed_lossless by (assumption || congruence). reflexivity.
Qed.

(* ---------------------------------------------------------------- windows and the scan *)
Definition M4 : nat := 4 + 4 * ncand.

Lemma window_ext (i : nat) (m : list B) : 4 <= i ->
  firstn 8 (skipn (i - 4) m) = firstn 8 (skipn (i - 4) (firstn (i + 4) m)).
Proof.
  intros Hi. rewrite skipn_firstn_comm. replace (i + 4 - (i - 4)) with 8 by lia.
  rewrite firstn_firstn. rewrite Nat.min_id. reflexivity.
Qed.

Lemma firstn_agree_le (n n' : nat) (m1 m2 : list B) : n' <= n ->
  firstn n m1 = firstn n m2 -> firstn n' m1 = firstn n' m2.
Proof.
  intros Hle H. rewrite <- (Nat.min_l n' n Hle), <- !firstn_firstn, H. reflexivity.
Qed.

Lemma scan_ext (m1 m2 : list B) : forall k i bi bv, 4 <= i ->
  firstn (i + 4 * k) m1 = firstn (i + 4 * k) m2 -> scan m1 i k bi bv = scan m2 i k bi bv.
Proof.
  induction k as [|k IH]; intros i bi bv Hi Hag; cbn [Chunker.scan]; [reflexivity|].
  assert (Hw : firstn 8 (skipn (i - 4) m1) = firstn 8 (skipn (i - 4) m2)).
  { rewrite (window_ext i m1 Hi), (window_ext i m2 Hi).
    rewrite (firstn_agree_le (i + 4 * S k) (i + 4) m1 m2 ltac:(lia) Hag). reflexivity. }
  rewrite Hw.
  assert (Hag' : firstn (i + 4 + 4 * k) m1 = firstn (i + 4 + 4 * k) m2)
    by (eapply firstn_agree_le; [|exact Hag]; lia).
  destruct (N.ltb bv _); apply IH; (lia || exact Hag').
Qed.

Lemma ref_cut_ext (m1 m2 : list B) : firstn M4 m1 = firstn M4 m2 -> ref_cut m1 = ref_cut m2.
Proof.
  intros H. unfold Chunker.ref_cut.
  rewrite (scan_ext m1 m2 ncand 4 0 0%N ltac:(lia) H). reflexivity.
Qed.

Lemma ref_cut_app (buf x y : list B) : M4 <= length buf -> ref_cut (buf ++ x) = ref_cut (buf ++ y).
Proof.
  intros H. apply ref_cut_ext. rewrite !firstn_app.
  replace (M4 - length buf) with 0 by lia. reflexivity.
Qed.

Lemma scan_bound (m : list B) : forall k i bi bv,
  let r := scan m i k bi bv in r = bi \/ (i <= r /\ r + 4 <= i + 4 * k /\ (r - i) mod 4 = 0).
Proof.
  induction k as [|k IH]; intros i bi bv; cbn [Chunker.scan]; [left; reflexivity|].
  destruct (N.ltb bv _).
  - destruct (IH (i + 4) i (hash (firstn 8 (skipn (i - 4) m)))) as [E|[H1 [H2 H3]]]; right.
    + rewrite E. split; [lia|]. split; [lia|]. rewrite Nat.sub_diag. reflexivity.
    + split; [lia|]. split; [lia|].
      replace (scan m (i + 4) k i (hash (firstn 8 (skipn (i - 4) m))) - i)
        with ((scan m (i + 4) k i (hash (firstn 8 (skipn (i - 4) m))) - (i + 4)) + 1 * 4) by lia.
      rewrite Nat.mod_add by lia. exact H3.
  - destruct (IH (i + 4) bi bv) as [E|[H1 [H2 H3]]]; [left; exact E | right].
    split; [lia|]. split; [lia|].
    replace (scan m (i + 4) k bi bv - i) with ((scan m (i + 4) k bi bv - (i + 4)) + 1 * 4) by lia.
    rewrite Nat.mod_add by lia. exact H3.
Qed.

(* ---------------------------------------------------------------- under valid parameters *)
Hypothesis Hmn : 1 <= mn.
Hypothesis Hvalid : align4 mn <= mx.      (* an aligned length exists in [mn, mx] *)

Lemma mx_ge4 : 4 <= mx.
Proof. pose proof (align4_pos mn Hmn). lia. Qed.

Lemma mn_le_mx : mn <= mx.
Proof. pose proof (align4_ge mn). lia. Qed.

Lemma M4_eq : M4 = align4 mx.
Proof.
  unfold M4, Chunker.ncand, align4. pose proof mx_ge4.
  replace (mx + 3) with ((mx - 1) + 1 * 4) by lia.
  rewrite Nat.div_add by lia. lia.
Qed.

Lemma M4_le : M4 <= 2 * mx.
Proof. rewrite M4_eq. pose proof (align4_lt mx). pose proof mx_ge4. lia. Qed.

Lemma ncand_lt : 4 * ncand < mx.
Proof.
  unfold Chunker.ncand. pose proof mx_ge4.
  pose proof (Nat.div_mod (mx - 1) 4 ltac:(lia)). lia.
Qed.

Lemma ref_cut_bounds (m : list B) : mn <= ref_cut m <= mx /\ ref_cut m mod 4 = 0.
Proof.
  unfold Chunker.ref_cut.
  destruct (Nat.ltb_spec (scan m 4 ncand 0 0%N) mn) as [Hlt|Hge].
  - split; [split; [apply align4_ge | exact Hvalid] | apply align4_mod].
  - destruct (scan_bound m ncand 4 0 0%N) as [E|[H1 [H2 H3]]].
    + rewrite E in Hge. lia.
    + pose proof ncand_lt. split; [lia|].
      replace (scan m 4 ncand 0 0%N) with ((scan m 4 ncand 0 0%N - 4) + 1 * 4) by lia.
      rewrite Nat.mod_add by lia. exact H3.
Qed.

Lemma ref_cut_le (m : list B) : 1 <= ref_cut m <= mx.
Proof. pose proof (ref_cut_bounds m). lia. Qed.

(* ---------------------------------------------------------------- nonempty *)
Lemma next_cut_nil junk final : next_cut [] junk final = 0.
Proof.
  pose proof mx_ge4. unfold Chunker.next_cut. cbn [length]. destruct final; cbn [andb negb].
  - destruct (Nat.ltb_spec 0 (2 * mx)); [|lia]. cbn [andb].
    destruct (Nat.leb_spec 0 mx); [reflexivity|lia].
  - destruct (Nat.ltb_spec 0 (align4 mx)); [reflexivity|]. pose proof (align4_ge mx). lia.
Qed.

Lemma drain_nonempty fuel : forall buf final junk calls out b c,
  drain fuel buf final junk calls = (out, b, c) -> Forall (fun ch => ch <> []) out.
Proof.
  induction fuel as [|f IH]; intros buf final junk calls out b c H; cbn [Chunker.drain] in H.
  - inversion H; subst; constructor.
  - destruct (next_cut buf (junk calls) final) as [|pos'] eqn:Hp.
    + inversion H; subst; constructor.
    + destruct (drain f (skipn (S pos') buf) final junk (S calls)) as [[o1 b1] c1] eqn:Hd.
      inversion H; subst. constructor; [|eapply IH; exact Hd].
      destruct buf as [|x buf']; [|cbn; congruence].
      rewrite next_cut_nil in Hp. discriminate Hp.
Qed.

Lemma feed_nonempty : forall pieces buf junk calls,
  Forall (fun ch => ch <> []) (feed pieces buf junk calls).
Proof.
  induction pieces as [|p rest IH]; intros buf junk calls; cbn [Chunker.feed]; [constructor|].
  destruct (drain _ _ _ junk calls) as [[out b] c] eqn:Hd.
  apply Forall_app. split; [eapply drain_nonempty; exact Hd | apply IH].
Qed.

Theorem nonempty : forall pieces junk, Forall (fun ch => ch <> []) (chunkify pieces junk).
Proof. intros. apply feed_nonempty. Qed.

(* next_cut never looks at the junk *)
Lemma next_cut_junk buf j1 j2 final : next_cut buf j1 final = next_cut buf j2 final.
Proof.
  unfold Chunker.next_cut. destruct final; cbn [andb negb].
  - destruct (Nat.ltb_spec (length buf) (2 * mx)); [reflexivity|]. cbn [andb].
    apply ref_cut_app. pose proof M4_le. lia.
  - destruct (Nat.ltb_spec (length buf) (align4 mx)); [reflexivity|].
    apply ref_cut_app. rewrite M4_eq. lia.
Qed.

Lemma drain_junk fuel : forall buf final j1 j2 c1 c2,
  let '(o1, b1, _) := drain fuel buf final j1 c1 in
  let '(o2, b2, _) := drain fuel buf final j2 c2 in o1 = o2 /\ b1 = b2.
Proof.
  induction fuel as [|f IH]; intros buf final j1 j2 c1 c2; cbn [Chunker.drain]; [split; reflexivity|].
  rewrite (next_cut_junk buf (j1 c1) (j2 c2) final).
  destruct (next_cut buf (j2 c2) final) as [|pos]; [split; reflexivity|].
  specialize (IH (skipn (S pos) buf) final j1 j2 (S c1) (S c2)).
  destruct (drain f (skipn (S pos) buf) final j1 (S c1)) as [[o1 b1] x1].
  destruct (drain f (skipn (S pos) buf) final j2 (S c2)) as [[o2 b2] x2].
  destruct IH as [-> ->]. split; reflexivity.
Qed.

Lemma feed_junk : forall pieces buf j1 j2 c1 c2, feed pieces buf j1 c1 = feed pieces buf j2 c2.
Proof.
  induction pieces as [|p rest IH]; intros buf j1 j2 c1 c2; cbn [Chunker.feed]; [reflexivity|].
  pose proof (drain_junk (S (length (buf ++ p))) (buf ++ p)
                (match rest with [] => true | _ => false end) j1 j2 c1 c2) as H.
  destruct (drain _ _ _ j1 c1) as [[o1 b1] x1].
  destruct (drain _ _ _ j2 c2) as [[o2 b2] x2].
  destruct H as [-> ->]. f_equal. apply IH.
Qed.

Theorem junk_independent : forall pieces j1 j2, chunkify pieces j1 = chunkify pieces j2.
Proof. intros. apply feed_junk. Qed.

(* ---------------------------------------------------------------- head *)
Lemma head_nil F : head F [] = [].
Proof.
  destruct F; [reflexivity|]. cbn [Chunker.head length]. pose proof mx_ge4.
  destruct (Nat.leb_spec (2 * mx) 0); [lia|reflexivity].
Qed.

Lemma head_fuel : forall F1 F2 s, length s <= F1 -> length s <= F2 -> head F1 s = head F2 s.
Proof.
  induction F1 as [|F1 IH]; intros F2 s H1 H2.
  - destruct s; [|cbn in H1; lia]. rewrite !head_nil. reflexivity.
  - destruct F2 as [|F2].
    + destruct s; [|cbn in H2; lia]. rewrite !head_nil. reflexivity.
    + cbn [Chunker.head]. destruct (Nat.leb_spec (2 * mx) (length s)); [|reflexivity].
      f_equal. pose proof (ref_cut_le s). apply IH; rewrite skipn_length; lia.
Qed.

Lemma next_cut_scan buf junk final rest pos :
  (final = true -> rest = []) -> 2 * mx <= length (buf ++ rest) ->
  next_cut buf junk final = S pos ->
  S pos = ref_cut (buf ++ rest) /\ S pos <= length buf.
Proof.
  intros Hfin Hlen Hp. pose proof M4_eq as HM. pose proof M4_le as HM2. unfold Chunker.next_cut in Hp.
  destruct final; cbn [andb negb] in Hp.
  - rewrite (Hfin eq_refl), app_nil_r in *.
    destruct (Nat.ltb_spec (length buf) (2 * mx)); [lia|]. cbn [andb] in Hp.
    rewrite <- Hp. split.
    + rewrite <- (app_nil_r buf) at 2. apply ref_cut_app. lia.
    + pose proof (ref_cut_le (buf ++ junk)). lia.
  - destruct (Nat.ltb_spec (length buf) (align4 mx)); [discriminate|].
    rewrite <- Hp. split; [apply ref_cut_app; lia|].
    pose proof (ref_cut_le (buf ++ junk)). pose proof (align4_ge mx). lia.
Qed.

Lemma drain_head fuel : forall buf final junk calls out b c rest,
  (final = true -> rest = []) -> length buf < fuel ->
  drain fuel buf final junk calls = (out, b, c) ->
  forall F, length (buf ++ rest) <= F ->
  (exists tl, out = head F (buf ++ rest) ++ tl) \/
  (head F (buf ++ rest) = out ++ head F (b ++ rest) /\ (final = true -> b = []) /\ length b <= length buf).
Proof.
  induction fuel as [|f IH]; intros buf final junk calls out b c rest Hfin Hf H F HF; [lia|].
  cbn [Chunker.drain] in H. destruct (next_cut buf (junk calls) final) as [|pos] eqn:Hp.
  - inversion H; subst. right. split; [reflexivity|]. split; [|lia].
    intros ->. destruct b as [|x b']; [reflexivity|].
    pose proof (next_cut_final_pos (x :: b') (junk calls) Hmn mn_le_mx ltac:(congruence)). lia.
  - destruct (drain f (skipn (S pos) buf) final junk (S calls)) as [[o1 b1] c1] eqn:Hd.
    inversion H; subst; clear H.
    destruct (Nat.leb_spec (2 * mx) (length (buf ++ rest))) as [Hbig|Hsmall].
    + destruct (next_cut_scan buf (junk calls) final rest pos Hfin Hbig Hp) as [Hcut Hle].
      destruct F as [|F']; [pose proof mx_ge4; lia|].
      assert (Hhead : head (S F') (buf ++ rest) =
                firstn (S pos) buf :: head F' (skipn (S pos) buf ++ rest)).
      { cbn [Chunker.head]. destruct (Nat.leb_spec (2 * mx) (length (buf ++ rest))); [|lia].
        rewrite <- Hcut. rewrite firstn_app, skipn_app.
        replace (S pos - length buf) with 0 by lia. cbn [firstn skipn]. rewrite app_nil_r. reflexivity. }
      assert (HF' : length (skipn (S pos) buf ++ rest) <= F').
      { rewrite app_length, skipn_length. rewrite app_length in HF. lia. }
      assert (Hf' : length (skipn (S pos) buf) < f) by (rewrite skipn_length; lia).
      destruct (IH _ _ _ _ _ _ _ rest Hfin Hf' Hd F' HF') as [[tl E]|[E [Eb El]]].
      * left. exists tl. rewrite Hhead, E. reflexivity.
      * right. rewrite skipn_length in El. split; [|split; [exact Eb|lia]].
        rewrite Hhead, E. cbn [app]. f_equal. f_equal.
        apply head_fuel; rewrite app_length in *; lia.
    + left. exists (firstn (S pos) buf :: o1).
      destruct F as [|F']; [reflexivity|]. cbn [Chunker.head].
      destruct (Nat.leb_spec (2 * mx) (length (buf ++ rest))); [lia|reflexivity].
Qed.

Lemma feed_head : forall pieces buf junk calls, pieces <> [] ->
  forall F, length (buf ++ concat pieces) <= F ->
  exists tl, feed pieces buf junk calls = head F (buf ++ concat pieces) ++ tl.
Proof.
  induction pieces as [|p rest IH]; intros buf junk calls Hne F HF; [congruence|].
  cbn [Chunker.feed]. destruct (drain _ _ _ junk calls) as [[out b] c] eqn:Hd.
  cbn [concat] in *. rewrite app_assoc in *.
  assert (Hfin : (match rest with [] => true | _ => false end) = true -> concat rest = [])
    by (destruct rest; [reflexivity|discriminate]).
  assert (Hlt : length (buf ++ p) < S (length (buf ++ p))) by lia.
  destruct (drain_head _ _ _ _ _ _ _ _ (concat rest) Hfin Hlt Hd F HF) as [[tl E]|[E [Eb El]]].
  - exists (tl ++ feed rest b junk c). rewrite E, app_assoc. reflexivity.
  - destruct rest as [|q rest'].
    + rewrite (Eb eq_refl) in E. cbn [Chunker.feed concat app] in *. rewrite head_nil, app_nil_r in E.
      exists []. rewrite !app_nil_r. rewrite app_nil_r in E. symmetry. exact E.
    + assert (HFb : length (b ++ concat (q :: rest')) <= F).
      { rewrite app_length. rewrite app_length in HF. lia. }
      destruct (IH b junk c ltac:(congruence) F HFb) as [tl Et].
      exists tl. rewrite Et, E, app_assoc. reflexivity.
Qed.

(* the chunk sequence starts with the segmentation-free reference sequence *)
Theorem head_prefix : forall pieces junk,
  exists tl, chunkify pieces junk = head (length (concat pieces)) (concat pieces) ++ tl.
Proof.
  intros pieces junk. unfold Chunker.chunkify. destruct pieces as [|p r].
  - exists []. cbn. reflexivity.
  - apply (feed_head (p :: r) [] junk 0 ltac:(congruence)). cbn [app]. lia.
Qed.

(* every chunk of head: a prefix of the stream cut at a point where >= 2*mx bytes remain,
   length within [mn, mx] and a multiple of 4; what is left after head is < 2*mx long *)
Lemma head_spec : forall F s, length s <= F ->
  concat (head F s) ++ skipn (length (concat (head F s))) s = s /\
  Forall (fun ch => mn <= length ch <= mx /\ length ch mod 4 = 0) (head F s) /\
  length s - length (concat (head F s)) < 2 * mx.
Proof.
  induction F as [|F IH]; intros s HF.
  - destruct s; [|cbn in HF; lia]. cbn. pose proof mx_ge4. repeat split; [constructor|lia].
  - cbn [Chunker.head]. destruct (Nat.leb_spec (2 * mx) (length s)) as [Hbig|Hsmall].
    + pose proof (ref_cut_bounds s) as [[Hlo Hhi] Hmod].
      assert (Hlen : length (firstn (ref_cut s) s) = ref_cut s) by (rewrite firstn_length; lia).
      assert (HF' : length (skipn (ref_cut s) s) <= F) by (rewrite skipn_length; lia).
      destruct (IH (skipn (ref_cut s) s) HF') as [E1 [E2 E3]].
      cbn [concat]. rewrite app_length, Hlen. split; [|split].
      * rewrite <- app_assoc. rewrite skipn_add, E1. apply firstn_skipn.
      * constructor; [rewrite Hlen; split; [split|]; assumption | exact E2].
      * rewrite skipn_length in E3. lia.
    + cbn. repeat split; [constructor|lia].
Qed.

Theorem head_bounds : forall s,
  Forall (fun ch => mn <= length ch <= mx /\ length ch mod 4 = 0) (head (length s) s).
Proof. intros s. apply (head_spec (length s) s (le_n _)). Qed.

Theorem head_covers : forall s,
  length s - length (concat (head (length s) s)) < 2 * mx.
Proof. intros s. apply (head_spec (length s) s (le_n _)). Qed.

(* Two segmentations of the same stream: same head, and the tails both start in the tail zone *)
Theorem segmentation_independent : forall p1 p2 j1 j2, concat p1 = concat p2 ->
  exists hd t1 t2, chunkify p1 j1 = hd ++ t1 /\ chunkify p2 j2 = hd ++ t2 /\
    Forall (fun ch => mn <= length ch <= mx /\ length ch mod 4 = 0) hd /\
    length (concat p1) - length (concat hd) < 2 * mx.
Proof.
  intros p1 p2 j1 j2 E.
  destruct (head_prefix p1 j1) as [t1 H1]. destruct (head_prefix p2 j2) as [t2 H2].
  rewrite <- E in H2.
  exists (head (length (concat p1)) (concat p1)), t1, t2.
  split; [exact H1|]. split; [exact H2|]. split; [apply head_bounds | apply head_covers].
Qed.

End C.
