(* C16 - proofs: the Authorization header the adapter computes equals the one the independent
   SigV4 specification derives from the request on the wire. *)
From Coq Require Import List NArith Bool String Lia.
From Coq Require Import Strings.Byte.
From Replicat Require Import Model.SigV4Prims Model.SigV4 Model.SigV4Spec.
Import ListNotations.

(* ------------------------------------------------------------------ per-byte facts (by exhaustive case analysis) *)
Definition quote_alphabet (c : byte) : bool := unreserved c || Byte.eqb c "%".

Lemma uri_encode_byte_eq : forall c, uri_encode_byte c = py_quote_byte [] c.
Proof. destruct c; reflexivity. Qed.

Lemma quote_byte_alphabet : forall c, forallb quote_alphabet (py_quote_byte [] c) = true.
Proof. destruct c; reflexivity. Qed.

Lemma quote_byte_slash : forall c, Byte.eqb c "/" = false -> py_quote_byte (b "/") c = py_quote_byte [] c.
Proof. destruct c; intros H; try reflexivity; discriminate H. Qed.

Lemma decode_quote_byte : forall plus c rest,
  pct_decode plus (py_quote_byte [] c ++ rest) = c :: pct_decode plus rest.
Proof. destruct plus; destruct c; reflexivity. Qed.

Lemma byte_eqb_refl : forall c, Byte.eqb c c = true.
Proof. destruct c; reflexivity. Qed.

Lemma byte_eqb_eq : forall x y, Byte.eqb x y = true -> x = y.
Proof. intros x y H. apply Byte.byte_dec_bl in H. exact H. Qed.

(* ------------------------------------------------------------------ whole strings *)
Lemma uri_encode_eq : forall s, uri_encode s = py_quote [] s.
Proof.
  induction s as [|c s IH]; [reflexivity|].
  unfold uri_encode, py_quote in *. cbn [flat_map]. rewrite IH, uri_encode_byte_eq. reflexivity.
Qed.

Lemma decode_quote : forall plus s, pct_decode plus (py_quote [] s) = s.
Proof.
  induction s as [|c s IH]; [reflexivity|].
  unfold py_quote in *. cbn [flat_map]. rewrite decode_quote_byte, IH. reflexivity.
Qed.

Lemma quote_alphabet_all : forall s, forallb quote_alphabet (py_quote [] s) = true.
Proof.
  induction s as [|c s IH]; [reflexivity|].
  unfold py_quote in *. cbn [flat_map]. rewrite forallb_app, quote_byte_alphabet, IH. reflexivity.
Qed.

(* a byte outside the quoting alphabet does not occur in a quoted string *)
Definition absent (c : byte) (s : bytes) : bool := negb (existsb (fun x => Byte.eqb x c) s).

Lemma absent_app : forall c x y, absent c (x ++ y) = absent c x && absent c y.
Proof. intros. unfold absent. rewrite existsb_app, negb_orb. reflexivity. Qed.

Lemma absent_of_alphabet : forall c s, quote_alphabet c = false -> forallb quote_alphabet s = true -> absent c s = true.
Proof.
  intros c s Hc. induction s as [|x s IH]; [reflexivity|]. cbn [forallb]. intros H.
  apply andb_prop in H. destruct H as [Hx Hs]. unfold absent in *. cbn [existsb]. rewrite negb_orb, IH by exact Hs.
  destruct (Byte.eqb x c) eqn:E; [|reflexivity]. apply byte_eqb_eq in E. subst. congruence.
Qed.

Lemma absent_quote : forall c s, quote_alphabet c = false -> absent c (py_quote [] s) = true.
Proof. intros. apply absent_of_alphabet; [assumption|apply quote_alphabet_all]. Qed.

(* ------------------------------------------------------------------ splitting *)
Lemma split_on_nonempty : forall c s, split_on c s <> [].
Proof.
  intros c s. destruct s as [|x r]; cbn [split_on]; [discriminate|].
  destruct (Byte.eqb x c); [discriminate|]. destruct (split_on c r); discriminate.
Qed.

Lemma split_on_absent_app : forall c pre rest, absent c pre = true ->
  split_on c (pre ++ rest) = match split_on c rest with h :: t => (pre ++ h) :: t | [] => [pre] end.
Proof.
  intros c pre rest. induction pre as [|x pre IH]; intros H.
  - cbn [app]. destruct (split_on c rest) eqn:E; [|reflexivity]. exfalso. exact (split_on_nonempty c rest E).
  - unfold absent in H. cbn [existsb] in H. rewrite negb_orb in H. apply andb_prop in H. destruct H as [Hx Hp].
    cbn [app split_on]. apply negb_true_iff in Hx. rewrite Hx. rewrite IH by exact Hp.
    destruct (split_on c rest); reflexivity.
Qed.

Lemma split_on_absent : forall c s, absent c s = true -> split_on c s = [s].
Proof.
  intros c s H. rewrite <- (app_nil_r s) at 1. rewrite split_on_absent_app by exact H. cbn. rewrite app_nil_r. reflexivity.
Qed.

Lemma split_on_sep : forall c pre rest, absent c pre = true -> split_on c (pre ++ c :: rest) = pre :: split_on c rest.
Proof.
  intros c pre rest H. rewrite split_on_absent_app by exact H. cbn [split_on]. rewrite byte_eqb_refl. rewrite app_nil_r. reflexivity.
Qed.

Lemma split_first_absent : forall c s, absent c s = true -> split_first c s = (s, None).
Proof.
  intros c s. induction s as [|x s IH]; intros H; [reflexivity|].
  unfold absent in H. cbn [existsb] in H. rewrite negb_orb in H. apply andb_prop in H. destruct H as [Hx Hp].
  apply negb_true_iff in Hx. unfold split_first in *. rewrite Hx. rewrite IH by exact Hp. reflexivity.
Qed.

Lemma split_first_sep : forall c pre rest, absent c pre = true -> split_first c (pre ++ c :: rest) = (pre, Some rest).
Proof.
  intros c pre rest. induction pre as [|x pre IH]; intros H.
  - cbn [app]. unfold split_first. rewrite byte_eqb_refl. reflexivity.
  - unfold absent in H. cbn [existsb] in H. rewrite negb_orb in H. apply andb_prop in H. destruct H as [Hx Hp].
    apply negb_true_iff in Hx. cbn [app]. unfold split_first in *. rewrite Hx. rewrite IH by exact Hp. reflexivity.
Qed.

(* ------------------------------------------------------------------ the path *)
Lemma quote_slash_cons : forall c s, py_quote (b "/") (c :: s) = py_quote_byte (b "/") c ++ py_quote (b "/") s.
Proof. reflexivity. Qed.

Lemma join_cons_cons : forall sep x y l, join sep (x :: y :: l) = x ++ sep ++ join sep (y :: l).
Proof. intros. unfold join. cbn [flat_map]. rewrite <- app_assoc. reflexivity. Qed.

(* quote(s) with "/" kept = the segments quoted with nothing kept, joined by "/" *)
Lemma quote_by_segments : forall s, join (b "/") (map (py_quote []) (split_on "/" s)) = py_quote (b "/") s.
Proof.
  induction s as [|c s IH]; [reflexivity|].
  cbn [split_on]. destruct (Byte.eqb c "/") eqn:E.
  - apply byte_eqb_eq in E. subst c. rewrite quote_slash_cons.
    destruct (split_on "/" s) as [|h t] eqn:Es; [exfalso; exact (split_on_nonempty _ _ Es)|].
    cbn [map]. cbn [map] in IH. rewrite join_cons_cons, IH. reflexivity.
  - rewrite quote_slash_cons, quote_byte_slash by exact E.
    destruct (split_on "/" s) as [|h t] eqn:Es; [exfalso; exact (split_on_nonempty _ _ Es)|].
    cbn [map] in *. rewrite <- IH.
    change (py_quote [] (c :: h)) with (py_quote_byte [] c ++ py_quote [] h).
    unfold join. rewrite <- app_assoc. reflexivity.
Qed.

Lemma split_quoted_path : forall s, split_on "/" (py_quote (b "/") s) = map (py_quote []) (split_on "/" s).
Proof.
  induction s as [|c s IH]; [reflexivity|].
  rewrite quote_slash_cons. cbn [split_on]. destruct (Byte.eqb c "/") eqn:E.
  - apply byte_eqb_eq in E. subst c. change (py_quote_byte (b "/") "/") with ["/"%byte]. cbn [app split_on].
    change (Byte.eqb "/" "/") with true. cbn iota. rewrite IH. reflexivity.
  - rewrite quote_byte_slash by exact E.
    assert (Ha : absent "/" (py_quote_byte [] c) = true).
    { apply absent_of_alphabet; [reflexivity|apply quote_byte_alphabet]. }
    rewrite split_on_absent_app by exact Ha. rewrite IH.
    destruct (split_on "/" s) as [|h t] eqn:Es; [exfalso; exact (split_on_nonempty _ _ Es)|]. reflexivity.
Qed.

Lemma canonical_uri_of_quoted : forall s, canonical_uri (py_quote (b "/") s) = py_quote (b "/") s.
Proof.
  intros s. unfold canonical_uri. rewrite split_quoted_path, map_map.
  rewrite <- quote_by_segments. f_equal. apply map_ext. intros seg.
  rewrite decode_quote. apply uri_encode_eq.
Qed.

Lemma quoted_path_alphabet : forall s, forallb (fun c => quote_alphabet c || Byte.eqb c "/") (py_quote (b "/") s) = true.
Proof.
  induction s as [|c s IH]; [reflexivity|].
  rewrite quote_slash_cons, forallb_app, IH, andb_true_r. destruct c; reflexivity.
Qed.

Lemma absent_in_quoted_path : forall c s, quote_alphabet c = false -> Byte.eqb c "/" = false -> absent c (py_quote (b "/") s) = true.
Proof.
  intros c s H1 H2. pose proof (quoted_path_alphabet s) as H. induction (py_quote (b "/") s) as [|x l IH]; [reflexivity|].
  cbn [forallb] in H. apply andb_prop in H. destruct H as [Hx Hl]. unfold absent in *. cbn [existsb]. rewrite negb_orb, IH by exact Hl.
  destruct (Byte.eqb x c) eqn:E; [|reflexivity]. apply byte_eqb_eq in E. subst x. rewrite H1, H2 in Hx. discriminate.
Qed.
