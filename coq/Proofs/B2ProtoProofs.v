(* B2: the adapter's b2_list_file_names loop (startFileName / nextFileName) returns exactly the visible
   names with the prefix for any page size >= 1; hide markers, already_hidden / no_such_file tolerance
   and version stacks refine the Store specification for every operation history. *)
From Coq Require Import List NArith Bool Arith Lia Sorted.
From Replicat Require Import Model.Store Model.B2Proto Proofs.StoreProofs.
Import ListNotations.

Section B2Proofs.
  Context {K P : Type}.
  Variable cmp : K -> K -> comparison.
  Variable matches : P -> K -> bool.
  Hypothesis ord : total_order cmp.

  Lemma ksorted_filter_pairs : forall {V} (g : K * V -> bool) (l : list (K * V)),
    ksorted cmp l -> ksorted cmp (filter g l).
  Proof.
    unfold ksorted. intros V g l. induction l as [|a l IH]; cbn; intro H; [constructor|].
    inversion H as [|? ? Hs Hf]; subst. destruct (g a); auto. cbn. constructor; auto.
    rewrite Forall_forall in *. intros x Hx. apply Hf.
    apply in_map_iff in Hx. destruct Hx as [y [Hy1 Hy2]]. apply filter_In in Hy2.
    apply in_map_iff. exists y. tauto.
  Qed.

  Lemma b2_names_sorted : forall svc : b2svc, ksorted cmp svc -> StronglySorted (klt cmp) (b2_names svc).
  Proof. intros svc H. unfold b2_names. apply ksorted_filter_pairs. exact H. Qed.

  Lemma b2c_list_loop_spec : forall ps p (svc : b2svc), (1 <= ps)%nat -> ksorted cmp svc ->
    forall fuel done rest start acc pages,
      filter (matches p) (b2_names svc) = done ++ rest ->
      ((start = None /\ done = []) \/ (exists t r, start = Some t /\ rest = t :: r)) ->
      (length rest < fuel)%nat ->
      exists n, b2c_list_loop cmp matches fuel ps p svc start acc pages = Some (acc ++ rest, n).
  Proof.
    intros ps p svc Hps Hsorted.
    induction fuel as [|fuel IH]; intros done rest start acc pages Hks Hstart Hfuel; [lia|].
    cbn [b2c_list_loop]. unfold b2_list_page. cbv zeta.
    assert (Hrest : match start with
                    | None => filter (matches p) (b2_names svc)
                    | Some t => filter (cle cmp t) (filter (matches p) (b2_names svc))
                    end = rest).
    { destruct Hstart as [[-> ->]|(t & r & -> & ->)].
      - exact Hks.
      - rewrite Hks. apply (filter_cle_head cmp ord).
        rewrite <- Hks. apply sorted_filter. apply b2_names_sorted. exact Hsorted. }
    rewrite Hrest.
    destruct (skipn ps rest) as [|t' r'] eqn:Esk; cbn [hd_error].
    - exists (S pages). pose proof (firstn_skipn ps rest) as Hfs. rewrite Esk, app_nil_r in Hfs.
      rewrite Hfs. reflexivity.
    - specialize (IH (done ++ firstn ps rest) (t' :: r') (Some t') (acc ++ firstn ps rest) (S pages)).
      destruct IH as [n Hn].
      + rewrite <- app_assoc, <- Esk, firstn_skipn. exact Hks.
      + right. eauto.
      + pose proof (skipn_length ps rest) as Hl. rewrite Esk in Hl. cbn [length] in *. lia.
      + exists n. rewrite Hn. rewrite <- app_assoc, <- Esk, firstn_skipn. reflexivity.
  Qed.

  Theorem b2_list_exact : forall ps p (svc : b2svc), (1 <= ps)%nat -> ksorted cmp svc ->
    exists n, b2c_list cmp matches ps p svc = Some (filter (matches p) (b2_names svc), n).
  Proof.
    intros ps p svc Hps Hs. unfold b2c_list.
    destruct (b2c_list_loop_spec ps p svc Hps Hs (S (length svc)) [] (filter (matches p) (b2_names svc)) None [] 0%nat) as [n Hn].
    - reflexivity.
    - left. auto.
    - assert (Hl : (length (filter (matches p) (b2_names svc)) <= length svc)%nat).
      { clear. unfold b2_names. generalize (fun kv : K * list version => match b2_visible (snd kv) with Some _ => true | None => false end).
        intro g. induction svc as [|a l IH]; cbn; [lia|]. destruct (g a); cbn; [destruct (matches p (fst a)); cbn; lia|lia]. }
      lia.
    - exists n. exact Hn.
  Qed.

  (* ---- refinement of the Store specification; abstraction = the newest version if it is an upload *)
  Definition b2_abs (svc : b2svc) (k : K) : option bytes := b2_visible (b2_versions cmp k svc).

  Definition b2_rel (svc : b2svc) (st : @store K) : Prop :=
    ksorted cmp svc /\ NoDup (map fst st) /\ forall k, b2_abs svc k = alookup (ceq cmp) k st.

  Lemma b2_versions_sinsert : forall j k vs (svc : b2svc),
    b2_versions cmp j (sinsert cmp k vs svc) = if ceq cmp j k then vs else b2_versions cmp j svc.
  Proof.
    intros j k vs svc. unfold b2_versions. rewrite (alookup_sinsert cmp ord). destruct (ceq cmp j k); reflexivity.
  Qed.

  Lemma In_b2_names : forall (svc : b2svc) k, ksorted cmp svc ->
    (In k (b2_names svc) <-> exists d, b2_abs svc k = Some d).
  Proof.
    intros svc k Hs. pose proof (ceq_spec cmp ord) as Hceq. unfold b2_names, b2_abs, b2_versions. split.
    - intro H. apply in_map_iff in H. destruct H as [[k' vs] [E Hin]]. cbn in E. subst k'.
      apply filter_In in Hin. destruct Hin as [Hin Hv]. cbn in Hv.
      rewrite (In_alookup_NoDup _ Hceq k vs svc (ksorted_NoDup cmp ord svc Hs) Hin).
      destruct (b2_visible vs); [eauto|discriminate].
    - intros [d Hd]. destruct (alookup (ceq cmp) k svc) as [vs|] eqn:E; [|discriminate].
      apply (alookup_In _ Hceq) in E. apply in_map_iff. exists (k, vs). split; auto.
      apply filter_In. split; auto. cbn. rewrite Hd. reflexivity.
  Qed.

  Lemma b2_commute : forall ps, (1 <= ps)%nat -> forall (o : op K P) svc st, True -> b2_rel svc st ->
    b2_rel (fst (b2c_step cmp matches ps o svc)) (fst (spec_step (ceq cmp) matches (id o) st)) /\
    obs_equiv (snd (b2c_step cmp matches ps o svc)) (snd (spec_step (ceq cmp) matches (id o) st)).
  Proof.
    intros ps Hps o svc st _ (Hs & Hnd & Hl).
    pose proof (ceq_spec cmp ord) as Hceq.
    assert (Hput : forall k v, b2_rel (b2_upload_file cmp k v svc) (aput (ceq cmp) k v st)).
    { intros k v. unfold b2_upload_file. repeat split.
      - apply sinsert_sorted; auto.
      - apply NoDup_keys_aput; auto.
      - intro j. unfold b2_abs. rewrite b2_versions_sinsert, (alookup_aput _ Hceq).
        destruct (ceq cmp j k); [reflexivity|apply Hl]. }
    unfold id. destruct o as [k v|k v|k|k|k|k|p]; cbn [b2c_step spec_step fst snd].
    - split; [apply Hput|reflexivity].
    - split; [apply Hput|reflexivity].
    - (* delete = b2_hide_file, tolerant of already_hidden / no_such_file *)
      unfold b2_hide_file.
      assert (Hrel : forall svc', ksorted cmp svc' ->
                (forall j, b2_abs svc' j = if ceq cmp j k then None else b2_abs svc j) ->
                b2_rel svc' (aremove (ceq cmp) k st)).
      { intros svc' Hs' Hl'. repeat split; auto.
        - apply NoDup_keys_aremove; auto.
        - intro j. rewrite Hl', (alookup_aremove _ Hceq), Hl. reflexivity. }
      destruct (b2_versions cmp k svc) as [|[d|] vs] eqn:Ev; cbn [fst snd].
      + split; [|reflexivity]. apply Hrel; auto. intro j. destruct (ceq cmp j k) eqn:E; auto.
        apply Hceq in E. subst. unfold b2_abs. rewrite Ev. reflexivity.
      + split; [|reflexivity]. apply Hrel; [apply sinsert_sorted; auto|]. intro j. unfold b2_abs.
        rewrite b2_versions_sinsert. destruct (ceq cmp j k); reflexivity.
      + split; [|reflexivity]. apply Hrel; auto. intro j. destruct (ceq cmp j k) eqn:E; auto.
        apply Hceq in E. subst. unfold b2_abs. rewrite Ev. reflexivity.
    - split; [repeat split; auto|]. unfold b2_download_by_name. fold (b2_abs svc k). rewrite Hl.
      destruct (alookup (ceq cmp) k st); reflexivity.
    - split; [repeat split; auto|]. unfold b2_download_by_name. fold (b2_abs svc k). rewrite Hl.
      destruct (alookup (ceq cmp) k st); reflexivity.
    - split; [repeat split; auto|]. unfold b2_download_by_name. fold (b2_abs svc k). rewrite Hl.
      destruct (alookup (ceq cmp) k st); reflexivity.
    - split; [repeat split; auto|].
      destruct (b2_list_exact ps p svc Hps Hs) as [n Hn]. rewrite Hn. cbn [obs_equiv]. split.
      + apply NoDup_filter. apply (sorted_NoDup cmp ord). apply b2_names_sorted. exact Hs.
      + intro k. rewrite !filter_In. rewrite (In_b2_names svc k Hs). rewrite (In_keys_alookup _ Hceq).
        rewrite Hl. reflexivity.
  Qed.

  Theorem b2_refines_store : forall ps, (1 <= ps)%nat -> forall ops : list (op K P),
    Forall2 obs_equiv (run (b2c_step cmp matches ps) ops []) (run (spec_step (ceq cmp) matches) ops []).
  Proof.
    intros ps Hps ops.
    rewrite <- (map_id ops) at 2.
    apply (run_refine _ _ id b2_rel obs_equiv (fun _ => True)).
    - intros o s1 s2 Hok HR. apply b2_commute; auto.
    - apply Forall_forall. auto.
    - repeat split; constructor.
  Qed.

  (* deleting twice, or deleting something that never existed, is not an error and changes nothing visible *)
  Lemma b2_delete_idempotent : forall ps k (svc : b2svc), ksorted cmp svc ->
    snd (b2c_step cmp matches ps (Delete k) svc) = ODone /\
    forall j, b2_abs (fst (b2c_step cmp matches ps (Delete k) (fst (b2c_step cmp matches ps (Delete k) svc)))) j =
              b2_abs (fst (b2c_step cmp matches ps (Delete k) svc)) j.
  Proof.
    intros ps k svc Hs. cbn [b2c_step]. unfold b2_hide_file.
    destruct (b2_versions cmp k svc) as [|[d|] vs] eqn:Ev; cbn [fst snd]; split; try reflexivity; intro j.
    - rewrite Ev. reflexivity.
    - rewrite b2_versions_sinsert. rewrite (proj2 (ceq_spec cmp ord k k) eq_refl). reflexivity.
    - rewrite Ev. reflexivity.
  Qed.
End B2Proofs.
