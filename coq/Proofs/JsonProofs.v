(* Byte-string tagging round trips: type_reverse (type_hint b) = b, and
   deserialize (serialize v) = v for value trees without a one-key {"!b": ...} object. *)
From Coq Require Import String Ascii List Bool.
From Replicat Require Import Model.Json.
Import ListNotations.
Local Open Scope string_scope.

Section Ind.
Context {B Num : Type}.
Notation jv := (jv B Num).
Variable P : jv -> Prop.
Hypotheses (Hnull : P JNull) (Hbool : forall b, P (JBool b)) (Hnum : forall n, P (JNum n))
  (Hstr : forall s, P (JStr s)) (Hbytes : forall b, P (JBytes b))
  (Harr : forall l, Forall P l -> P (JArr l))
  (Hobj : forall kv, Forall (fun p => P (snd p)) kv -> P (JObj kv)).
Fixpoint jv_rect' (v : jv) : P v :=
  match v with
  | JNull => Hnull
  | JBool b => Hbool b
  | JNum n => Hnum n
  | JStr s => Hstr s
  | JBytes b => Hbytes b
  | JArr l => Harr l ((fix go (l : list jv) : Forall P l :=
                         match l with [] => Forall_nil _ | x :: t => Forall_cons _ (jv_rect' x) (go t) end) l)
  | JObj kv => Hobj kv ((fix go (kv : list (string * jv)) : Forall (fun p => P (snd p)) kv :=
                           match kv with
                           | [] => Forall_nil _
                           | (k, x) :: t => Forall_cons (k, x) (jv_rect' x) (go t)
                           end) kv)
  end.
End Ind.

Fixpoint nodupb (l : list string) : bool :=
  match l with [] => true | x :: t => negb (existsb (String.eqb x) t) && nodupb t end.

Section JsonProofs.
Context {B Num : Type}.
Notation jv := (jv B Num).
Variables (b64 : B -> string) (unb64 : string -> B).
Hypothesis unb64_b64 : forall b, unb64 (b64 b) = b.

(* dict keys are unique (a Python dict) *)
Fixpoint uniq (v : jv) : bool :=
  match v with
  | JArr l => forallb uniq l
  | JObj kv => nodupb (map fst kv) && forallb (fun p => uniq (snd p)) kv
  | _ => true
  end.

Theorem type_reverse_hint (b : B) : type_reverse unb64 [(BANG, JStr (b64 b))] = (JBytes b : jv).
Proof. unfold type_reverse. cbn [length Nat.eqb negb lookup]. rewrite String.eqb_refl. cbn [b64decode_value]. rewrite unb64_b64. reflexivity. Qed.

Theorem reverse_type_hint (b : B) : reverse_tree unb64 (type_hint b64 b) = (JBytes b : jv).
Proof. cbn [type_hint reverse_tree map fst snd]. apply type_reverse_hint. Qed.

Lemma type_reverse_plain (kv : list (string * jv)) : is_bang kv = false -> type_reverse unb64 kv = JObj kv.
Proof.
  unfold is_bang, type_reverse. destruct kv as [|[k x] [|q t]]; intros H; [reflexivity| |reflexivity].
  cbn [length Nat.eqb negb lookup]. rewrite String.eqb_sym, H. reflexivity.
Qed.

Lemma map_id_Forall {A} (f : A -> A) (l : list A) : Forall (fun x => f x = x) l -> map f l = l.
Proof. intros F. induction F as [|x t Hx _ IH]; cbn [map]; [reflexivity | rewrite Hx, IH; reflexivity]. Qed.

Theorem reverse_hint (v : jv) : no_bang v = true -> reverse_tree unb64 (hint_tree b64 v) = v.
Proof.
  induction v as [| | | | b | l IH | kv IH] using jv_rect'; intros H; try reflexivity.
  - apply reverse_type_hint.
  - cbn [hint_tree reverse_tree]. f_equal. rewrite map_map. apply map_id_Forall.
    cbn [no_bang] in H. rewrite forallb_forall in H. rewrite Forall_forall in *.
    intros x Hx. apply IH; [exact Hx | apply H, Hx].
  - cbn [hint_tree reverse_tree]. cbn [no_bang] in H. apply andb_true_iff in H. destruct H as [Hb Hk].
    rewrite map_map. cbn [fst snd].
    replace (map (fun x => (fst x, reverse_tree unb64 (hint_tree b64 (snd x)))) kv) with kv.
    + apply type_reverse_plain. apply negb_true_iff. exact Hb.
    + symmetry. apply map_id_Forall. rewrite forallb_forall in Hk. rewrite Forall_forall in *.
      intros [k x] Hx. cbn [fst snd]. f_equal. apply (IH (k, x) Hx). apply (Hk (k, x) Hx).
Qed.

Lemma hint_pure (v : jv) : pure (hint_tree b64 v) = true.
Proof.
  induction v as [| | | | b | l IH | kv IH] using jv_rect'; try reflexivity.
  - cbn [hint_tree pure]. rewrite forallb_forall. intros y Hy. apply in_map_iff in Hy.
    destruct Hy as [x [E Hx]]. subst. rewrite Forall_forall in IH. apply IH, Hx.
  - cbn [hint_tree pure]. rewrite forallb_forall. intros y Hy. apply in_map_iff in Hy.
    destruct Hy as [x [E Hx]]. subst. cbn [snd]. rewrite Forall_forall in IH. apply IH, Hx.
Qed.

Lemma hint_uniq (v : jv) : uniq v = true -> uniq (hint_tree b64 v) = true.
Proof.
  induction v as [| | | | b | l IH | kv IH] using jv_rect'; intros H; try reflexivity.
  - cbn [hint_tree uniq] in *. rewrite forallb_forall in *. intros y Hy. apply in_map_iff in Hy.
    destruct Hy as [x [E Hx]]. subst. rewrite Forall_forall in IH. apply IH; [exact Hx | apply H, Hx].
  - cbn [hint_tree uniq] in *. apply andb_true_iff in H. destruct H as [Hn Hk].
    rewrite map_map. rewrite (map_ext _ fst) by reflexivity. rewrite Hn. cbn [andb].
    rewrite forallb_forall in *. intros y Hy. apply in_map_iff in Hy.
    destruct Hy as [x [E Hx]]. subst. cbn [snd]. rewrite Forall_forall in IH. apply IH; [exact Hx | apply Hk, Hx].
Qed.

(* the text codec round trips on what it can carry *)
Context {Text : Type}.
Variables (dumps : jv -> Text) (loads : Text -> option jv).
Hypothesis loads_dumps : forall j, pure j = true -> uniq j = true -> loads (dumps j) = Some j.

Theorem deserialize_serialize (v : jv) : no_bang v = true -> uniq v = true ->
  deserialize unb64 loads (serialize b64 dumps v) = Some v.
Proof.
  intros Hb Hu. unfold deserialize, serialize.
  rewrite loads_dumps by (try apply hint_pure; apply hint_uniq, Hu).
  cbn [option_map]. rewrite reverse_hint by exact Hb. reflexivity.
Qed.
End JsonProofs.
