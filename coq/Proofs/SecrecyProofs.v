(* C05 (symbolic statement): nothing emitted in encrypted mode exposes a secret; every encryption
   takes its own nonce. *)
From Coq Require Import List NArith Bool Lia.
From Replicat Require Import Model.Crypto Model.Objects Model.Emit Proofs.CryptoProofs.
Import ListNotations.

Section Secrecy.
Variable sa : N -> bool.

Lemma leaks_enc : forall k n u, hidden sa k = true -> leaks sa (Enc k n u) = false.
Proof. intros k n u H; cbn [leaks sec]; rewrite H; reflexivity. Qed.

Lemma leaks_mac : forall k u, hidden sa k = true -> leaks sa (Mac k u) = false.
Proof. intros k u H; cbn [leaks sec]; rewrite H; reflexivity. Qed.

Lemma hidden_derive : forall k s c, hidden sa k = true -> hidden sa (Derive k s c) = true.
Proof. intros k s c H; cbn [hidden]; rewrite H; apply orb_true_r. Qed.

Lemma hidden_kdf : forall pw s, hidden sa pw = true -> hidden sa (Kdf pw s) = true.
Proof. intros pw s H; cbn [hidden]; rewrite H; apply orb_true_r. Qed.

Lemma leaks_pair : forall a b, leaks sa (Pair a b) = leaks sa a || leaks sa b.
Proof. reflexivity. Qed.

Lemma leaks_hash_pair : forall a b, leaks sa (Hash (Pair a b)) = leaks sa a || leaks sa b.
Proof. reflexivity. Qed.

Definition fam_ok (f : family) : Prop := hidden sa (fm_shared f) = true /\ hidden sa (fm_mac f) = true.
Definition user_ok (u : user) : Prop :=
  hidden sa (u_pw u) = true /\ leaks sa (u_salt u) = false /\ leaks sa (u_kdf_cfg u) = false.

(* what is assumed of a command: the shared key, the MAC key and the password are secret; the
   config, the user KDF settings and salt are free of secrets; names given to delete are names read
   from the backend.  File contents, paths, metadata, notes, digests, the chunker key and the shared
   salt are ARBITRARY terms. *)
Definition cmd_ok (c : cmd) : Prop :=
  match c with
  | CInit cfg f u _ => leaks sa cfg = false /\ user_ok u
  | CAddKey f u _ => user_ok u
  | CSnapshot f u _ _ _ => fam_ok f /\ user_ok u
  | CDelete f u names _ => fam_ok f /\ Forall (fun nm => leaks sa nm = false) names
  | CClean _ _ => True
  end.

Lemma key_file_safe : forall f u n, user_ok u -> leaks sa (key_file f u n) = false.
Proof.
  intros f u n [Hp [Hs Hc]]. unfold key_file. rewrite !leaks_pair, Hc, Hs.
  rewrite leaks_enc; [reflexivity | apply hidden_kdf, Hp].
Qed.

Lemma chunk_loc_safe : forall f u d t, fam_ok f -> In t (loc_terms (chunk_loc (Some (keyring_of f u)) d)) -> leaks sa t = false.
Proof.
  intros f u d t [_ Hm] H. cbn in H. destruct H as [<-|[<-|[]]]; apply leaks_mac; exact Hm.
Qed.

Lemma chunk_items_safe : forall f u chunks n it t, fam_ok f ->
  In it (chunk_items (Some (keyring_of f u)) n chunks) -> In t (item_terms it) -> leaks sa t = false.
Proof.
  intros f u; induction chunks as [|c r IH]; intros n it t Hf Hi Ht; [contradiction|].
  cbn [chunk_items] in Hi. destruct Hi as [<-|[<-|Hi]].
  - eapply chunk_loc_safe; [exact Hf | exact Ht].
  - cbn [item_terms] in Ht. destruct Ht as [<-|Ht]; [|eapply chunk_loc_safe; [exact Hf | exact Ht]].
    cbn [chunk_obj]. apply leaks_enc. unfold shared_subkey. apply hidden_derive. cbn. apply Hf.
  - eapply IH; eassumption.
Qed.

Lemma snapshot_obj_safe : forall f u n chunks info files, fam_ok f -> user_ok u ->
  leaks sa (snapshot_obj (Some (keyring_of f u)) n chunks info files) = false /\
  leaks sa (Hash (snapshot_obj (Some (keyring_of f u)) n chunks info files)) = false.
Proof.
  intros f u n chunks info files [Hs _] [Hp _]. unfold snapshot_obj. cbn [encrypt_body].
  rewrite leaks_hash_pair, leaks_pair.
  rewrite !leaks_enc; [split; reflexivity | | ]; cbn [keyring_of k_user k_shared shared_subkey];
    [apply hidden_kdf, Hp | apply hidden_derive, Hs].
Qed.

Lemma emit_cmd_safe : forall n c it t, cmd_ok c -> In it (fst (fst (emit_cmd n c))) -> In t (item_terms it) -> leaks sa t = false.
Proof.
  intros n c it t Hc Hi Ht. destruct c as [cfg f u tf|f u tf|f u chunks info files|f u names digests|f u]; cbn [emit_cmd fst] in Hi.
  - destruct Hc as [Hcfg Hu]. destruct Hi as [<-|[<-|[<-|[]]]].
    + cbn in Ht. destruct Ht as [<-|[]]; exact Hcfg.
    + cbn in Ht. destruct Ht as [<-|[]]; exact Hcfg.
    + destruct tf; cbn in Ht; destruct Ht as [<-|[]]; apply key_file_safe, Hu.
  - destruct Hi as [<-|[]]. destruct tf; cbn in Ht; destruct Ht as [<-|[]]; apply key_file_safe, Hc.
  - destruct Hc as [Hf Hu]. apply in_app_or in Hi. destruct Hi as [Hi|[<-|[]]].
    + eapply chunk_items_safe; eassumption.
    + destruct (snapshot_obj_safe f u n chunks info files Hf Hu) as [S1 S2].
      cbn [item_terms snapshot_loc snapshot_name_parts loc_terms mac_or_id] in Ht.
      destruct Ht as [<-|[<-|[<-|[]]]]; [exact S1 | exact S2 | apply leaks_mac; cbn; apply Hf].
  - destruct Hc as [Hf Hn]. apply in_app_or in Hi. destruct Hi as [Hi|Hi]; apply in_map_iff in Hi; destruct Hi as [x [<- Hx]].
    + cbn in Ht. destruct Ht as [<-|[<-|[]]]; [rewrite Forall_forall in Hn; apply Hn, Hx | apply leaks_mac; cbn; apply Hf].
    + eapply chunk_loc_safe; [exact Hf | exact Ht].
  - contradiction.
Qed.

(* MAIN: in encrypted mode no emitted term or name exposes any secret *)
Theorem no_leak : forall p n t, Forall cmd_ok p -> In t (emitted_terms n p) -> leaks sa t = false.
Proof.
  induction p as [|c r IH]; intros n t Hp Ht; [contradiction|].
  inversion Hp as [|x l Hc Hr]; subst.
  unfold emitted_terms, emitted in Ht. cbn [emit] in Ht.
  destruct (emit_cmd n c) as [[i1 o1] n1] eqn:E1. destruct (emit n1 r) as [[i2 o2] n2] eqn:E2. cbn [fst] in Ht.
  rewrite flat_map_app in Ht. apply in_app_or in Ht. destruct Ht as [Ht|Ht].
  - apply in_flat_map in Ht. destruct Ht as [it [Hi Hti]]. apply (emit_cmd_safe n c it t Hc); [rewrite E1; exact Hi | exact Hti].
  - apply (IH n1 t Hr). unfold emitted_terms, emitted. rewrite E2. exact Ht.
Qed.
End Secrecy.

(* ---------------------------------------------------------------- nonces *)
Fixpoint nseq (n : N) (k : nat) : list N := match k with O => [] | S k' => n :: nseq (N.succ n) k' end.

Lemma nseq_bounds : forall k n x, In x (nseq n k) -> (n <= x < n + N.of_nat k)%N.
Proof.
  induction k as [|k IH]; intros n x H; [contradiction|]. cbn [nseq] in H. destruct H as [<-|H]; [lia|].
  apply IH in H. lia.
Qed.

Lemma nseq_nodup : forall k n, NoDup (nseq n k).
Proof.
  induction k as [|k IH]; intros n; cbn [nseq]; constructor; [|apply IH].
  intros H; apply nseq_bounds in H; lia.
Qed.

Lemma nseq_app : forall a b n, nseq n (a + b) = nseq n a ++ nseq (n + N.of_nat a) b.
Proof.
  induction a as [|a IH]; intros b n; cbn [nseq Nat.add app].
  - f_equal; lia.
  - rewrite IH. do 3 f_equal. lia.
Qed.

Definition op_nonce (o : encop) : N := snd (fst o).

Lemma chunk_ops_nonces : forall k chunks n, map op_nonce (chunk_ops k n chunks) = nseq n (length chunks).
Proof. intros k; induction chunks as [|c r IH]; intros n; cbn [chunk_ops map nseq length]; [reflexivity | rewrite IH; reflexivity]. Qed.

Lemma emit_cmd_nonces : forall n c, exists k,
  map op_nonce (snd (fst (emit_cmd n c))) = nseq n k /\ snd (emit_cmd n c) = (n + N.of_nat k)%N.
Proof.
  intros n c; destruct c as [cfg f u tf|f u tf|f u chunks info files|f u names digests|f u]; cbn [emit_cmd fst snd].
  - exists 1%nat; split; [reflexivity | lia].
  - exists 1%nat; split; [reflexivity | lia].
  - exists (length chunks + 2)%nat. split.
    + rewrite map_app, chunk_ops_nonces, nseq_app. f_equal. cbn [map op_nonce fst snd nseq]. unfold nlen. repeat f_equal; lia.
    + unfold nlen; lia.
  - exists 0%nat; split; [reflexivity | lia].
  - exists 0%nat; split; [reflexivity | lia].
Qed.

Lemma emit_nonces : forall p n, exists k,
  map op_nonce (enc_ops n p) = nseq n k /\ snd (emit n p) = (n + N.of_nat k)%N.
Proof.
  induction p as [|c r IH]; intros n; unfold enc_ops; cbn [emit].
  - exists 0%nat; split; [reflexivity | cbn; lia].
  - destruct (emit_cmd_nonces n c) as [k1 [E1 N1]].
    destruct (emit_cmd n c) as [[i1 o1] n1] eqn:Ec. cbn [fst snd] in E1, N1.
    destruct (IH n1) as [k2 [E2 N2]]. unfold enc_ops in E2.
    destruct (emit n1 r) as [[i2 o2] n2] eqn:Er. cbn [fst snd] in *.
    exists (k1 + k2)%nat. split.
    + rewrite map_app, E1, E2, nseq_app, N1. reflexivity.
    + rewrite N2, N1. lia.
Qed.

(* MAIN: every encryption performed by a program takes its own element of the nonce supply *)
Theorem nonces_distinct : forall p n, NoDup (map op_nonce (enc_ops n p)).
Proof. intros p n; destruct (emit_nonces p n) as [k [E _]]; rewrite E; apply nseq_nodup. Qed.

(* ---------------------------------------------------------------- emitted ciphertexts are the performed encryptions *)
Definition encfree (t : term) : Prop := enc_nodes t = [].

Lemma enc_nodes_tlist : forall l, Forall encfree l -> enc_nodes (tlist l) = [].
Proof.
  induction l as [|x r IH]; intros H; cbn [tlist enc_nodes]; [reflexivity|].
  inversion H as [|y l Hx Hr]; subst. rewrite Hx, (IH Hr); reflexivity.
Qed.

Definition file_encfree (f : file) : Prop := encfree (f_path f) /\ encfree (f_digest f) /\ encfree (f_meta f).

Lemma enc_ref_encfree : forall r, encfree (enc_ref r).
Proof. intros [[i s] e]; reflexivity. Qed.

Lemma enc_file_encfree : forall f, file_encfree f -> encfree (enc_file f).
Proof.
  intros f [Hp [Hd Hm]]. unfold encfree, enc_file in *. cbn [enc_nodes]. rewrite Hp, Hd, Hm.
  rewrite enc_nodes_tlist; [reflexivity|]. apply Forall_forall. intros x Hx. apply in_map_iff in Hx. destruct Hx as [r [<- _]]. apply enc_ref_encfree.
Qed.

Lemma enc_data_encfree : forall info files, encfree info -> Forall file_encfree files -> encfree (enc_data info files).
Proof.
  intros info files Hi Hf. unfold encfree, enc_data in *. cbn [enc_nodes]. rewrite Hi.
  rewrite enc_nodes_tlist; [reflexivity|]. apply Forall_forall. intros x Hx. apply in_map_iff in Hx. destruct Hx as [f [<- Hin]].
  apply enc_file_encfree. rewrite Forall_forall in Hf. apply Hf, Hin.
Qed.

Definition fam_encfree (f : family) : Prop :=
  encfree (fm_shared f) /\ encfree (fm_salt f) /\ encfree (fm_mac f) /\ encfree (fm_chunker f) /\ encfree (fm_shared_kdf_cfg f) /\ encfree (fm_mac_cfg f).
Definition user_encfree (u : user) : Prop := encfree (u_pw u) /\ encfree (u_salt u) /\ encfree (u_kdf_cfg u).

(* inputs of a command contain no ciphertext of their own (delete takes names/digests: covered below) *)
Definition cmd_encfree (c : cmd) : Prop :=
  match c with
  | CInit cfg f u _ => encfree cfg /\ fam_encfree f /\ user_encfree u
  | CAddKey f u _ => fam_encfree f /\ user_encfree u
  | CSnapshot f u chunks info files => fam_encfree f /\ user_encfree u /\ Forall encfree chunks /\ encfree info /\ Forall file_encfree files
  | CDelete _ _ _ _ => False
  | CClean _ _ => True
  end.

Lemma key_file_nodes : forall f u n, fam_encfree f -> user_encfree u ->
  enc_nodes (key_file f u n) = [(user_key u, n, private_section f)].
Proof.
  intros f u n [H1 [H2 [H3 [H4 [H5 H6]]]]] [U1 [U2 U3]]. unfold encfree in *. unfold key_file, user_key, private_section.
  cbn [enc_nodes tlist]. rewrite H1, H2, H3, H4, H5, H6, U1, U2, U3. reflexivity.
Qed.

Lemma chunk_items_nodes : forall f u chunks n it t e, fam_encfree f -> Forall encfree chunks ->
  In it (chunk_items (Some (keyring_of f u)) n chunks) -> In t (item_terms it) -> In e (enc_nodes t) ->
  In e (chunk_ops (keyring_of f u) n chunks).
Proof.
  intros f u; induction chunks as [|c r IH]; intros n it t e Hf Hc Hi Ht He; [contradiction|].
  inversion Hc as [|x l Hx Hr]; subst. pose proof Hf as [H1 [H2 [H3 _]]]. unfold encfree in H1, H2, H3, Hx.
  cbn [chunk_items] in Hi. cbn [chunk_ops].
  assert (Hloc : forall t', In t' (loc_terms (chunk_loc (Some (keyring_of f u)) (Hash c))) -> enc_nodes t' = []).
  { intros t' H'. cbn in H'. destruct H' as [<-|[<-|[]]]; cbn [enc_nodes]; rewrite ?H3, ?Hx; reflexivity. }
  destruct Hi as [<-|[<-|Hi]].
  - cbn [item_terms] in Ht. rewrite (Hloc t Ht) in He. contradiction.
  - cbn [item_terms] in Ht. destruct Ht as [<-|Ht]; [|rewrite (Hloc t Ht) in He; contradiction].
    cbn [chunk_obj enc_nodes shared_subkey keyring_of k_shared k_salt] in He. rewrite H1, H2, Hx in He. cbn in He.
    destruct He as [<-|[]]. left; reflexivity.
  - right. eapply IH; eassumption.
Qed.

(* every ciphertext node occurring in anything emitted by init / add-key / snapshot is one of the
   encryption operations of that command: equal nonces mean the same ciphertext *)
Lemma emit_cmd_nodes : forall n c it t e, cmd_encfree c ->
  In it (fst (fst (emit_cmd n c))) -> In t (item_terms it) -> In e (enc_nodes t) -> In e (snd (fst (emit_cmd n c))).
Proof.
  intros n c it t e Hc Hi Ht He. destruct c as [cfg f u tf|f u tf|f u chunks info files|f u names digests|f u]; cbn [emit_cmd fst snd] in *.
  - destruct Hc as [Hcfg [Hf Hu]]. destruct Hi as [<-|[<-|[<-|[]]]].
    + cbn in Ht. destruct Ht as [<-|[]]. rewrite Hcfg in He; contradiction.
    + cbn in Ht. destruct Ht as [<-|[]]. rewrite Hcfg in He; contradiction.
    + destruct tf; cbn in Ht; destruct Ht as [<-|[]]; rewrite (key_file_nodes f u n Hf Hu) in He; exact He.
  - destruct Hc as [Hf Hu]. destruct Hi as [<-|[]].
    destruct tf; cbn in Ht; destruct Ht as [<-|[]]; rewrite (key_file_nodes f u n Hf Hu) in He; exact He.
  - destruct Hc as [Hf [Hu [Hch [Hinfo Hfiles]]]]. apply in_or_app. apply in_app_or in Hi. destruct Hi as [Hi|[<-|[]]].
    + left. eapply chunk_items_nodes; eassumption.
    + right.
      assert (Hd : enc_nodes (enc_data info files) = []) by (apply enc_data_encfree; assumption).
      assert (Htab : enc_nodes (tlist (map Hash chunks)) = []).
      { apply enc_nodes_tlist. apply Forall_forall. intros x Hx. apply in_map_iff in Hx. destruct Hx as [c [<- Hin]].
        rewrite Forall_forall in Hch. exact (Hch c Hin). }
      destruct Hf as [H1 [H2 [H3 _]]]. destruct Hu as [U1 [U2 _]]. unfold encfree in *.
      assert (Hobj : forall x, In x (enc_nodes (snapshot_obj (Some (keyring_of f u)) n chunks info files)) ->
                x = (user_key u, (n + nlen chunks)%N, enc_data info files) \/
                x = (shared_subkey (keyring_of f u) (Hash (Enc (user_key u) (n + nlen chunks) (enc_data info files))), (n + nlen chunks + 1)%N, tlist (map Hash chunks))).
      { intros x Hx. unfold snapshot_obj in Hx. cbn [encrypt_body enc_nodes shared_subkey keyring_of k_shared k_salt k_user user_key] in Hx.
        rewrite H1, H2, U1, U2, Hd, Htab in Hx. cbn in Hx.
        destruct Hx as [<-|[<-|[<-|[]]]]; [right | left | left]; reflexivity. }
      cbn [item_terms snapshot_loc snapshot_name_parts loc_terms mac_or_id] in Ht.
      assert (He' : In e (enc_nodes (snapshot_obj (Some (keyring_of f u)) n chunks info files))).
      { destruct Ht as [<-|[<-|[<-|[]]]]; [exact He | exact He |].
        cbn [enc_nodes keyring_of k_mac] in He. rewrite H3 in He. exact He. }
      destruct (Hobj e He') as [->| ->]; cbn [keyring_of k_user]; [left; reflexivity | right; left; reflexivity].
  - contradiction.
  - contradiction.
Qed.

Theorem emitted_nodes_are_ops : forall p n t e, Forall cmd_encfree p ->
  In t (emitted_terms n p) -> In e (enc_nodes t) -> In e (enc_ops n p).
Proof.
  induction p as [|c r IH]; intros n t e Hp Ht He; [contradiction|].
  inversion Hp as [|x l Hc Hr]; subst.
  unfold emitted_terms, emitted, enc_ops in *. cbn [emit] in *.
  destruct (emit_cmd n c) as [[i1 o1] n1] eqn:E1. destruct (emit n1 r) as [[i2 o2] n2] eqn:E2. cbn [fst snd] in *.
  rewrite flat_map_app in Ht. apply in_or_app. apply in_app_or in Ht. destruct Ht as [Ht|Ht].
  - left. apply in_flat_map in Ht. destruct Ht as [it [Hi Hti]].
    pose proof (emit_cmd_nodes n c it t e Hc) as H. rewrite E1 in H. cbn [fst snd] in H. exact (H Hi Hti He).
  - right. specialize (IH n1 t e Hr). rewrite E2 in IH. cbn [fst snd] in IH. exact (IH Ht He).
Qed.

Lemma NoDup_map_inj_in : forall {A B} (f : A -> B) l a b, NoDup (map f l) -> In a l -> In b l -> f a = f b -> a = b.
Proof.
  intros A B f; induction l as [|x r IH]; intros a b H Ha Hb E; [contradiction|].
  cbn [map] in H. inversion H as [|y l Hn Hr]; subst.
  destruct Ha as [<-|Ha], Hb as [<-|Hb]; [reflexivity | | | exact (IH a b Hr Ha Hb E)].
  - exfalso; apply Hn; rewrite E; apply in_map, Hb.
  - exfalso; apply Hn; rewrite <- E; apply in_map, Ha.
Qed.

(* MAIN: two ciphertext nodes anywhere in what init / add-key / snapshot emitted that carry the same
   nonce are the same encryption (same key, same plaintext): no nonce is ever used twice *)
Theorem nonce_determines_ciphertext : forall p n t1 t2 e1 e2, Forall cmd_encfree p ->
  In t1 (emitted_terms n p) -> In t2 (emitted_terms n p) -> In e1 (enc_nodes t1) -> In e2 (enc_nodes t2) ->
  op_nonce e1 = op_nonce e2 -> e1 = e2.
Proof.
  intros p n t1 t2 e1 e2 Hp H1 H2 E1 E2 Hn.
  apply (NoDup_map_inj_in op_nonce (enc_ops n p)); [apply nonces_distinct | | | exact Hn].
  - exact (emitted_nodes_are_ops p n t1 e1 Hp H1 E1).
  - exact (emitted_nodes_are_ops p n t2 e2 Hp H2 E2).
Qed.

(* chunk names are Mac / Mac o Mac of the digest; the snapshot name is the hash of the ciphertext *)
Lemma name_shapes : forall f u c n chunks info files,
  chunk_loc (Some (keyring_of f u)) (Hash c) = LChunk (Mac (fm_mac f) (Hash c)) (Mac (fm_mac f) (Mac (fm_mac f) (Hash c))) /\
  (let obj := snapshot_obj (Some (keyring_of f u)) n chunks info files in
   snapshot_loc (Some (keyring_of f u)) (Hash obj) = LSnap (Hash obj) (Mac (fm_mac f) (Hash obj)) /\
   exists k1 n1 t1 k2 n2 t2, obj = Pair (Enc k1 n1 t1) (Enc k2 n2 t2)).
Proof.
  intros f u c n chunks info files. split; [reflexivity|]. split; [reflexivity|].
  unfold snapshot_obj; cbn [encrypt_body]. repeat eexists.
Qed.
