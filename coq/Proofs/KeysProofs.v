(* C17 - every key produced by init / add-key (independent, shared, clone; any KDF parameters) unlocks with
   its own password and with no other.  KDF and cipher are section variables with explicit premises. *)
From Coq Require Import List Bool NArith Lia.
From Replicat Require Import Model.Keys.
Import ListNotations.

Section KeysProofs.
Variables Pw Salt Prm UKey Nonce Priv Blob : Type.
Variable kdf : Prm -> Pw -> Salt -> UKey.
Variable enc : UKey -> Nonce -> Priv -> Blob.
Variable dec : UKey -> Blob -> option Priv.

(* premises: AEAD round trip; a different key never decrypts (authenticity); for fixed parameters and salt
   the KDF is injective in the password; keys can be compared *)
Hypothesis dec_enc : forall k n m, dec k (enc k n m) = Some m.
Hypothesis dec_other : forall k k' n m, k <> k' -> dec k' (enc k n m) = None.
Hypothesis kdf_inj : forall prm s p1 p2, kdf prm p1 s = kdf prm p2 s -> p1 = p2.
Hypothesis ukey_eq_dec : forall a b : UKey, {a = b} + {a <> b}.

Notation unlock := (unlock Pw Salt Prm UKey Priv Blob kdf dec).
Notation make_key := (make_key Pw Salt Prm UKey Nonce Priv Blob kdf enc).
Notation apply_op := (apply_op Pw Salt Prm UKey Nonce Priv Blob kdf enc dec).
Notation apply_ops := (apply_ops Pw Salt Prm UKey Nonce Priv Blob kdf enc dec).
Notation holder := (holder Pw Salt Prm Priv Blob).

Lemma unlock_make_key_own : forall prm salt n pw priv, unlock (make_key prm salt n pw priv) pw = Some priv.
Proof. intros. unfold Keys.unlock, Keys.make_key. cbn. apply dec_enc. Qed.

Lemma unlock_make_key_only : forall prm salt n pw priv pw',
  unlock (make_key prm salt n pw priv) pw' <> None -> pw' = pw.
Proof.
  intros prm salt n pw priv pw' H. unfold Keys.unlock, Keys.make_key in H. cbn in H.
  destruct (ukey_eq_dec (kdf prm pw salt) (kdf prm pw' salt)) as [E|E].
  - symmetry. exact (kdf_inj _ _ _ _ E).
  - exfalso. apply H. exact (dec_other _ _ _ _ E).
Qed.

(* a holder is sound when its key opens with its password, giving its private section, and with no other password *)
Definition sound (h : holder) : Prop :=
  unlock (h_key h) (h_pw h) = Some (h_priv h) /\ forall pw', unlock (h_key h) pw' <> None -> pw' = h_pw h.

Lemma sound_made : forall prm salt n pw priv,
  sound {| h_key := make_key prm salt n pw priv; h_pw := pw; h_priv := priv |}.
Proof. intros. split; cbn; [apply unlock_make_key_own|apply unlock_make_key_only]. Qed.

Lemma apply_op_sound : forall st o st', Forall sound st -> apply_op st o = Some st' -> Forall sound st'.
Proof.
  intros st o st' F H. destruct o as [pw prm salt n fresh|src pw prm salt n|src prm salt n]; cbn [Keys.apply_op] in H.
  - injection H as <-. apply Forall_app. split; [exact F|]. constructor; [apply sound_made|constructor].
  - destruct (nth_error st src) as [h|]; [|discriminate]. destruct (unlock (h_key h) (h_pw h)) as [p|]; [|discriminate].
    injection H as <-. apply Forall_app. split; [exact F|]. constructor; [apply sound_made|constructor].
  - destruct (nth_error st src) as [h|]; [|discriminate]. destruct (unlock (h_key h) (h_pw h)) as [p|]; [|discriminate].
    injection H as <-. apply Forall_app. split; [exact F|]. constructor; [apply sound_made|constructor].
Qed.

Lemma apply_ops_sound : forall ops st st', Forall sound st -> apply_ops st ops = Some st' -> Forall sound st'.
Proof.
  induction ops as [|o r IH]; intros st st' F H; cbn [Keys.apply_ops] in H.
  - now injection H as <-.
  - destruct (apply_op st o) as [st1|] eqn:E; [|discriminate]. exact (IH _ _ (apply_op_sound _ _ _ F E) H).
Qed.

(* for every chain of add-key operations after init: each key opens with its own password only *)
Theorem keys_unlock_own_only : forall pw0 prm0 salt0 n0 priv0 ops st,
  apply_ops (init_holders Pw Salt Prm UKey Nonce Priv Blob kdf enc pw0 prm0 salt0 n0 priv0) ops = Some st ->
  forall h, In h st ->
    unlock (h_key h) (h_pw h) = Some (h_priv h) /\
    forall pw', (exists p, unlock (h_key h) pw' = Some p) <-> pw' = h_pw h.
Proof.
  intros pw0 prm0 salt0 n0 priv0 ops st H h Hin.
  assert (F : Forall sound st).
  { refine (apply_ops_sound _ _ _ _ H). constructor; [apply sound_made|constructor]. }
  rewrite Forall_forall in F. destruct (F h Hin) as [A B]. split; [exact A|].
  intros pw'. split.
  - intros [p Hp]. apply B. rewrite Hp. discriminate.
  - intros ->. now exists (h_priv h).
Qed.

(* cross-unlock matrix: key of holder i with the password of holder j succeeds iff the passwords are equal *)
Theorem cross_unlock : forall pw0 prm0 salt0 n0 priv0 ops st,
  apply_ops (init_holders Pw Salt Prm UKey Nonce Priv Blob kdf enc pw0 prm0 salt0 n0 priv0) ops = Some st ->
  forall hi hj, In hi st -> In hj st ->
    (unlock (h_key hi) (h_pw hj) <> None <-> h_pw hj = h_pw hi).
Proof.
  intros pw0 prm0 salt0 n0 priv0 ops st H hi hj Hi Hj.
  destruct (keys_unlock_own_only _ _ _ _ _ _ _ H hi Hi) as [A B]. split.
  - intros Hn. apply B. destruct (unlock (h_key hi) (h_pw hj)) as [p|]; [now exists p|congruence].
  - intros ->. rewrite A. discriminate.
Qed.

(* shared and cloned keys protect the private section of their source; a clone has its source's password *)
Theorem shared_clone_copy_private : forall st o st' src,
  Forall sound st -> apply_op st o = Some st' ->
  (match o with OpShared _ _ _ _ _ s _ _ _ _ => s = src | OpClone _ _ _ _ _ s _ _ _ => s = src | _ => False end) ->
  exists hs hn, nth_error st src = Some hs /\ st' = st ++ [hn] /\ h_priv hn = h_priv hs /\
    (match o with OpClone _ _ _ _ _ _ _ _ _ => h_pw hn = h_pw hs | _ => True end).
Proof.
  intros st o st' src F H Ho. destruct o as [pw prm salt n fresh|s pw prm salt n|s prm salt n]; [contradiction| |];
    subst s; cbn [Keys.apply_op] in H;
    destruct (nth_error st src) as [h|] eqn:E; try discriminate;
    pose proof (proj1 (proj1 (Forall_forall _ _) F h (nth_error_In _ _ E))) as S;
    rewrite S in H; injection H as <-; eexists; eexists; repeat split.
Qed.
End KeysProofs.

(* the premises are satisfiable: the free-constructor instance *)
Lemma tkey_eqb_eq : forall a b, tkey_eqb a b = true <-> a = b.
Proof.
  intros [[a1 a2] a3] [[b1 b2] b3]. unfold tkey_eqb. rewrite !andb_true_iff, !N.eqb_eq. split.
  - intros [[-> ->] ->]. reflexivity.
  - intros E. injection E as -> -> ->. repeat split.
Qed.

Lemma toy_premises :
  (forall k n m, tdec k (tenc k n m) = Some m) /\
  (forall k k' n m, k <> k' -> tdec k' (tenc k n m) = None) /\
  (forall prm s p1 p2, tkdf prm p1 s = tkdf prm p2 s -> p1 = p2).
Proof.
  repeat split.
  - intros k n m. unfold tdec, tenc. cbn. now rewrite (proj2 (tkey_eqb_eq k k) eq_refl).
  - intros k k' n m Hne. unfold tdec, tenc. cbn. destruct (tkey_eqb k' k) eqn:E; [|reflexivity].
    apply tkey_eqb_eq in E. congruence.
  - intros prm s p1 p2 E. now injection E.
Qed.

(* without injectivity of the KDF in the password the statement fails: a KDF that forgets the last bit of the password *)
Definition lossy_kdf (prm pw salt : N) : tkey := (prm, N.div pw 2, salt).
Lemma lossy_kdf_breaks_own_only :
  exists pw pw' : N, pw <> pw' /\
    unlock N N N tkey N tblob lossy_kdf tdec (make_key N N N tkey N N tblob lossy_kdf tenc 0%N 0%N 0%N pw 7%N) pw' = Some 7%N.
Proof. exists 2%N, 3%N. split; [discriminate|reflexivity]. Qed.
