(* B1 tie for C01/C14: the arithmetic translated from repository.py (Gen/StreamGen.v) means what
   Model/Stream.v says, for all values.  Proved semantically (lia), so harmless rewrites of the
   Python expressions keep checking while a changed meaning breaks a named lemma. *)
From Coq Require Import ZArith Arith Lia Bool List.
From Replicat Require Import Model.Stream Gen.StreamGen.
Local Open Scope Z_scope.

Ltac Zify.zify_post_hook ::= Z.to_euclidean_division_equations.

(* a file is visited by the backwards loop iff the model's [touches] holds *)
Lemma tie_touches (fs fe cs ce : nat) :
  touches fs fe cs ce =
  (Z.of_nat fs <? gen_bisect_key (Z.of_nat fs) (Z.of_nat fe) (Z.of_nat cs) (Z.of_nat ce))
  && negb (gen_break (Z.of_nat fs) (Z.of_nat fe) (Z.of_nat cs) (Z.of_nat ce)).
Proof.
  unfold touches, gen_bisect_key, gen_break.
  destruct (Nat.leb_spec fs ce), (Nat.ltb_spec fe cs),
    (Z.ltb_spec (Z.of_nat fs) (Z.of_nat ce + 1)), (Z.ltb_spec (Z.of_nat fe) (Z.of_nat cs)); cbn; try reflexivity; lia.
Qed.

Lemma tie_part_start (fs fe cs ce k : nat) :
  Z.of_nat (r_start (ref_of fs fe cs ce k)) = gen_part_start (Z.of_nat fs) (Z.of_nat fe) (Z.of_nat cs) (Z.of_nat ce).
Proof. unfold gen_part_start. cbn [ref_of r_start]. lia. Qed.

Lemma tie_part_end (fs fe cs ce k : nat) : (cs <= fe)%nat -> (cs <= ce)%nat ->
  Z.of_nat (r_end (ref_of fs fe cs ce k)) = gen_part_end (Z.of_nat fs) (Z.of_nat fe) (Z.of_nat cs) (Z.of_nat ce).
Proof. intros H1 H2. unfold gen_part_end. cbn [ref_of r_end]. lia. Qed.

Lemma tie_padding (a n off : nat) : (1 <= a)%nat ->
  Z.of_nat (pad_len a n) = gen_padding (Z.of_nat off) (Z.of_nat (off + n)) (Z.of_nat a).
Proof.
  intros Ha. unfold gen_padding, pad_len.
  replace (Z.of_nat (off + n) - Z.of_nat off) with (Z.of_nat n) by lia.
  pose proof (Nat.mod_upper_bound n a ltac:(lia)) as Hm.
  pose proof (Nat.div_mod n a ltac:(lia)) as Hd.
  destruct (Nat.eq_dec (n mod a) 0) as [E|E].
  - rewrite E, Nat.sub_0_r, Nat.mod_same by lia.
    symmetry. apply Z.mod_divide; [lia|]. exists (- Z.of_nat (n / a)). lia.
  - rewrite Nat.mod_small by lia.
    apply (Z.mod_unique_pos _ _ (- Z.of_nat (n / a) - 1)); nia.
Qed.

Lemma tie_chunk_size (r : ref) : (r_start r <= r_end r)%nat ->
  Z.of_nat (r_end r - r_start r) = gen_chunk_size (Z.of_nat (r_start r)) (Z.of_nat (r_end r)).
Proof. intros H. unfold gen_chunk_size. lia. Qed.

Lemma tie_position (pos : nat) (r : ref) : (r_start r <= r_end r)%nat ->
  Z.of_nat (pos + (r_end r - r_start r)) =
  gen_next_position (Z.of_nat pos) (gen_chunk_size (Z.of_nat (r_start r)) (Z.of_nat (r_end r))).
Proof. intros H. unfold gen_next_position, gen_chunk_size. lia. Qed.

Lemma tie_slice (rstart size : nat) :
  gen_slice_lo (Z.of_nat rstart) (Z.of_nat size) = Z.of_nat rstart /\
  gen_slice_hi (Z.of_nat rstart) (Z.of_nat size) = Z.of_nat (rstart + size).
Proof. unfold gen_slice_lo, gen_slice_hi. lia. Qed.

Lemma tie_truncate (file_end offset len : nat) :
  gen_truncate_to (Z.of_nat file_end) (Z.of_nat offset) (Z.of_nat len) = Z.of_nat (Nat.max file_end (offset + len)).
Proof. unfold gen_truncate_to. lia. Qed.

(* structural facts the translator asserted on the source (it fails closed otherwise) *)
Lemma tie_structure :
  gen_ref_fields_ok && gen_padding_is_zero_bytes && gen_producer_ok && gen_write_offset_is_position
  && gen_finalise_truncates_to_plan_size && gen_write_part_shape_ok = true.
Proof. reflexivity. Qed.
