(* C19 - proofs about Model/Options.v: the first present source wins, coercions agree across sources,
   mutually exclusive options are rejected. *)
From Coq Require Import String Ascii ZArith List Bool Lia.
From Replicat Require Import Model.PyVal Model.Options.
Import ListNotations.
Open Scope string_scope.
Open Scope Z_scope.
Open Scope list_scope.

(* ------------------------------------------------------------------ one source over the rows of a destination *)
Lemma apply_result_none : forall x, apply_result None x = None.
Proof. reflexivity. Qed.

Lemma src_step_none : forall g rows, src_step g rows None = None.
Proof. intros g rows. unfold src_step. induction rows as [|r rows IH]; cbn [fold_left]; [reflexivity|exact IH]. Qed.

Lemma src_step_absent : forall g rows acc, (forall r, In r rows -> g r = None) -> src_step g rows acc = acc.
Proof.
  intros g rows. unfold src_step. induction rows as [|x xs IH]; intros acc H; cbn [fold_left]; [reflexivity|].
  rewrite (H x (or_introl eq_refl)). replace (apply_result acc None) with acc by (destruct acc; reflexivity).
  apply IH. intros r Hr. apply H. now right.
Qed.

Lemma src_step_single : forall g rows acc r,
  NoDup (map o_name rows) -> In r rows ->
  (forall r', In r' rows -> o_name r' <> o_name r -> g r' = None) ->
  src_step g rows acc = apply_result acc (g r).
Proof.
  intros g rows. induction rows as [|x xs IH]; intros acc r Hnd Hin Hothers; [contradiction|].
  cbn [map] in Hnd. apply NoDup_cons_iff in Hnd. destruct Hnd as [Hx Hnd].
  change (src_step g (x :: xs) acc) with (src_step g xs (apply_result acc (g x))).
  destruct (String.eqb (o_name x) (o_name r)) eqn:E.
  - apply String.eqb_eq in E.
    assert (r = x) as ->.
    { destruct Hin as [->|Hin]; [reflexivity|]. exfalso. apply Hx. rewrite E. now apply in_map. }
    apply src_step_absent. intros r' Hr'. apply Hothers; [now right|].
    intros Heq. apply Hx. rewrite <- Heq. now apply in_map.
  - apply String.eqb_neq in E. rewrite (Hothers x (or_introl eq_refl) E).
    replace (apply_result acc None) with acc by (destruct acc; reflexivity).
    destruct Hin as [->|Hin]; [congruence|].
    apply IH; [exact Hnd|exact Hin|]. intros r' Hr'. apply Hothers. now right.
Qed.

Lemma rows_for_in : forall table d r, In r (rows_for table d) <-> In r table /\ o_dest r = d.
Proof.
  intros table d r. unfold rows_for. rewrite filter_In. split; intros [A B]; split; try exact A.
  - now apply String.eqb_eq. - now apply String.eqb_eq.
Qed.

Lemma NoDup_map_filter : forall (f : optrow -> bool) l, NoDup (map o_name l) -> NoDup (map o_name (filter f l)).
Proof.
  intros f l. induction l as [|x xs IH]; intros H; cbn [filter map]; [constructor|].
  cbn [map] in H. apply NoDup_cons_iff in H. destruct H as [Hx Hnd].
  destruct (f x); [|now apply IH]. cbn [map]. constructor; [|now apply IH].
  intros Hin. apply Hx. apply in_map_iff in Hin. destruct Hin as (y & Hy & Hin). apply filter_In in Hin.
  apply in_map_iff. exists y. split; [exact Hy|exact (proj1 Hin)].
Qed.

(* ------------------------------------------------------------------ first present source wins *)
Definition get_sec (sec : section) (s : sources) (r : optrow) : option result :=
  match o_file r with Some co => option_map (apply_co co) (lookup_section sec s (o_name r)) | None => None end.

(* what each of the four external sources says about the option, in order of precedence *)
Definition values_in (s : sources) (r : optrow) : list (option result) :=
  [get SrcCli s r; get SrcEnv s r; get_sec SecProfile s r; get_sec SecDefault s r].

Fixpoint first_some {A} (l : list (option A)) : option A :=
  match l with [] => None | Some x :: _ => Some x | None :: r => first_some r end.

Definition first_present (s : sources) (r : optrow) (builtin : eff) : eff :=
  match first_some (values_in s r) with Some (RSet e) => e | _ => builtin end.

(* the other spellings that write the same destination are not used in any source *)
Definition siblings_absent (table : list optrow) (s : sources) (r : optrow) : Prop :=
  forall r', In r' table -> o_dest r' = o_dest r -> o_name r' <> o_name r -> forall x, get x s r' = None.

(* every value given for the option is one its coercion accepts *)
Definition all_set (s : sources) (r : optrow) : Prop :=
  forall x, In (Some x) (values_in s r) -> exists e, x = RSet e.

Lemma get_file_split : forall s r,
  get SrcFile s r = match get_sec SecProfile s r with Some x => Some x | None => get_sec SecDefault s r end.
Proof.
  intros s r. unfold get, get_sec, lookup_file, lookup_file_in, file_merge_order. cbn [fold_left lookup_section].
  destruct (o_file r) as [co|]; [|reflexivity].
  destruct (slookup (o_name r) (s_prof s)); destruct (slookup (o_name r) (s_dflt s)); reflexivity.
Qed.

Theorem first_present_wins : forall table s r,
  NoDup (map o_name table) -> In r table -> siblings_absent table s r -> all_set s r ->
  effective_dest table s (o_dest r) = Some (first_present s r (builtin_for table (o_dest r))).
Proof.
  intros table s r Hnd Hin Hsib Hall.
  unfold effective_dest, effective_in, source_order. cbn [fold_left].
  assert (Hstep : forall x acc, src_step (get x s) (rows_for table (o_dest r)) acc = apply_result acc (get x s r)).
  { intros x acc. apply src_step_single.
    - now apply NoDup_map_filter.
    - apply rows_for_in. now split.
    - intros r' Hr' Hne. apply rows_for_in in Hr'. destruct Hr' as [Ht Hd]. now apply Hsib. }
  rewrite !Hstep. rewrite get_file_split.
  unfold first_present, values_in. cbn [first_some].
  unfold all_set, values_in in Hall.
  destruct (get SrcCli s r) as [c|] eqn:Ec.
  { destruct (Hall c (or_introl eq_refl)) as [e ->].
    destruct (apply_result (apply_result (Some (builtin_for table (o_dest r))) _) (get SrcEnv s r)) eqn:Eacc; [reflexivity|].
    exfalso. (* an earlier source cannot have rejected: all given values are accepted *)
    destruct (get SrcEnv s r) as [v|] eqn:Ee.
    - destruct (Hall v (or_intror (or_introl eq_refl))) as [e' ->].
      destruct (match get_sec SecProfile s r with Some x => Some x | None => get_sec SecDefault s r end) as [w|] eqn:Ef.
      + assert (exists e'', w = RSet e'') as [e'' ->].
        { destruct (get_sec SecProfile s r) as [p|] eqn:Ep.
          - injection Ef as <-. apply Hall. right. right. now left.
          - apply Hall. right. right. right. now left. }
        discriminate Eacc.
      + discriminate Eacc.
    - destruct (match get_sec SecProfile s r with Some x => Some x | None => get_sec SecDefault s r end) as [w|] eqn:Ef.
      + assert (exists e'', w = RSet e'') as [e'' ->].
        { destruct (get_sec SecProfile s r) as [p|] eqn:Ep.
          - injection Ef as <-. apply Hall. right. right. now left.
          - apply Hall. right. right. right. now left. }
        discriminate Eacc.
      + discriminate Eacc. }
  destruct (get SrcEnv s r) as [v|] eqn:Ee.
  { destruct (Hall v (or_intror (or_introl eq_refl))) as [e' ->].
    destruct (match get_sec SecProfile s r with Some x => Some x | None => get_sec SecDefault s r end) as [w|] eqn:Ef.
    - assert (exists e'', w = RSet e'') as [e'' ->].
      { destruct (get_sec SecProfile s r) as [p|] eqn:Ep.
        - injection Ef as <-. apply Hall. right. right. now left.
        - apply Hall. right. right. right. now left. }
      reflexivity.
    - reflexivity. }
  destruct (get_sec SecProfile s r) as [p|] eqn:Ep.
  { destruct (Hall p (or_intror (or_intror (or_introl eq_refl)))) as [e ->]. reflexivity. }
  destruct (get_sec SecDefault s r) as [d|] eqn:Ed.
  { destruct (Hall d (or_intror (or_intror (or_intror (or_introl eq_refl))))) as [e ->]. reflexivity. }
  reflexivity.
Qed.

(* consequences in the wording of the property *)
Corollary cli_wins : forall table s r e,
  NoDup (map o_name table) -> In r table -> siblings_absent table s r -> all_set s r ->
  get SrcCli s r = Some (RSet e) -> effective_dest table s (o_dest r) = Some e.
Proof.
  intros table s r e Hnd Hin Hsib Hall Hc. rewrite (first_present_wins _ _ _ Hnd Hin Hsib Hall).
  unfold first_present, values_in. cbn [first_some]. now rewrite Hc.
Qed.

Corollary nothing_given_builtin : forall table s r,
  NoDup (map o_name table) -> In r table -> siblings_absent table s r ->
  values_in s r = [None; None; None; None] -> effective_dest table s (o_dest r) = Some (builtin_for table (o_dest r)).
Proof.
  intros table s r Hnd Hin Hsib Hv.
  assert (Hall : all_set s r) by (unfold all_set; rewrite Hv; intros x Hx; repeat (destruct Hx as [Hx|Hx]; [discriminate Hx|]); contradiction).
  rewrite (first_present_wins _ _ _ Hnd Hin Hsib Hall). unfold first_present. now rewrite Hv.
Qed.

(* NoDup from a boolean check (for the generated tables) *)
Fixpoint nodupb (l : list string) : bool :=
  match l with [] => true | x :: r => negb (existsb (String.eqb x) r) && nodupb r end.

Lemma nodupb_sound : forall l, nodupb l = true -> NoDup l.
Proof.
  induction l as [|x r IH]; intros H; [constructor|]. cbn [nodupb] in H. apply andb_true_iff in H. destruct H as [A B].
  constructor; [|now apply IH]. intros Hin. apply negb_true_iff in A.
  assert (existsb (String.eqb x) r = true) by (apply existsb_exists; exists x; split; [exact Hin|apply String.eqb_refl]).
  congruence.
Qed.

(* a backend's keyword names are distinct from each other and from the general option names *)
Lemma full_table_names : forall params,
  map o_name (full_table params) = map o_name general_rows ++ map (fun p => hyphenate (fst p)) params.
Proof. intros params. unfold full_table. rewrite map_app, map_map. reflexivity. Qed.

(* ------------------------------------------------------------------ same coercion whichever source *)
Definition coercion_eqb (a b : coercion) : bool :=
  match a, b with
  | CoRepo, CoRepo | CoNatCli, CoNatCli | CoNatFile, CoNatFile | CoStoreTrue, CoStoreTrue | CoBoolFile, CoBoolFile
  | CoPath, CoPath | CoConstNone, CoConstNone | CoNoCacheFile, CoNoCacheFile | CoBytes, CoBytes | CoReadFile, CoReadFile
  | CoLogLevel, CoLogLevel | CoGuessCli, CoGuessCli | CoGuessCfg, CoGuessCfg => true
  | _, _ => false
  end.

Definition is_flag (c : coercion) : bool := match c with CoStoreTrue | CoConstNone => true | _ => false end.

(* a is the command-line (or environment) coercion, b the one of a lower source *)
Definition agree_b (a b : coercion) : bool :=
  coercion_eqb a b ||
  match a, b with
  | CoNatCli, CoNatFile | CoStoreTrue, CoBoolFile | CoConstNone, CoNoCacheFile => true
  | _, _ => false
  end.

Definition agrees (a b : coercion) : Prop :=
  if is_flag a then forall raw, apply_co a raw = apply_co b (VBool true) /\ apply_co a raw = apply_co b (VStr "true")
  else forall str, apply_co a (VStr str) = apply_co b (VStr str).

Lemma agree_sound : forall a b, agree_b a b = true -> agrees a b.
Proof.
  intros a b H. destruct a, b; try discriminate H; unfold agrees; cbn [is_flag]; intros x; try reflexivity; split; reflexivity.
Qed.

Definition pair_agrees (a b : option coercion) : bool :=
  match a, b with Some x, Some y => agree_b x y | _, _ => true end.
Definition row_agrees (r : optrow) : bool :=
  pair_agrees (o_cli r) (o_env r) && pair_agrees (o_cli r) (o_file r) && pair_agrees (o_env r) (o_file r).

Theorem row_agrees_sound : forall r, row_agrees r = true ->
  (forall a b, o_cli r = Some a -> o_env r = Some b -> agrees a b) /\
  (forall a b, o_cli r = Some a -> o_file r = Some b -> agrees a b) /\
  (forall a b, o_env r = Some a -> o_file r = Some b -> agrees a b).
Proof.
  intros r H. unfold row_agrees in H. apply andb_true_iff in H. destruct H as [H H3]. apply andb_true_iff in H. destruct H as [H1 H2].
  repeat split; intros a b Ea Eb; apply agree_sound.
  - rewrite Ea, Eb in H1. exact H1.
  - rewrite Ea, Eb in H2. exact H2.
  - rewrite Ea, Eb in H3. exact H3.
Qed.

(* backend options: the command line coerces once, the environment and the file twice *)
Theorem backend_coercion_agrees_refuted :
  exists str, apply_co CoGuessCli (VStr str) <> apply_co CoGuessCfg (VStr str).
Proof. exists """123""". vm_compute. discriminate. Qed.

(* strings on which a second guess_type changes nothing *)
Definition stable (str : string) : bool :=
  match guess str with
  | Some (VStr s') => match guess s' with Some (VStr s'') => String.eqb s' s'' | _ => false end
  | _ => true
  end.

Theorem backend_coercion_agrees_partial : forall str, stable str = true ->
  apply_co CoGuessCli (VStr str) = apply_co CoGuessCfg (VStr str).
Proof.
  intros str H. unfold stable in H. unfold apply_co, guess_value, recoerce.
  destruct (guess str) as [[| | | |s'| |]|]; try reflexivity.
  destruct (guess s') as [[| | | |s''| |]|]; try discriminate H.
  apply String.eqb_eq in H. now subst s''.
Qed.

(* typed values of the configuration file pass unchanged (after the repair of guess_type) *)
Theorem backend_typed_file_values : forall v, (forall s, v <> VStr s) -> apply_co CoGuessCfg v = RSet (EVal v).
Proof. intros v H. destruct v; try reflexivity. exfalso. exact (H s eq_refl). Qed.

(* ------------------------------------------------------------------ mutually exclusive options *)
Theorem exclusive_file_rejected : forall table ef ec s a b,
  In (a, b) ef -> present_file s a = true -> present_file s b = true -> run_main table ef ec s = None.
Proof.
  intros table ef ec s a b Hin Ha Hb. unfold run_main.
  assert (exclusive_violation ef ec s = true) as ->; [|reflexivity].
  unfold exclusive_violation. apply orb_true_iff. left. apply existsb_exists. exists (a, b). split; [exact Hin|].
  cbn [fst snd]. now rewrite Ha, Hb.
Qed.

Theorem exclusive_cli_rejected : forall table ef ec s a b,
  In (a, b) ec -> present_cli s a = true -> present_cli s b = true -> run_main table ef ec s = None.
Proof.
  intros table ef ec s a b Hin Ha Hb. unfold run_main.
  assert (exclusive_violation ef ec s = true) as ->; [|reflexivity].
  unfold exclusive_violation. apply orb_true_iff. right. apply existsb_exists. exists (a, b). split; [exact Hin|].
  cbn [fst snd]. now rewrite Ha, Hb.
Qed.

(* a member of a pair is present in the file when either section has it *)
Lemma present_file_iff : forall s k,
  present_file s k = true <-> slookup k (s_prof s) <> None \/ slookup k (s_dflt s) <> None.
Proof.
  intros s k. unfold present_file, lookup_file, lookup_file_in, file_merge_order. cbn [fold_left lookup_section].
  destruct (slookup k (s_prof s)); destruct (slookup k (s_dflt s)); split; intros H; try reflexivity; try discriminate;
    try (left; discriminate); try (right; discriminate); destruct H as [H|H]; congruence.
Qed.

(* the whole namespace is made of the per-destination values *)
Lemma run_main_lookup : forall table ef ec s l d e,
  run_main table ef ec s = Some l -> In (d, e) l -> effective_dest table s d = Some e.
Proof.
  intros table ef ec s l d e H Hin. unfold run_main in H. destruct (exclusive_violation ef ec s); [discriminate|].
  revert l H Hin. induction (dedup (map o_dest table)) as [|x xs IH]; intros l H Hin; cbn [fold_right] in H.
  - injection H as <-. contradiction.
  - destruct (fold_right _ (Some []) xs) as [l'|]; [|discriminate].
    destruct (effective_dest table s x) as [e'|] eqn:E; [|discriminate]. injection H as <-.
    destruct Hin as [Hin|Hin]; [injection Hin as <- <-; exact E|exact (IH l' eq_refl Hin)].
Qed.
