(* Why a destructive command must see EVERY listed snapshot (or fail): the plan of clean / delete computed from a listing that
   lacks one snapshot - a download that failed and was skipped, a directory scan that stopped early and was taken for complete -
   removes chunks that snapshot needs.  The loaded set is a parameter here; the commands of Model/Repo.v are the instance
   "loaded = everything".  Both directions: a partial view refutes the invariant, the full view keeps it. *)
From Coq Require Import List Arith Bool.
From Replicat Require Import Model.Repo Proofs.RepoProofs.
Import ListNotations.

(* clean by family f that has loaded only [seen] of the snapshots *)
Definition clean_seeing (f : fam) (seen : list snap) (st : store) : store :=
  {| chunks := remove_chunks (filter (fun c => Nat.eqb (fst c) f && negb (referenced f seen (snd c))) (chunks st)) (chunks st);
     snaps := snaps st |}.

Lemma clean_seeing_all : forall f st, clean_seeing f (snaps st) st = fst (exec st (OClean f)).
Proof. reflexivity. Qed.

(* one snapshot skipped: its chunks are gone, it is still listed *)
Lemma clean_with_partial_view_refuted :
  exists st seen f, Inv st /\ incl seen (snaps st) /\ ~ Inv (clean_seeing f seen st).
Proof.
  pose (s1 := {| s_id := 1; s_fam := 0; s_usr := 0; s_tab := [5] |}).
  pose (s2 := {| s_id := 2; s_fam := 0; s_usr := 0; s_tab := [6] |}).
  exists {| chunks := [(0, 5); (0, 6)]; snaps := [s1; s2] |}, [s1], 0.
  split; [|split].
  - intros s Hs d Hd. cbn in Hs. destruct Hs as [<-|[<-|[]]]; cbn in Hd; destruct Hd as [<-|[]]; cbn; auto.
  - intros s Hs. cbn in *. destruct Hs as [<-|[]]; auto.
  - intro H. specialize (H s2 (or_intror (or_introl eq_refl)) 6 (or_introl eq_refl)).
    cbn in H. destruct H as [H|[]]. discriminate H.
Qed.

(* with the full view the invariant is kept, whatever the store: this is the instance the code implements *)
Lemma clean_with_full_view_safe : forall f st, Inv st -> Inv (clean_seeing f (snaps st) st).
Proof.
  intros f st H. rewrite clean_seeing_all. apply exec_Inv. exact H.
Qed.

(* ... and why delete removes chunk objects only after EVERY named snapshot object is gone (the step S_del_chunk of the model
   requires d_snaps = []): with a named snapshot still in place - its removal was refused, and the command went on - a planned
   chunk removal leaves a listed snapshot without a chunk *)
Lemma chunk_removed_before_snapshot_refuted :
  exists st u f ids p c, plan_delete u f ids st = Some p /\ In c (d_chunks p) /\ Inv st /\
    ~ Inv {| chunks := filter (fun x => negb (pair_eqb c x)) (chunks st); snaps := snaps st |}.
Proof.
  pose (s1 := {| s_id := 1; s_fam := 0; s_usr := 0; s_tab := [5] |}).
  exists {| chunks := [(0, 5)]; snaps := [s1] |}, 0, 0, [1], {| d_fam := 0; d_snaps := [1]; d_chunks := [(0, 5)] |}, (0, 5).
  split; [reflexivity|]. split; [left; reflexivity|]. split.
  - intros s Hs d Hd. cbn in Hs. destruct Hs as [<-|[]]; cbn in Hd; destruct Hd as [<-|[]]; cbn; auto.
  - intro H. specialize (H s1 (or_introl eq_refl) 5 (or_introl eq_refl)). cbn in H. exact H.
Qed.
