(* Why a destructive command must see EVERY listed snapshot (or fail): the plan of clean / delete computed from a listing that
   lacks one snapshot - a download that failed and was skipped, a directory scan that stopped early and was taken for complete -
   removes chunks that snapshot needs.  The loaded set is a parameter here; the commands of Model/Repo.v are the instance
   "loaded = everything".  Both directions: a partial view refutes the invariant, the full view keeps it. *)
From Coq Require Import List Arith Bool.
From Replicat Require Import Model.Repo Proofs.RepoProofs.
Import ListNotations.

(* clean by family f that has loaded only [seen] of the snapshots *)
Definition clean_seeing (f : fam) (seen : list snap) (st : store) : store :=
  {| chunks := remove_chunks (filter (fun c => Nat.eqb (fst c) f && negb (referenced f seen (snd c))) (chunks st)) (chunks st);
     snaps := snaps st |}.

Lemma clean_seeing_all : forall f st, clean_seeing f (snaps st) st = fst (exec st (OClean f)).
Proof. reflexivity. Qed.

(* one snapshot skipped: its chunks are gone, it is still listed *)
Lemma clean_with_partial_view_refuted :
  exists st seen f, Inv st /\ incl seen (snaps st) /\ ~ Inv (clean_seeing f seen st).
Proof.
  pose (s1 := {| s_id := 1; s_fam := 0; s_usr := 0; s_tab := [5] |}).
  pose (s2 := {| s_id := 2; s_fam := 0; s_usr := 0; s_tab := [6] |}).
  exists {| chunks := [(0, 5); (0, 6)]; snaps := [s1; s2] |}, [s1], 0.
  split; [|split].
  - intros s Hs d Hd. cbn in Hs. destruct Hs as [<-|[<-|[]]]; cbn in Hd; destruct Hd as [<-|[]]; cbn; auto.
  - intros s Hs. cbn in *. destruct Hs as [<-|[]]; auto.
  - intro H. specialize (H s2 (or_intror (or_introl eq_refl)) 6 (or_introl eq_refl)).
    cbn in H. destruct H as [H|[]]. discriminate H.
Qed.

(* with the full view the invariant is kept, whatever the store: this is the instance the code implements *)
Lemma clean_with_full_view_safe : forall f st, Inv st -> Inv (clean_seeing f (snaps st) st).
Proof.
  intros f st H. rewrite clean_seeing_all. apply exec_Inv. exact H.
Qed.

(* ... and why delete removes chunk objects only after EVERY named snapshot object is gone (the step S_del_chunk of the model
   requires d_snaps = []): with a named snapshot still in place - its removal was refused, and the command went on - a planned
   chunk removal leaves a listed snapshot without a chunk *)
Lemma chunk_removed_before_snapshot_refuted :
  exists st u f ids p c, plan_delete u f ids st = Some p /\ In c (d_chunks p) /\ Inv st /\
    ~ Inv {| chunks := filter (fun x => negb (pair_eqb c x)) (chunks st); snaps := snaps st |}.
Proof.
  pose (s1 := {| s_id := 1; s_fam := 0; s_usr := 0; s_tab := [5] |}).
  exists {| chunks := [(0, 5)]; snaps := [s1] |}, 0, 0, [1], {| d_fam := 0; d_snaps := [1]; d_chunks := [(0, 5)] |}, (0, 5).
  split; [reflexivity|]. split; [left; reflexivity|]. split.
  - intros s Hs d Hd. cbn in Hs. destruct Hs as [<-|[]]; cbn in Hd; destruct Hd as [<-|[]]; cbn; auto.
  - intro H. specialize (H s1 (or_introl eq_refl) 5 (or_introl eq_refl)). cbn in H. exact H.
Qed.

(* ... and why the snapshot worker asks the BACKEND, at that moment, whether a chunk is there (source fact: the only assignment to
   [exists] in the worker is the backend's answer).  [bel] = what the session believes to be stored (a memo kept on the Repository
   object across commands, the answer of an earlier command): chunks believed present are not uploaded. *)
Definition snap_believing (bel : list (fam * dig)) (u : usr) (f : fam) (id : sid) (tab : list dig) (st : store) : store :=
  {| chunks := chunks st ++ map (fun d => (f, d)) (filter (fun d => negb (memc (f, d) bel)) (nodup Nat.eq_dec tab));
     snaps := {| s_id := id; s_fam := f; s_usr := u; s_tab := tab |} :: snaps st |}.

Lemma snap_believing_the_store : forall u f id tab st,
  snap_believing (chunks st) u f id tab st = fst (exec st (OSnap u f id tab)).
Proof. reflexivity. Qed.

(* a belief that holds of the store keeps every listed snapshot complete ... *)
Lemma snap_with_sound_belief_safe : forall bel u f id tab st,
  Inv st -> incl bel (chunks st) -> Inv (snap_believing bel u f id tab st).
Proof.
  intros bel u f id tab st HI Hb s Hs d Hd. cbn in Hs. destruct Hs as [<-|Hs].
  - cbn in Hd |- *. apply in_or_app. destruct (memc (f, d) bel) eqn:E.
    + left. apply Hb. apply memc_In. exact E.
    + right. apply in_map_iff. exists d. split; [reflexivity|]. apply filter_In. split.
      * apply nodup_In. exact Hd.
      * rewrite E. reflexivity.
  - cbn. apply in_or_app. left. exact (HI s Hs d Hd).
Qed.

(* ... a stale one (the chunk was deleted since, or its upload never succeeded) publishes a snapshot without its chunk *)
Lemma snap_with_stale_belief_refuted :
  exists bel u f id tab st, Inv st /\ ~ Inv (snap_believing bel u f id tab st).
Proof.
  exists [(0, 5)], 0, 0, 1, [5], empty_store. split.
  - intros s [].
  - intro H. specialize (H _ (or_introl eq_refl) 5 (or_introl eq_refl)). cbn in H. exact H.
Qed.
