(* C04: whatever the store contains, a restore that returns normally wrote authentic files. *)
From Coq Require Import List NArith Bool Lia.
From Replicat Require Import Model.Crypto Model.Objects Proofs.CryptoProofs.
Import ListNotations.

(* ---------------------------------------------------------------- omapM *)
Lemma omapM_some : forall {A B} (f : A -> option B) l ys, omapM f l = Some ys -> Forall2 (fun x y => f x = Some y) l ys.
Proof.
  intros A B f; induction l as [|x r IH]; intros ys H; cbn [omapM] in H.
  - injection H as <-; constructor.
  - destruct (f x) as [y|] eqn:Ex; [|discriminate H].
    destruct (omapM f r) as [ys'|] eqn:Er; [|discriminate H].
    injection H as <-. constructor; [exact Ex | apply IH; reflexivity].
Qed.

Lemma omapM_of_Forall2 : forall {A B} (f : A -> option B) l ys, Forall2 (fun x y => f x = Some y) l ys -> omapM f l = Some ys.
Proof.
  intros A B f l ys H; induction H as [|x y l ys Hx _ IH]; cbn [omapM]; [reflexivity|].
  rewrite Hx, IH; reflexivity.
Qed.

Lemma omapM_map : forall {A B} (g : A -> B) (f : B -> option A) l, (forall x, f (g x) = Some x) -> omapM f (map g l) = Some l.
Proof.
  intros A B g f l H; induction l as [|x r IH]; cbn [map omapM]; [reflexivity|].
  rewrite H, IH; reflexivity.
Qed.

Lemma Forall2_impl : forall {A B} (P Q : A -> B -> Prop) l1 l2, (forall a b, P a b -> Q a b) -> Forall2 P l1 l2 -> Forall2 Q l1 l2.
Proof. intros A B P Q l1 l2 H F; induction F; constructor; auto. Qed.

(* mapM with a sound step refines omapM of the specification step *)
Lemma mapM_refines : forall {A B} (f : A -> res B) (g : A -> option B) l ys,
  (forall x y, f x = Ok y -> g x = Some y) -> mapM f l = Ok ys -> omapM g l = Some ys.
Proof.
  intros A B f g l ys H M. apply omapM_of_Forall2. apply mapM_ok in M.
  eapply Forall2_impl; [|exact M]. exact H.
Qed.

(* ---------------------------------------------------------------- chunks *)
(* the re-hash check: an accepted chunk plaintext hashes to the referenced digest *)
Lemma fetch_chunk_sound : forall fc m st d c,
  f_rehash_chunk fc = true -> fetch_chunk fc m st d = Ok c -> d = Hash c.
Proof.
  intros fc m st d c Hf H. unfold fetch_chunk in H. rewrite Hf in H.
  destruct (lookup st (chunk_loc m d)) as [o|]; cbn [of_option bind] in H; [|discriminate H].
  destruct (match m with Some k => of_option DecryptFail (dec (shared_subkey k d) o) | None => Ok o end) as [c'|e];
    cbn [bind] in H; [|discriminate H].
  destruct (term_eqb (Hash c') d) eqn:E; cbn [andb negb] in H; [|discriminate H].
  injection H as <-. apply term_eqb_eq in E. symmetry; exact E.
Qed.

(* the per-digest key: a ciphertext made for another chunk fails authentication, with or without re-hash *)
Lemma swapped_ciphertext_rejected : forall k d n c', Hash c' <> d -> dec (shared_subkey k d) (chunk_obj (Some k) n c') = None.
Proof.
  intros k d n c' H. cbn [chunk_obj]. apply dec_wrong_key. unfold shared_subkey. intros E; injection E as E. congruence.
Qed.

Lemma swapped_chunk_fails_auth : forall fc k st d n c',
  lookup st (chunk_loc (Some k) d) = Some (chunk_obj (Some k) n c') -> Hash c' <> d ->
  fetch_chunk fc (Some k) st d = Err DecryptFail.
Proof.
  intros fc k st d n c' L H. unfold fetch_chunk. rewrite L. cbn [of_option bind].
  rewrite (swapped_ciphertext_rejected k d n c' H). reflexivity.
Qed.

Lemma missing_chunk_fails : forall fc m st d, lookup st (chunk_loc m d) = None -> fetch_chunk fc m st d = Err Missing.
Proof. intros fc m st d L; unfold fetch_chunk; rewrite L; reflexivity. Qed.

(* ---------------------------------------------------------------- files *)
Lemma restore_file_sound : forall fc m st table f x,
  f_rehash_chunk fc = true -> restore_file fc m st table f = Ok x -> recorded_file table f = Some x.
Proof.
  intros fc m st table f x Hf H. unfold restore_file in H. unfold recorded_file.
  destruct (mapM _ (f_refs f)) as [ps|e] eqn:M; cbn [bind] in H; [|discriminate H].
  injection H as <-.
  erewrite mapM_refines; [reflexivity | | exact M].
  intros [[i s] e] y Hy. destruct (nth_error table (N.to_nat i)) as [d|]; cbn [of_option bind] in Hy; [|discriminate Hy].
  destruct (fetch_chunk fc m st d) as [c|er] eqn:F; cbn [bind] in Hy; [|discriminate Hy].
  injection Hy as <-. apply fetch_chunk_sound in F; [|exact Hf]. subst d. reflexivity.
Qed.

Lemma restore_body_sound : forall fc m st b out,
  f_rehash_chunk fc = true -> restore_body fc m st b = Ok out -> recorded_body b = Some out.
Proof.
  intros fc m st [table [[info files]|]] out Hf H; cbn [restore_body recorded_body] in *.
  - eapply mapM_refines; [|exact H]. intros f x; apply restore_file_sound; exact Hf.
  - injection H as <-; reflexivity.
Qed.

(* ---------------------------------------------------------------- snapshots *)
(* the name check: an accepted snapshot is the unique contents its name is the hash of *)
Lemma load_one_sound : forall fc m st name tag b,
  f_verify_snapshot fc = true -> load_one fc m st name tag = Ok (Some b) ->
  exists c, name = Hash c /\ lookup st (LSnap name tag) = Some c /\ decode_body m c = Ok b.
Proof.
  intros fc m st name tag b Hf H. unfold load_one in H. rewrite Hf in H.
  destruct (match m with Some k => _ | None => false end); [discriminate H|].
  destruct (lookup st (LSnap name tag)) as [c|]; cbn [of_option bind] in H; [|discriminate H].
  destruct (term_eqb (Hash c) name) eqn:E; cbn [andb negb] in H; [|discriminate H].
  destruct (decode_body m c) as [b'|e] eqn:D; cbn [bind] in H; [|discriminate H].
  injection H as <-. apply term_eqb_eq in E. exists c; repeat split; [symmetry; exact E | exact D].
Qed.

(* encrypted: an object whose tag is not the MAC of its name is never read *)
Lemma load_one_bad_tag_skipped : forall fc k st name tag,
  f_check_tag fc = true -> tag <> Mac (k_mac k) name -> load_one fc (Some k) st name tag = Ok None.
Proof.
  intros fc k st name tag Hf H. unfold load_one. rewrite Hf.
  assert (E : term_eqb (Mac (k_mac k) name) tag = false) by (apply term_eqb_neq; congruence).
  rewrite E; reflexivity.
Qed.

(* contents stored under a name they do not hash to are rejected (swap / replay / damage) *)
Lemma load_one_foreign_contents_rejected : forall fc m st name tag c,
  f_verify_snapshot fc = true -> lookup st (LSnap name tag) = Some c -> Hash c <> name ->
  (match m with Some k => tag = Mac (k_mac k) name | None => True end) ->
  load_one fc m st name tag = Err Corrupted.
Proof.
  intros fc m st name tag c Hf L H Ht. unfold load_one. rewrite Hf, L.
  assert (E : term_eqb (Hash c) name = false) by (apply term_eqb_neq; exact H).
  destruct m as [k|].
  - subst tag. rewrite term_eqb_refl. rewrite andb_false_r. cbn [of_option bind]. rewrite E. reflexivity.
  - cbn [of_option bind]. rewrite E. reflexivity.
Qed.

Lemma somes_in : forall {A} (l : list (option A)) a, In a (somes l) -> In (Some a) l.
Proof.
  intros A; induction l as [|[x|] r IH]; intros a H; cbn [somes] in H.
  - contradiction.
  - destruct H as [->|H]; [left; reflexivity | right; apply IH, H].
  - right; apply IH, H.
Qed.

Lemma Forall2_in_r : forall {A B} (P : A -> B -> Prop) l1 l2 y, Forall2 P l1 l2 -> In y l2 -> exists x, In x l1 /\ P x y.
Proof.
  intros A B P l1 l2 y F; induction F as [|a b l1 l2 Hab _ IH]; intros H; [contradiction|].
  destruct H as [->|H]; [exists a; split; [left; reflexivity | exact Hab]|].
  destruct (IH H) as [x [Hx Px]]; exists x; split; [right; exact Hx | exact Px].
Qed.

(* MAIN: for an arbitrary store, every file a successful restore wrote is an authentic file of the
   snapshot name that was asked for, with exactly the recorded parts *)
Theorem restore_listed_authentic : forall fc m listing st target out,
  f_rehash_chunk fc = true -> f_verify_snapshot fc = true ->
  restore_listed fc m listing st target = Ok out ->
  forall x, In x out -> exists a, authentic m target = Some a /\ In x a.
Proof.
  intros fc m listing st target out Hr Hv H x Hx. unfold restore_listed in H.
  set (cands := filter (fun nt => term_eqb (fst nt) target) listing) in H.
  destruct (mapM _ cands) as [bodies|e] eqn:ML; cbn [bind] in H; [|discriminate H].
  destruct (mapM (restore_body fc m st) (somes bodies)) as [outs|e] eqn:MR; cbn [bind] in H; [|discriminate H].
  injection H as <-. apply in_concat in Hx. destruct Hx as [o [Ho Hxo]].
  apply mapM_ok in MR. destruct (Forall2_in_r _ _ _ o MR Ho) as [b [Hb Rb]].
  apply somes_in in Hb. apply mapM_ok in ML. destruct (Forall2_in_r _ _ _ (Some b) ML Hb) as [[n t] [Hnt Lb]].
  cbn [fst snd] in Lb. apply filter_In in Hnt. destruct Hnt as [_ Hn]. cbn [fst] in Hn. apply term_eqb_eq in Hn. subst n.
  apply load_one_sound in Lb; [|exact Hv]. destruct Lb as [c [Hc [_ D]]].
  apply restore_body_sound in Rb; [|exact Hr].
  exists o; split; [|exact Hxo]. subst target. cbn [authentic]. rewrite D. exact Rb.
Qed.

Theorem restore_authentic : forall fc m st target out,
  f_rehash_chunk fc = true -> f_verify_snapshot fc = true ->
  restore fc m st target = Ok out ->
  forall x, In x out -> exists a, authentic m target = Some a /\ In x a.
Proof. intros fc m st target out; apply restore_listed_authentic. Qed.

(* a listed snapshot that is gone when it is downloaded fails the restore *)
Lemma restore_listed_vanished_fails : forall fc m listing st name tag,
  In (name, tag) listing -> lookup st (LSnap name tag) = None ->
  (match m with Some k => tag = Mac (k_mac k) name | None => True end) ->
  exists e, restore_listed fc m listing st name = Err e.
Proof.
  intros fc m listing st name tag Hin L Ht. unfold restore_listed.
  set (f := fun nt : term * term => load_one fc m st (fst nt) (snd nt)).
  assert (Hl : f (name, tag) = Err Missing).
  { unfold f, load_one. cbn [fst snd]. rewrite L.
    destruct m as [k|]; [subst tag; rewrite term_eqb_refl, andb_false_r|]; reflexivity. }
  assert (Hc : In (name, tag) (filter (fun nt => term_eqb (fst nt) name) listing)).
  { apply filter_In; split; [exact Hin | cbn [fst]; apply term_eqb_refl]. }
  destruct (mapM f (filter (fun nt => term_eqb (fst nt) name) listing)) as [bodies|e] eqn:M; [|exists e; reflexivity].
  exfalso. apply mapM_ok in M. clear -M Hc Hl.
  induction M as [|x y l ys Hx _ IH]; [contradiction|].
  destruct Hc as [->|Hc]; [rewrite Hl in Hx; discriminate Hx | exact (IH Hc)].
Qed.

(* the outcome does not depend on the store: two successful restores of one name wrote the same files *)
Corollary restore_store_independent : forall fc m st1 st2 target out1 out2,
  f_rehash_chunk fc = true -> f_verify_snapshot fc = true ->
  restore fc m st1 target = Ok out1 -> restore fc m st2 target = Ok out2 ->
  forall x1 x2, In x1 out1 -> In x2 out2 -> exists a, In x1 a /\ In x2 a /\ authentic m target = Some a.
Proof.
  intros fc m st1 st2 target out1 out2 Hr Hv H1 H2 x1 x2 I1 I2.
  destruct (restore_authentic fc m st1 target out1 Hr Hv H1 x1 I1) as [a [A1 J1]].
  destruct (restore_authentic fc m st2 target out2 Hr Hv H2 x2 I2) as [a' [A2 J2]].
  rewrite A1 in A2; injection A2 as <-. exists a; repeat split; assumption.
Qed.

(* ---------------------------------------------------------------- what an honest snapshot's name denotes *)
Lemma dec_ref_enc : forall r, dec_ref (enc_ref r) = Some r.
Proof. intros [[i s] e]; reflexivity. Qed.

Lemma dec_file_enc : forall f, dec_file (enc_file f) = Some f.
Proof.
  intros [p rs d mt]; unfold enc_file, dec_file; cbn [f_path f_refs f_digest f_meta].
  rewrite untlist_tlist, (omapM_map enc_ref dec_ref rs dec_ref_enc); reflexivity.
Qed.

Lemma dec_data_enc : forall info files, dec_data (enc_data info files) = Some (info, files).
Proof.
  intros info files; unfold enc_data, dec_data.
  rewrite untlist_tlist, (omapM_map enc_file dec_file files dec_file_enc); reflexivity.
Qed.

Lemma decode_encrypt_body : forall m n1 n2 table info files,
  decode_body m (encrypt_body m n1 n2 (tlist table) (enc_data info files)) = Ok (table, Some (info, files)).
Proof.
  intros [k|] n1 n2 table info files; cbn [encrypt_body decode_body].
  - rewrite dec_enc; cbn [of_option bind]. rewrite untlist_tlist; cbn [of_option bind].
    rewrite dec_enc, dec_data_enc; reflexivity.
  - rewrite untlist_tlist; cbn [of_option bind]. rewrite dec_data_enc; reflexivity.
Qed.

Definition plain_file (chunks : list term) (f : file) : term * parts :=
  (f_path f, map (fun r : ref => let '(i, s, e) := r in (nth (N.to_nat i) chunks Nil, s, e)) (f_refs f)).

Definition refs_in_range (n : nat) (f : file) : Prop :=
  Forall (fun r : ref => (N.to_nat (fst (fst r)) < n)%nat) (f_refs f).

Lemma recorded_file_honest : forall chunks f, refs_in_range (length chunks) f ->
  recorded_file (map Hash chunks) f = Some (plain_file chunks f).
Proof.
  intros chunks f H. unfold recorded_file, plain_file.
  erewrite omapM_of_Forall2; [reflexivity|].
  unfold refs_in_range in H. induction H as [|[[i s] e] rs Hr _ IH]; cbn [map]; constructor; [|exact IH].
  cbn [fst] in Hr. rewrite nth_error_map. rewrite (nth_error_nth' chunks Nil Hr). reflexivity.
Qed.

(* the name of an honestly written snapshot denotes exactly the files that were backed up *)
Theorem authentic_of_snapshot : forall m n1 n2 chunks info files,
  Forall (refs_in_range (length chunks)) files ->
  authentic m (Hash (encrypt_body m n1 n2 (tlist (map Hash chunks)) (enc_data info files)))
  = Some (map (plain_file chunks) files).
Proof.
  intros m n1 n2 chunks info files H. cbn [authentic]. rewrite decode_encrypt_body. cbn [recorded_body].
  apply omapM_of_Forall2. induction H as [|f fs Hf _ IH]; cbn [map]; constructor; [|exact IH].
  apply recorded_file_honest, Hf.
Qed.
