(* C17 - proofs about Model/Settings.v: accepted settings are usable, a rejected init writes nothing. *)
From Coq Require Import String Ascii ZArith List Bool Lia.
From Replicat Require Import Model.PyVal Model.Settings.
Import ListNotations.
Open Scope string_scope.
Open Scope Z_scope.
Open Scope list_scope.

(* ------------------------------------------------------------------ binding *)
Lemma bind_fold_names : forall (kw : dict) (ps : list (string * option value)) args,
  fold_right (fun (pd : string * option value) acc =>
      match acc with
      | None => None
      | Some rest =>
        match lookup (fst pd) kw, snd pd with
        | Some v, _ => Some ((fst pd, v) :: rest)
        | None, Some d => Some ((fst pd, d) :: rest)
        | None, None => None
        end
      end) (Some []) ps = Some args ->
  map fst args = map fst ps.
Proof.
  intros kw ps. induction ps as [|pd ps IH]; intros args H; cbn [fold_right] in H.
  - injection H as <-. reflexivity.
  - destruct (fold_right _ (Some []) ps) as [rest|] eqn:E; [|discriminate].
    specialize (IH rest eq_refl).
    destruct (lookup (fst pd) kw) as [v|].
    + injection H as <-. cbn [map fst]. now rewrite IH.
    + destruct (snd pd) as [d|]; [|discriminate]. injection H as <-. cbn [map fst]. now rewrite IH.
Qed.

Lemma bind_names : forall a kw args, bind a kw = Some args -> map fst args = param_names a.
Proof.
  intros a kw args H. unfold bind in H.
  destruct (forallb _ kw); [|discriminate].
  now apply bind_fold_names in H.
Qed.

Lemma find_adapter_in : forall table n a, find_adapter table n = Some a -> In a table /\ a_name a = n.
Proof.
  induction table as [|x r IH]; intros n a H; cbn [find_adapter] in H; [discriminate|].
  destruct (String.eqb n (a_name x)) eqn:E.
  - injection H as <-. split; [now left|]. apply String.eqb_eq in E. now symmetry.
  - destruct (IH _ _ H) as [Hin Hn]. split; [now right|exact Hn].
Qed.

Lemma from_config_inv : forall table dn s extra a args,
  from_config table dn s extra = Some (a, args) -> In a table /\ map fst args = param_names a.
Proof.
  intros table dn s extra a args H. unfold from_config in H.
  destruct (match lookup "name" s with Some v => v | None => VStr dn end) as [| | | |n| |]; try discriminate.
  destruct (find_adapter table n) as [a'|] eqn:E; [|discriminate].
  destruct (existsb _ extra); [discriminate|].
  destruct (bind a' (remove "name" s ++ extra)) as [args'|] eqn:B; [|discriminate].
  injection H as <- <-. split; [exact (proj1 (find_adapter_in _ _ _ E))|exact (bind_names _ _ _ B)].
Qed.

(* ------------------------------------------------------------------ the constructors' checks imply the primitive domains *)
Ltac shape H :=
  repeat match type of H with
  | map fst ?l = _ :: _ =>
    let k := fresh "k" in let v := fresh "v" in let Hk := fresh "Hk" in
    destruct l as [|[k v] l]; [discriminate H|]; cbn [map fst] in H; injection H as Hk H; subst k
  | map fst ?l = [] => destruct l; [clear H|discriminate H]
  end.

Ltac zb :=
  repeat match goal with
  | H : (_ <? _) = true |- _ => apply Z.ltb_lt in H
  | H : (_ <? _) = false |- _ => apply Z.ltb_ge in H
  | H : (_ <=? _) = true |- _ => apply Z.leb_le in H
  | H : (_ <=? _) = false |- _ => apply Z.leb_gt in H
  | H : (_ =? _) = true |- _ => apply Z.eqb_eq in H
  | H : (_ =? _) = false |- _ => apply Z.eqb_neq in H
  end.

Ltac in_cases H :=
  cbn [In adapters] in H; unfold aes_gcm_spec, chacha20_poly1305_spec, scrypt_spec, blake2b_spec, sha2_spec, sha3_spec in H;
  repeat (destruct H as [H|H]; [subst|]); [..|contradiction].

Local Ltac crunch := cbn -[Z.mul Z.add Z.sub Z.div Z.ltb Z.leb Z.eqb Z.opp].

Lemma hash_checks_imply_domain : forall a args,
  In a adapters -> map fst args = param_names a -> has_kind KHash a = true -> construct a args = true ->
  hash_domain (a_name a) args = true.
Proof.
  intros a args Hin Hs Hk Hc. in_cases Hin; try discriminate Hk; cbn in Hs; shape Hs.
  - (* blake2b: not isinstance(length, int) or not 1 <= length <= 64 *)
    destruct v as [|b|z|t|s'| |d]; try discriminate Hc.
    + destruct b; [reflexivity|discriminate Hc].
    + revert Hc. unfold construct, hash_domain. crunch.
      destruct (2 * 1 <=? 2 * z) eqn:E1; crunch; [|discriminate].
      destruct (2 * z <=? 2 * 64) eqn:E2; crunch; [|discriminate].
      intros _. zb. apply andb_true_intro. split; apply Z.leb_le; lia.
  - (* sha2 *)
    destruct v as [|b|z|t|s'| |d]; try discriminate Hc.
    + destruct b; discriminate Hc.
    + revert Hc. unfold construct, hash_domain, memz. crunch.
      repeat match goal with |- context [2 * z =? ?k] => destruct (2 * z =? k) eqn:?; crunch end;
        try discriminate; intros _; zb;
        repeat match goal with |- context [z =? ?k] => destruct (z =? k) eqn:?; crunch end; zb; try reflexivity; lia.
    + revert Hc. unfold construct. crunch.
      repeat match goal with |- context [t =? ?k] => destruct (t =? k) eqn:?; crunch end; discriminate.
  - (* sha3 *)
    destruct v as [|b|z|t|s'| |d]; try discriminate Hc.
    + destruct b; discriminate Hc.
    + revert Hc. unfold construct, hash_domain, memz. crunch.
      repeat match goal with |- context [2 * z =? ?k] => destruct (2 * z =? k) eqn:?; crunch end;
        try discriminate; intros _; zb;
        repeat match goal with |- context [z =? ?k] => destruct (z =? k) eqn:?; crunch end; zb; try reflexivity; lia.
    + revert Hc. unfold construct. crunch.
      repeat match goal with |- context [t =? ?k] => destruct (t =? k) eqn:?; crunch end; discriminate.
Qed.

Lemma gcl_int_case : forall mn mx,
  construct gclmulchunker_spec [("min_length", VInt mn); ("max_length", VInt mx)] = true ->
  (1 <=? mn) && (4 * ((mn + 3) / 4) <=? mx) && (mx <=? 9223372036854775807) = true.
Proof.
  intros mn mx. unfold construct. crunch.
  destruct (2 * mn <? 2 * 1) eqn:E1; crunch; [discriminate|].
  destruct (2 * mx <? 2 * mn) eqn:E2; crunch; [discriminate|].
  destruct (2 * 9223372036854775807 <? 2 * mx) eqn:E4; crunch; [discriminate|].
  change (num_floordiv (NI (mn + 4 - 1)) (NI 4)) with (Some (NI ((mn + 4 - 1) / 4))). crunch.
  destruct (2 * mx <? 2 * ((mn + 4 - 1) / 4 * 4)) eqn:E3; crunch; [discriminate|].
  intros _. zb. replace (mn + 4 - 1) with (mn + 3) in E3 by lia.
  apply andb_true_intro. split; [apply andb_true_intro; split|]; apply Z.leb_le; lia.
Qed.

Lemma chunker_checks_imply_domain : forall a args,
  In a adapters -> map fst args = param_names a -> has_kind KChunker a = true -> construct a args = true ->
  chunker_domain (a_name a) args = true.
Proof.
  intros a args Hin Hs Hk Hc. in_cases Hin; try discriminate Hk; cbn in Hs; shape Hs.
  destruct v as [|b|z|t|s'| |d]; try discriminate Hc;
  destruct v0 as [|b0|z0|t0|s0| |d0]; try discriminate Hc.
  - destruct b, b0; vm_compute in Hc; discriminate Hc.
  - destruct b; [exact (gcl_int_case 1 z0 Hc)|exact (gcl_int_case 0 z0 Hc)].
  - destruct b0; [exact (gcl_int_case z 1 Hc)|exact (gcl_int_case z 0 Hc)].
  - exact (gcl_int_case _ _ Hc).
Qed.

(* ------------------------------------------------------------------ what the steps establish *)
Lemma make_config_inv : forall table s cfg, make_config table s = Some cfg ->
  (In (fst (c_hash cfg)) table /\ map fst (snd (c_hash cfg)) = param_names (fst (c_hash cfg))) /\
  (In (fst (c_chunk cfg)) table /\ map fst (snd (c_chunk cfg)) = param_names (fst (c_chunk cfg))).
Proof.
  intros table s cfg H. unfold make_config in H.
  destruct (from_config table DEFAULT_HASHER_NAME _ []) as [[ah argh]|] eqn:Eh; [|discriminate].
  destruct (from_config table DEFAULT_CHUNKER_NAME _ []) as [[ac argc]|] eqn:Ec; [|discriminate].
  apply from_config_inv in Eh. apply from_config_inv in Ec.
  assert (G : c_hash cfg = (ah, argh) /\ c_chunk cfg = (ac, argc)).
  { destruct (lookup "encryption" s) as [[| | | | | |]|];
      try (destruct (from_config table DEFAULT_CIPHER_NAME _ []); [|discriminate]); injection H as <-; split; reflexivity. }
  destruct G as [-> ->]. split; assumption.
Qed.

Lemma instantiate_config_inv : forall ke ne cfg sz, instantiate_config ke ne cfg = Some sz ->
  has_kind KChunker (fst (c_chunk cfg)) = true /\ has_kind KHash (fst (c_hash cfg)) = true /\
  construct (fst (c_chunk cfg)) (snd (c_chunk cfg)) = true /\ construct (fst (c_hash cfg)) (snd (c_hash cfg)) = true /\
  match sz with
  | None => c_cipher cfg = None
  | Some _ => exists ci, c_cipher cfg = Some ci /\ has_kind KCipher (fst ci) = true
  end.
Proof.
  intros ke ne cfg sz H. unfold instantiate_config in H.
  destruct (has_kind KChunker (fst (c_chunk cfg))) eqn:E1; [|discriminate].
  destruct (has_kind KHash (fst (c_hash cfg))) eqn:E2; [|discriminate].
  destruct (construct (fst (c_chunk cfg)) (snd (c_chunk cfg))) eqn:E3; [|discriminate].
  destruct (construct (fst (c_hash cfg)) (snd (c_hash cfg))) eqn:E4; [|discriminate].
  cbn [andb] in H. repeat split.
  destruct (c_cipher cfg) as [ci|].
  - destruct (has_kind KCipher (fst ci)) eqn:E5; [|discriminate]. cbn [andb] in H.
    destruct (construct (fst ci) (snd ci)); [|discriminate].
    destruct (cipher_sizes ke ne ci); [|discriminate]. injection H as <-. now exists ci.
  - now injection H as <-.
Qed.

Section Invariant.
Variable ke ne : expr.
Let table := adapters.

Definition Inv (s : state) : Prop :=
  (forall cfg, st_cfg s = Some cfg -> make_config table (settings_dict s) = Some cfg) /\
  (st_instantiated s = true -> exists cfg, st_cfg s = Some cfg /\ instantiate_config ke ne cfg = Some (st_sizes s)) /\
  (st_derived s = true -> exists kb nb kdf pl,
      st_sizes s = Some (NI kb, nb) /\ st_kdf s = Some kdf /\ st_pwlen s = Some pl /\
      has_kind KKdf (fst kdf) = true /\ kdf_domain (a_name (fst kdf)) (snd kdf) kb pl = true) /\
  (st_encrypted_private s = true -> exists kb nb cfg ci,
      st_sizes s = Some (NI kb, NI nb) /\ st_cfg s = Some cfg /\ c_cipher cfg = Some ci /\
      aead_domain (a_name (fst ci)) kb nb = true).

Lemma Inv_init : forall pw s, Inv (init_state pw s).
Proof. intros pw s. unfold Inv, init_state. cbn. repeat split; intros; discriminate. Qed.

Lemma Inv_step : forall x s s', Inv s -> do_step table ke ne x s = Some s' -> Inv s'.
Proof.
  intros x s s' I H. pose proof I as (I1 & I2 & I3 & I4). destruct x; cbn [do_step] in H.
  - (* validate *)
    assert (s' = s) as ->; [|exact I].
    destruct (st_settings s) as [[|? ?]|]; try (now injection H).
    destruct (validate_init_settings _); [now injection H|discriminate].
  - (* make config *)
    destruct (make_config table (settings_dict s)) as [cfg|] eqn:MC; [|discriminate]. injection H as <-.
    unfold Inv, settings_dict. cbn. repeat split; try (intros; discriminate).
    intros cfg' E. injection E as <-. exact MC.
  - (* instantiate config *)
    destruct (st_cfg s) as [cfg|] eqn:EC; [|discriminate].
    destruct (instantiate_config ke ne cfg) as [sz|] eqn:IC; [|discriminate]. injection H as <-.
    unfold Inv, settings_dict. cbn. repeat split; try (intros; discriminate).
    + intros cfg' E. apply I1. exact E.
    + intros _. exists cfg. split; [first [exact EC|reflexivity]|exact IC].
  - (* make key *)
    destruct (st_instantiated s) eqn:EI; [|discriminate]. cbn [negb] in H.
    destruct (st_sizes s) as [[kb nb]|] eqn:ES.
    + destruct (st_pwlen s) as [pl|]; [|discriminate].
      destruct (from_config table DEFAULT_USER_KDF_NAME _ _) as [kdf|]; [|discriminate].
      destruct (from_config table DEFAULT_SHARED_KDF_NAME [] [("length", num_value kb)]) as [sh|]; [|discriminate].
      destruct (from_config table DEFAULT_MAC_NAME [] []) as [mac|]; [|discriminate].
      match type of H with (if ?c then _ else _) = _ => destruct c; [|discriminate] end. injection H as <-.
      unfold Inv, settings_dict. cbn. repeat split; try (intros; discriminate).
      * exact I1.
      * intros _. destruct (I2 eq_refl) as (cfg & E1 & E2). exists cfg. try rewrite ES in E2. now split.
    + injection H as <-. exact I.
  - (* instantiate key *)
    destruct (st_instantiated s) eqn:EI; [|discriminate]. cbn [negb] in H.
    destruct (st_sizes s) as [[[kb|tk] nb]|] eqn:ES.
    + destruct (st_kdf s) as [kdf|] eqn:EK; [|discriminate].
      destruct (st_pwlen s) as [pl|] eqn:EP; [|discriminate].
      destruct (has_kind KKdf (fst kdf)) eqn:HK; [|discriminate]. cbn [andb] in H.
      destruct (kdf_domain (a_name (fst kdf)) (snd kdf) kb pl) eqn:KD; [|discriminate]. injection H as <-.
      unfold Inv, settings_dict. cbn. repeat split; try (intros; discriminate).
      * exact I1.
      * intros _. destruct (I2 eq_refl) as (cfg & E1 & E2). exists cfg. try rewrite ES in E2. now split.
      * intros _. exists kb, nb, kdf, pl. now repeat split.
    + destruct (st_kdf s); discriminate.
    + injection H as <-. exact I.
  - (* encrypt private *)
    destruct (st_instantiated s) eqn:EI; [|discriminate]. cbn [negb] in H.
    destruct (st_sizes s) as [[[kb|tk] [nb|tn]]|] eqn:ES; try discriminate.
    + destruct (st_cfg s) as [cfg|] eqn:EC; [|discriminate].
      destruct (c_cipher cfg) as [ci|] eqn:ECi; [|discriminate].
      destruct (st_derived s) eqn:ED; [|discriminate]. cbn [andb] in H.
      destruct (aead_domain (a_name (fst ci)) kb nb) eqn:AD; [|discriminate]. injection H as <-.
      unfold Inv, settings_dict. cbn. repeat split.
      * intros cfg' E. apply I1. congruence.
      * intros _. destruct (I2 eq_refl) as (cfg' & E1 & E2). exists cfg'. try rewrite ES in E2. split; [congruence|exact E2].
      * intros _. destruct (I3 eq_refl) as (kb' & nb' & kdf & pl & E1 & E2 & E3 & E4 & E5).
        exists kb', nb', kdf, pl. repeat split; congruence.
      * intros _. exists kb, nb, cfg, ci. repeat split; congruence.
    + injection H as <-. exact I.
  - (* upload *)
    injection H as <-. unfold Inv, settings_dict. cbn. now repeat split.
Qed.

Lemma Inv_run : forall steps s puts s', Inv s -> run table ke ne steps s = (puts, Some s') -> Inv s'.
Proof.
  induction steps as [|x r IH]; intros s puts s' I H; cbn [run] in H.
  - now injection H as _ <-.
  - destruct (do_step table ke ne x s) as [s1|] eqn:E; [|discriminate].
    exact (IH _ _ _ (Inv_step _ _ _ I E) H).
Qed.

Lemma Inv_result_usable : forall s r, Inv s -> result_of s = Some r -> usable r = true.
Proof.
  intros s r (I1 & I2 & I3 & I4) H. unfold result_of in H.
  destruct (st_cfg s) as [cfg|] eqn:EC; [|discriminate].
  destruct (st_instantiated s) eqn:EI; [|discriminate]. cbn [negb] in H.
  destruct (I2 eq_refl) as (cfg' & E1 & IC). injection E1 as <-.
  pose proof (I1 cfg eq_refl) as MC.
  destruct (make_config_inv _ _ _ MC) as ((Hin1 & Hs1) & (Hin2 & Hs2)).
  destruct (instantiate_config_inv _ _ _ _ IC) as (K1 & K2 & C1 & C2 & Hci).
  pose proof (hash_checks_imply_domain _ _ Hin1 Hs1 K2 C2) as HD.
  pose proof (chunker_checks_imply_domain _ _ Hin2 Hs2 K1 C1) as CD.
  destruct (st_sizes s) as [[[kb|tk] [nb|tn]]|] eqn:ES; try discriminate; try (destruct (st_kdf s); discriminate).
  - destruct (st_kdf s) as [kdf|] eqn:EK; [|discriminate].
    destruct (st_derived s) eqn:ED; [|discriminate].
    destruct (st_encrypted_private s) eqn:EE; [|discriminate]. cbn [andb] in H. injection H as <-.
    destruct Hci as (ci & ECi & KC).
    destruct (I3 eq_refl) as (kb' & nb' & kdf' & pl & E1 & E2 & E3 & E4 & E5).
    destruct (I4 eq_refl) as (kb'' & nb'' & cfg'' & ci'' & F1 & F2 & F3 & F4).
    injection E1 as <- <-. injection E2 as <-. injection F1 as <- <-. injection F2 as <-.
    rewrite ECi in F3. injection F3 as <-.
    unfold usable. cbn [acc_config acc_key acc_pwlen k_kdf k_key_bytes k_nonce_bytes].
    rewrite K2, HD, K1, CD, ECi, E3, KC, F4, E4, E5. reflexivity.
  - injection H as <-. unfold usable. cbn [acc_config acc_key acc_pwlen].
    rewrite K2, HD, K1, CD, Hci. reflexivity.
Qed.
End Invariant.

Theorem accept_usable : forall pw s r, accept_std pw s = Some r -> usable r = true.
Proof.
  intros pw s r H. unfold accept_std, accept, init in H.
  destruct (run adapters key_bytes_expr nonce_bytes_expr init_steps (init_state pw s)) as [puts [sf|]] eqn:R; [|discriminate H].
  cbn [snd] in H.
  exact (Inv_result_usable _ _ _ _ (Inv_run _ _ _ _ _ _ (Inv_init _ _ pw s) R) H).
Qed.

Theorem accept_cli_usable : forall pw args r, accept_cli_std pw args = Some r -> usable r = true.
Proof.
  intros pw args r H. unfold accept_cli_std, accept_cli in H.
  destruct (parse_cli_settings args) as [[flat [|? ?]]|]; try discriminate.
  destruct (flat_to_nested flat) as [s|]; [|discriminate].
  exact (accept_usable _ _ _ H).
Qed.

(* ------------------------------------------------------------------ a rejected init writes nothing *)
Section Effects.
Variable table : list adapter.
Variable ke ne : expr.

Lemma do_step_puts : forall x s s', x <> SUploadConfig -> do_step table ke ne x s = Some s' -> st_puts s' = st_puts s.
Proof.
  intros x s s' Hx H. destruct x; cbn [do_step] in H; try congruence;
    repeat match type of H with
    | match ?c with _ => _ end = Some _ => destruct c; try discriminate H
    | (if ?c then _ else _) = Some _ => destruct c; try discriminate H
    | (let (_, _) := ?c in _) = Some _ => destruct c
    end; injection H as <-; reflexivity.
Qed.

Lemma run_app : forall a b s,
  run table ke ne (a ++ b) s =
  match run table ke ne a s with (_, Some s') => run table ke ne b s' | (p, None) => (p, None) end.
Proof.
  induction a as [|x a IH]; intros b s; cbn [app run]; [reflexivity|].
  destruct (do_step table ke ne x s); [apply IH|reflexivity].
Qed.

Lemma run_puts : forall pre s p s', ~ In SUploadConfig pre -> run table ke ne pre s = (p, Some s') -> st_puts s' = st_puts s /\ p = st_puts s.
Proof.
  induction pre as [|x r IH]; intros s p s' Hn H; cbn [run] in H.
  - injection H as <- <-. now split.
  - destruct (do_step table ke ne x s) as [s1|] eqn:E; [|discriminate].
    assert (x <> SUploadConfig) by (intros ->; apply Hn; now left).
    destruct (IH s1 p s' (fun Hi => Hn (or_intror Hi)) H) as [A B].
    rewrite (do_step_puts _ _ _ H0 E) in A, B. now split.
Qed.

(* generic in the steps before the upload: whenever the upload is the last step, a failure means no write *)
Theorem reject_untouched_generic : forall pre s puts,
  ~ In SUploadConfig pre -> run table ke ne (pre ++ [SUploadConfig]) s = (puts, None) -> puts = st_puts s.
Proof.
  induction pre as [|x r IH]; intros s puts Hn H.
  - cbn in H. discriminate.
  - cbn [app run] in H. destruct (do_step table ke ne x s) as [s1|] eqn:E.
    + assert (x <> SUploadConfig) by (intros ->; apply Hn; now left).
      rewrite (IH s1 puts (fun Hi => Hn (or_intror Hi)) H). exact (do_step_puts _ _ _ H0 E).
    + now injection H as <-.
Qed.
End Effects.

Lemma encrypt_then_result : forall ke ne s s1,
  Inv ke ne s -> do_step adapters ke ne SEncryptPrivate s = Some s1 -> exists r, result_of s1 = Some r.
Proof.
  intros ke ne s s1 I H. pose proof (Inv_step _ _ _ _ _ I H) as (J1 & J2 & J3 & J4).
  cbn [do_step] in H.
  destruct (st_instantiated s) eqn:EI; [|discriminate]. cbn [negb] in H.
  destruct (st_sizes s) as [[[kb|tk] [nb|tn]]|] eqn:ES; try discriminate.
  - destruct (st_cfg s) as [cfg|] eqn:EC; [|discriminate].
    destruct (c_cipher cfg) as [ci|]; [|discriminate].
    destruct (st_derived s) eqn:ED; [|discriminate]. cbn [andb] in H.
    destruct (aead_domain _ kb nb); [|discriminate]. injection H as <-.
    destruct I as (_ & _ & I3 & _). destruct (I3 ED) as (kb' & nb' & kdf & pl & E1 & E2 & _).
    unfold result_of. cbn. rewrite E2. eexists. reflexivity.
  - injection H as <-. destruct I as (_ & I2 & _). destruct (I2 EI) as (cfg & E1 & _).
    unfold result_of. rewrite E1, EI, ES. cbn. eexists. reflexivity.
Qed.

Lemma init_steps_split : init_steps = [SValidate; SMakeConfig; SInstantiateConfig; SMakeKey; SInstantiateKey] ++ [SEncryptPrivate] ++ [SUploadConfig].
Proof. reflexivity. Qed.

Lemma init_pre_no_upload : ~ In SUploadConfig [SValidate; SMakeConfig; SInstantiateConfig; SMakeKey; SInstantiateKey; SEncryptPrivate].
Proof. cbn. intros H. repeat (destruct H as [H|H]; [discriminate H|]). exact H. Qed.

(* the concrete init: either it fails and nothing was written, or it succeeds, yields a result and wrote exactly the config *)
Theorem init_outcomes : forall pw s puts res, init_std pw s = (puts, res) ->
  (res = None /\ puts = []) \/ (exists r, res = Some r /\ puts = ["config"]).
Proof.
  intros pw s puts res H. unfold init_std, init in H.
  destruct (run adapters key_bytes_expr nonce_bytes_expr init_steps (init_state pw s)) as [p [sf|]] eqn:R.
  - right.
    change init_steps with ([SValidate; SMakeConfig; SInstantiateConfig; SMakeKey; SInstantiateKey] ++ [SEncryptPrivate; SUploadConfig]) in R.
    rewrite run_app in R.
    destruct (run adapters key_bytes_expr nonce_bytes_expr [SValidate; SMakeConfig; SInstantiateConfig; SMakeKey; SInstantiateKey] (init_state pw s))
      as [p0 [s5|]] eqn:R5; [|discriminate].
    pose proof (Inv_run _ _ _ _ _ _ (Inv_init _ _ pw s) R5) as I5.
    assert (P5 : st_puts s5 = []).
    { refine (proj1 (run_puts _ _ _ _ _ _ _ _ R5)). cbn. intros Hc. repeat (destruct Hc as [Hc|Hc]; [discriminate Hc|]). exact Hc. }
    cbn [run] in R.
    destruct (do_step adapters key_bytes_expr nonce_bytes_expr SEncryptPrivate s5) as [s6|] eqn:E6; [|discriminate].
    destruct (encrypt_then_result _ _ _ _ I5 E6) as (r & Hr).
    assert (P6 : st_puts s6 = st_puts s5) by (apply (do_step_puts adapters key_bytes_expr nonce_bytes_expr SEncryptPrivate); [discriminate|exact E6]).
    cbn [do_step] in R. injection R as <- <-. injection H as <- <-.
    exists r. split; [|cbn; now rewrite P6, P5].
    rewrite <- Hr. unfold result_of. reflexivity.
  - left. injection H as <- <-. split; [reflexivity|].
    change init_steps with ([SValidate; SMakeConfig; SInstantiateConfig; SMakeKey; SInstantiateKey; SEncryptPrivate] ++ [SUploadConfig]) in R.
    exact (reject_untouched_generic _ _ _ _ _ _ init_pre_no_upload R).
Qed.

Theorem reject_untouched : forall pw s puts, init_std pw s = (puts, None) -> puts = [].
Proof.
  intros pw s puts H. destruct (init_outcomes _ _ _ _ H) as [[_ E]|(r & E & _)]; [exact E|discriminate].
Qed.

Theorem accept_writes_config_only : forall pw s puts r, init_std pw s = (puts, Some r) -> puts = ["config"].
Proof.
  intros pw s puts r H. destruct (init_outcomes _ _ _ _ H) as [[E _]|(r' & _ & E)]; [discriminate|exact E].
Qed.

Theorem accept_iff_init : forall pw s, accept_std pw s = snd (init_std pw s).
Proof. reflexivity. Qed.

(* add-key: an accepted key derivation setting lies in the KDF's domain *)
Theorem add_key_accept_usable : forall pw kb s kdf, add_key_accept_std pw kb s = Some kdf ->
  exists pl, pw = Some pl /\ has_kind KKdf (fst kdf) = true /\ kdf_domain (a_name (fst kdf)) (snd kdf) kb pl = true.
Proof.
  intros pw kb s kdf H. unfold add_key_accept_std, add_key_accept in H.
  destruct (negb _); [discriminate|]. destruct pw as [pl|]; [|discriminate].
  destruct (from_config adapters DEFAULT_USER_KDF_NAME _ _) as [k|]; [|discriminate].
  destruct (construct (fst k) (snd k)); [|discriminate]. cbn [andb] in H.
  destruct (has_kind KKdf (fst k)) eqn:E1; [|discriminate]. cbn [andb] in H.
  destruct (kdf_domain (a_name (fst k)) (snd k) kb pl) eqn:E2; [|discriminate].
  injection H as <-. exists pl. now repeat split.
Qed.
