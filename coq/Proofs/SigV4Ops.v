(* C16 - every request the adapter methods make is correctly signed; payload hash and length; the dot-segment refutation. *)
From Coq Require Import List NArith Bool String Lia Arith PeanoNat.
From Coq Require Import Strings.Byte.
From Replicat Require Import Model.SigV4Prims Model.SigV4 Model.SigV4Spec Proofs.SigV4Proofs Proofs.SigV4Main.
Import ListNotations.

Section Ops.
Variable sha256hex : bytes -> bytes.
Variable hmac : bytes -> bytes -> bytes.
Variable hex : bytes -> bytes.
(* the only thing assumed of the hash: a hex digest contains no space *)
Hypothesis sha256hex_no_space : forall x, no_space (sha256hex x) = true.
Variables self_host self_region self_key_id self_access_key self_url self_bucket_name : bytes.

(* the requests of the adapter's methods: upload hashes the data, upload_stream hashes what it reads from the stream *)
Inductive s3op :=
| OpExists (name : bytes) | OpUpload (name data : bytes) | OpUploadStream (name content : bytes) (length : N)
| OpDownload (name : bytes) | OpDownloadStream (name : bytes) | OpDelete (name : bytes)
| OpList (token : option bytes) (prefix : bytes).

Definition stream_digest (content : bytes) : bytes := sha256hex (List.concat (stream_chunks 640000%N content)).

Definition op_request (o : s3op) (ymd hms : bytes) : bytes * bytes * list (bytes * bytes) :=
  match o with
  | OpExists n => op_exists sha256hex hmac hex self_host self_region self_key_id self_access_key self_url self_bucket_name ymd hms n
  | OpUpload n d => op_put_object sha256hex hmac hex self_host self_region self_key_id self_access_key self_url self_bucket_name ymd hms n d (sha256hex d)
  | OpUploadStream n c len => op_put_object_stream sha256hex hmac hex self_host self_region self_key_id self_access_key self_url self_bucket_name ymd hms n len (stream_digest c)
  | OpDownload n => op_download sha256hex hmac hex self_host self_region self_key_id self_access_key self_url self_bucket_name ymd hms n
  | OpDownloadStream n => op_download_stream sha256hex hmac hex self_host self_region self_key_id self_access_key self_url self_bucket_name ymd hms n
  | OpDelete n => op_delete sha256hex hmac hex self_host self_region self_key_id self_access_key self_url self_bucket_name ymd hms n
  | OpList t p => op_list_objects sha256hex hmac hex self_host self_region self_key_id self_access_key self_url self_bucket_name ymd hms (list_objects_query t p)
  end.

Definition op_uri (o : s3op) : bytes :=
  match o with
  | OpExists n | OpUpload n _ | OpUploadStream n _ _ | OpDownload n | OpDownloadStream n | OpDelete n => b "/" ++ self_bucket_name ++ b "/" ++ n
  | OpList _ _ => b "/" ++ self_bucket_name
  end.

(* the decidable guard: no "." / ".." segment in the quoted path; header values without spaces; %Y%m%d has 8 characters *)
Definition op_guard (o : s3op) (ymd hms : bytes) (extra : list (bytes * bytes)) : bool :=
  no_dot_segments (py_quote (b "/") (op_uri o)) && no_space self_host && no_space ymd && Nat.eqb (List.length ymd) 8
  && no_space hms && extra_ok extra.

Lemma signed_request : forall method uri query digest headers ymd hms extra,
  request_ok self_host ymd hms uri query digest headers extra ->
  let w := wire_of self_url extra (the_request sha256hex hmac hex self_host self_region self_key_id self_access_key self_url
                                               ymd hms method uri query digest headers) in
  authorization_on_wire w = authorization_spec sha256hex hmac hex w signed3 self_key_id self_access_key self_region (b "s3")
  /\ must_sign (w_headers w) = signed3.
Proof.
  intros method uri query digest headers ymd hms extra Hok. cbv zeta. split.
  - apply authorization_correct. exact Hok.
  - destruct Hok as [_ Hq Hh _ _ _ _ He]. destruct Hq as [-> | (Ht & _)].
    + rewrite the_request_no_query by exact Hh. unfold wire_of. cbn [w_headers]. apply required_headers_signed; assumption.
    + rewrite the_request_query by assumption. unfold wire_of. cbn [w_headers]. apply required_headers_signed; assumption.
Qed.

Theorem every_operation_signed : forall o ymd hms extra, op_guard o ymd hms extra = true ->
  let w := wire_of self_url extra (op_request o ymd hms) in
  authorization_on_wire w = authorization_spec sha256hex hmac hex w signed3 self_key_id self_access_key self_region (b "s3")
  /\ must_sign (w_headers w) = signed3.
Proof.
  intros o ymd hms extra G. unfold op_guard in G.
  apply andb_prop in G; destruct G as [G Gextra].
  apply andb_prop in G; destruct G as [G Ghms].
  apply andb_prop in G; destruct G as [G Glen].
  apply andb_prop in G; destruct G as [G Gymd].
  apply andb_prop in G; destruct G as [Gdots Ghost]. apply Nat.eqb_eq in Glen.
  assert (Hok : forall query digest headers, query_ok query -> headers_ok headers -> no_space digest = true ->
                request_ok self_host ymd hms (op_uri o) query digest headers extra).
  { intros. constructor; auto. }
  destruct o; cbn [op_request op_uri] in *;
    unfold op_exists, op_put_object, op_put_object_stream, op_download, op_download_stream, op_delete, op_list_objects, empty_payload_digest;
    apply signed_request; apply Hok; try apply sha256hex_no_space;
    try (left; reflexivity); try (right; eexists; reflexivity).
  right. destruct (list_query_sorted token prefix) as (A & B & C). split; [exact C|split; assumption].
Qed.
End Ops.

(* ------------------------------------------------------------------ the declared payload hash and length *)
Lemma read_chunks_concat : forall fuel n content, 0 < n -> List.length content < fuel ->
  List.concat (read_chunks fuel n content) = content.
Proof.
  induction fuel as [|f IH]; intros n content Hn Hlen; [lia|].
  destruct content as [|x c]; destruct n as [|m]; try lia.
  - reflexivity.
  - cbn [read_chunks firstn skipn List.concat]. rewrite IH.
    + cbn [app]. f_equal. apply firstn_skipn.
    + lia.
    + cbn [List.length] in Hlen. pose proof (skipn_length m c). lia.
Qed.

(* both passes over the stream (hashing in blocks of 640000 bytes, then sending in blocks of any chunk size > 0)
   see exactly the stream's content *)
Lemma stream_passes_agree : forall (cs : N) content, (0 < cs)%N ->
  List.concat (stream_chunks 640000 content) = content /\ List.concat (stream_chunks cs content) = content.
Proof.
  intros cs content Hcs. unfold stream_chunks. split; apply read_chunks_concat; try lia.
Qed.

Section Payload.
Variable sha256hex : bytes -> bytes.
Variable hmac : bytes -> bytes -> bytes.
Variable hex : bytes -> bytes.
Variables self_host self_region self_key_id self_access_key self_url self_bucket_name : bytes.
Notation req o ymd hms := (op_request sha256hex hmac hex self_host self_region self_key_id self_access_key self_url self_bucket_name o ymd hms).

(* upload(name, data): body = data; the request declares sha256(data) and len(data) *)
Theorem upload_declares_payload : forall name data ymd hms,
  snd (req (OpUpload name data) ymd hms)
  = [ (b "content-length", py_str_len data); (b "host", self_host); (b "x-amz-content-sha256", sha256hex data);
      (b "x-amz-date", amz_date ymd hms);
      (b "authorization", code_authorization sha256hex hmac hex self_host self_region self_key_id self_access_key ymd hms (b "PUT")
                             (b "/" ++ self_bucket_name ++ b "/" ++ name) [] (sha256hex data)) ].
Proof. reflexivity. Qed.

(* upload_stream(name, stream, length, chunk_size) on a stream positioned at 0: the body is the concatenation of the
   chunks of the second pass; the digest declared is the digest of that body; content-length is str(length) *)
Theorem upload_stream_declares_payload : forall name content length (cs : N) ymd hms, (0 < cs)%N ->
  let body := List.concat (stream_chunks cs content) in
  body = content /\
  snd (req (OpUploadStream name content length) ymd hms)
  = [ (b "content-length", py_str_N length); (b "host", self_host); (b "x-amz-content-sha256", sha256hex body);
      (b "x-amz-date", amz_date ymd hms);
      (b "authorization", code_authorization sha256hex hmac hex self_host self_region self_key_id self_access_key ymd hms (b "PUT")
                             (b "/" ++ self_bucket_name ++ b "/" ++ name) [] (sha256hex body)) ].
Proof.
  intros name content length cs ymd hms Hcs. cbv zeta.
  destruct (stream_passes_agree cs content Hcs) as [H1 H2]. split; [exact H2|].
  rewrite H2. cbn [op_request]. unfold stream_digest. rewrite H1. reflexivity.
Qed.
End Payload.

Lemma py_str_N_examples : map (fun n => string_of_list_byte (py_str_N n)) [0; 7; 10; 99; 100; 65535; 20000; 1234567890]%N
                          = ["0"; "7"; "10"; "99"; "100"; "65535"; "20000"; "1234567890"]%string.
Proof. vm_compute. reflexivity. Qed.

(* ------------------------------------------------------------------ "." and ".." segments: signed as written, sent collapsed *)
Definition tag_hash (x : bytes) : bytes := b "H(" ++ x ++ b ")".
Definition tag_hmac (k m : bytes) : bytes := b "M(" ++ k ++ b "," ++ m ++ b ")".

Theorem dot_segment_refuted :
  exists (sha256hex : bytes -> bytes) (hmac : bytes -> bytes -> bytes) (hex : bytes -> bytes)
         (host region key_id secret url bucket name ymd hms : bytes),
    let o := OpExists name in
    op_guard host bucket o ymd hms [] = false /\
    no_dot_segments (py_quote (b "/") (op_uri bucket o)) = false /\
    let w := wire_of url [] (op_request sha256hex hmac hex host region key_id secret url bucket o ymd hms) in
    w_target w = b "/bkt/b" /\
    authorization_on_wire w <> authorization_spec sha256hex hmac hex w signed3 key_id secret region (b "s3").
Proof.
  exists tag_hash, tag_hmac, (fun x => x), (b "s3.example.com"), (b "us-east-1"), (b "AK"), (b "SK"), (b "https://s3.example.com"),
         (b "bkt"), (b "a/../b"), (b "20240101"), (b "000000").
  cbv zeta. split; [vm_compute; reflexivity|]. split; [vm_compute; reflexivity|]. split; [vm_compute; reflexivity|].
  vm_compute. intro H. discriminate H.
Qed.
