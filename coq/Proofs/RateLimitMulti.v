(* C20 - several streams on one limiter.  The refutation for slow, overlapping underlying I/O. *)
From Coq Require Import QArith Lqa List Bool ZArith.
From Replicat Require Import Model.RateLimit Proofs.RateLimitProofs.
Import ListNotations.
Open Scope Q_scope.

(* two threads; each underlying read of 32 bytes takes 32/1024 s (so neither ever owes anything)
   and the two reads overlap in wall time *)
Definition slow_trace (k : nat) : list mcall :=
  flat_map (fun i => let b := inject_Z (Z.of_nat i) * (1 # 32) in
     [ {| m_thread := 0%nat; m_begin := b; m_lat := 1 # 32; m_size := 32; m_lock := b + (1 # 32) |};
       {| m_thread := 1%nat; m_begin := b; m_lat := 1 # 32; m_size := 32; m_lock := b + (1 # 32) |} ]) (seq 0 k).

Definition msize_ok (dmax : Q) (c : mcall) : bool := Qle_bool 0 (m_size c) && Qle_bool (m_size c) dmax.

(* limit 1024 B/s, 2 concurrent streams, chunk size 1024 // (16*2) = 32, PAUSE_LIMIT 1/2, threshold 1/4:
   a valid schedule passes 2048 bytes in a window of 1 s; the bound L*T + L*PAUSE_LIMIT + (n+1)*dmax is 1632 *)
Lemma multi_stream_slow_io_refuted_witness :
  let L := 1024 in let PL := 1 # 2 in let TH := 1 # 4 in let dmax := 32 in let n := 2 in
  let cs := slow_trace 32 in
  mvalid PL TH L mstate0 cs = true /\ forallb (msize_ok dmax) cs = true /\
  forallb (fun c => Nat.ltb (m_thread c) 2) cs = true /\
  Forall (fun ev => ev_sleep ev == 0) (mrun PL TH L mstate0 cs) /\
  window_bytes 0 1 (mrun PL TH L mstate0 cs) == 2048 /\
  L * 1 + L * PL + (n + 1) * dmax == 1632.
Proof.
  cbv zeta. split; [vm_compute; reflexivity|]. split; [vm_compute; reflexivity|]. split; [vm_compute; reflexivity|].
  split; [|split; vm_compute; reflexivity].
  apply Forall_forall. intros ev Hin.
  assert (H : forallb (fun ev => Qeq_bool (ev_sleep ev) 0) (mrun (1 # 2) (1 # 4) 1024 mstate0 (slow_trace 32)) = true)
    by (vm_compute; reflexivity).
  rewrite forallb_forall in H. apply Qeq_bool_iff. apply H. exact Hin.
Qed.

Theorem multi_stream_slow_io_refuted :
  exists (PL TH L dmax T t : Q) (n : nat) (cs : list mcall),
    TH + (1 # 4) <= PL /\ 0 < L /\ dmax <= L * (1 # 4) /\ 0 <= T /\
    mvalid PL TH L mstate0 cs = true /\ forallb (msize_ok dmax) cs = true /\
    forallb (fun c => Nat.ltb (m_thread c) n) cs = true /\
    ~ window_bytes t T (mrun PL TH L mstate0 cs) <= L * T + L * PL + (inject_Z (Z.of_nat n) + 1) * dmax.
Proof.
  exists (1 # 2), (1 # 4), 1024, 32, 1, 0, 2%nat, (slow_trace 32).
  destruct multi_stream_slow_io_refuted_witness as (H1 & H2 & H3 & _ & H5 & H6).
  repeat split; try assumption; try (apply Qle_bool_iff; reflexivity); try reflexivity.
  intro H. rewrite H5 in H.
  assert (E : 1024 * 1 + 1024 * (1 # 2) + (inject_Z (Z.of_nat 2) + 1) * 32 == 1632) by (vm_compute; reflexivity).
  rewrite E in H. apply Qle_bool_iff in H. vm_compute in H. discriminate.
Qed.
