(* B1 tie: the order of open / write / close / rename found in Local.upload and Local.upload_stream of the working tree
   (Gen/LocalBufGen.v) is the skeleton the atomicity theorem is about. *)
From Coq Require Import List.
From Replicat Require Import Model.LocalBuf Proofs.LocalBufProofs Gen.LocalBufGen.
Import ListNotations.

Lemma gen_upload_stream_is_skeleton : forall (byte : Type) (pieces : list (list byte)),
  gen_upload_stream_ops pieces = skeleton byte pieces.
Proof. reflexivity. Qed.
Lemma gen_upload_is_skeleton : forall (byte : Type) (data : list byte), gen_upload_ops data = skeleton byte [data].
Proof. reflexivity. Qed.

(* the translated code, with flushes wherever the library / OS puts them, killed anywhere *)
Theorem translated_upload_stream_atomic : forall (byte : Type) (pieces : list (list byte)) l,
  unflush byte l = gen_upload_stream_ops pieces ->
  forall p q, l = p ++ q -> visible _ (exec byte p) = None \/ visible _ (exec byte p) = Some (concat pieces).
Proof. intros byte ps l U. rewrite gen_upload_stream_is_skeleton in U. exact (skeleton_with_any_flushes_atomic byte ps l U). Qed.
Theorem translated_upload_atomic : forall (byte : Type) (data : list byte) l,
  unflush byte l = gen_upload_ops data ->
  forall p q, l = p ++ q -> visible _ (exec byte p) = None \/ visible _ (exec byte p) = Some data.
Proof.
  intros byte d l U p q E. rewrite gen_upload_is_skeleton in U.
  pose proof (skeleton_with_any_flushes_atomic byte [d] l U p q E) as H. cbn [concat] in H. rewrite app_nil_r in H. exact H.
Qed.
Lemma temp_is_hidden_sibling : gen_temp_is_hidden_sibling = true.
Proof. reflexivity. Qed.
