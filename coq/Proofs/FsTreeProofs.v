From Coq Require Import List Arith Lia Bool.
From Replicat Require Import Model.Stream Model.FsTree.
Import ListNotations.

Section P.
Context {B : Type}.
Variable zero : B.

Lemma upd_same (f : @fs B) p c : upd f p c p = Some c.
Proof. unfold upd. rewrite Nat.eqb_refl. reflexivity. Qed.
Lemma upd_other (f : @fs B) p c q : q <> p -> upd f p c q = f q.
Proof. intros H. unfold upd. destruct (Nat.eqb_spec q p); [contradiction|reflexivity]. Qed.

(* untouched paths *)
Lemma restore_all_frame chunks : forall items (f : @fs B) q,
  ~ In q (map (fun it : item => fst (fst it)) items) -> restore_all zero chunks items f q = f q.
Proof.
  induction items as [|[[p m] order] items IH]; intros f q Hq; [reflexivity|].
  unfold restore_all in *. cbn [fold_left map fst] in *.
  rewrite IH by (intros H; apply Hq; right; exact H).
  cbn [restore_item]. apply upd_other. intros E. apply Hq. left. symmetry. exact E.
Qed.

(* TREE ROUND TRIP: distinct restore paths; each item restores its file whatever the path held
   (the premise is what C01_restore_every_file provides per file); result: every restored path holds
   exactly its file, every other path is unchanged *)
Theorem restore_tree chunks : forall (items : list item) (files : list (list B)) (f : @fs B),
  NoDup (map (fun it : item => fst (fst it)) items) ->
  Forall2 (fun (it : item) file => forall pre, restore_file zero chunks (snd (fst it)) (snd it) pre = file) items files ->
  Forall2 (fun (it : item) file => restore_all zero chunks items f (fst (fst it)) = Some file) items files /\
  (forall q, ~ In q (map (fun it : item => fst (fst it)) items) -> restore_all zero chunks items f q = f q).
Proof.
  intros items files f Hnd Hall. split; [|intros q Hq; apply restore_all_frame; exact Hq].
  revert f Hnd. induction Hall as [|[[p m] order] file items files Hit _ IH]; intros f Hnd; [constructor|].
  cbn [map fst] in Hnd. inversion Hnd as [|? ? Hp Hnd']; subst.
  constructor.
  - unfold restore_all. cbn [fold_left fst snd].
    change (fold_left (restore_item zero chunks) items (restore_item zero chunks f (p, m, order)) p)
      with (restore_all zero chunks items (restore_item zero chunks f (p, m, order)) p).
    rewrite restore_all_frame by exact Hp. cbn [restore_item]. rewrite upd_same.
    f_equal. apply (Hit (content f p)).
  - unfold restore_all. cbn [fold_left]. apply IH. exact Hnd'.
Qed.
Lemma forall2_lookup_agree (g h : @fs B) : forall (items : list item) (files : list (list B)) q,
  Forall2 (fun (it : @item B) file => g (fst (fst it)) = Some file) items files ->
  Forall2 (fun (it : @item B) file => h (fst (fst it)) = Some file) items files ->
  In q (map (fun it : @item B => fst (fst it)) items) -> g q = h q.
Proof.
  intros items files q H1. induction H1 as [|it file its fls Hg _ IH]; intros H2 Hin; [destruct Hin|].
  inversion H2 as [|? ? ? ? Hh H2']; subst.
  cbn [map] in Hin. destruct Hin as [E|Hin].
  - subst q. rewrite Hg, Hh. reflexivity.
  - apply IH; assumption.
Qed.

(* IDEMPOTENCE: restoring the same snapshot a second time into the result changes no path at all *)
Theorem restore_tree_idempotent chunks : forall (items : list item) (files : list (list B)) (f : @fs B),
  NoDup (map (fun it : item => fst (fst it)) items) ->
  Forall2 (fun (it : item) file => forall pre, restore_file zero chunks (snd (fst it)) (snd it) pre = file) items files ->
  forall q, restore_all zero chunks items (restore_all zero chunks items f) q = restore_all zero chunks items f q.
Proof.
  intros items files f Hnd Hall q.
  destruct (in_dec Nat.eq_dec q (map (fun it : item => fst (fst it)) items)) as [Hin|Hout].
  - destruct (restore_tree chunks items files f Hnd Hall) as [H1 _].
    destruct (restore_tree chunks items files (restore_all zero chunks items f) Hnd Hall) as [H2 _].
    exact (forall2_lookup_agree _ _ items files q H2 H1 Hin).
  - rewrite restore_all_frame by exact Hout. reflexivity.
Qed.
End P.
