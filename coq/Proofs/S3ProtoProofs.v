(* S3: the adapter's list loop returns exactly the keys with the prefix, for any page size >= 1 and any
   number of objects and pages; and the adapter over the service model refines the Store specification
   for every operation history. *)
From Coq Require Import List NArith Bool Arith Lia Sorted.
From Replicat Require Import Model.Store Model.S3Proto Proofs.StoreProofs.
Import ListNotations.

Lemma filter_length_le' : forall {A} (f : A -> bool) l, (length (filter f l) <= length l)%nat.
Proof. intros A f l. induction l as [|a l IH]; cbn; [lia|]. destruct (f a); cbn; lia. Qed.

Section S3Proofs.
  Context {K P : Type}.
  Variable cmp : K -> K -> comparison.
  Variable matches : P -> K -> bool.
  Hypothesis ord : total_order cmp.

  Lemma s3c_list_loop_spec : forall ps p (svc : s3svc), (1 <= ps)%nat -> ksorted cmp svc ->
    forall fuel done rest acc pages,
      filter (matches p) (map fst svc) = done ++ rest ->
      (length rest < fuel)%nat ->
      exists n, s3c_list_loop cmp matches fuel ps p svc (last_opt done) acc pages = Some (acc ++ rest, n).
  Proof.
    intros ps p svc Hps Hsorted.
    induction fuel as [|fuel IH]; intros done rest acc pages Hks Hfuel; [lia|].
    cbn [s3c_list_loop]. unfold s3_list_page. cbv zeta. cbn [pg_keys pg_truncated pg_next].
    assert (Hrest : match last_opt done with
                    | None => filter (matches p) (map fst svc)
                    | Some t => filter (clt cmp t) (filter (matches p) (map fst svc))
                    end = rest).
    { destruct (last_opt done) as [t|] eqn:El.
      - rewrite Hks. apply (filter_clt_last cmp ord); auto.
        rewrite <- Hks. apply sorted_filter. exact Hsorted.
      - destruct done; [exact Hks|discriminate]. }
    rewrite Hrest.
    destruct (Nat.ltb ps (length rest)) eqn:Elt.
    - apply Nat.ltb_lt in Elt.
      destruct (last_opt (firstn ps rest)) as [t'|] eqn:Elp.
      2:{ exfalso. destruct rest; cbn in Elt; [lia|]. destruct ps; [lia|]. discriminate. }
      assert (Hne : firstn ps rest <> []) by (intro E; rewrite E in Elp; discriminate).
      specialize (IH (done ++ firstn ps rest) (skipn ps rest) (acc ++ firstn ps rest) (S pages)).
      rewrite (last_opt_app_nonempty done _ Hne), Elp in IH.
      destruct IH as [n Hn].
      + rewrite <- app_assoc, firstn_skipn. exact Hks.
      + rewrite skipn_length. lia.
      + exists n. rewrite Hn. rewrite <- app_assoc, firstn_skipn. reflexivity.
    - apply Nat.ltb_ge in Elt. exists (S pages). rewrite firstn_all2 by lia. reflexivity.
  Qed.

  (* list_files p = exactly the keys with prefix p, in key order, for every page size >= 1 *)
  Theorem s3_list_exact : forall ps p (svc : s3svc), (1 <= ps)%nat -> ksorted cmp svc ->
    exists n, s3c_list cmp matches ps p svc = Some (filter (matches p) (map fst svc), n).
  Proof.
    intros ps p svc Hps Hs. unfold s3c_list.
    destruct (s3c_list_loop_spec ps p svc Hps Hs (S (length svc)) [] (filter (matches p) (map fst svc)) [] 0%nat) as [n Hn].
    - reflexivity.
    - pose proof (filter_length_le' (matches p) (map fst svc)) as Hl. rewrite map_length in Hl. lia.
    - exists n. exact Hn.
  Qed.

  (* ---- refinement of the Store specification *)
  Definition s3_rel (svc : s3svc) (st : @store K) : Prop :=
    ksorted cmp svc /\ NoDup (map fst st) /\ forall k, alookup (ceq cmp) k svc = alookup (ceq cmp) k st.

  Lemma s3_commute : forall ps, (1 <= ps)%nat -> forall (o : op K P) svc st, True -> s3_rel svc st ->
    s3_rel (fst (s3c_step cmp matches ps o svc)) (fst (spec_step (ceq cmp) matches (id o) st)) /\
    obs_equiv (snd (s3c_step cmp matches ps o svc)) (snd (spec_step (ceq cmp) matches (id o) st)).
  Proof.
    intros ps Hps o svc st _ (Hs & Hnd & Hl).
    pose proof (ceq_spec cmp ord) as Hceq.
    assert (Hput : forall k v, s3_rel (sinsert cmp k v svc) (aput (ceq cmp) k v st)).
    { intros k v. repeat split.
      - apply sinsert_sorted; auto.
      - apply NoDup_keys_aput; auto.
      - intro j. rewrite (alookup_sinsert cmp ord), (alookup_aput _ Hceq), Hl. reflexivity. }
    assert (Hget : forall k, (match alookup (ceq cmp) k svc with Some d => R200 d | None => R404 end) =
                             (match alookup (ceq cmp) k st with Some d => R200 d | None => R404 end)).
    { intro k. rewrite Hl. reflexivity. }
    unfold id. destruct o as [k v|k v|k|k|k|k|p]; cbn [s3c_step spec_step s3_serve fst snd].
    - split; [apply Hput|reflexivity].
    - split; [apply Hput|reflexivity].
    - split; [|reflexivity]. repeat split.
      + apply aremove_sorted; auto.
      + apply NoDup_keys_aremove; auto.
      + intro j. rewrite !(alookup_aremove _ Hceq), Hl. reflexivity.
    - split; [repeat split; auto|]. rewrite Hl. destruct (alookup (ceq cmp) k st); reflexivity.
    - split; [repeat split; auto|]. rewrite Hl. destruct (alookup (ceq cmp) k st); reflexivity.
    - split; [repeat split; auto|]. rewrite Hl. destruct (alookup (ceq cmp) k st); reflexivity.
    - split; [repeat split; auto|].
      destruct (s3_list_exact ps p svc Hps Hs) as [n Hn]. rewrite Hn. cbn [obs_equiv]. split.
      + apply NoDup_filter. apply (ksorted_NoDup cmp ord). exact Hs.
      + intro k. rewrite !filter_In. rewrite !(In_keys_alookup _ Hceq). rewrite Hl. reflexivity.
  Qed.

  (* for every operation history the adapter over the S3 service model answers as the plain map does *)
  Theorem s3_refines_store : forall ps, (1 <= ps)%nat -> forall ops : list (op K P),
    Forall2 obs_equiv (run (s3c_step cmp matches ps) ops []) (run (spec_step (ceq cmp) matches) ops []).
  Proof.
    intros ps Hps ops.
    rewrite <- (map_id ops) at 2.
    apply (run_refine _ _ id s3_rel obs_equiv (fun _ => True)).
    - intros o s1 s2 Hok HR. apply s3_commute; auto.
    - apply Forall_forall. auto.
    - repeat split; constructor.
  Qed.

  (* delete is idempotent; upload replaces (corollaries on the service model) *)
  Lemma s3_delete_idempotent : forall ps k (svc : s3svc),
    fst (s3c_step cmp matches ps (Delete k) (fst (s3c_step cmp matches ps (Delete k) svc))) =
    fst (s3c_step cmp matches ps (Delete k) svc).
  Proof.
    intros ps k svc. cbn. induction svc as [|[k' v] t IH]; cbn; auto.
    destruct (ceq cmp k k') eqn:E; auto. cbn. rewrite E. f_equal. exact IH.
  Qed.
End S3Proofs.
