(* C01 assembly: snapshot manifest + restore plan reproduce every file, for every chunking,
   completion order, write order and pre-existing target content. *)
From Coq Require Import List Arith Lia Bool Permutation Sorting.Sorted.
From Replicat Require Import Lib.ListX Model.Stream Model.Dedup Proofs.StreamProofs.
Import ListNotations.

Section RoundTrip.
Context {B : Type}.
Variable zero : B.

Lemma plan_writes (chunks : list (list B)) : forall rs pos,
  Forall (fun r => length (slice_of chunks r) = r_end r - r_start r) rs ->
  map (fun pr => (fst pr, slice_of chunks (snd pr))) (plan_from pos rs)
  = writes_from pos (map (slice_of chunks) rs).
Proof.
  induction rs as [|r t IH]; intros pos Hf; cbn [plan_from map writes_from]; [reflexivity|].
  inversion Hf as [|? ? Hr Ht]; subst. cbn [fst snd]. f_equal. rewrite Hr. apply IH. exact Ht.
Qed.

Lemma plan_size_perm m1 m2 : Permutation m1 m2 -> plan_size m1 = plan_size m2.
Proof.
  induction 1 as [|x l l' _ IH|x y l|l l' l'' _ IH1 _ IH2]; cbn [plan_size fold_right] in *; try lia.
  fold (plan_size l) in *. fold (plan_size l') in *. lia.
Qed.

Lemma plan_size_slices (chunks : list (list B)) : forall rs,
  Forall (fun r => length (slice_of chunks r) = r_end r - r_start r) rs ->
  plan_size rs = length (concat (map (slice_of chunks) rs)).
Proof.
  induction rs as [|r t IH]; intros Hf; [reflexivity|].
  inversion Hf as [|? ? Hr Ht]; subst. cbn [plan_size fold_right map concat].
  rewrite app_length, Hr. fold (plan_size t). rewrite IH by exact Ht. reflexivity.
Qed.

(* dropping refs whose range is empty does not change the concatenation *)
Lemma concat_filter_nonempty (chunks : list (list B)) (keep : ref -> bool) : forall rs,
  Forall (fun r => length (slice_of chunks r) = r_end r - r_start r) rs ->
  (forall r, In r rs -> keep r = false -> r_end r <= r_start r) ->
  concat (map (slice_of chunks) (filter keep rs)) = concat (map (slice_of chunks) rs).
Proof.
  induction rs as [|r t IH]; intros Hf Hk; [reflexivity|].
  inversion Hf as [|? ? Hr Ht]; subst. cbn [filter map concat].
  destruct (keep r) eqn:E; cbn [map concat].
  - f_equal. apply IH; [exact Ht|]. intros r' Hr' Hk'. apply Hk; [right; exact Hr'|exact Hk'].
  - assert (Hz : slice_of chunks r = []).
    { apply length_zero_iff_nil. rewrite Hr. specialize (Hk r (or_introl eq_refl) E). lia. }
    rewrite Hz. cbn [app]. apply IH; [exact Ht|]. intros r' Hr' Hk'. apply Hk; [right; exact Hr'|exact Hk'].
Qed.

(* slices of the refs of one file have the announced lengths *)
Lemma refs_slice_lengths (chunks : list (list B)) fs fe : fs <= fe ->
  Forall (fun r => length (slice_of chunks r) = r_end r - r_start r)
         (refs_of (fs, fe) (map (@length B) chunks)).
Proof.
  intros Hle. apply Forall_forall. intros r Hr. unfold refs_of in Hr. cbn [fst snd] in Hr.
  destruct (refs_from_wf _ _ _ _ _ _ Hle Hr) as [H1 [H2 [H3 H4]]].
  apply slice_length; [exact H1|]. unfold chunk_at.
  replace 0 with (@length B []) in H4 by reflexivity. rewrite map_nth in H4. exact H4.
Qed.

(* ONE FILE.  chunks: any list of byte strings (the chunker's output); the file occupies
   [fs, fe) of their concatenation; m: the manifest entry of the file as left by ANY completion
   order, possibly without some refs of empty range; order: the writes in ANY order (any list with
   the same elements); pre: ANY pre-existing content of the target. *)
Theorem restore_one_file (chunks : list (list B)) (fs fe : nat) (f : list B)
        (keep : ref -> bool) (m : list ref) (order : list (nat * list B)) (pre : list B) :
  fs <= fe ->
  sub (concat chunks) fs fe = f ->
  (forall r, In r (refs_of (fs, fe) (map (@length B) chunks)) -> keep r = false -> r_end r <= r_start r) ->
  Permutation m (filter keep (refs_of (fs, fe) (map (@length B) chunks))) ->
  (forall w, In w order <-> In w (writes_of chunks m)) ->
  restore_file zero chunks m order pre = f.
Proof.
  intros Hle Hsub Hkeep Hperm Horder.
  set (refs := refs_of (fs, fe) (map (@length B) chunks)) in *.
  assert (Hsorted : StronglySorted cnt_lt refs) by (apply refs_from_sorted).
  assert (Hlen : Forall (fun r => length (slice_of chunks r) = r_end r - r_start r) refs)
    by (apply refs_slice_lengths; exact Hle).
  assert (Hlenk : Forall (fun r => length (slice_of chunks r) = r_end r - r_start r) (filter keep refs)).
  { rewrite Forall_forall in *. intros r Hr. apply filter_In in Hr as [Hr _]. auto. }
  assert (Hsort : sort_refs m = filter keep refs) by (apply sort_refs_of_perm; assumption).
  assert (Hcat : concat (map (slice_of chunks) (filter keep refs)) = f).
  { rewrite concat_filter_nonempty by assumption. unfold refs.
    rewrite refs_tile by exact Hle. exact Hsub. }
  assert (Hwrites : writes_of chunks m = writes_from 0 (map (slice_of chunks) (filter keep refs))).
  { unfold writes_of, plan. rewrite Hsort. apply plan_writes. exact Hlenk. }
  assert (Hsize : plan_size m = length f).
  { rewrite (plan_size_perm _ _ Hperm). rewrite (plan_size_slices chunks) by exact Hlenk.
    rewrite Hcat. reflexivity. }
  unfold restore_file. rewrite Hsize.
  pose proof (writes_from_consistent zero (map (slice_of chunks) (filter keep refs)) []) as Hcons.
  cbn [app length] in Hcons. rewrite Hcat in Hcons.
  apply writes_restore.
  - apply Forall_forall. intros w Hw. apply Horder in Hw. rewrite Hwrites in Hw.
    rewrite Forall_forall in Hcons. auto.
  - intros i Hi.
    assert (Hc : existsb (fun w => covers w i) (writes_from 0 (map (slice_of chunks) (filter keep refs))) = true)
      by (apply writes_from_cover; [lia | rewrite Hcat; cbn; exact Hi]).
    apply existsb_exists in Hc as [w [Hw Hc]]. apply existsb_exists. exists w. split; [|exact Hc].
    apply Horder. rewrite Hwrites. exact Hw.
Qed.

(* ALL FILES of a snapshot: every file of the list, for every alignment and lossless chunking *)
Theorem restore_every_file (a : nat) (files : list (list B)) (chunks : list (list B)) :
  concat chunks = stream zero a files ->
  Forall2 (fun e f =>
     forall keep m order pre,
       (forall r, In r (refs_of e (map (@length B) chunks)) -> keep r = false -> r_end r <= r_start r) ->
       Permutation m (filter keep (refs_of e (map (@length B) chunks))) ->
       (forall w, In w order <-> In w (writes_of chunks m)) ->
       restore_file zero chunks m order pre = f)
    (extents a 0 (map (@length B) files)) files.
Proof.
  intros Hlossless.
  pose proof (stream_extents zero a files []) as Hext. cbn [app length] in Hext.
  eapply Forall2_imp; [|exact Hext].
  intros [fs fe] f [Hsub Hle] keep m order pre Hkeep Hperm Horder. cbn [fst snd] in *.
  eapply restore_one_file; try eassumption. rewrite Hlossless. exact Hsub.
Qed.

(* the manifest of the model (all refs, counter order) is one admissible manifest *)
Corollary restore_model_manifest (a : nat) (files chunks : list (list B)) :
  concat chunks = stream zero a files ->
  Forall2 (fun m f => forall pre, restore_file zero chunks m (writes_of chunks m) pre = f)
          (manifest a (map (@length B) files) (map (@length B) chunks)) files.
Proof.
  intros Hl. pose proof (restore_every_file a files chunks Hl) as H.
  unfold manifest. apply Forall2_map_l. eapply Forall2_imp; [|exact H].
  intros e f Hfe pre. apply (Hfe (fun _ => true)).
  - intros r _ E. discriminate E.
  - rewrite filter_true. apply Permutation_refl.
  - intros w. reflexivity.
Qed.

End RoundTrip.

(* ------------------------------------------------------------------ chunk table *)
Section Table.
Context {D : Type}.
Variable deqb : D -> D -> bool.
Hypothesis deqb_eq : forall x y, deqb x y = true <-> x = y.

Lemma memd_In d l : memd deqb d l = true <-> In d l.
Proof.
  unfold memd. rewrite existsb_exists. split.
  - intros [x [Hx E]]. apply deqb_eq in E. subst. exact Hx.
  - intros H. exists d. split; [exact H | apply deqb_eq; reflexivity].
Qed.

Lemma fold_add_spec : forall ds t, NoDup t ->
  NoDup (fold_left (add_digest deqb) ds t) /\
  (forall d, In d (fold_left (add_digest deqb) ds t) <-> In d t \/ In d ds).
Proof.
  induction ds as [|x ds IH]; intros t Ht; cbn [fold_left].
  - split; [exact Ht|]. intros d. cbn. tauto.
  - assert (Ht' : NoDup (add_digest deqb t x) /\ (forall d, In d (add_digest deqb t x) <-> In d t \/ d = x)).
    { unfold add_digest. destruct (memd deqb x t) eqn:E.
      - apply memd_In in E. split; [exact Ht|]. intros d. split; [tauto|]. intros [H| ->]; assumption.
      - assert (~ In x t) by (intros H; apply memd_In in H; congruence).
        split.
        + apply NoDup_snoc; assumption.
        + intros d. rewrite in_app_iff. cbn. intuition. }
    destruct Ht' as [Hn Hi]. destruct (IH _ Hn) as [H1 H2]. split; [exact H1|].
    intros d. rewrite H2, Hi. cbn. intuition.
Qed.

(* the table lists every digest exactly once *)
Theorem table_spec ds : NoDup (table_of deqb ds) /\ (forall d, In d (table_of deqb ds) <-> In d ds).
Proof.
  destruct (fold_add_spec ds [] (NoDup_nil _)) as [H1 H2]. split; [exact H1|].
  intros d. rewrite (H2 d). cbn. tauto.
Qed.

(* a ref's index leads back to the digest of its chunk *)
Theorem index_of_nth d0 : forall l d, In d l -> nth (index_of deqb d l) l d0 = d.
Proof.
  induction l as [|x t IH]; intros d Hin; [destruct Hin|].
  cbn [index_of]. destruct (deqb d x) eqn:E.
  - apply deqb_eq in E. subst. reflexivity.
  - cbn [nth]. apply IH. destruct Hin as [-> |H]; [|exact H].
    assert (deqb d d = true) by (apply deqb_eq; reflexivity). congruence.
Qed.
(* MONOTONE HISTORY: an index handed out once stays valid while the table grows - adding any later
   digest (new or repeated) moves no earlier entry (chunks_table[digest] = len(chunks_table) appends) *)
Lemma index_of_app d : forall l l', In d l -> index_of deqb d (l ++ l') = index_of deqb d l.
Proof.
  induction l as [|x t IH]; intros l' Hin; [destruct Hin|].
  cbn [app index_of]. destruct (deqb d x) eqn:E; [reflexivity|].
  f_equal. apply IH. destruct Hin as [-> |H]; [|exact H].
  assert (deqb d d = true) by (apply deqb_eq; reflexivity). congruence.
Qed.

Theorem index_stable_add t d x : In d t -> index_of deqb d (add_digest deqb t x) = index_of deqb d t.
Proof.
  intros Hin. unfold add_digest. destruct (memd deqb x t); [reflexivity|]. apply index_of_app. exact Hin.
Qed.

Theorem index_stable_fold : forall ds t d, In d t ->
  index_of deqb d (fold_left (add_digest deqb) ds t) = index_of deqb d t.
Proof.
  induction ds as [|x ds IH]; intros t d Hin; cbn [fold_left]; [reflexivity|].
  assert (Hin' : In d (add_digest deqb t x)).
  { unfold add_digest. destruct (memd deqb x t); [exact Hin|]. apply in_or_app. left. exact Hin. }
  rewrite (IH _ _ Hin'). apply index_stable_add. exact Hin.
Qed.

(* the index of a member is inside the table, and two members with one index are one digest *)
Theorem index_of_lt : forall l d, In d l -> index_of deqb d l < length l.
Proof.
  induction l as [|x t IH]; intros d Hin; [destruct Hin|].
  cbn [index_of length]. destruct (deqb d x) eqn:E; [apply Nat.lt_0_succ|].
  apply ->Nat.succ_lt_mono. apply IH. destruct Hin as [-> |H]; [|exact H].
  assert (deqb d d = true) by (apply deqb_eq; reflexivity). congruence.
Qed.

Theorem index_of_inj l d d' : In d l -> In d' l -> index_of deqb d l = index_of deqb d' l -> d = d'.
Proof.
  intros H H' E. rewrite <- (index_of_nth d l d H), <- (index_of_nth d l d' H'), E. reflexivity.
Qed.
(* DE-DUPLICATION: digests already in the table add nothing, in any number and order *)
Theorem fold_add_known : forall later t, (forall d, In d later -> In d t) ->
  fold_left (add_digest deqb) later t = t.
Proof.
  induction later as [|x later IH]; intros t Hall; cbn [fold_left]; [reflexivity|].
  assert (E : add_digest deqb t x = t).
  { unfold add_digest. destruct (memd deqb x t) eqn:M; [reflexivity|].
    assert (In x t) by (apply Hall; left; reflexivity). apply memd_In in H. congruence. }
  rewrite E. apply IH. intros d Hd. apply Hall. right. exact Hd.
Qed.

Theorem table_known_suffix ds later : (forall d, In d later -> In d ds) ->
  table_of deqb (ds ++ later) = table_of deqb ds.
Proof.
  intros Hall. unfold table_of. rewrite fold_left_app. apply fold_add_known.
  intros d Hd. apply (proj2 (table_spec ds)). apply Hall. exact Hd.
Qed.
End Table.
