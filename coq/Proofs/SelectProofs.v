(* C15: what restore, the listings and delete select (Model/Select.v). *)
From Coq Require Import List Arith NArith Bool String Lia Permutation Sorting.Sorted.
From Replicat Require Import Model.Timestamp Model.Select Proofs.TimestampProofs.
Import ListNotations.

(* ------------------------------------------------------------------ generic list facts *)
Lemma mem_str_In x l : mem_str x l = true <-> In x l.
Proof.
  unfold mem_str. rewrite existsb_exists. split.
  - intros [y [Hy E]]. apply String.eqb_eq in E. subst. exact Hy.
  - intros H. exists x. split; [exact H|apply String.eqb_refl].
Qed.

Lemma flat_map_split {A B} (g : A -> list B) : forall S l1 x l2, flat_map g S = l1 ++ x :: l2 ->
  exists S1 s S2 a b, S = S1 ++ s :: S2 /\ g s = a ++ x :: b /\ l1 = flat_map g S1 ++ a /\ l2 = b ++ flat_map g S2.
Proof.
  induction S as [|s0 t IH]; intros l1 x l2 H; cbn [flat_map] in H.
  - destruct l1; discriminate.
  - apply app_eq_app in H. destruct H as [l [[H1 H2]|[H1 H2]]].
    + destruct l as [|y l'].
      * cbn [app] in H2. rewrite app_nil_r in H1. symmetry in H2.
        destruct (IH [] x l2 H2) as (S1 & s & S2 & a & b & E1 & E2 & E3 & E4).
        exists (s0 :: S1), s, S2, a, b. subst t. repeat split; try assumption.
        cbn [flat_map]. rewrite <- app_assoc, <- E3, app_nil_r. symmetry. exact H1.
      * cbn [app] in H2. injection H2 as Hx H2. subst y.
        exists [], s0, t, l1, l'. repeat split; assumption.
    + destruct (IH l x l2 H2) as (S1 & s & S2 & a & b & E1 & E2 & E3 & E4).
      exists (s0 :: S1), s, S2, a, b. subst t. repeat split; try assumption.
      cbn [flat_map]. rewrite <- app_assoc, <- E3. exact H1.
Qed.

Lemma sorted_mid_after {A} (R : A -> A -> Prop) : forall l1 x l2,
  StronglySorted R (l1 ++ x :: l2) -> Forall (R x) l2.
Proof.
  induction l1 as [|y l1 IH]; intros x l2 H; cbn [app] in H; apply StronglySorted_inv in H; destruct H as [H1 H2].
  - exact H2.
  - apply IH. exact H1.
Qed.

Lemma sorted_mid_before {A} (R : A -> A -> Prop) : forall l1 x l2,
  StronglySorted R (l1 ++ x :: l2) -> forall y, In y l1 -> R y x.
Proof.
  induction l1 as [|z l1 IH]; intros x l2 H y Hy; [destruct Hy|].
  cbn [app] in H. apply StronglySorted_inv in H. destruct H as [H1 H2].
  destruct Hy as [->|Hy].
  - rewrite Forall_forall in H2. apply H2. apply in_or_app. right. left. reflexivity.
  - exact (IH _ _ H1 _ Hy).
Qed.

Lemma NoDup_map_filter {A B} (g : A -> B) (p : A -> bool) : forall l, NoDup (map g l) -> NoDup (map g (filter p l)).
Proof.
  induction l as [|x l IH]; intros H; cbn [filter map] in *; [constructor|].
  inversion H as [|? ? Hx Hl]; subst.
  destruct (p x); cbn [map]; [|apply IH; exact Hl].
  constructor; [|apply IH; exact Hl].
  intros Hin. apply Hx. apply in_map_iff in Hin. destruct Hin as [y [E Hy]].
  apply in_map_iff. exists y. split; [exact E|]. apply filter_In in Hy. apply Hy.
Qed.

(* ------------------------------------------------------------------ sort(key=..., reverse=True) *)
Section SortProofs.
Context {A : Type}.
Variable key : A -> string.
(* non-increasing keys *)
Definition desc (x y : A) : Prop := str_leb (key y) (key x) = true.

Lemma insert_desc_perm x l : Permutation (x :: l) (insert_desc key x l).
Proof.
  induction l as [|y t IH]; cbn [insert_desc]; [apply Permutation_refl|].
  destruct (str_leb (key y) (key x)); [apply Permutation_refl|].
  eapply perm_trans; [apply perm_swap|]. apply perm_skip. exact IH.
Qed.

Lemma sort_desc_perm l : Permutation l (sort_desc key l).
Proof.
  induction l as [|x t IH]; [constructor|].
  unfold sort_desc. cbn [fold_right]. fold (sort_desc key t).
  eapply perm_trans; [apply perm_skip; exact IH|]. apply insert_desc_perm.
Qed.

Lemma insert_desc_sorted x l : StronglySorted desc l -> StronglySorted desc (insert_desc key x l).
Proof.
  induction 1 as [|y t Ht IH Hy]; cbn [insert_desc].
  - constructor; constructor.
  - destruct (str_leb (key y) (key x)) eqn:E.
    + constructor; [constructor; assumption|]. constructor; [exact E|].
      eapply Forall_impl; [|exact Hy]. intros z Hz. unfold desc in *.
      eapply str_leb_trans; eassumption.
    + constructor; [exact IH|].
      apply (Permutation_Forall (insert_desc_perm x t)). constructor; [|exact Hy].
      unfold desc. apply str_leb_total. exact E.
Qed.

Lemma sort_desc_sorted l : StronglySorted desc (sort_desc key l).
Proof.
  induction l as [|x t IH]; [constructor|].
  unfold sort_desc. cbn [fold_right]. fold (sort_desc key t). apply insert_desc_sorted. exact IH.
Qed.

Lemma sort_desc_In l x : In x (sort_desc key l) <-> In x l.
Proof.
  split; intros H.
  - eapply Permutation_in; [apply Permutation_sym, sort_desc_perm|exact H].
  - eapply Permutation_in; [apply sort_desc_perm|exact H].
Qed.
End SortProofs.

(* ------------------------------------------------------------------ first occurrence of a path wins *)
Definition has_path (p : string) (s : snap) : Prop := In p (map f_path (s_files s)).

Lemma has_path_dec p s : {has_path p s} + {~ has_path p s}.
Proof. apply in_dec. exact string_dec. Qed.

Section FirstWins.
Variable fmatch : string -> bool.

Lemma fw_spec : forall L seen f, In f (first_wins fmatch seen L) <->
  exists l1 l2, L = l1 ++ f :: l2 /\ fmatch (f_path f) = true /\ ~ In (f_path f) seen /\ ~ In (f_path f) (map f_path l1).
Proof.
  induction L as [|f0 t IH]; intros seen f; cbn [first_wins].
  - split; [intros []|]. intros (l1 & l2 & E & _). destruct l1; discriminate.
  - destruct (mem_str (f_path f0) seen) eqn:Hm.
    + apply mem_str_In in Hm. rewrite IH. split.
      * intros (l1 & l2 & E & Hf & Hs & Hl). exists (f0 :: l1), l2. subst t. repeat split; try assumption.
        cbn [map]. intros [Hx|Hx]; [|exact (Hl Hx)]. apply Hs. rewrite <- Hx. exact Hm.
      * intros (l1 & l2 & E & Hf & Hs & Hl). destruct l1 as [|g l1]; cbn [app] in E; injection E as E0 E.
        -- subst f0. contradiction.
        -- subst g. exists l1, l2. repeat split; try assumption. intros Hx. apply Hl. right. exact Hx.
    + assert (Hn : ~ In (f_path f0) seen) by (intros Hx; apply mem_str_In in Hx; congruence).
      destruct (fmatch (f_path f0)) eqn:Hf0.
      * cbn [In]. rewrite IH. split.
        -- intros [<-|(l1 & l2 & E & Hf & Hs & Hl)].
           ++ exists [], t. repeat split; try assumption. intros [].
           ++ exists (f0 :: l1), l2. subst t. repeat split; try assumption.
              ** intros Hx. apply Hs. right. exact Hx.
              ** cbn [map]. intros [Hx|Hx]; [|exact (Hl Hx)]. apply Hs. left. exact Hx.
        -- intros (l1 & l2 & E & Hf & Hs & Hl). destruct l1 as [|g l1]; cbn [app] in E; injection E as E0 E.
           ++ left. exact E0.
           ++ subst g. right. exists l1, l2. repeat split; try assumption.
              ** intros [Hx|Hx]; [|exact (Hs Hx)]. apply Hl. left. exact Hx.
              ** intros Hx. apply Hl. right. exact Hx.
      * rewrite IH. split.
        -- intros (l1 & l2 & E & Hf & Hs & Hl). exists (f0 :: l1), l2. subst t. repeat split; try assumption.
           cbn [map]. intros [Hx|Hx]; [|exact (Hl Hx)]. rewrite Hx in Hf0. congruence.
        -- intros (l1 & l2 & E & Hf & Hs & Hl). destruct l1 as [|g l1]; cbn [app] in E; injection E as E0 E.
           ++ subst f0. congruence.
           ++ subst g. exists l1, l2. repeat split; try assumption. intros Hx. apply Hl. right. exact Hx.
Qed.

Lemma fw_nodup : forall L seen, NoDup (map f_path (first_wins fmatch seen L)).
Proof.
  induction L as [|f0 t IH]; intros seen; cbn [first_wins]; [constructor|].
  destruct (mem_str (f_path f0) seen); [apply IH|].
  destruct (fmatch (f_path f0)); [|apply IH].
  cbn [map]. constructor; [|apply IH].
  intros Hin. apply in_map_iff in Hin. destruct Hin as [g [E Hg]].
  apply fw_spec in Hg. destruct Hg as (_ & _ & _ & _ & Hs & _). apply Hs. left. symmetry. exact E.
Qed.

Lemma first_wins_ext (fm' : string -> bool) : (forall x, fmatch x = fm' x) ->
  forall L seen, first_wins fmatch seen L = first_wins fm' seen L.
Proof.
  intros He. induction L as [|f t IH]; intros seen; cbn [first_wins]; [reflexivity|].
  rewrite <- He. destruct (mem_str (f_path f) seen); [apply IH|].
  destruct (fmatch (f_path f)); [f_equal|]; apply IH.
Qed.

(* over any sequence of snapshots: a file is taken iff it matches and comes from the FIRST snapshot
   of the sequence that contains its path *)
Lemma restore_list_spec S seen f :
  (forall s, In s S -> NoDup (map f_path (s_files s))) ->
  In f (first_wins fmatch seen (flat_map s_files S)) <->
  exists S1 s S2, S = S1 ++ s :: S2 /\ In f (s_files s) /\ fmatch (f_path f) = true /\
                  ~ In (f_path f) seen /\ forall s', In s' S1 -> ~ has_path (f_path f) s'.
Proof.
  intros Hnd. rewrite fw_spec. split.
  - intros (l1 & l2 & E & Hf & Hs & Hl).
    destruct (flat_map_split _ _ _ _ _ E) as (S1 & s & S2 & a & b & E1 & E2 & E3 & E4).
    exists S1, s, S2. repeat split; try assumption.
    + rewrite E2. apply in_or_app. right. left. reflexivity.
    + intros s' Hs' Hp. apply Hl. rewrite E3, map_app. apply in_or_app. left.
      unfold has_path in Hp. apply in_map_iff in Hp. destruct Hp as [g [Eg Hg]].
      apply in_map_iff. exists g. split; [exact Eg|]. apply in_flat_map. exists s'. split; assumption.
  - intros (S1 & s & S2 & E & Hin & Hf & Hs & Hb).
    apply in_split in Hin. destruct Hin as (a & b & Ea).
    exists (flat_map s_files S1 ++ a), (b ++ flat_map s_files S2). repeat split; try assumption.
    + subst S. rewrite flat_map_app. cbn [flat_map]. rewrite Ea, <- !app_assoc. reflexivity.
    + rewrite map_app. intros Hx. apply in_app_or in Hx. destruct Hx as [Hx|Hx].
      * apply in_map_iff in Hx. destruct Hx as [g [Eg Hg]]. apply in_flat_map in Hg. destruct Hg as [s' [Hs' Hg]].
        apply (Hb s' Hs'). unfold has_path. apply in_map_iff. exists g. split; assumption.
      * assert (Hn : NoDup (map f_path (s_files s))).
        { apply Hnd. subst S. apply in_or_app. right. left. reflexivity. }
        rewrite Ea, map_app in Hn. cbn [map] in Hn. apply NoDup_remove_2 in Hn.
        apply Hn. apply in_or_app. left. exact Hx.
Qed.

Lemma first_with p : forall S, (exists s, In s S /\ has_path p s) ->
  exists S1 s S2, S = S1 ++ s :: S2 /\ has_path p s /\ forall s', In s' S1 -> ~ has_path p s'.
Proof.
  induction S as [|s0 t IH]; intros [s [Hs Hp]]; [destruct Hs|].
  destruct (has_path_dec p s0) as [H0|H0].
  - exists [], s0, t. repeat split; [exact H0|intros ? []].
  - destruct Hs as [->|Hs]; [contradiction|].
    destruct (IH (ex_intro _ s (conj Hs Hp))) as (S1 & s1 & S2 & E & Hp1 & Hb).
    exists (s0 :: S1), s1, S2. subst t. repeat split; [exact Hp1|].
    intros s' [<-|Hs']; [exact H0|exact (Hb s' Hs')].
Qed.
End FirstWins.

(* ------------------------------------------------------------------ restore *)
Section Restore.
Variable smatch fmatch : string -> bool.

Lemma loaded_In snaps s : In s (loaded smatch snaps) <-> In s snaps /\ visible s = true /\ smatch (s_name s) = true.
Proof. unfold loaded. rewrite filter_In, andb_true_iff. reflexivity. Qed.

Lemma loaded_readable_In snaps s : In s (loaded_readable smatch snaps) <->
  In s snaps /\ visible s = true /\ smatch (s_name s) = true /\ readable s = true.
Proof. unfold loaded_readable. rewrite filter_In, loaded_In. tauto. Qed.

(* NEWEST_MATCHING_WINS *)
Theorem newest_matching_wins snaps :
  NoDup (map s_ts (loaded_readable smatch snaps)) ->
  (forall s, In s snaps -> NoDup (map f_path (s_files s))) ->
  (forall f, In f (restore_sel smatch fmatch snaps) <->
     fmatch (f_path f) = true /\
     exists s, In s (loaded_readable smatch snaps) /\ In f (s_files s) /\
       forall s', In s' (loaded_readable smatch snaps) -> has_path (f_path f) s' -> str_leb (s_ts s') (s_ts s) = true)
  /\ NoDup (map f_path (restore_sel smatch fmatch snaps)).
Proof.
  intros Hts Hnd. split; [|apply fw_nodup].
  intros f. unfold restore_sel.
  set (E := loaded_readable smatch snaps) in *.
  set (S := restore_order smatch snaps).
  assert (HS : forall s, In s S <-> In s E) by (intros s; apply sort_desc_In).
  assert (Hsorted : StronglySorted (desc s_ts) S) by apply sort_desc_sorted.
  assert (HndS : forall s, In s S -> NoDup (map f_path (s_files s))).
  { intros s Hs. apply Hnd. apply HS in Hs. apply loaded_readable_In in Hs. apply Hs. }
  assert (HtsS : NoDup (map s_ts S)).
  { eapply Permutation_NoDup; [apply Permutation_map, sort_desc_perm|exact Hts]. }
  rewrite (restore_list_spec fmatch S [] f HndS). split.
  - intros (S1 & s & S2 & ES & Hin & Hf & _ & Hb). split; [exact Hf|].
    exists s. split; [apply HS; rewrite ES; apply in_or_app; right; left; reflexivity|].
    split; [exact Hin|]. intros s' Hs' Hp. apply HS in Hs'. rewrite ES in Hs'.
    apply in_app_or in Hs'. destruct Hs' as [Hs'|[<-|Hs']].
    + exfalso. exact (Hb s' Hs' Hp).
    + apply str_leb_refl.
    + rewrite ES in Hsorted. apply sorted_mid_after in Hsorted. rewrite Forall_forall in Hsorted.
      exact (Hsorted s' Hs').
  - intros (Hf & s & Hs & Hin & Hmax). apply HS in Hs. apply in_split in Hs. destruct Hs as (S1 & S2 & ES).
    exists S1, s, S2. repeat split; try assumption; [intros []|].
    intros s' Hs' Hp.
    assert (Hle : str_leb (s_ts s') (s_ts s) = true).
    { apply Hmax; [|exact Hp]. apply HS. rewrite ES. apply in_or_app. left. exact Hs'. }
    assert (Hge : str_leb (s_ts s) (s_ts s') = true).
    { rewrite ES in Hsorted. exact (sorted_mid_before _ _ _ _ Hsorted s' Hs'). }
    assert (Eq : s_ts s' = s_ts s) by (apply str_leb_antisym; assumption).
    rewrite ES, map_app in HtsS. cbn [map] in HtsS. apply NoDup_remove_2 in HtsS.
    apply HtsS. apply in_or_app. left. rewrite <- Eq. apply in_map. exact Hs'.
Qed.

(* a path is restored iff it matches the file filter and some readable matching snapshot has it *)
Theorem restored_paths snaps :
  (forall s, In s snaps -> NoDup (map f_path (s_files s))) ->
  forall p, In p (map f_path (restore_sel smatch fmatch snaps)) <->
    fmatch p = true /\ exists s, In s (loaded_readable smatch snaps) /\ has_path p s.
Proof.
  intros Hnd p. unfold restore_sel.
  set (S := restore_order smatch snaps).
  assert (HS : forall s, In s S <-> In s (loaded_readable smatch snaps)) by (intros s; apply sort_desc_In).
  assert (HndS : forall s, In s S -> NoDup (map f_path (s_files s))).
  { intros s Hs. apply Hnd. apply HS in Hs. apply loaded_readable_In in Hs. apply Hs. }
  rewrite in_map_iff. split.
  - intros (f & <- & Hf). apply (restore_list_spec fmatch S [] f HndS) in Hf.
    destruct Hf as (S1 & s & S2 & ES & Hin & Hfm & _ & _). split; [exact Hfm|].
    exists s. split; [apply HS; rewrite ES; apply in_or_app; right; left; reflexivity|].
    unfold has_path. apply in_map. exact Hin.
  - intros (Hfm & s & Hs & Hp).
    destruct (first_with p S (ex_intro _ s (conj (proj2 (HS s) Hs) Hp))) as (S1 & s1 & S2 & ES & Hp1 & Hb).
    unfold has_path in Hp1. apply in_map_iff in Hp1. destruct Hp1 as (f & Ef & Hf).
    exists f. split; [exact Ef|]. apply (restore_list_spec fmatch S [] f HndS).
    exists S1, s1, S2. rewrite Ef. repeat split; try assumption. intros [].
Qed.
End Restore.

Lemma restore_sel_ext sm sm' fm fm' snaps : (forall x, sm x = sm' x) -> (forall x, fm x = fm' x) ->
  restore_sel sm fm snaps = restore_sel sm' fm' snaps.
Proof.
  intros Hs Hf. unfold restore_sel, restore_order, loaded_readable, loaded.
  rewrite (filter_ext (fun s => visible s && sm (s_name s)) (fun s => visible s && sm' (s_name s))) by (intros s; cbn beta; rewrite Hs; reflexivity).
  apply first_wins_ext. exact Hf.
Qed.

(* ------------------------------------------------------------------ listings *)
Section Listings.
Variable smatch fmatch : string -> bool.

(* LISTING_EXACT_SORTED, snapshots: exactly the family-visible snapshots whose NAME matches, by
   non-increasing key (timestamp, '' without details); one row per snapshot *)
Theorem ls_exact_sorted snaps :
  Permutation (loaded smatch snaps) (ls_order smatch snaps) /\
  StronglySorted (desc ls_key) (ls_order smatch snaps) /\
  (forall s, In s (ls_order smatch snaps) <-> In s snaps /\ visible s = true /\ smatch (s_name s) = true) /\
  (forall cols, map fst (ls_rows smatch cols snaps) = map s_id (ls_order smatch snaps)).
Proof.
  unfold ls_order. split; [apply sort_desc_perm|]. split; [apply sort_desc_sorted|]. split.
  - intros s. rewrite sort_desc_In. apply loaded_In.
  - intros cols. unfold ls_rows, ls_order. rewrite map_map. reflexivity.
Qed.

(* readable rows come before rows without details *)
Lemma ls_key_readable_first snaps s1 s2 l1 l2 l3 :
  ls_order smatch snaps = l1 ++ s1 :: l2 ++ s2 :: l3 -> readable s2 = true -> s_ts s2 <> ""%string -> readable s1 = true.
Proof.
  intros E H2 Hne. pose proof (sort_desc_sorted ls_key (loaded smatch snaps)) as Hs.
  fold (ls_order smatch snaps) in Hs. rewrite E in Hs. apply sorted_mid_after in Hs.
  rewrite Forall_forall in Hs. specialize (Hs s2 ltac:(apply in_or_app; right; left; reflexivity)).
  unfold desc, ls_key in Hs. rewrite H2 in Hs. destruct (readable s1); [reflexivity|].
  exfalso. apply Hne. apply str_leb_antisym; [exact Hs|apply str_leb_empty].
Qed.

Lemma lf_pairs_In snaps s f : In (s, f) (lf_pairs smatch fmatch snaps) <->
  In s snaps /\ visible s = true /\ smatch (s_name s) = true /\ readable s = true /\
  In f (s_files s) /\ fmatch (f_path f) = true.
Proof.
  unfold lf_pairs. rewrite in_flat_map. split.
  - intros (s' & Hs' & Hin). apply in_map_iff in Hin. destruct Hin as (f' & E & Hf'). injection E as -> ->.
    apply (loaded_readable_In smatch) in Hs'. apply filter_In in Hf'. tauto.
  - intros (H1 & H2 & H3 & H4 & H5 & H6). exists s. split.
    + apply (loaded_readable_In smatch). tauto.
    + apply in_map. apply filter_In. split; assumption.
Qed.

(* LISTING_EXACT_SORTED, files *)
Theorem lf_exact_sorted snaps :
  Permutation (lf_pairs smatch fmatch snaps) (lf_order smatch fmatch snaps) /\
  StronglySorted (desc lf_key) (lf_order smatch fmatch snaps) /\
  (forall s f, In (s, f) (lf_order smatch fmatch snaps) <->
     In s snaps /\ visible s = true /\ smatch (s_name s) = true /\ readable s = true /\
     In f (s_files s) /\ fmatch (f_path f) = true) /\
  (forall cols, map fst (lf_rows smatch fmatch cols snaps) = map (fun p => f_id (snd p)) (lf_order smatch fmatch snaps)).
Proof.
  unfold lf_order. split; [apply sort_desc_perm|]. split; [apply sort_desc_sorted|]. split.
  - intros s f. rewrite sort_desc_In. apply lf_pairs_In.
  - intros cols. unfold lf_rows, lf_order. rewrite map_map. reflexivity.
Qed.
End Listings.

(* the NAME cell is the string the snapshot filter and delete compare against *)
Lemma printed_name s : scell s SName = CStr (s_name s) /\ forall f, fcell (s, f) FSnapshotName = CStr (s_name s).
Proof. split; reflexivity. Qed.

(* ------------------------------------------------------------------ delete by printed names *)
Definition all_names (_ : string) : bool := true.

(* NAMES_ACCEPTED: names printed by list-snapshots for snapshots with readable details are accepted,
   and exactly the named snapshots go *)
Theorem names_accepted names snaps :
  (forall n, In n names -> exists s, In s (ls_order all_names snaps) /\ readable s = true /\ s_name s = n) ->
  (forall s, In s snaps -> visible s = true -> In (s_name s) names -> readable s = true) ->
  delete_names names snaps = (filter (fun s => negb (named names s)) snaps, true).
Proof.
  intros Hp Hu. unfold delete_names.
  assert (Hok : delete_ok names snaps = true).
  { unfold delete_ok. apply andb_true_iff. split.
    - apply forallb_forall. intros n Hn. destruct (Hp n Hn) as (s & Hs & Hr & En).
      apply existsb_exists. exists s. unfold ls_order in Hs. apply sort_desc_In in Hs. apply (loaded_In all_names) in Hs.
      destruct Hs as (Hs & Hv & _). split; [exact Hs|]. rewrite Hv, En. apply String.eqb_refl.
    - apply forallb_forall. intros s Hs. unfold named.
      destruct (visible s) eqn:Hv; [|reflexivity]. destruct (mem_str (s_name s) names) eqn:Hm; [|reflexivity].
      cbn [andb negb orb]. apply mem_str_In in Hm. exact (Hu s Hs Hv Hm). }
  rewrite Hok. reflexivity.
Qed.

(* a name that list-snapshots does not print (in particular a storage path, a tag, a prefix) is
   refused and nothing changes *)
Theorem names_unknown names snaps :
  (exists n, In n names /\ forall s, In s (ls_order all_names snaps) -> s_name s <> n) ->
  delete_names names snaps = (snaps, false).
Proof.
  intros (n & Hn & Hno). unfold delete_names.
  destruct (delete_ok names snaps) eqn:Hok; [|reflexivity]. exfalso.
  unfold delete_ok in Hok. apply andb_true_iff in Hok. destruct Hok as [H1 _].
  rewrite forallb_forall in H1. specialize (H1 n Hn). apply existsb_exists in H1.
  destruct H1 as (s & Hs & Hv). apply andb_true_iff in Hv. destruct Hv as [Hv En]. apply String.eqb_eq in En.
  apply (Hno s); [|exact En]. unfold ls_order. apply sort_desc_In. apply (loaded_In all_names). repeat split; assumption.
Qed.

(* a printed name whose details are not readable (another user's key) is refused as well *)
Theorem names_other_key names snaps :
  (exists s, In s snaps /\ visible s = true /\ readable s = false /\ In (s_name s) names) ->
  delete_names names snaps = (snaps, false).
Proof.
  intros (s & Hs & Hv & Hr & Hn). unfold delete_names.
  destruct (delete_ok names snaps) eqn:Hok; [|reflexivity]. exfalso.
  unfold delete_ok in Hok. apply andb_true_iff in Hok. destruct Hok as [_ H2].
  rewrite forallb_forall in H2. specialize (H2 s Hs). unfold named in H2.
  apply mem_str_In in Hn. rewrite Hv, Hn, Hr in H2. discriminate.
Qed.

(* ------------------------------------------------------------------ several -S / -F patterns *)
Section Combine.
Variable matches : string -> string -> bool.
(* the alternation law for the bar-joined pattern; NOT a theorem about Python's re (see
   observed_re below): it fails for numbered back-references and inline global flags *)
Hypothesis alt_law : forall ps s, ps <> [] -> matches (join_bar ps) s = existsb (fun p => matches p s) ps.

Theorem combine_any o s : o <> Some [] -> opt_match matches (combine_optional o) s = any_of matches o s.
Proof.
  destruct o as [ps|]; cbn [combine_optional option_map opt_match any_of]; [|reflexivity].
  intros H. apply alt_law. intros E. apply H. rewrite E. reflexivity.
Qed.

Corollary restore_any so fo snaps : so <> Some [] -> fo <> Some [] ->
  restore_sel (opt_match matches (combine_optional so)) (opt_match matches (combine_optional fo)) snaps
  = restore_sel (any_of matches so) (any_of matches fo) snaps.
Proof. intros Hs Hf. apply restore_sel_ext; intros x; apply combine_any; assumption. Qed.
End Combine.

(* without the law the statement is false: CPython's re (observed_re) on numbered back-references *)
Theorem combine_unrestricted_refuted :
  exists (matches : string -> string -> bool) o s, o <> Some [] /\
    opt_match matches (combine_optional o) s <> any_of matches o s.
Proof.
  exists observed_matches, (Some ["(x)\1"; "(y)\1"]%string), "yy"%string.
  split; [discriminate|]. vm_compute. discriminate.
Qed.

(* ... and on inline global flags, where the joined pattern is rejected outright *)
Theorem combine_flags_refuted :
  opt_match observed_matches (combine_optional (Some ["x"; "(?i)abc"]%string)) "ABC"
  <> any_of observed_matches (Some ["x"; "(?i)abc"]%string) "ABC".
Proof. vm_compute. discriminate. Qed.
