(* C16 - B1: the definitions translated from replicat/backends/s3c.py (Gen/SigV4Gen.v, regenerated from the
   working tree on every run) are the hand model's, by reflexivity. *)
From Coq Require Import List NArith Bool String.
From Replicat Require Import Model.SigV4Prims Gen.SigV4Gen Model.SigV4.

Lemma gen_make_signature_key_eq : @SigV4Gen.make_signature_key = @SigV4.make_signature_key.
Proof. reflexivity. Qed.
Lemma gen_make_canonical_headers_eq : @SigV4Gen.make_canonical_headers = @SigV4.make_canonical_headers.
Proof. reflexivity. Qed.
Lemma gen_make_credential_scope_eq : @SigV4Gen.make_credential_scope = @SigV4.make_credential_scope.
Proof. reflexivity. Qed.
Lemma gen_make_canonical_request_eq : @SigV4Gen.make_canonical_request = @SigV4.make_canonical_request.
Proof. reflexivity. Qed.
Lemma gen_make_string_to_sign_eq : @SigV4Gen.make_string_to_sign = @SigV4.make_string_to_sign.
Proof. reflexivity. Qed.
Lemma gen_empty_payload_digest_eq : @SigV4Gen.empty_payload_digest = @SigV4.empty_payload_digest.
Proof. reflexivity. Qed.
(* quote(canonical_uri), urlencode(sorted(query.items()), quote_via=quote), the header triple and its order,
   the Authorization f-string, the headers set on the request *)
Lemma gen_prepare_request_eq : @SigV4Gen.prepare_request = @SigV4.prepare_request.
Proof. reflexivity. Qed.
Lemma gen_list_objects_query_eq : @SigV4Gen.list_objects_query = @SigV4.list_objects_query.
Proof. reflexivity. Qed.
Lemma gen_op_exists_eq : @SigV4Gen.op_exists = @SigV4.op_exists.
Proof. reflexivity. Qed.
Lemma gen_op_put_object_eq : @SigV4Gen.op_put_object = @SigV4.op_put_object.
Proof. reflexivity. Qed.
Lemma gen_op_put_object_stream_eq : @SigV4Gen.op_put_object_stream = @SigV4.op_put_object_stream.
Proof. reflexivity. Qed.
Lemma gen_op_download_eq : @SigV4Gen.op_download = @SigV4.op_download.
Proof. reflexivity. Qed.
Lemma gen_op_download_stream_eq : @SigV4Gen.op_download_stream = @SigV4.op_download_stream.
Proof. reflexivity. Qed.
Lemma gen_op_delete_eq : @SigV4Gen.op_delete = @SigV4.op_delete.
Proof. reflexivity. Qed.
Lemma gen_op_list_objects_eq : @SigV4Gen.op_list_objects = @SigV4.op_list_objects.
Proof. reflexivity. Qed.
Lemma gen_aws_host_eq : SigV4Gen.aws_host = SigV4.aws_host.
Proof. reflexivity. Qed.
Lemma gen_stream_digest_fact : SigV4Gen.stream_digest_reads_to_eof_then_rewinds = true.
Proof. reflexivity. Qed.
(* httpx.AsyncClient(timeout=None, event_hooks={response: raise for status}) - no follow_redirects; the hook raises on every
   non-success answer; requests are only sent by _make_request/_make_streaming_request, which send what _prepare_request built *)
Lemma gen_client_sends_only_prepared_requests : SigV4Gen.client_sends_only_prepared_requests = true.
Proof. reflexivity. Qed.
