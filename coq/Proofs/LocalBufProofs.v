From Coq Require Import List Bool Arith Lia.
From Replicat Require Import Model.LocalBuf.
Import ListNotations.

Section P.
Variable byte : Type.
Notation bop := (bop byte).
Notation st := (st byte).

Definition run (s : st) (l : list bop) : st := fold_left (step byte) l s.

(* invariant per phase *)
Definition inv (phase : nat) (w : bytes byte) (s : st) : Prop :=
  match phase with
  | 0 => renamed _ s = false /\ is_open _ s = false /\ disk _ s = [] /\ buf _ s = [] /\ w = []
  | 1 => renamed _ s = false /\ is_open _ s = true /\ disk _ s ++ buf _ s = w
  | 2 => renamed _ s = false /\ is_open _ s = false /\ disk _ s = w /\ buf _ s = []
  | _ => renamed _ s = true /\ disk _ s = w /\ buf _ s = []
  end.

Lemma firstn_skipn_app (n : nat) (a b : bytes byte) : (a ++ firstn n b) ++ skipn n b = a ++ b.
Proof. rewrite <- app_assoc, firstn_skipn. reflexivity. Qed.

(* every prefix: before the rename nothing is visible, after it exactly everything written *)
Lemma scan_visible : forall l phase w s, phase <= 3 -> inv phase w s -> ok_scan byte phase l = true ->
  forall p q, l = p ++ q ->
    visible _ (run s p) = None \/ visible _ (run s p) = Some (w ++ written byte l).
Proof.
  induction l as [|o l IH]; intros phase w s Hp Hi Hok p q E.
  - destruct p; [|discriminate]. cbn [run fold_left written flat_map]. rewrite app_nil_r.
    unfold visible. destruct phase as [|[|[|k]]]; cbn [inv] in Hi.
    + destruct Hi as (R & _). rewrite R. left; reflexivity.
    + destruct Hi as (R & _). rewrite R. left; reflexivity.
    + destruct Hi as (R & _). rewrite R. left; reflexivity.
    + destruct Hi as (R & D & _). rewrite R, D. right; reflexivity.
  - destruct p as [|o' p].
    + cbn [run fold_left]. unfold visible. destruct phase as [|[|[|k]]]; cbn [inv] in Hi.
      * destruct Hi as (R & _). rewrite R. left; reflexivity.
      * destruct Hi as (R & _). rewrite R. left; reflexivity.
      * destruct Hi as (R & _). rewrite R. left; reflexivity.
      * destruct Hi as (R & D & B). rewrite R. right.
        (* after the rename only flushes may follow: nothing more is written *)
        assert (W : forall l' , ok_scan byte (S (S (S k))) l' = true -> written byte l' = []).
        { clear. induction l' as [|x l' IHl]; [reflexivity|]. destruct x; cbn [ok_scan]; try discriminate.
          intros H. cbn [written flat_map]. apply IHl. exact H. }
        assert (k = 0) by lia. subst k. rewrite (W _ Hok), app_nil_r, D. reflexivity.
    + injection E as <- E. cbn [run fold_left]. change (fold_left (step byte) p (step byte s o)) with (run (step byte s o) p).
      destruct o as [|d|n| |]; cbn [ok_scan] in Hok.
      * (* open *) destruct (Nat.eqb_spec phase 0) as [->|]; [|discriminate]. cbn [inv] in Hi. destruct Hi as (R & O & D & B & W). subst w.
        cbn [written flat_map app]. apply (IH 1 [] (step byte s BOpen)) with (q := q); [lia| |exact Hok|exact E].
        cbn [inv step renamed is_open disk buf]. rewrite R. repeat split.
      * (* write *) destruct (Nat.eqb_spec phase 1) as [->|]; [|discriminate]. cbn [inv] in Hi. destruct Hi as (R & O & DB).
        cbn [written flat_map]. rewrite app_assoc.
        apply (IH 1 (w ++ d) (step byte s (BWrite d))) with (q := q); [lia| |exact Hok|exact E].
        cbn [inv step]. rewrite O. cbn [renamed is_open disk buf]. repeat split; [exact R|]. rewrite app_assoc, DB. reflexivity.
      * (* flush *) cbn [written flat_map app].
        apply (IH phase w (step byte s (BFlush n))) with (q := q); [exact Hp| |exact Hok|exact E].
        destruct phase as [|[|[|k]]]; cbn [inv step renamed is_open disk buf] in *.
        -- destruct Hi as (R & O & D & B & W). rewrite B, D. destruct n; cbn; repeat split; assumption.
        -- destruct Hi as (R & O & DB). repeat split; try assumption. rewrite firstn_skipn_app. exact DB.
        -- destruct Hi as (R & O & D & B). rewrite B. destruct n; cbn; rewrite app_nil_r; repeat split; assumption.
        -- destruct Hi as (R & D & B). rewrite B. destruct n; cbn; rewrite app_nil_r; repeat split; assumption.
      * (* close *) destruct (Nat.eqb_spec phase 1) as [->|]; [|discriminate]. cbn [inv] in Hi. destruct Hi as (R & O & DB).
        cbn [written flat_map app].
        apply (IH 2 w (step byte s BClose)) with (q := q); [lia| |exact Hok|exact E].
        cbn [inv step renamed is_open disk buf]. repeat split; assumption.
      * (* rename *) destruct (Nat.eqb_spec phase 2) as [->|]; [|discriminate]. cbn [inv] in Hi. destruct Hi as (R & O & D & B).
        cbn [written flat_map app].
        apply (IH 3 w (step byte s BRename)) with (q := q); [lia| |exact Hok|exact E].
        cbn [inv step renamed is_open disk buf]. repeat split; assumption.
Qed.

(* THE statement: whatever the library/OS flushes and wherever the process dies, a later process finds under the destination
   name either what was there before or the complete new object *)
Theorem buffered_upload_atomic : forall l, atomic_order byte l = true ->
  forall p q, l = p ++ q -> visible _ (exec byte p) = None \/ visible _ (exec byte p) = Some (written byte l).
Proof.
  intros l H p q E. apply (scan_visible l 0 [] (init byte)) with (q := q); [lia| |exact H|exact E].
  cbn. repeat split.
Qed.

(* flushes do not matter for the order check, and the code skeleton passes it *)
Lemma ok_scan_unflush : forall l phase, ok_scan byte phase (unflush byte l) = ok_scan byte phase l.
Proof.
  induction l as [|o l IH]; intros phase; [reflexivity|].
  destruct o; cbn [unflush filter ok_scan]; try (destruct (Nat.eqb phase _); [apply IH|reflexivity]). apply IH.
Qed.
Lemma ok_scan_writes : forall ps r, ok_scan byte 1 (map BWrite ps ++ r) = ok_scan byte 1 r.
Proof. induction ps as [|d ps IH]; intros r; [reflexivity|]. cbn [map app ok_scan Nat.eqb]. apply IH. Qed.
Lemma skeleton_atomic_order : forall pieces, atomic_order byte (skeleton byte pieces) = true.
Proof. intros ps. unfold atomic_order, skeleton. cbn [app ok_scan Nat.eqb]. rewrite ok_scan_writes. reflexivity. Qed.
Lemma written_skeleton : forall pieces, written byte (skeleton byte pieces) = concat pieces.
Proof.
  intros ps. unfold skeleton, written. cbn [app flat_map]. rewrite flat_map_app. cbn [flat_map app]. rewrite app_nil_r.
  induction ps as [|d ps IH]; [reflexivity|]. cbn [map flat_map concat]. rewrite IH. reflexivity.
Qed.

Theorem skeleton_with_any_flushes_atomic : forall pieces l, unflush byte l = skeleton byte pieces ->
  forall p q, l = p ++ q -> visible _ (exec byte p) = None \/ visible _ (exec byte p) = Some (concat pieces).
Proof.
  intros ps l U p q E.
  assert (A : atomic_order byte l = true).
  { unfold atomic_order. rewrite <- ok_scan_unflush, U. apply skeleton_atomic_order. }
  assert (W : written byte l = concat ps).
  { rewrite <- written_skeleton, <- U. clear. induction l as [|o l IH]; [reflexivity|].
    destruct o; cbn [unflush filter written flat_map]; fold (unflush byte l); fold (written byte l); fold (written byte (unflush byte l)); rewrite ?IH; reflexivity. }
  rewrite <- W. apply (buffered_upload_atomic l A p q E).
Qed.
End P.

(* the order matters: with the rename INSIDE the open block (before the close) a kill right after the rename leaves the
   destination name on a file that holds nothing yet *)
Example rename_before_close_refuted :
  let l := [BOpen; BWrite [1; 2; 3]; BRename; BClose] in
  atomic_order nat l = false /\
  exists p q, l = p ++ q /\ visible _ (exec nat p) = Some [] /\ written nat l = [1; 2; 3].
Proof. split; [reflexivity|]. exists [BOpen; BWrite [1; 2; 3]; BRename], [BClose]. repeat split. Qed.
