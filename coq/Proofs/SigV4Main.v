(* C16 - the main theorem: Authorization computed by the adapter = Authorization required by the
   independent specification for the request on the wire. *)
From Coq Require Import List NArith Bool String Lia Arith PeanoNat.
From Coq Require Import Strings.Byte.
From Replicat Require Import Model.SigV4Prims Model.SigV4 Model.SigV4Spec Proofs.SigV4Proofs.
Import ListNotations.

(* ------------------------------------------------------------------ the query *)
Definition enc_pair (kv : bytes * bytes) : bytes := py_quote [] (fst kv) ++ b "=" ++ py_quote [] (snd kv).
Definition EQ (ps : list (bytes * bytes)) : list (bytes * bytes) := map (fun kv => (py_quote [] (fst kv), py_quote [] (snd kv))) ps.

Lemma urlencode_as_join : forall ps, urlencode_quote ps = join (b "&") (map enc_pair ps).
Proof. reflexivity. Qed.

Lemma enc_pair_no_amp : forall kv, absent "&" (enc_pair kv) = true.
Proof.
  intros kv. unfold enc_pair. rewrite !absent_app, !absent_quote by reflexivity. reflexivity.
Qed.

Lemma split_params : forall ps, ps <> [] -> split_on "&" (join (b "&") (map enc_pair ps)) = map enc_pair ps.
Proof.
  induction ps as [|kv ps IH]; intros Hne; [congruence|].
  destruct ps as [|kv2 ps].
  - cbn [map join flat_map]. rewrite app_nil_r. apply split_on_absent. apply enc_pair_no_amp.
  - cbn [map]. rewrite join_cons_cons. change (b "&" ++ ?x) with ("&"%byte :: x).
    rewrite split_on_sep by apply enc_pair_no_amp. f_equal. apply IH. discriminate.
Qed.

Lemma enc_pair_truthy : forall kv, truthy (enc_pair kv) = true.
Proof. intros kv. unfold enc_pair. destruct (py_quote [] (fst kv)); reflexivity. Qed.

Lemma split_enc_pair : forall kv, split_pair (enc_pair kv) = (py_quote [] (fst kv), py_quote [] (snd kv)).
Proof.
  intros kv. unfold split_pair, enc_pair. change (b "=" ++ ?x) with ("="%byte :: x).
  rewrite split_first_sep by (apply absent_quote; reflexivity). reflexivity.
Qed.

Lemma filter_map_all : forall {A B} (f : B -> bool) (g : A -> B) l, (forall x, f (g x) = true) -> filter f (map g l) = map g l.
Proof. intros A B f g l H. induction l as [|x l IH]; [reflexivity|]. cbn. rewrite H, IH. reflexivity. Qed.

(* if sorting the encoded pairs gives the encoding of the pairs in the order the code lists them, the query
   string the code sends and signs is the canonical query string *)
Lemma canonical_query_of_urlencode : forall ps, ps <> [] -> isort pair_leb (EQ ps) = EQ ps ->
  canonical_query (Some (urlencode_quote ps)) = urlencode_quote ps.
Proof.
  intros ps Hne Hsorted. unfold canonical_query. rewrite urlencode_as_join, split_params by exact Hne.
  rewrite filter_map_all by apply enc_pair_truthy.
  rewrite map_map.
    assert (E : map (fun x => let '(k, v) := split_pair (enc_pair x) in (uri_encode (pct_decode true k), uri_encode (pct_decode true v))) ps = EQ ps).
    { unfold EQ. apply map_ext. intros kv. rewrite split_enc_pair, !decode_quote, !uri_encode_eq. reflexivity. }
    rewrite E, Hsorted. unfold EQ. rewrite map_map. reflexivity.
Qed.

(* the listing query of _list_objects satisfies the hypothesis, whatever the token and the prefix *)
Lemma list_query_sorted : forall tok prefix,
  let ps := sorted_items (list_objects_query tok prefix) in
  ps <> [] /\ isort pair_leb (EQ ps) = EQ ps /\ truthy (list_objects_query tok prefix) = true.
Proof.
  intros tok prefix. destruct tok as [t|]; destruct prefix as [|p0 pr]; cbv zeta; (split; [discriminate|split; reflexivity]).
Qed.

(* ------------------------------------------------------------------ header values *)
Definition no_space (s : bytes) : bool := forallb (fun c => negb (Byte.eqb c " ")) s.

Lemma collapse_no_space : forall s p, no_space s = true -> collapse p s = s.
Proof.
  induction s as [|c s IH]; intros p H; [reflexivity|].
  cbn [no_space forallb] in H. apply andb_prop in H. destruct H as [Hc Hs]. apply negb_true_iff in Hc.
  cbn [collapse]. rewrite Hc. f_equal. apply IH. exact Hs.
Qed.

Lemma trimall_no_space : forall s, no_space s = true -> trimall s = s.
Proof.
  intros s H. unfold trimall. rewrite collapse_no_space by exact H. unfold strip_trailing_space.
  destruct (rev s) as [|c r] eqn:E; [reflexivity|].
  assert (Hin : In c s). { apply in_rev. rewrite E. left. reflexivity. }
  unfold no_space in H. rewrite forallb_forall in H. specialize (H c Hin). apply negb_true_iff in H. rewrite H. reflexivity.
Qed.

Lemma no_space_app : forall x y, no_space (x ++ y) = no_space x && no_space y.
Proof. intros. apply forallb_app. Qed.

Lemma header_values_app : forall x y n, header_values (x ++ y) n = header_values x n ++ header_values y n.
Proof. intros. unfold header_values. rewrite filter_app, map_app. reflexivity. Qed.

(* none of the headers the HTTP library adds by itself is called [n] *)
Definition free_of (n : bytes) (extra : list (bytes * bytes)) : bool :=
  forallb (fun h => negb (bytes_eqb (lower (fst h)) n)) extra.

Lemma header_values_free : forall extra n, free_of n extra = true -> header_values extra n = [].
Proof.
  induction extra as [|h extra IH]; intros n H; [reflexivity|].
  cbn [free_of forallb] in H. apply andb_prop in H. destruct H as [Hh He]. apply negb_true_iff in Hh.
  unfold header_values in *. cbn [filter]. rewrite Hh. apply IH. exact He.
Qed.

Definition extra_ok (extra : list (bytes * bytes)) : bool :=
  free_of (b "host") extra && free_of (b "x-amz-content-sha256") extra && free_of (b "x-amz-date") extra
  && free_of (b "authorization") extra
  && forallb (fun h => negb (starts_with (b "x-amz-") (lower (fst h)))) extra.

Lemma firstn_app_exact : forall {A} (x y : list A) n, List.length x = n -> firstn n (x ++ y) = x.
Proof. intros A x y n H. subst n. rewrite firstn_app, Nat.sub_diag, firstn_all. cbn. apply app_nil_r. Qed.

Lemma skipn_app_exact : forall {A} (x y : list A), skipn (List.length x) (x ++ y) = y.
Proof. intros A x y. rewrite skipn_app, Nat.sub_diag, skipn_all. reflexivity. Qed.

(* ------------------------------------------------------------------ the theorem *)
Section Main.
Variable sha256hex : bytes -> bytes.
Variable hmac : bytes -> bytes -> bytes.
Variable hex : bytes -> bytes.
Variables self_host self_region self_key_id self_access_key self_url : bytes.

Definition signed3 : list bytes := [b "host"; b "x-amz-content-sha256"; b "x-amz-date"].

Definition query_ok (query : list (bytes * bytes)) : Prop :=
  query = [] \/ (truthy query = true /\ let ps := sorted_items query in ps <> [] /\ isort pair_leb (EQ ps) = EQ ps).
Definition headers_ok (headers : list (bytes * bytes)) : Prop :=
  headers = [] \/ exists v, headers = [(b "content-length", v)].

Record request_ok (ymd hms uri : bytes) (query : list (bytes * bytes)) (digest : bytes)
                  (headers extra : list (bytes * bytes)) : Prop := {
  ok_dots : no_dot_segments (py_quote (b "/") uri) = true;
  ok_query : query_ok query;
  ok_headers : headers_ok headers;
  ok_host : no_space self_host = true;
  ok_ymd : no_space ymd = true /\ List.length ymd = 8;
  ok_hms : no_space hms = true;
  ok_digest : no_space digest = true;
  ok_extra : extra_ok extra = true }.

Definition the_request ymd hms method uri query digest headers :=
  prepare_request sha256hex hmac hex self_host self_region self_key_id self_access_key self_url ymd hms method uri query digest headers.

Definition authorization_on_wire (w : wire) : bytes := first_value (w_headers w) (b "authorization").

Lemma httpx_target_of_quoted : forall uri qs,
  no_dot_segments (py_quote (b "/") uri) = true ->
  httpx_target (py_quote (b "/") uri) = py_quote (b "/") uri /\
  httpx_target (py_quote (b "/") uri ++ b "?" ++ qs) = py_quote (b "/") uri ++ b "?" ++ qs.
Proof.
  intros uri qs Hd.
  assert (Hq : absent "?" (py_quote (b "/") uri) = true) by (apply absent_in_quoted_path; reflexivity).
  assert (Hn : httpx_normalize_path (py_quote (b "/") uri) = py_quote (b "/") uri).
  { unfold httpx_normalize_path. unfold no_dot_segments in Hd. apply negb_true_iff in Hd. cbv zeta. rewrite Hd. reflexivity. }
  unfold httpx_target. split.
  - rewrite split_first_absent by exact Hq. exact Hn.
  - change (b "?" ++ qs) with ("?"%byte :: qs). rewrite split_first_sep by exact Hq. rewrite Hn. reflexivity.
Qed.

Lemma wire_split : forall uri qs,
  split_first "?" (py_quote (b "/") uri) = (py_quote (b "/") uri, None) /\
  split_first "?" (py_quote (b "/") uri ++ b "?" ++ qs) = (py_quote (b "/") uri, Some qs).
Proof.
  intros uri qs.
  assert (Hq : absent "?" (py_quote (b "/") uri) = true) by (apply absent_in_quoted_path; reflexivity).
  split; [apply split_first_absent; exact Hq|].
  change (b "?" ++ qs) with ("?"%byte :: qs). apply split_first_sep. exact Hq.
Qed.

(* the pieces the code computes, spelled out *)
Definition amz_date (ymd hms : bytes) : bytes := (ymd ++ b "T" ++ hms) ++ b "Z".
Definition code_canonical_headers (ymd hms digest : bytes) : list (bytes * bytes) :=
  [(b "host", self_host); (b "x-amz-content-sha256", digest); (b "x-amz-date", amz_date ymd hms)].
Definition code_canonical_request (ymd hms method uri qs digest : bytes) : bytes :=
  make_canonical_request method (py_quote (b "/") uri) qs (make_canonical_headers (code_canonical_headers ymd hms digest))
    (join (b ";") (map fst (code_canonical_headers ymd hms digest))) digest.
Definition code_scope (ymd : bytes) : bytes := make_credential_scope ymd self_region (b "s3").
Definition code_authorization (ymd hms method uri qs digest : bytes) : bytes :=
  b "AWS4-HMAC-SHA256 Credential=" ++ self_key_id ++ b "/" ++ code_scope ymd ++ b ", SignedHeaders="
  ++ join (b ";") (map fst (code_canonical_headers ymd hms digest)) ++ b ", Signature="
  ++ hex (hmac (make_signature_key hmac self_access_key ymd self_region (b "s3"))
               (make_string_to_sign sha256hex (amz_date ymd hms) (code_scope ymd) (code_canonical_request ymd hms method uri qs digest))).
Definition code_headers (ymd hms method uri qs digest : bytes) (headers : list (bytes * bytes)) : list (bytes * bytes) :=
  headers ++ [(b "host", self_host); (b "x-amz-content-sha256", digest); (b "x-amz-date", amz_date ymd hms);
              (b "authorization", code_authorization ymd hms method uri qs digest)].

Lemma the_request_no_query : forall ymd hms method uri digest headers, headers_ok headers ->
  the_request ymd hms method uri [] digest headers
  = (method, self_url ++ py_quote (b "/") uri, code_headers ymd hms method uri [] digest headers).
Proof. intros ymd hms method uri digest headers [-> | [v ->]]; reflexivity. Qed.

Lemma the_request_query : forall ymd hms method uri query digest headers, headers_ok headers -> truthy query = true ->
  the_request ymd hms method uri query digest headers
  = (method, (self_url ++ py_quote (b "/") uri) ++ b "?" ++ urlencode_quote (sorted_items query),
     code_headers ymd hms method uri (urlencode_quote (sorted_items query)) digest headers).
Proof.
  intros ymd hms method uri query digest headers Hh Ht. unfold the_request, prepare_request. rewrite Ht.
  destruct Hh as [-> | [v ->]]; reflexivity.
Qed.

(* what the specification reads off the wire headers *)
Lemma wire_header_values : forall ymd hms method uri qs digest headers extra, headers_ok headers -> extra_ok extra = true ->
  let hs := extra ++ code_headers ymd hms method uri qs digest headers in
  header_values hs (b "host") = [self_host] /\
  header_values hs (b "x-amz-content-sha256") = [digest] /\
  header_values hs (b "x-amz-date") = [amz_date ymd hms] /\
  header_values hs (b "authorization") = [code_authorization ymd hms method uri qs digest].
Proof.
  intros ymd hms method uri qs digest headers extra Hh He. cbv zeta.
  unfold extra_ok in He. repeat (apply andb_prop in He; destruct He as [He ?]).
  rewrite !header_values_app.
  rewrite (header_values_free extra (b "host")), (header_values_free extra (b "x-amz-content-sha256")),
    (header_values_free extra (b "x-amz-date")), (header_values_free extra (b "authorization")) by assumption.
  destruct Hh as [-> | [v ->]]; repeat split; reflexivity.
Qed.

Lemma canonical_headers_eq : forall ymd hms method uri qs digest headers extra, headers_ok headers -> extra_ok extra = true ->
  no_space self_host = true -> no_space ymd = true -> no_space hms = true -> no_space digest = true ->
  canonical_headers (extra ++ code_headers ymd hms method uri qs digest headers) signed3
  = make_canonical_headers (code_canonical_headers ymd hms digest).
Proof.
  intros ymd hms method uri qs digest headers extra Hh He H1 H2 H3 H4.
  destruct (wire_header_values ymd hms method uri qs digest headers extra Hh He) as (V1 & V2 & V3 & _).
  unfold canonical_headers, signed3. cbn [flat_map]. rewrite V1, V2, V3. cbn [map join flat_map]. rewrite !app_nil_r.
  assert (H5 : no_space (amz_date ymd hms) = true).
  { unfold amz_date. rewrite !no_space_app, H2, H3. reflexivity. }
  rewrite !trimall_no_space by assumption.
  unfold make_canonical_headers, code_canonical_headers. cbv zeta. cbn [map join flat_map fst snd]. rewrite <- !app_assoc. reflexivity.
Qed.

Theorem authorization_correct : forall ymd hms method uri query digest headers extra,
  request_ok ymd hms uri query digest headers extra ->
  let w := wire_of self_url extra (the_request ymd hms method uri query digest headers) in
  authorization_on_wire w
  = authorization_spec sha256hex hmac hex w signed3 self_key_id self_access_key self_region (b "s3").
Proof.
  intros ymd hms method uri query digest headers extra [Hd Hq Hh H1 [H2 H2l] H3 H4 He]. cbv zeta.
  set (qs := match query with [] => [] | _ => urlencode_quote (sorted_items query) end).
  (* the request and the wire, in both cases of the query *)
  assert (Hw : wire_of self_url extra (the_request ymd hms method uri query digest headers)
               = {| w_method := method;
                    w_target := py_quote (b "/") uri ++ (if truthy query then b "?" ++ qs else []);
                    w_headers := extra ++ code_headers ymd hms method uri qs digest headers |}).
  { destruct Hq as [-> | (Ht & _)].
    - rewrite the_request_no_query by exact Hh. unfold wire_of. rewrite skipn_app_exact.
      destruct (httpx_target_of_quoted uri [] Hd) as [T1 _]. rewrite T1. cbn [truthy]. rewrite app_nil_r. reflexivity.
    - rewrite the_request_query by assumption. unfold wire_of. rewrite <- app_assoc, skipn_app_exact.
      destruct (httpx_target_of_quoted uri (urlencode_quote (sorted_items query)) Hd) as [_ T2]. rewrite T2, Ht.
      unfold qs. destruct query; [discriminate Ht|]. reflexivity. }
  rewrite Hw. clear Hw.
  destruct (wire_header_values ymd hms method uri qs digest headers extra Hh He) as (V1 & V2 & V3 & V4).
  (* canonical request derived from the wire = the one the code hashed *)
  assert (Hcreq : canonical_request_spec {| w_method := method; w_target := py_quote (b "/") uri ++ (if truthy query then b "?" ++ qs else []);
                                            w_headers := extra ++ code_headers ymd hms method uri qs digest headers |} signed3
                  = code_canonical_request ymd hms method uri qs digest).
  { unfold canonical_request_spec. cbn [w_target w_method w_headers].
    destruct (wire_split uri qs) as [S1 S2].
    assert (Hsplit : split_first "?" (py_quote (b "/") uri ++ (if truthy query then b "?" ++ qs else []))
                     = (py_quote (b "/") uri, if truthy query then Some qs else None)).
    { destruct (truthy query); [exact S2|rewrite app_nil_r; exact S1]. }
    rewrite Hsplit. cbv beta iota. rewrite canonical_uri_of_quoted.
    match goal with |- context [canonical_query ?X] => assert (Hcq : canonical_query X = qs) end.
    { destruct Hq as [-> | (Ht & Hne & Hs)]; [reflexivity|]. rewrite Ht. unfold qs. destruct query; [discriminate Ht|].
      apply canonical_query_of_urlencode; assumption. }
    rewrite Hcq. rewrite canonical_headers_eq by assumption.
    unfold first_value. rewrite V2. reflexivity. }
  unfold authorization_on_wire, authorization_spec, signature_spec, string_to_sign_spec, scope_spec, first_value.
  cbn [w_headers]. rewrite V3, V4, Hcreq.
  assert (Hdate : firstn 8 (amz_date ymd hms) = ymd).
  { unfold amz_date. rewrite <- app_assoc. apply firstn_app_exact. exact H2l. }
  rewrite Hdate. reflexivity.
Qed.

(* host and every x-amz-* header on the wire are signed *)
Theorem required_headers_signed : forall ymd hms method uri qs digest headers extra, headers_ok headers -> extra_ok extra = true ->
  must_sign (extra ++ code_headers ymd hms method uri qs digest headers) = signed3.
Proof.
  intros ymd hms method uri qs digest headers extra Hh He.
  unfold extra_ok in He. apply andb_prop in He. destruct He as [He Hx].
  repeat (apply andb_prop in He; destruct He as [He ?]).
  unfold must_sign. rewrite map_app, filter_app.
  assert (E : filter (fun n => bytes_eqb n (b "host") || starts_with (b "x-amz-") n) (map (fun h => lower (fst h)) extra) = []).
  { clear - He Hx. induction extra as [|h extra IH]; [reflexivity|].
    cbn [free_of forallb] in He, Hx. apply andb_prop in He. destruct He as [Hh He']. apply andb_prop in Hx. destruct Hx as [Hxh Hx'].
    cbn [map filter]. apply negb_true_iff in Hh, Hxh. rewrite Hh, Hxh. cbn [orb]. apply IH; assumption. }
  rewrite E. destruct Hh as [-> | [v ->]]; reflexivity.
Qed.
End Main.
