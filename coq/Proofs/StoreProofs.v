(* Lemmas shared by the C13 refinements: strings, association lists, sorted association lists,
   pagination over a sorted key list, and the generic "commuting steps => equal histories" lemma. *)
From Coq Require Import List NArith Bool Arith Lia Sorted.
From Replicat Require Import Model.Store.
Import ListNotations.
Local Open Scope N_scope.

(* ------------------------------------------------------------------ strings *)
Lemma str_eqb_eq : forall a b, str_eqb a b = true <-> a = b.
Proof.
  induction a as [|x a IH]; destruct b as [|y b]; cbn; split; intro H; try reflexivity; try discriminate.
  - apply andb_true_iff in H. destruct H as [H1 H2]. apply N.eqb_eq in H1. apply IH in H2. subst. reflexivity.
  - inversion H; subst. apply andb_true_iff. split. apply N.eqb_refl. apply IH. reflexivity.
Qed.

Lemma str_eqb_refl : forall a, str_eqb a a = true.
Proof. intro a. apply str_eqb_eq. reflexivity. Qed.

Lemma str_cmp_eq : forall a b, str_cmp a b = Eq <-> a = b.
Proof.
  induction a as [|x a IH]; destruct b as [|y b]; cbn; split; intro H; try reflexivity; try discriminate.
  - destruct (x ?= y) eqn:E; try discriminate. apply N.compare_eq in E. apply IH in H. subst. reflexivity.
  - inversion H; subst. rewrite N.compare_refl. apply IH. reflexivity.
Qed.

Lemma str_cmp_antisym : forall a b, str_cmp b a = CompOpp (str_cmp a b).
Proof.
  induction a as [|x a IH]; destruct b as [|y b]; cbn; try reflexivity.
  rewrite (N.compare_antisym x y). destruct (x ?= y); cbn; auto.
Qed.

Lemma str_cmp_trans : forall a b c, str_cmp a b = Lt -> str_cmp b c = Lt -> str_cmp a c = Lt.
Proof.
  induction a as [|x a IH]; destruct b as [|y b]; destruct c as [|z c]; cbn; intros H1 H2;
    try discriminate; try reflexivity.
  destruct (x ?= y) eqn:E1; try discriminate; destruct (y ?= z) eqn:E2; try discriminate.
  - apply N.compare_eq in E1; apply N.compare_eq in E2; subst. rewrite N.compare_refl. eapply IH; eauto.
  - apply N.compare_eq in E1; subst. rewrite E2. reflexivity.
  - apply N.compare_eq in E2; subst. rewrite E1. reflexivity.
  - apply N.compare_lt_iff in E1. apply N.compare_lt_iff in E2.
    assert (Hxz : x < z) by (eapply N.lt_trans; eauto). apply N.compare_lt_iff in Hxz. rewrite Hxz. reflexivity.
Qed.

(* a comparison function that is a strict total order *)
Definition total_order {K} (cmp : K -> K -> comparison) : Prop :=
  (forall a b, cmp a b = Eq <-> a = b) /\
  (forall a b, cmp b a = CompOpp (cmp a b)) /\
  (forall a b c, cmp a b = Lt -> cmp b c = Lt -> cmp a c = Lt).

Lemma str_cmp_total_order : total_order str_cmp.
Proof. repeat split; try apply str_cmp_eq. apply str_cmp_antisym. apply str_cmp_trans. Qed.

Lemma last_cons_default : forall {A} (l : list A) a x, last (a :: l) x = last l a.
Proof.
  intros A l. induction l as [|b l IH]; intros a x; [reflexivity|].
  change (last (a :: b :: l) x) with (last (b :: l) x). rewrite (IH b x), (IH b a). reflexivity.
Qed.

Lemma last_opt_app_nonempty : forall {A} (l1 l2 : list A), l2 <> [] -> last_opt (l1 ++ l2) = last_opt l2.
Proof.
  intros A l1 l2 H. destruct l2 as [|y l2]; [contradiction|]. clear H.
  induction l1 as [|x l1 IH]; auto.
  cbn [app]. unfold last_opt in *. destruct (l1 ++ y :: l2) eqn:E.
  - destruct l1; discriminate.
  - rewrite <- IH. f_equal. apply last_cons_default.
Qed.

Lemma last_opt_spec : forall {A} (l : list A) t, last_opt l = Some t <-> exists l', l = l' ++ [t].
Proof.
  intros A l t. split.
  - destruct l as [|x d]; cbn; intro H; [discriminate|]. inversion H; subst.
    exists (removelast (x :: d)).
    assert (Hne : x :: d <> []) by discriminate.
    rewrite (app_removelast_last x Hne) at 1. f_equal. f_equal. destruct d; reflexivity.
  - intros [l' ->]. rewrite last_opt_app_nonempty by discriminate. reflexivity.
Qed.

(* ------------------------------------------------------------------ association lists *)
Section AssocLemmas.
  Context {K V : Type}.
  Variable keq : K -> K -> bool.
  Hypothesis keq_spec : forall a b, keq a b = true <-> a = b.

  Lemma keq_refl : forall a, keq a a = true.
  Proof. intro a. apply keq_spec. reflexivity. Qed.

  Lemma keq_false : forall a b, keq a b = false <-> a <> b.
  Proof.
    intros a b. split; intro H.
    - intro E. apply keq_spec in E. congruence.
    - destruct (keq a b) eqn:E; auto. apply keq_spec in E. contradiction.
  Qed.

  Lemma alookup_aremove : forall (j k : K) (l : list (K * V)),
    alookup keq j (aremove keq k l) = if keq j k then None else alookup keq j l.
  Proof.
    intros j k l. induction l as [|[k' v] t IH]; cbn.
    - destruct (keq j k); reflexivity.
    - destruct (keq k k') eqn:E1.
      + apply keq_spec in E1. subst k'. rewrite IH. destruct (keq j k); reflexivity.
      + cbn. destruct (keq j k') eqn:E2.
        * apply keq_spec in E2. subst k'. destruct (keq j k) eqn:E3; auto.
          apply keq_spec in E3. subst. rewrite keq_refl in E1. discriminate.
        * apply IH.
  Qed.

  Lemma alookup_aput : forall (j k : K) (v : V) l,
    alookup keq j (aput keq k v l) = if keq j k then Some v else alookup keq j l.
  Proof.
    intros j k v l. unfold aput. cbn. destruct (keq j k) eqn:E; auto.
    rewrite alookup_aremove, E. reflexivity.
  Qed.

  Lemma alookup_In : forall (k : K) (v : V) l, alookup keq k l = Some v -> In (k, v) l.
  Proof.
    intros k v l. induction l as [|[k' v'] t IH]; cbn; intro H; try discriminate.
    destruct (keq k k') eqn:E.
    - apply keq_spec in E. inversion H; subst. left; reflexivity.
    - right. auto.
  Qed.

  Lemma alookup_None_notin : forall (k : K) (l : list (K * V)), alookup keq k l = None <-> ~ In k (map fst l).
  Proof.
    intros k l. induction l as [|[k' v'] t IH]; cbn.
    - split; auto.
    - destruct (keq k k') eqn:E.
      + apply keq_spec in E. subst. split; [discriminate|]. intro H. exfalso. apply H. left; reflexivity.
      + apply keq_false in E. rewrite IH. split; intro H.
        * intros [H1|H1]; [congruence|contradiction].
        * intro H1. apply H. right. exact H1.
  Qed.

  Lemma In_keys_alookup : forall (k : K) (l : list (K * V)), In k (map fst l) <-> exists v, alookup keq k l = Some v.
  Proof.
    intros k l. destruct (alookup keq k l) eqn:E.
    - split; [eauto|]. intros _. apply alookup_In in E. apply in_map_iff. exists (k, v). auto.
    - apply alookup_None_notin in E. split; [contradiction|]. intros [v Hv]. discriminate.
  Qed.

  Lemma In_alookup_NoDup : forall (k : K) (v : V) l, NoDup (map fst l) -> In (k, v) l -> alookup keq k l = Some v.
  Proof.
    intros k v l. induction l as [|[k' v'] t IH]; cbn; intros Hnd Hin; [contradiction|].
    inversion Hnd as [|? ? Hni Hnd']; subst.
    destruct Hin as [Hin|Hin].
    - inversion Hin; subst. rewrite keq_refl. reflexivity.
    - destruct (keq k k') eqn:E.
      + apply keq_spec in E. subst. exfalso. apply Hni. apply in_map_iff. exists (k', v). auto.
      + auto.
  Qed.

  Lemma keys_aremove_subset : forall (j k : K) (l : list (K * V)), In j (map fst (aremove keq k l)) -> In j (map fst l) /\ j <> k.
  Proof.
    intros j k l H. apply In_keys_alookup in H. destruct H as [v Hv]. rewrite alookup_aremove in Hv.
    destruct (keq j k) eqn:E; try discriminate. split.
    - apply In_keys_alookup. eauto.
    - apply keq_false. exact E.
  Qed.

  Lemma NoDup_keys_aremove : forall (k : K) (l : list (K * V)), NoDup (map fst l) -> NoDup (map fst (aremove keq k l)).
  Proof.
    intros k l. induction l as [|[k' v'] t IH]; cbn; intro H; [constructor|].
    inversion H as [|? ? Hni Hnd]; subst. destruct (keq k k').
    - auto.
    - cbn. constructor; auto. intro Hin. apply keys_aremove_subset in Hin. tauto.
  Qed.

  Lemma NoDup_keys_aput : forall (k : K) (v : V) l, NoDup (map fst l) -> NoDup (map fst (aput keq k v l)).
  Proof.
    intros k v l H. unfold aput. cbn. constructor.
    - intro Hin. apply keys_aremove_subset in Hin. tauto.
    - apply NoDup_keys_aremove. exact H.
  Qed.

  Lemma aremove_idempotent : forall (k : K) (l : list (K * V)), aremove keq k (aremove keq k l) = aremove keq k l.
  Proof.
    intros k l. induction l as [|[k' v] t IH]; cbn; auto.
    destruct (keq k k') eqn:E; auto. cbn. rewrite E, IH. reflexivity.
  Qed.
End AssocLemmas.

(* the specification itself: an upload replaces, a delete is idempotent *)
Section SpecLemmas.
  Context {K P : Type}.
  Variable keq : K -> K -> bool.
  Variable matches : P -> K -> bool.
  Hypothesis keq_spec : forall a b, keq a b = true <-> a = b.

  Lemma spec_upload_replaces : forall k v (s : @store K),
    let s' := fst (spec_step keq matches (Upload k v) s) in
    snd (spec_step keq matches (Download k) s') = OData v /\
    forall j, j <> k -> snd (spec_step keq matches (Download j) s') = snd (spec_step keq matches (Download j) s).
  Proof.
    intros k v s. cbn. rewrite (keq_refl keq keq_spec). split; auto.
    intros j Hj. apply (keq_false keq keq_spec) in Hj. rewrite Hj, (alookup_aremove keq keq_spec), Hj. reflexivity.
  Qed.

  Lemma spec_delete_idempotent : forall k (s : @store K),
    fst (spec_step keq matches (Delete k) (fst (spec_step keq matches (Delete k) s))) = fst (spec_step keq matches (Delete k) s).
  Proof. intros k s. cbn. apply aremove_idempotent. Qed.
End SpecLemmas.

(* ------------------------------------------------------------------ sorted association lists *)
Section SortedLemmas.
  Context {K : Type}.
  Variable cmp : K -> K -> comparison.
  Hypothesis ord : total_order cmp.

  Let cmp_eq := proj1 ord.
  Let cmp_antisym := proj1 (proj2 ord).
  Let cmp_trans := proj2 (proj2 ord).

  Definition klt (a b : K) : Prop := cmp a b = Lt.
  Definition ksorted {V} (l : list (K * V)) : Prop := StronglySorted klt (map fst l).

  Lemma ceq_spec : forall a b, ceq cmp a b = true <-> a = b.
  Proof.
    intros a b. unfold ceq. rewrite <- cmp_eq. destruct (cmp a b); split; intro H; try reflexivity; discriminate.
  Qed.

  Lemma cmp_refl : forall a, cmp a a = Eq.
  Proof. intro a. apply cmp_eq. reflexivity. Qed.

  Lemma cmp_gt_lt : forall a b, cmp a b = Gt -> cmp b a = Lt.
  Proof. intros a b H. rewrite cmp_antisym, H. reflexivity. Qed.

  Lemma klt_irrefl : forall a, ~ klt a a.
  Proof. intros a H. unfold klt in H. rewrite cmp_refl in H. discriminate. Qed.

  Lemma klt_trans : forall a b c, klt a b -> klt b c -> klt a c.
  Proof. exact cmp_trans. Qed.

  Lemma sorted_NoDup : forall l : list K, StronglySorted klt l -> NoDup l.
  Proof.
    induction l as [|a l IH]; intro H; constructor; inversion H as [|? ? Hs Hf]; subst; auto.
    intro Hin. rewrite Forall_forall in Hf. apply (klt_irrefl a). auto.
  Qed.

  Lemma sorted_filter : forall (f : K -> bool) l, StronglySorted klt l -> StronglySorted klt (filter f l).
  Proof.
    intros f l. induction l as [|a l IH]; cbn; intro H; [constructor|].
    inversion H as [|? ? Hs Hf]; subst. destruct (f a); auto.
    constructor; auto. rewrite Forall_forall in *. intros x Hx. apply filter_In in Hx. apply Hf. tauto.
  Qed.

  Lemma sorted_app_inv : forall l1 l2 : list K, StronglySorted klt (l1 ++ l2) ->
    StronglySorted klt l1 /\ StronglySorted klt l2 /\ (forall a b, In a l1 -> In b l2 -> klt a b).
  Proof.
    induction l1 as [|x l1 IH]; cbn; intros l2 H.
    - repeat split; auto. constructor. intros a b [].
    - inversion H as [|? ? Hs Hf]; subst. destruct (IH _ Hs) as (H1 & H2 & H3).
      rewrite Forall_forall in Hf. repeat split; auto.
      + constructor; auto. rewrite Forall_forall. intros y Hy. apply Hf. apply in_or_app. auto.
      + intros a b [Ha|Ha] Hb; subst; auto. apply Hf. apply in_or_app. auto.
  Qed.

  Section WithV.
    Context {V : Type}.

    Lemma Forall_keys_sinsert : forall (Q : K -> Prop) (k : K) (v : V) l,
      Q k -> Forall Q (map fst l) -> Forall Q (map fst (sinsert cmp k v l)).
    Proof.
      intros Q k v l Hk. induction l as [|[k' v'] t IH]; cbn; intro H.
      - constructor; auto.
      - inversion H; subst. destruct (cmp k k'); cbn; constructor; auto.
    Qed.

    Lemma sinsert_sorted : forall (k : K) (v : V) l, ksorted l -> ksorted (sinsert cmp k v l).
    Proof.
      unfold ksorted. intros k v l. induction l as [|[k' v'] t IH]; cbn; intro H.
      - constructor; constructor.
      - inversion H as [|? ? Hs Hf]; subst. destruct (cmp k k') eqn:E; cbn.
        + apply cmp_eq in E. subst. constructor; auto.
        + constructor; auto. constructor; auto.
          rewrite Forall_forall in *. intros x Hx. eapply klt_trans; [exact E|]. auto.
        + constructor; auto. apply Forall_keys_sinsert; auto. apply cmp_gt_lt. exact E.
    Qed.

    Lemma alookup_sinsert : forall (j k : K) (v : V) l,
      alookup (ceq cmp) j (sinsert cmp k v l) = if ceq cmp j k then Some v else alookup (ceq cmp) j l.
    Proof.
      intros j k v l. induction l as [|[k' v'] t IH]; cbn.
      - reflexivity.
      - destruct (cmp k k') eqn:E; cbn.
        + apply cmp_eq in E. subst k'. destruct (ceq cmp j k); reflexivity.
        + reflexivity.
        + destruct (ceq cmp j k') eqn:E2.
          * apply ceq_spec in E2. subst k'. destruct (ceq cmp j k) eqn:E3; auto.
            apply ceq_spec in E3. subst. rewrite cmp_refl in E. discriminate.
          * apply IH.
    Qed.

    Lemma aremove_sorted : forall (k : K) (l : list (K * V)), ksorted l -> ksorted (aremove (ceq cmp) k l).
    Proof.
      unfold ksorted. intros k l. induction l as [|[k' v'] t IH]; cbn; intro H; [constructor|].
      inversion H as [|? ? Hs Hf]; subst. destruct (ceq cmp k k'); auto.
      cbn. constructor; auto. rewrite Forall_forall in *. intros x Hx.
      apply (keys_aremove_subset (ceq cmp) ceq_spec) in Hx. apply Hf. tauto.
    Qed.

    Lemma ksorted_NoDup : forall l : list (K * V), ksorted l -> NoDup (map fst l).
    Proof. intros l H. apply sorted_NoDup. exact H. Qed.
  End WithV.

  (* ---- pagination over a sorted list of keys *)
  Lemma filter_clt_last : forall (done rest : list K) (t : K),
    StronglySorted klt (done ++ rest) -> last_opt done = Some t ->
    filter (clt cmp t) (done ++ rest) = rest.
  Proof.
    intros done rest t Hs Hl.
    apply last_opt_spec in Hl. destruct Hl as [d' ->].
    destruct (sorted_app_inv _ _ Hs) as (Hd & Hr & Hdr).
    destruct (sorted_app_inv _ _ Hd) as (_ & _ & Hdt).
    assert (Hle : forall a, In a (d' ++ [t]) -> clt cmp t a = false).
    { intros a Ha. unfold clt. apply in_app_or in Ha. destruct Ha as [Ha|[Ha|[]]].
      - rewrite cmp_antisym. rewrite (Hdt a t Ha (or_introl eq_refl)). reflexivity.
      - subst. rewrite cmp_refl. reflexivity. }
    assert (Hgt : forall b, In b rest -> clt cmp t b = true).
    { intros b Hb. unfold clt. rewrite (Hdr t b); auto. apply in_or_app. right. left. reflexivity. }
    rewrite filter_app.
    assert (E1 : filter (clt cmp t) (d' ++ [t]) = []).
    { clear -Hle. induction (d' ++ [t]) as [|a d IH]; cbn; auto. rewrite (Hle a) by (left; auto). apply IH. intros; apply Hle; right; auto. }
    assert (E2 : filter (clt cmp t) rest = rest).
    { clear -Hgt. induction rest as [|a d IH]; cbn; auto. rewrite (Hgt a) by (left; auto). f_equal. apply IH. intros; apply Hgt; right; auto. }
    rewrite E1, E2. reflexivity.
  Qed.

  Lemma filter_cle_head : forall (done rest : list K) (t : K),
    StronglySorted klt (done ++ t :: rest) ->
    filter (cle cmp t) (done ++ t :: rest) = t :: rest.
  Proof.
    intros done rest t Hs.
    destruct (sorted_app_inv _ _ Hs) as (Hd & Hr & Hdr).
    inversion Hr as [|? ? Hr' Hf]; subst. rewrite Forall_forall in Hf.
    rewrite filter_app.
    assert (E1 : filter (cle cmp t) done = []).
    { assert (Hlt : forall a, In a done -> cle cmp t a = false).
      { intros a Ha. unfold cle. rewrite cmp_antisym. rewrite (Hdr a t Ha (or_introl eq_refl)). reflexivity. }
      clear -Hlt. induction done as [|a d IH]; cbn; auto. rewrite (Hlt a) by (left; auto). apply IH. intros; apply Hlt; right; auto. }
    assert (E2 : filter (cle cmp t) (t :: rest) = t :: rest).
    { cbn. unfold cle at 1. rewrite cmp_refl. f_equal.
      assert (Hge : forall b, In b rest -> cle cmp t b = true).
      { intros b Hb. unfold cle. rewrite (Hf b Hb). reflexivity. }
      clear -Hge. induction rest as [|a d IH]; cbn; auto. rewrite (Hge a) by (left; auto). f_equal. apply IH. intros; apply Hge; right; auto. }
    rewrite E1, E2. reflexivity.
  Qed.
End SortedLemmas.

(* ------------------------------------------------------------------ commuting steps => equivalent histories *)
Section Refine.
  Context {O1 O2 S1 S2 B1 B2 : Type}.
  Variable step1 : O1 -> S1 -> S1 * B1.
  Variable step2 : O2 -> S2 -> S2 * B2.
  Variable g : O1 -> O2.
  Variable R : S1 -> S2 -> Prop.
  Variable E : B1 -> B2 -> Prop.
  Variable ok : O1 -> Prop.
  Hypothesis commute : forall o s1 s2, ok o -> R s1 s2 ->
    R (fst (step1 o s1)) (fst (step2 (g o) s2)) /\ E (snd (step1 o s1)) (snd (step2 (g o) s2)).

  Lemma run_refine : forall ops s1 s2, Forall ok ops -> R s1 s2 ->
    Forall2 E (run step1 ops s1) (run step2 (map g ops) s2).
  Proof.
    induction ops as [|o ops IH]; intros s1 s2 Hok HR; cbn; [constructor|].
    inversion Hok as [|? ? Ho Hrest]; subst.
    destruct (commute o s1 s2 Ho HR) as [HR' HE].
    destruct (step1 o s1) as [s1' b1]. destruct (step2 (g o) s2) as [s2' b2]. cbn in *.
    constructor; auto.
  Qed.

  Lemma final_refine : forall ops s1 s2, Forall ok ops -> R s1 s2 ->
    R (final step1 ops s1) (final step2 (map g ops) s2).
  Proof.
    induction ops as [|o ops IH]; intros s1 s2 Hok HR; cbn; auto.
    inversion Hok as [|? ? Ho Hrest]; subst.
    destruct (commute o s1 s2 Ho HR) as [HR' HE]. apply IH; auto.
  Qed.
End Refine.
