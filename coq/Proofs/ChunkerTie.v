(* B1 tie for C10/C11: the decision logic translated from src/adapters.cpp (Gen/ChunkerGen.v) is
   the logic of Model/Chunker.v, for all values. *)
From Coq Require Import ZArith Arith Lia Bool List.
From Replicat Require Import Model.Chunker Gen.ChunkerGen.
Local Open Scope Z_scope.

Ltac Zify.zify_post_hook ::= Z.to_euclidean_division_equations.

(* (x + 3) & -4 on naturals is 4 * ((x + 3) / 4) *)
Lemma land_m4 x : 0 <= x -> Z.land x (-4) = 4 * (x / 4).
Proof.
  intros Hx. change (-4) with (Z.lnot (Z.ones 2)).
  rewrite <- Z.ldiff_land. rewrite Z.ldiff_ones_r by lia.
  rewrite Z.shiftr_div_pow2, Z.shiftl_mul_pow2 by lia. change (2 ^ 2) with 4. lia.
Qed.

Lemma align4_Z (n : nat) : Z.of_nat (align4 n) = Z.land (Z.of_nat n + 3) (-4).
Proof.
  rewrite land_m4 by lia. unfold align4. rewrite Nat2Z.inj_mul, Nat2Z.inj_div, Nat2Z.inj_add. reflexivity.
Qed.

(* the branches of next_cut that do not scan *)
Definition model_early (mn mx : nat) (final : bool) (size : nat) : option nat :=
  if final && (size <? 2 * mx)%nat then
    Some (if (size <=? mx)%nat then size else if (size <? mx + mn)%nat then (size / 2)%nat else mx)
  else if negb final && (size <? align4 mx)%nat then Some O else None.

Lemma next_cut_early {B} (hash : list B -> N) mn mx buf junk final :
  next_cut hash mn mx buf junk final =
  match model_early mn mx final (length buf) with Some n => n | None => ref_cut hash mn mx (buf ++ junk) end.
Proof.
  unfold next_cut, model_early.
  destruct (final && (length buf <? 2 * mx)%nat); [reflexivity|].
  destruct (negb final && (length buf <? align4 mx)%nat); reflexivity.
Qed.

Lemma ltb_Z a b : (a <? b)%nat = (Z.of_nat a <? Z.of_nat b).
Proof. destruct (Nat.ltb_spec a b), (Z.ltb_spec (Z.of_nat a) (Z.of_nat b)); try reflexivity; lia. Qed.
Lemma leb_Z a b : (a <=? b)%nat = (Z.of_nat a <=? Z.of_nat b).
Proof. destruct (Nat.leb_spec a b), (Z.leb_spec (Z.of_nat a) (Z.of_nat b)); try reflexivity; lia. Qed.

Lemma tie_early (mn mx size : nat) (final : bool) :
  option_map Z.of_nat (model_early mn mx final size) = gen_early final (Z.of_nat size) (Z.of_nat mn) (Z.of_nat mx).
Proof.
  unfold model_early, gen_early. rewrite <- align4_Z.
  rewrite !ltb_Z, leb_Z. rewrite Nat2Z.inj_mul, Nat2Z.inj_add. change (Z.of_nat 2) with 2.
  destruct final; cbn [andb negb].
  - destruct (Z.of_nat size <? 2 * Z.of_nat mx); [|reflexivity]. cbn [option_map]. f_equal.
    destruct (Z.of_nat size <=? Z.of_nat mx); [reflexivity|].
    destruct (Z.of_nat size <? Z.of_nat mx + Z.of_nat mn); [|reflexivity].
    rewrite Nat2Z.inj_div. reflexivity.
  - destruct (Z.of_nat size <? Z.of_nat (align4 mx)); reflexivity.
Qed.

(* the scan visits candidates 4, 8, ... below max_length, keeps the FIRST maximum (strict >), looks at
   the 8 bytes starting 4 before the candidate *)
Lemma tie_scan (mx : nat) :
  gen_scan_start = 4 /\ gen_scan_stride = 4 /\ gen_scan_strict = true /\ gen_window_back = 4 /\ gen_window_bytes = 8 /\
  (forall mn, gen_scan_bound mn (Z.of_nat mx) = Z.of_nat mx) /\
  (* number of candidates i = start, start + stride, ... with i < bound *)
  Z.of_nat (ncand mx) = Z.max 0 ((gen_scan_bound 0 (Z.of_nat mx) - gen_scan_start + gen_scan_stride - 1) / gen_scan_stride).
Proof.
  repeat split. unfold ncand, gen_scan_bound, gen_scan_start, gen_scan_stride.
  destruct mx as [|mx]; [reflexivity|]. rewrite Nat2Z.inj_div. lia.
Qed.

Lemma tie_fallback (mn mx m : nat) :
  gen_fallback_cond (Z.of_nat m) (Z.of_nat mn) (Z.of_nat mx) = (m <? mn)%nat /\
  gen_fallback (Z.of_nat mn) (Z.of_nat mx) = Z.of_nat (align4 mn).
Proof.
  unfold gen_fallback_cond, gen_fallback. rewrite <- align4_Z. split; [|reflexivity].
  symmetry. apply ltb_Z.
Qed.

Lemma tie_shapes : gen_key_shape_ok && gen_driver_loop_ok = true.
Proof. reflexivity. Qed.
