(* B1 tie for the repository state machine: the structural facts the model of snapshot / delete /
   clean relies on were found in the working tree by the translator (Gen/RepoFacts.v). *)
From Coq Require Import Bool.
From Replicat Require Import Gen.RepoFacts.

Lemma repo_facts_hold : all_repo_facts = true.
Proof. reflexivity. Qed.

Lemma fact_snapshot_order :
  fact_worker_checks_then_uploads_then_records && fact_snapshot_object_uploaded_last && fact_snapshot_table_is_chunk_table = true.
Proof. reflexivity. Qed.
Lemma fact_delete_shape :
  fact_delete_keeps_chunks_of_all_other_loaded_snapshots && fact_delete_refuses_before_mutating && fact_delete_snapshots_then_chunks = true.
Proof. reflexivity. Qed.
Lemma fact_clean_shape : fact_clean_loads_then_lists_then_checks_tag && fact_load_skips_foreign_tags = true.
Proof. reflexivity. Qed.
Lemma fact_visibility : fact_load_skips_foreign_tags && fact_unreadable_data_is_none = true.
Proof. reflexivity. Qed.
Lemma fact_loader_complete :
  fact_load_aborts_on_corrupted_snapshot && fact_load_fails_when_a_listed_snapshot_cannot_be_downloaded = true.
Proof. reflexivity. Qed.
