(* C12 proofs: the retry loop and the re-authentication wrapper over arbitrary fault sequences
   (transient faults are masked, persistent ones end in an error after exactly max_tries tries, the
   number of tries is bounded for every fault sequence), and the streaming transfers as attempts. *)
From Coq Require Import List NArith Bool Arith Lia.
From Replicat Require Import Model.Store Model.Retry.
Import ListNotations.

Section Generic.
  Context {St Res : Type}.
  Variable fl : flavour.
  Variable attempt : option fault -> St -> outcome Res * St.
  Variable Inv : St -> Prop.
  Variable Post : St -> Res -> Prop.
  (* a try under a fault fails with the fault's kind and re-establishes the invariant;
     a try without fault from the invariant succeeds with the postcondition *)
  Hypothesis H_fail : forall f s, Inv s -> exists s', attempt (Some f) s = (Failed (f_kind f), s') /\ Inv s'.
  Hypothesis H_ok : forall s, Inv s -> exists r s', attempt None s = (Done r, s') /\ Post s' r.

  Definition retryable (f : fault) : Prop := dispose fl (f_kind f) false = DRetry.
  Definition nonfatal (f : fault) : Prop := dispose fl (f_kind f) false <> DGiveUp.
  Definition gives_up_at_last (f : fault) : Prop := dispose fl (f_kind f) true = DGiveUp.
  Definition auth_kind (f : fault) : Prop := dispose fl (f_kind f) false = DAuth.

  Lemma backoff_transient : forall pre rest left s cnt,
    Inv s -> Forall retryable pre -> length pre < left ->
    exists r s', backoff fl attempt left (map Some pre ++ None :: rest) s cnt = (ROk r, s', rest, cnt + length pre + 1) /\ Post s' r.
  Proof.
    induction pre as [|a pre IH]; intros rest left s cnt HI HF Hlen; (destruct left as [|left]; [cbn in Hlen; lia|]);
      cbn [backoff map app hd tl length].
    - destruct (H_ok s HI) as (r & s' & E & HP). rewrite E. exists r, s'. split; auto.
      replace (cnt + 0 + 1) with (S cnt) by lia. reflexivity.
    - destruct (H_fail a s HI) as (s' & E & HI'). rewrite E.
      inversion HF as [|? ? Ha HF']; subst. cbn [length] in Hlen.
      assert (Hl : Nat.eqb left 0 = false) by (apply Nat.eqb_neq; lia). rewrite Hl.
      unfold retryable in Ha. rewrite Ha.
      destruct (IH rest left s' (S cnt) HI' HF') as (r & s2 & E2 & HP); [lia|].
      exists r, s2. split; auto. rewrite E2. f_equal. lia.
  Qed.

  Lemma backoff_persistent : forall left pre rest s cnt,
    Inv s -> length pre = left -> 1 <= left -> Forall retryable pre -> Forall gives_up_at_last pre ->
    exists s' k, backoff fl attempt left (map Some pre ++ rest) s cnt = (RError k, s', rest, cnt + left) /\ Inv s'.
  Proof.
    induction left as [|left IH]; intros pre rest s cnt HI Hlen Hge HF HG; [lia|].
    destruct pre as [|a pre]; [discriminate|]. cbn [backoff map app hd tl].
    destruct (H_fail a s HI) as (s' & E & HI'). rewrite E.
    inversion HF as [|? ? Ha HF']; subst. inversion HG as [|? ? Hg HG']; subst.
    cbn [length] in Hlen. injection Hlen as Hlen.
    destruct left as [|left].
    - destruct pre; [|discriminate]. cbn [Nat.eqb]. unfold gives_up_at_last in Hg. rewrite Hg.
      exists s', (f_kind a). split; auto. cbn. f_equal. lia.
    - cbn [Nat.eqb]. unfold retryable in Ha. rewrite Ha.
      destruct (IH pre rest s' (S cnt) HI' Hlen) as (s2 & k & E2 & HI2); auto; [lia|].
      exists s2, k. split; auto. rewrite E2. f_equal. lia.
  Qed.

  (* for EVERY fault sequence the number of tries is at most max_tries *)
  Lemma backoff_bound : forall left fs s cnt,
    snd (backoff fl attempt left fs s cnt) <= cnt + left.
  Proof.
    induction left as [|left IH]; intros fs s cnt; cbn [backoff]; [cbn; lia|].
    destruct (attempt (hd None fs) s) as [[r|k] s']; [cbn; lia|].
    destruct (dispose fl k (Nat.eqb left 0)); try (cbn; lia).
    specialize (IH (tl fs) s' (S cnt)). lia.
  Qed.

  Lemma requires_auth_bound : forall reauth max_tries fs s cnt auths,
    snd (fst (requires_auth fl attempt reauth max_tries fs s cnt auths)) <= cnt + (S reauth) * max_tries.
  Proof.
    induction reauth as [|n IH]; intros max_tries fs s cnt auths; cbn [requires_auth];
      pose proof (backoff_bound max_tries fs s cnt) as Hb;
      destruct (backoff fl attempt max_tries fs s cnt) as [[[r s'] fs'] cnt'] eqn:E; cbn [snd] in Hb;
      destruct r; cbn [fst snd]; try lia.
    specialize (IH max_tries fs' s' cnt' (S auths)). cbn in *. lia.
  Qed.

  (* a run of non-fatal faults shorter than max_tries: the loop either succeeds or stops at an
     AuthRequired with a strictly shorter run left *)
  Lemma backoff_mixed : forall pre rest left s cnt,
    Inv s -> Forall nonfatal pre -> length pre < left ->
    exists r s' fs' cnt', backoff fl attempt left (map Some pre ++ None :: rest) s cnt = (r, s', fs', cnt') /\
      ((exists v, r = ROk v /\ Post s' v /\ fs' = rest /\ cnt' = cnt + length pre + 1) \/
       (r = RAuthRequired /\ Inv s' /\ exists pre2, fs' = map Some pre2 ++ None :: rest /\
          length pre2 < length pre /\ Forall nonfatal pre2 /\ cnt' + length pre2 = cnt + length pre)).
  Proof.
    induction pre as [|a pre IH]; intros rest left s cnt HI HF Hlen; (destruct left as [|left]; [cbn in Hlen; lia|]);
      cbn [backoff map app hd tl length].
    - destruct (H_ok s HI) as (r & s' & E & HP). rewrite E. do 4 eexists. split; [reflexivity|].
      left. exists r. repeat split; auto. lia.
    - destruct (H_fail a s HI) as (s' & E & HI'). rewrite E.
      inversion HF as [|? ? Ha HF']; subst. cbn [length] in Hlen.
      assert (Hl : Nat.eqb left 0 = false) by (apply Nat.eqb_neq; lia). rewrite Hl.
      unfold nonfatal in Ha. destruct (dispose fl (f_kind a) false) eqn:Ed; [| contradiction |].
      + destruct (IH rest left s' (S cnt) HI' HF') as (r & s2 & fs2 & cnt2 & E2 & Hcase); [lia|].
        exists r, s2, fs2, cnt2. split; auto. destruct Hcase as [(v & -> & HP & -> & ->)|(-> & HI2 & pre2 & -> & Hl2 & HF2 & Hc)].
        * left. exists v. repeat split; auto. cbn [length]. lia.
        * right. repeat split; auto. exists pre2. cbn [length]. repeat split; auto; lia.
      + do 4 eexists. split; [reflexivity|]. right. repeat split; auto.
        exists pre. cbn [length]. repeat split; auto; lia.
  Qed.

  Lemma requires_auth_transient : forall reauth pre rest max_tries s cnt auths,
    Inv s -> Forall nonfatal pre -> length pre < max_tries -> length pre <= reauth ->
    exists v s' auths', requires_auth fl attempt reauth max_tries (map Some pre ++ None :: rest) s cnt auths
                        = (ROk v, s', rest, cnt + length pre + 1, auths') /\ Post s' v /\ auths' <= auths + length pre.
  Proof.
    induction reauth as [|n IH]; intros pre rest max_tries s cnt auths HI HF Hmax Hre;
      destruct (backoff_mixed pre rest max_tries s cnt HI HF Hmax) as (r & s' & fs' & cnt' & E & Hcase);
      cbn [requires_auth]; rewrite E;
      destruct Hcase as [(v & -> & HP & -> & ->)|(-> & HI2 & pre2 & -> & Hl2 & HF2 & Hc)].
    - exists v, s', auths. repeat split; auto. lia.
    - lia.
    - exists v, s', auths. repeat split; auto. lia.
    - destruct (IH pre2 rest max_tries s' cnt' (S auths) HI2 HF2) as (v & s2 & a2 & E2 & HP & Ha); try lia.
      exists v, s2, a2. repeat split; auto; [|lia]. rewrite E2.
      replace (cnt' + length pre2 + 1) with (cnt + length pre + 1) by lia. reflexivity.
  Qed.

  (* persistent faults of the kinds that trigger re-authentication: AuthRequired after exactly reauth + 1 tries *)
  Lemma requires_auth_persistent : forall reauth pre rest max_tries s cnt auths,
    Inv s -> 2 <= max_tries -> length pre = S reauth -> Forall auth_kind pre ->
    exists s', requires_auth fl attempt reauth max_tries (map Some pre ++ rest) s cnt auths
               = (RAuthRequired, s', rest, cnt + S reauth, auths + reauth) /\ Inv s'.
  Proof.
    induction reauth as [|n IH]; intros pre rest max_tries s cnt auths HI Hmax Hlen HF;
      (destruct pre as [|a pre]; [discriminate|]); inversion HF as [|? ? Ha HF']; subst;
      cbn [length] in Hlen; injection Hlen as Hlen;
      (destruct max_tries as [|[|m]]; [lia|lia|]);
      cbn [requires_auth backoff map app hd tl];
      destruct (H_fail a s HI) as (s' & E & HI'); rewrite E; cbn [Nat.eqb];
      unfold auth_kind in Ha; rewrite Ha.
    - destruct pre; [|discriminate]. exists s'. split; auto. cbn [map app].
      replace (cnt + 1) with (S cnt) by lia. replace (auths + 0) with auths by lia. reflexivity.
    - destruct (IH pre rest (S (S m)) s' (S cnt) (S auths) HI') as (s2 & E2 & HI2); auto; try lia.
      exists s2. split; auto. rewrite E2.
      replace (S cnt + S n) with (cnt + S (S n)) by lia. replace (S auths + n) with (auths + S n) by lia. reflexivity.
  Qed.
End Generic.

(* ---- the flavours *)
Lemma local_all_retryable : forall f, retryable FlLocal f /\ gives_up_at_last FlLocal f.
Proof. intro f. split; reflexivity. Qed.

Lemma s3_retryable : forall f, f_kind f <> K403 -> retryable FlS3 f /\ gives_up_at_last FlS3 f.
Proof. intros f H. unfold retryable, gives_up_at_last. destruct (f_kind f); try contradiction; split; reflexivity. Qed.

Lemma nonfatal_retryable : forall fl f, fl <> FlB2 -> nonfatal fl f -> retryable fl f.
Proof.
  intros fl f Hfl H. unfold nonfatal, retryable in *. destruct fl; try contradiction; cbn in *;
    destruct (f_kind f); try reflexivity; contradiction.
Qed.

Lemma b2_nonfatal : forall f, f_kind f <> K403 -> nonfatal FlB2 f.
Proof. intros f H. unfold nonfatal. destruct (f_kind f); cbn; try discriminate. contradiction. Qed.

Lemma b2_auth_kinds : forall f, f_kind f = K5xx \/ f_kind f = K401 \/ f_kind f = K400 -> auth_kind FlB2 f.
Proof. intros f [H|[H|H]]; unfold auth_kind; rewrite H; reflexivity. Qed.

Lemma b2_backoff_kinds : forall f, f_kind f = K429 \/ f_kind f = KTransport ->
  retryable FlB2 f /\ gives_up_at_last FlB2 f.
Proof. intros f [H|H]; unfold retryable, gives_up_at_last; rewrite H; split; reflexivity. Qed.

(* ---- upload_stream as an attempt *)
Section Upload.
  Variable F : facts.
  Variable uses_temp : bool.
  Variable c : nat.
  Variable data : bytes.
  Variable old : option bytes.
  Hypothesis F_rewind : fact_rewind F = true.
  Hypothesis F_unlink : uses_temp = true -> fact_unlink_temp F = true.

  Definition up_inv (s : ustate) : Prop :=
    sdata (u_src s) = data /\ spos (u_src s) = 0 /\ u_temps s = 0 /\ (u_obj s = old \/ u_obj s = Some data).
  Definition up_post (s : ustate) (_ : unit) : Prop :=
    u_obj s = Some data /\ sdata (u_src s) = data /\ spos (u_src s) = length data /\ u_temps s = 0.

  Lemma temps_kept : forall n, (if uses_temp && negb (fact_unlink_temp F) then S n else n) = n.
  Proof.
    intro n. destruct uses_temp eqn:E; cbn; auto. rewrite F_unlink by reflexivity. reflexivity.
  Qed.

  Lemma up_fail_inv : forall k newpos obj s, up_inv s -> (obj = old \/ obj = Some data) ->
    exists s', up_fail F uses_temp k newpos obj s = (Failed k, s') /\ up_inv s'.
  Proof.
    intros k newpos obj s (Hd & Hp & Ht & Ho) Hobj. unfold up_fail. eexists. split; [reflexivity|].
    unfold up_inv. cbn. rewrite F_rewind, temps_kept. auto.
  Qed.

  Lemma up_H_fail : forall f s, up_inv s -> exists s', up_attempt F uses_temp c (Some f) s = (Failed (f_kind f), s') /\ up_inv s'.
  Proof.
    intros f s HI. pose proof HI as (Hd & Hp & Ht & Ho). unfold up_attempt.
    destruct (f_before f); [apply up_fail_inv; auto|].
    destruct (f_applied f && Nat.eqb (length (skipn (spos (u_src s)) (sdata (u_src s)))) (length (sdata (u_src s)))).
    - apply up_fail_inv; auto. right. rewrite Hp, Hd. reflexivity.
    - apply up_fail_inv; auto.
  Qed.

  Lemma up_H_ok : forall s, up_inv s -> exists r s', up_attempt F uses_temp c None s = (Done r, s') /\ up_post s' r.
  Proof.
    intros s (Hd & Hp & Ht & Ho). unfold up_attempt. rewrite Hp. cbn [skipn]. rewrite Nat.eqb_refl.
    exists tt. eexists. split; [reflexivity|]. unfold up_post. cbn. rewrite Hd. auto.
  Qed.
End Upload.

(* ---- download_stream as an attempt *)
Lemma skipn_firstn_same : forall {A} n (l : list A), skipn n (firstn n l) = [].
Proof. intros A n l. apply skipn_all2. apply firstn_le_length. Qed.

Section Download.
  Variable F : facts.
  Variable c : nat.
  Variable D : bytes.
  Hypothesis F_rewind : fact_rewind F = true.
  Hypothesis F_truncate : fact_truncate F = true.

  Definition down_inv (s : dstate) : Prop := d_obj s = D /\ spos (d_dst s) = 0.
  Definition down_post (s : dstate) (_ : unit) : Prop := sdata (d_dst s) = D /\ spos (d_dst s) = length D /\ d_obj s = D.

  Lemma down_H_fail : forall f s, down_inv s -> exists s', down_attempt F c (Some f) s = (Failed (f_kind f), s') /\ down_inv s'.
  Proof.
    intros f s (Ho & Hp). unfold down_attempt, down_fail. destruct (f_before f); eexists; (split; [reflexivity|]);
      unfold down_inv; cbn; rewrite F_rewind; auto.
  Qed.

  Lemma down_H_ok : forall s, down_inv s -> exists r s', down_attempt F c None s = (Done r, s') /\ down_post s' r.
  Proof.
    intros s (Ho & Hp). unfold down_attempt. exists tt. eexists. split; [reflexivity|].
    unfold down_post. cbn. rewrite Ho, Hp, F_truncate. repeat split; auto.
    unfold write_at. cbn [firstn Nat.sub repeat app Nat.add]. rewrite skipn_firstn_same. apply app_nil_r.
  Qed.
End Download.

(* ---- the theorems about the methods, for each flavour *)
Definition ustart (data : bytes) (old : option bytes) : ustate :=
  {| u_src := {| sdata := data; spos := 0 |}; u_obj := old; u_temps := 0 |}.
Definition dstart (init : bytes) (D : bytes) : dstate :=
  {| d_dst := {| sdata := init; spos := 0 |}; d_obj := D |}.

Section Methods.
  Variable fl : flavour.
  Variable F : facts.
  Variable max_tries reauth : nat.
  Hypothesis F_rewind : fact_rewind F = true.
  Hypothesis F_truncate : fact_truncate F = true.
  Hypothesis F_unlink : fact_unlink_temp F = true.

  Theorem upload_stream_transient : forall uses_temp c data old pre rest,
    Forall (nonfatal fl) pre -> length pre < max_tries -> (fl = FlB2 -> length pre <= reauth) ->
    exists s' auths, run_method fl (up_attempt F uses_temp c) max_tries reauth (map Some pre ++ None :: rest) (ustart data old)
                     = (ROk tt, s', length pre + 1, auths) /\
      u_obj s' = Some data /\ sdata (u_src s') = data /\ spos (u_src s') = length data /\ u_temps s' = 0.
  Proof.
    intros uses_temp c data old pre rest HF Hmax Hre.
    assert (HI : up_inv data old (ustart data old)) by (unfold up_inv, ustart; cbn; auto).
    pose proof (up_H_fail F uses_temp c data old F_rewind (fun _ => F_unlink)) as Hf.
    pose proof (up_H_ok F uses_temp c data old) as Hk.
    unfold run_method. destruct fl eqn:Efl.
    - destruct (backoff_transient FlLocal _ _ _ Hf Hk pre rest max_tries _ 0 HI) as ([] & s' & E & HP); auto.
      { eapply Forall_impl; [|exact HF]. intro f. apply nonfatal_retryable. discriminate. }
      rewrite E. exists s', 0. split; auto.
    - destruct (backoff_transient FlS3 _ _ _ Hf Hk pre rest max_tries _ 0 HI) as ([] & s' & E & HP); auto.
      { eapply Forall_impl; [|exact HF]. intro f. apply nonfatal_retryable. discriminate. }
      rewrite E. exists s', 0. split; auto.
    - destruct (requires_auth_transient FlB2 _ _ _ Hf Hk reauth pre rest max_tries _ 0 0 HI HF Hmax (Hre eq_refl)) as ([] & s' & a & E & HP & _).
      rewrite E. exists s', a. split; auto.
  Qed.

  Theorem download_stream_transient : forall c init D pre rest,
    Forall (nonfatal fl) pre -> length pre < max_tries -> (fl = FlB2 -> length pre <= reauth) ->
    exists s' auths, run_method fl (down_attempt F c) max_tries reauth (map Some pre ++ None :: rest) (dstart init D)
                     = (ROk tt, s', length pre + 1, auths) /\
      sdata (d_dst s') = D /\ spos (d_dst s') = length D.
  Proof.
    intros c init D pre rest HF Hmax Hre.
    assert (HI : down_inv D (dstart init D)) by (unfold down_inv, dstart; cbn; auto).
    pose proof (down_H_fail F c D F_rewind) as Hf.
    pose proof (down_H_ok F c D F_truncate) as Hk.
    unfold run_method. destruct fl eqn:Efl.
    - destruct (backoff_transient FlLocal _ _ _ Hf Hk pre rest max_tries _ 0 HI) as ([] & s' & E & HP); auto.
      { eapply Forall_impl; [|exact HF]. intro f. apply nonfatal_retryable. discriminate. }
      rewrite E. exists s', 0. split; auto. destruct HP as (? & ? & ?). auto.
    - destruct (backoff_transient FlS3 _ _ _ Hf Hk pre rest max_tries _ 0 HI) as ([] & s' & E & HP); auto.
      { eapply Forall_impl; [|exact HF]. intro f. apply nonfatal_retryable. discriminate. }
      rewrite E. exists s', 0. split; auto. destruct HP as (? & ? & ?). auto.
    - destruct (requires_auth_transient FlB2 _ _ _ Hf Hk reauth pre rest max_tries _ 0 0 HI HF Hmax (Hre eq_refl)) as ([] & s' & a & E & HP & _).
      rewrite E. exists s', a. split; auto. destruct HP as (? & ? & ?). auto.
  Qed.

  (* persistent faults that stay inside the back-off loop: error after exactly max_tries tries; the stream is
     rewound, no temporary file is left, the object is the old one or the complete new one *)
  Theorem upload_stream_persistent : forall uses_temp c data old pre rest,
    Forall (retryable fl) pre -> Forall (gives_up_at_last fl) pre -> length pre = max_tries -> 1 <= max_tries ->
    exists s' k auths, run_method fl (up_attempt F uses_temp c) max_tries reauth (map Some pre ++ rest) (ustart data old)
                       = (RError k, s', max_tries, auths) /\
      spos (u_src s') = 0 /\ u_temps s' = 0 /\ (u_obj s' = old \/ u_obj s' = Some data).
  Proof.
    intros uses_temp c data old pre rest HF HG Hlen Hge.
    assert (HI : up_inv data old (ustart data old)) by (unfold up_inv, ustart; cbn; auto).
    pose proof (up_H_fail F uses_temp c data old F_rewind (fun _ => F_unlink)) as Hf.
    destruct (backoff_persistent fl _ _ Hf max_tries pre rest _ 0 HI Hlen Hge HF HG) as (s' & k & E & (_ & Hp & Ht & Ho)).
    unfold run_method. destruct fl; [rewrite E|rewrite E|destruct reauth; cbn [requires_auth]; rewrite E];
      exists s', k; eexists; (split; [reflexivity|auto]).
  Qed.

  Theorem download_stream_persistent : forall c init D pre rest,
    Forall (retryable fl) pre -> Forall (gives_up_at_last fl) pre -> length pre = max_tries -> 1 <= max_tries ->
    exists s' k auths, run_method fl (down_attempt F c) max_tries reauth (map Some pre ++ rest) (dstart init D)
                       = (RError k, s', max_tries, auths) /\ spos (d_dst s') = 0.
  Proof.
    intros c init D pre rest HF HG Hlen Hge.
    assert (HI : down_inv D (dstart init D)) by (unfold down_inv, dstart; cbn; auto).
    pose proof (down_H_fail F c D F_rewind) as Hf.
    destruct (backoff_persistent fl _ _ Hf max_tries pre rest _ 0 HI Hlen Hge HF HG) as (s' & k & E & (_ & Hp)).
    unfold run_method. destruct fl; [rewrite E|rewrite E|destruct reauth; cbn [requires_auth]; rewrite E];
      exists s', k; eexists; (split; [reflexivity|auto]).
  Qed.

  (* for EVERY fault sequence and every attempt function the number of tries is bounded *)
  Theorem tries_bounded : forall {St Res} (attempt : option fault -> St -> outcome Res * St) fs s,
    snd (fst (run_method fl attempt max_tries reauth fs s)) <= (match fl with FlB2 => S reauth | _ => 1 end) * max_tries.
  Proof.
    intros St Res attempt fs s. unfold run_method. destruct fl.
    - pose proof (backoff_bound FlLocal attempt max_tries fs s 0) as H.
      destruct (backoff FlLocal attempt max_tries fs s 0) as [[[r s'] fs'] cnt]. cbn in *. lia.
    - pose proof (backoff_bound FlS3 attempt max_tries fs s 0) as H.
      destruct (backoff FlS3 attempt max_tries fs s 0) as [[[r s'] fs'] cnt]. cbn in *. lia.
    - pose proof (requires_auth_bound FlB2 attempt reauth max_tries fs s 0 0) as H.
      destruct (requires_auth FlB2 attempt reauth max_tries fs s 0 0) as [[[[r s'] fs'] cnt] a]. cbn [fst snd] in *. lia.
  Qed.
End Methods.

(* B2: persistent 5xx / rejected token: AuthRequired after exactly reauth + 1 tries and reauth refreshes *)
Theorem b2_upload_persistent_auth : forall F uses_temp c data old pre rest max_tries reauth,
  fact_rewind F = true -> fact_unlink_temp F = true -> 2 <= max_tries ->
  Forall (auth_kind FlB2) pre -> length pre = S reauth ->
  exists s', run_method FlB2 (up_attempt F uses_temp c) max_tries reauth (map Some pre ++ rest) (ustart data old)
             = (RAuthRequired, s', S reauth, reauth) /\
    spos (u_src s') = 0 /\ u_temps s' = 0 /\ (u_obj s' = old \/ u_obj s' = Some data).
Proof.
  intros F uses_temp c data old pre rest max_tries reauth Fr Fu Hmax HF Hlen.
  assert (HI : up_inv data old (ustart data old)) by (unfold up_inv, ustart; cbn; auto).
  pose proof (up_H_fail F uses_temp c data old Fr (fun _ => Fu)) as Hf.
  destruct (requires_auth_persistent FlB2 _ _ Hf reauth pre rest max_tries _ 0 0 HI Hmax Hlen HF) as (s' & E & (_ & Hp & Ht & Ho)).
  unfold run_method. rewrite E. exists s'. split; auto.
Qed.

Theorem b2_download_persistent_auth : forall F c init D pre rest max_tries reauth,
  fact_rewind F = true -> 2 <= max_tries ->
  Forall (auth_kind FlB2) pre -> length pre = S reauth ->
  exists s', run_method FlB2 (down_attempt F c) max_tries reauth (map Some pre ++ rest) (dstart init D)
             = (RAuthRequired, s', S reauth, reauth) /\ spos (d_dst s') = 0.
Proof.
  intros F c init D pre rest max_tries reauth Fr Hmax HF Hlen.
  assert (HI : down_inv D (dstart init D)) by (unfold down_inv, dstart; cbn; auto).
  pose proof (down_H_fail F c D Fr) as Hf.
  destruct (requires_auth_persistent FlB2 _ _ Hf reauth pre rest max_tries _ 0 0 HI Hmax Hlen HF) as (s' & E & (_ & Hp)).
  unfold run_method. rewrite E. exists s'. split; auto.
Qed.

(* the S3 adapter hashes the whole stream first: with the seek(0) after hashing the first try starts at 0 *)
Lemma s3_prehash_start : forall data old pos,
  s3_prehash true {| u_src := {| sdata := data; spos := pos |}; u_obj := old; u_temps := 0 |} = ustart data old.
Proof. reflexivity. Qed.

(* ---- why the hypotheses matter: without the rewind a single fault in mid-transfer is not masked *)
Definition no_rewind : facts := {| fact_rewind := false; fact_truncate := true; fact_unlink_temp := true |}.
Definition mid_fault : fault := {| f_before := false; f_after := 1; f_kind := KTransport; f_applied := false |}.

Example upload_without_rewind_not_masked :
  fst (fst (fst (run_method FlS3 (up_attempt no_rewind false 2) 4 3 [Some mid_fault] (ustart [1; 2; 3; 4; 5]%N None)))) = RError K400.
Proof. vm_compute. reflexivity. Qed.

Example download_without_rewind_duplicates :
  sdata (d_dst (snd (fst (fst (run_method FlS3 (down_attempt no_rewind 2) 4 3 [Some mid_fault] (dstart [] [1; 2; 3; 4; 5]%N))))))
  = [1; 2; 1; 2; 3; 4; 5]%N.
Proof. vm_compute. reflexivity. Qed.

(* ---- a fault the giveup predicate accepts (403): error after a single try, for every flavour that has one *)
Lemma local_nonfatal_all : forall pre, Forall (nonfatal FlLocal) pre.
Proof. intro pre. apply Forall_forall. intros f _. unfold nonfatal. cbn. discriminate. Qed.

Lemma not403_nonfatal : forall fl pre, Forall (fun f => f_kind f <> K403) pre -> Forall (nonfatal fl) pre.
Proof.
  intros fl pre H. eapply Forall_impl; [|exact H]. intros f Hf. unfold nonfatal.
  destruct fl; cbn; destruct (f_kind f) eqn:E; try discriminate; congruence.
Qed.

Lemma not403_retryable_s3 : forall pre, Forall (fun f => f_kind f <> K403) pre ->
  Forall (retryable FlS3) pre /\ Forall (gives_up_at_last FlS3) pre.
Proof.
  intros pre H. split; (eapply Forall_impl; [|exact H]); intros f Hf; apply s3_retryable; exact Hf.
Qed.

Lemma local_retryable_all : forall pre, Forall (retryable FlLocal) pre /\ Forall (gives_up_at_last FlLocal) pre.
Proof. intro pre. split; apply Forall_forall; intros f _; reflexivity. Qed.

Section Giveup.
  Context {St Res : Type}.
  Variable fl : flavour.
  Variable attempt : option fault -> St -> outcome Res * St.
  Variable Inv : St -> Prop.
  Hypothesis H_fail : forall f s, Inv s -> exists s', attempt (Some f) s = (Failed (f_kind f), s') /\ Inv s'.

  Lemma giveup_immediate : forall f rest max_tries reauth s,
    Inv s -> 1 <= max_tries -> fl <> FlLocal -> f_kind f = K403 ->
    exists s', run_method fl attempt max_tries reauth (Some f :: rest) s = (RError K403, s', 1, 0) /\ Inv s'.
  Proof.
    intros f rest max_tries reauth s HI Hmax Hfl Hk.
    destruct (H_fail f s HI) as (s' & E & HI'). exists s'. split; auto.
    destruct max_tries as [|m]; [lia|].
    unfold run_method. destruct fl; try contradiction.
    - cbn [backoff hd tl]. rewrite E, Hk. reflexivity.
    - destruct reauth; cbn [requires_auth backoff hd tl]; rewrite E, Hk; reflexivity.
  Qed.
End Giveup.
