(* C12: the generic retry theorems instantiated with the facts read off the source (Gen/C12Facts.v).
   A fact that no longer holds (dropped rewind, missing truncate, max_tries removed, ...) breaks the
   lemma that names it. *)
From Coq Require Import List NArith Bool Arith Lia.
From Replicat Require Import Model.Store Model.Retry Proofs.RetryProofs.
From Replicat Require Gen.C12Facts.
Import ListNotations.

Definition local_up_facts : facts :=
  {| fact_rewind := C12Facts.local_upload_stream_rewinds; fact_truncate := true;
     fact_unlink_temp := C12Facts.local_upload_stream_unlinks_temp |}.
Definition local_upbytes_facts : facts :=     (* upload(name, data): a bytes payload is re-sent whole *)
  {| fact_rewind := true; fact_truncate := true; fact_unlink_temp := C12Facts.local_upload_unlinks_temp |}.
Definition local_down_facts : facts :=
  {| fact_rewind := C12Facts.local_download_stream_rewinds; fact_truncate := C12Facts.local_download_stream_truncates;
     fact_unlink_temp := true |}.
Definition s3_up_facts : facts :=
  {| fact_rewind := C12Facts.s3_put_stream_rewinds; fact_truncate := true; fact_unlink_temp := true |}.
Definition s3_down_facts : facts :=
  {| fact_rewind := C12Facts.s3_download_stream_rewinds; fact_truncate := C12Facts.s3_download_stream_truncates;
     fact_unlink_temp := true |}.
Definition b2_up_facts : facts :=
  {| fact_rewind := C12Facts.b2_upload_stream_rewinds; fact_truncate := true; fact_unlink_temp := true |}.
Definition b2_down_facts : facts :=
  {| fact_rewind := C12Facts.b2_download_stream_rewinds; fact_truncate := C12Facts.b2_download_stream_truncates;
     fact_unlink_temp := true |}.

Definition mt (fl : flavour) : nat :=
  match fl with FlLocal => C12Facts.local_max_tries | FlS3 => C12Facts.s3_max_tries | FlB2 => C12Facts.b2_max_tries end.
Definition up_facts (fl : flavour) : facts :=
  match fl with FlLocal => local_up_facts | FlS3 => s3_up_facts | FlB2 => b2_up_facts end.
Definition down_facts (fl : flavour) : facts :=
  match fl with FlLocal => local_down_facts | FlS3 => s3_down_facts | FlB2 => b2_down_facts end.
Definition uses_temp (fl : flavour) : bool := match fl with FlLocal => true | _ => false end.
Definition budget_ok (fl : flavour) (n : nat) : Prop :=
  n < mt fl /\ (fl = FlB2 -> n <= C12Facts.max_reauth).
Definition no403 (pre : list fault) : Prop := Forall (fun f => f_kind f <> K403) pre.

(* the structural facts: every method carries its retry decorator, budgets are finite and positive, giveup
   is exactly "403", the B2 handler re-authenticates unless 429, 401 raises AuthRequired, re-authentication is
   bounded, the S3 digest is followed by seek(0), the progress / rate-limit wrappers forward seek and truncate *)
Lemma source_facts :
  C12Facts.local_decorated = true /\ C12Facts.s3_decorated = true /\ C12Facts.b2_decorated = true /\
  C12Facts.s3_giveup_403 = true /\ C12Facts.b2_giveup_403 = true /\ C12Facts.s3_upload_calls_retried = true /\
  C12Facts.s3_hash_seek0 = true /\ C12Facts.s3_hash_before_retries = true /\ C12Facts.s3_hook_raises_status = true /\
  C12Facts.b2_backoff_handlers = true /\ C12Facts.b2_on_backoff_reauth_unless_429 = true /\ C12Facts.b2_hook_401_auth = true /\
  C12Facts.b2_upload_gets_fresh_url_each_try = true /\ C12Facts.b2_upload_url_not_cached = true /\
  C12Facts.requires_auth_bounded = true /\ C12Facts.requires_auth_waits_for_refresh = true /\ C12Facts.wrappers_forward = true.
Proof. repeat split; reflexivity. Qed.

Lemma budgets_positive : 1 <= mt FlLocal /\ 1 <= mt FlS3 /\ 2 <= mt FlB2.
Proof. cbn. repeat split; apply Nat.leb_le; reflexivity. Qed.

Lemma up_facts_ok : forall fl, fact_rewind (up_facts fl) = true /\ fact_truncate (up_facts fl) = true /\ fact_unlink_temp (up_facts fl) = true.
Proof. intros []; repeat split; reflexivity. Qed.

Lemma down_facts_ok : forall fl, fact_rewind (down_facts fl) = true /\ fact_truncate (down_facts fl) = true /\ fact_unlink_temp (down_facts fl) = true.
Proof. intros []; repeat split; reflexivity. Qed.

Lemma upbytes_facts_ok : fact_rewind local_upbytes_facts = true /\ fact_unlink_temp local_upbytes_facts = true.
Proof. split; reflexivity. Qed.

(* ---- transient faults are masked *)
Theorem upload_stream_masked : forall fl c data old pre rest,
  no403 pre -> budget_ok fl (length pre) ->
  exists s' auths,
    run_method fl (up_attempt (up_facts fl) (uses_temp fl) c) (mt fl) C12Facts.max_reauth (map Some pre ++ None :: rest) (ustart data old)
    = (ROk tt, s', length pre + 1, auths) /\
    u_obj s' = Some data /\ sdata (u_src s') = data /\ spos (u_src s') = length data /\ u_temps s' = 0.
Proof.
  intros fl c data old pre rest H403 [Hmt Hre]. destruct (up_facts_ok fl) as (Fr & Ft & Fu).
  apply upload_stream_transient; auto. apply not403_nonfatal. exact H403.
Qed.

Theorem upload_bytes_masked_local : forall data old pre rest,
  length pre < mt FlLocal ->
  exists s' auths,
    run_method FlLocal (up_attempt local_upbytes_facts true (length data)) (mt FlLocal) C12Facts.max_reauth (map Some pre ++ None :: rest) (ustart data old)
    = (ROk tt, s', length pre + 1, auths) /\ u_obj s' = Some data /\ u_temps s' = 0.
Proof.
  intros data old pre rest Hmt. destruct upbytes_facts_ok as (Fr & Fu).
  destruct (upload_stream_transient FlLocal local_upbytes_facts (mt FlLocal) C12Facts.max_reauth Fr Fu true (length data) data old pre rest)
    as (s' & a & E & Ho & _ & _ & Ht); auto.
  - apply local_nonfatal_all.
  - discriminate.
  - exists s', a. auto.
Qed.

Theorem download_stream_masked : forall fl c init D pre rest,
  no403 pre -> budget_ok fl (length pre) ->
  exists s' auths,
    run_method fl (down_attempt (down_facts fl) c) (mt fl) C12Facts.max_reauth (map Some pre ++ None :: rest) (dstart init D)
    = (ROk tt, s', length pre + 1, auths) /\ sdata (d_dst s') = D /\ spos (d_dst s') = length D.
Proof.
  intros fl c init D pre rest H403 [Hmt Hre]. destruct (down_facts_ok fl) as (Fr & Ft & Fu).
  apply download_stream_transient; auto. apply not403_nonfatal. exact H403.
Qed.

(* ---- persistent faults end in an error after exactly max_tries tries (local, S3; B2 for 429 / dropped connections) *)
Definition stays_in_backoff (fl : flavour) (pre : list fault) : Prop :=
  match fl with
  | FlLocal => True
  | FlS3 => no403 pre
  | FlB2 => Forall (fun f => f_kind f = K429 \/ f_kind f = KTransport) pre
  end.

Lemma stays_retryable : forall fl pre, stays_in_backoff fl pre -> Forall (retryable fl) pre /\ Forall (gives_up_at_last fl) pre.
Proof.
  intros [] pre H; cbn in H.
  - apply local_retryable_all.
  - apply not403_retryable_s3. exact H.
  - split; (eapply Forall_impl; [|exact H]); intros f Hf; apply b2_backoff_kinds; exact Hf.
Qed.

Theorem upload_stream_persistent_error : forall fl c data old pre rest,
  stays_in_backoff fl pre -> length pre = mt fl ->
  exists s' k auths,
    run_method fl (up_attempt (up_facts fl) (uses_temp fl) c) (mt fl) C12Facts.max_reauth (map Some pre ++ rest) (ustart data old)
    = (RError k, s', mt fl, auths) /\
    spos (u_src s') = 0 /\ u_temps s' = 0 /\ (u_obj s' = old \/ u_obj s' = Some data).
Proof.
  intros fl c data old pre rest Hs Hlen. destruct (up_facts_ok fl) as (Fr & Ft & Fu).
  destruct (stays_retryable fl pre Hs) as [HR HG].
  apply upload_stream_persistent; auto.
  destruct budgets_positive as (H1 & H2 & H3). destruct fl; lia.
Qed.

Theorem download_stream_persistent_error : forall fl c init D pre rest,
  stays_in_backoff fl pre -> length pre = mt fl ->
  exists s' k auths,
    run_method fl (down_attempt (down_facts fl) c) (mt fl) C12Facts.max_reauth (map Some pre ++ rest) (dstart init D)
    = (RError k, s', mt fl, auths) /\ spos (d_dst s') = 0.
Proof.
  intros fl c init D pre rest Hs Hlen. destruct (down_facts_ok fl) as (Fr & Ft & Fu).
  destruct (stays_retryable fl pre Hs) as [HR HG].
  apply download_stream_persistent; auto.
  destruct budgets_positive as (H1 & H2 & H3). destruct fl; lia.
Qed.

(* B2: persistent 5xx / rejected token: AuthRequired after exactly max_reauth + 1 tries *)
Definition triggers_reauth (pre : list fault) : Prop :=
  Forall (fun f => f_kind f = K5xx \/ f_kind f = K401 \/ f_kind f = K400) pre.

Theorem b2_upload_stream_persistent_auth : forall c data old pre rest,
  triggers_reauth pre -> length pre = S C12Facts.max_reauth ->
  exists s',
    run_method FlB2 (up_attempt b2_up_facts false c) (mt FlB2) C12Facts.max_reauth (map Some pre ++ rest) (ustart data old)
    = (RAuthRequired, s', S C12Facts.max_reauth, C12Facts.max_reauth) /\
    spos (u_src s') = 0 /\ u_temps s' = 0 /\ (u_obj s' = old \/ u_obj s' = Some data).
Proof.
  intros c data old pre rest Hk Hlen. apply b2_upload_persistent_auth; auto; try reflexivity.
  - apply (proj2 (proj2 budgets_positive)).
  - eapply Forall_impl; [|exact Hk]. intros f Hf. apply b2_auth_kinds. exact Hf.
Qed.

Theorem b2_download_stream_persistent_auth : forall c init D pre rest,
  triggers_reauth pre -> length pre = S C12Facts.max_reauth ->
  exists s',
    run_method FlB2 (down_attempt b2_down_facts c) (mt FlB2) C12Facts.max_reauth (map Some pre ++ rest) (dstart init D)
    = (RAuthRequired, s', S C12Facts.max_reauth, C12Facts.max_reauth) /\ spos (d_dst s') = 0.
Proof.
  intros c init D pre rest Hk Hlen. apply b2_download_persistent_auth; auto; try reflexivity.
  - apply (proj2 (proj2 budgets_positive)).
  - eapply Forall_impl; [|exact Hk]. intros f Hf. apply b2_auth_kinds. exact Hf.
Qed.

(* 403 is not retried *)
Theorem forbidden_not_retried : forall fl c data old f rest, fl <> FlLocal -> f_kind f = K403 ->
  exists s', run_method fl (up_attempt (up_facts fl) (uses_temp fl) c) (mt fl) C12Facts.max_reauth (Some f :: rest) (ustart data old)
             = (RError K403, s', 1, 0) /\ spos (u_src s') = 0 /\ (u_obj s' = old \/ u_obj s' = Some data).
Proof.
  intros fl c data old f rest Hfl Hk. destruct (up_facts_ok fl) as (Fr & Ft & Fu).
  destruct (giveup_immediate fl _ (up_inv data old) (up_H_fail (up_facts fl) (uses_temp fl) c data old Fr (fun _ => Fu))
              f rest (mt fl) C12Facts.max_reauth (ustart data old)) as (s' & E & (_ & Hp & _ & Ho)); auto.
  - unfold up_inv, ustart; cbn; auto.
  - destruct budgets_positive as (H1 & H2 & H3). destruct fl; lia.
  - exists s'. auto.
Qed.

(* for EVERY fault sequence and whatever a try does, the number of tries is bounded *)
Theorem tries_bounded_all : forall fl {St Res} (attempt : option fault -> St -> outcome Res * St) fs s,
  snd (fst (run_method fl attempt (mt fl) C12Facts.max_reauth fs s))
  <= (match fl with FlB2 => S C12Facts.max_reauth | _ => 1 end) * mt fl.
Proof. intros fl St Res attempt fs s. apply tries_bounded. Qed.
