(* Proofs for Model/LimiterLock.v: with the sleep inside the critical section every sleep length is the value that passed the
   threshold test (> threshold >= 0), for every number of threads, every program and every interleaving; with the sleep after the
   lock has been released a two-thread schedule calls time.sleep with a negative length. *)
From Coq Require Import ZArith List Bool Lia.
From Replicat Require Import Model.LimiterLock.
Import ListNotations.
Local Open Scope Z_scope.

Section Locked.
  Variables (cap thr : Z).

  Definition busy (t : tstate) : Prop := match t with TIdle _ => False | _ => True end.
  Definition LInv (s : lstate) : Prop :=
    (forall i, busy (ts s i) -> holder s = Some i) /\
    (forall i todo, ts s i = TChecked todo -> thr < acct s).

  Lemma upd_same f i v : upd f i v i = v.
  Proof. unfold upd. now rewrite Nat.eqb_refl. Qed.
  Lemma upd_other f i v j : j <> i -> upd f i v j = f j.
  Proof. intros H. unfold upd. destruct (Nat.eqb_spec j i); [contradiction|reflexivity]. Qed.

  Lemma linit_inv prog : LInv (linit prog).
  Proof. split; cbn; [intros i []|intros i todo H; discriminate H]. Qed.

  Lemma lstep_inv s e s' : LInv s -> lstep cap thr true s e s' -> LInv s' /\ Forall (fun v => match v with Sleep x => thr < x end) e.
  Proof.
    intros [Hb Hc] Hs. inversion Hs as [s0 i a todo Hh Ht Hle|s0 i a todo Hh Ht Hlt|s0 i todo Ht|s0 i todo x el Ht Hx Hh]; subst; cbn.
    - split; [|constructor]. split; cbn.
      + intros j Hj. destruct (Nat.eq_dec j i) as [->|Hne]; [rewrite upd_same in Hj; destruct Hj|].
        rewrite upd_other in Hj by exact Hne. specialize (Hb j Hj). congruence.
      + intros j td Hj. destruct (Nat.eq_dec j i) as [->|Hne]; [rewrite upd_same in Hj; discriminate Hj|].
        rewrite upd_other in Hj by exact Hne.
        assert (Hbusy : busy (ts s j)) by (rewrite Hj; exact I). specialize (Hb j Hbusy). congruence.
    - split; [|constructor]. split; cbn.
      + intros j Hj. destruct (Nat.eq_dec j i) as [->|Hne]; [reflexivity|].
        rewrite upd_other in Hj by exact Hne. specialize (Hb j Hj). congruence.
      + intros j td Hj. destruct (Nat.eq_dec j i) as [->|Hne]; [exact Hlt|].
        rewrite upd_other in Hj by exact Hne.
        assert (Hbusy : busy (ts s j)) by (rewrite Hj; exact I). specialize (Hb j Hbusy). congruence.
    - split; [|constructor; [exact (Hc i todo Ht)|constructor]]. split; cbn.
      + intros j Hj. destruct (Nat.eq_dec j i) as [->|Hne].
        * apply Hb. rewrite Ht. exact I.
        * rewrite upd_other in Hj by exact Hne. exact (Hb j Hj).
      + intros j td Hj. destruct (Nat.eq_dec j i) as [->|Hne]; [rewrite upd_same in Hj; discriminate Hj|].
        rewrite upd_other in Hj by exact Hne. exact (Hc j td Hj).
    - split; [|constructor]. split; cbn.
      + intros j Hj. destruct (Nat.eq_dec j i) as [->|Hne]; [rewrite upd_same in Hj; destruct Hj|].
        rewrite upd_other in Hj by exact Hne. specialize (Hb j Hj). congruence.
      + intros j td Hj. destruct (Nat.eq_dec j i) as [->|Hne]; [rewrite upd_same in Hj; discriminate Hj|].
        rewrite upd_other in Hj by exact Hne.
        assert (Hbusy : busy (ts s j)) by (rewrite Hj; exact I). specialize (Hb j Hbusy). congruence.
  Qed.

  Theorem locked_sleep_lengths : forall prog tr s, lreach cap thr true (linit prog) tr s ->
    LInv s /\ Forall (fun v => match v with Sleep x => thr < x end) tr.
  Proof.
    intros prog tr s H. remember (linit prog) as s0 eqn:E. induction H as [s|s tr s1 e s2 H IH Hs].
    - subst. split; [apply linit_inv|constructor].
    - destruct (IH E) as [Hi Hf]. destruct (lstep_inv _ _ _ Hi Hs) as [Hi' Hf'].
      split; [exact Hi'|]. apply Forall_app. split; assumption.
  Qed.

  Corollary locked_never_sleeps_negative : 0 <= thr -> forall prog tr s, lreach cap thr true (linit prog) tr s ->
    Forall (fun v => match v with Sleep x => 0 < x end) tr.
  Proof.
    intros Ht prog tr s H. destruct (locked_sleep_lengths prog tr s H) as [_ Hf].
    eapply Forall_impl; [|exact Hf]. intros [x] Hx. lia.
  Qed.
End Locked.

(* the same limiter with the sleep after the lock has been released: thread 0 owes a full pause and sleeps; thread 1 makes a
   call that owes nothing (the empty read at the end of a stream) while the account still shows thread 0's pause, passes the
   test, is descheduled; thread 0 wakes up a moment late and settles; thread 1 now evaluates its sleep length: -1 *)
Theorem unlocked_sleep_negative_refuted :
  exists tr s, lreach 500 250 false (linit (fun i => match i with 0%nat => [500] | 1%nat => [0] | _ => [] end)) tr s /\
               In (Sleep (-1)) tr.
Proof.
  pose (prog := fun i : nat => match i with 0%nat => [500] | 1%nat => [0] | _ => [] end).
  pose (s1 := {| acct := 500; holder := None; ts := upd (ts (linit prog)) 0 (TChecked []) |}).
  pose (s2 := {| acct := 500; holder := None; ts := upd (ts s1) 0 (TSleeping [] 500) |}).
  pose (s3 := {| acct := 500; holder := None; ts := upd (ts s2) 1 (TChecked []) |}).
  pose (s4 := {| acct := -1; holder := None; ts := upd (ts s3) 0 (TIdle []) |}).
  pose (s5 := {| acct := -1; holder := None; ts := upd (ts s4) 1 (TSleeping [] (-1)) |}).
  exists ((((([] ++ []) ++ [Sleep 500]) ++ []) ++ []) ++ [Sleep (-1)]), s5. split; [|cbn; auto].
  eapply lreach_step with (s1 := s4); [|exact (L_eval 500 250 false s4 1%nat [] eq_refl)].
  eapply lreach_step with (s1 := s3); [|exact (L_wake 500 250 false s3 0%nat [] 500 501 eq_refl ltac:(lia) eq_refl)].
  eapply lreach_step with (s1 := s2); [|exact (L_enter_big 500 250 false s2 1%nat 0 [] eq_refl eq_refl ltac:(cbn; lia))].
  eapply lreach_step with (s1 := s1); [|exact (L_eval 500 250 false s1 0%nat [] eq_refl)].
  eapply lreach_step with (s1 := linit prog); [apply lreach_refl|].
  exact (L_enter_big 500 250 false (linit prog) 0%nat 500 [] eq_refl eq_refl ltac:(cbn; lia)).
Qed.

(* non-vacuity of the locked theorem: the same program under the lock does sleep, and only for what it owes *)
Example locked_concrete :
  exists tr s, lreach 500 250 true (linit (fun i => match i with 0%nat => [500] | _ => [] end)) tr s /\ tr = [Sleep 500].
Proof.
  pose (prog := fun i : nat => match i with 0%nat => [500] | _ => [] end).
  pose (s1 := {| acct := 500; holder := Some 0%nat; ts := upd (ts (linit prog)) 0 (TChecked []) |}).
  pose (s2 := {| acct := 500; holder := Some 0%nat; ts := upd (ts s1) 0 (TSleeping [] 500) |}).
  exists (([] ++ []) ++ [Sleep 500]), s2. split; [|reflexivity].
  eapply lreach_step with (s1 := s1); [|exact (L_eval 500 250 true s1 0%nat [] eq_refl)].
  eapply lreach_step with (s1 := linit prog); [apply lreach_refl|].
  exact (L_enter_big 500 250 true (linit prog) 0%nat 500 [] eq_refl eq_refl ltac:(cbn; lia)).
Qed.
