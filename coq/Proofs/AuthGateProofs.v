(* Proofs for Model/AuthGate.v: with the lock attribute published AFTER authenticate() every transfer is issued under an
   authorisation, for every number of threads and every interleaving; published before it, two threads suffice for a transfer
   without one. *)
From Coq Require Import List Bool Arith.
From Replicat Require Import Model.AuthGate.
Import ListNotations.

Definition GInv (g : gate) : Prop :=
  (published g = true -> authed g = true) /\
  (started g = true -> aholder g = None -> authed g = true) /\
  (forall i, ats g i = AWaiting -> started g = true) /\
  (aholder g <> None -> started g = true).

Lemma ginit_inv : GInv ginit.
Proof. repeat split; cbn; intros; try discriminate; try congruence. Qed.

Lemma aupd_same f i v : aupd f i v i = v.
Proof. unfold aupd. now rewrite Nat.eqb_refl. Qed.
Lemma aupd_other f i v j : j <> i -> aupd f i v j = f j.
Proof. intros H. unfold aupd. destruct (Nat.eqb_spec j i); [contradiction|reflexivity]. Qed.

Ltac waiting_other Hw i :=
  let j := fresh "j" in let Hj := fresh "Hj" in let Hne := fresh "Hne" in
  intros j Hj; destruct (Nat.eq_dec j i) as [->|Hne];
  [rewrite aupd_same in Hj; discriminate Hj | rewrite aupd_other in Hj by exact Hne; exact (Hw j Hj)].

Lemma astep_inv g e g' : GInv g -> astep false g e g' -> GInv g' /\ Forall (fun v => match v with Call b => b = true end) e.
Proof.
  intros (Hp & Hs & Hw & Hh) St.
  inversion St as [g0 i Hi Hpub|g0 i Hi Hpub Hfree|g0 i Hi Hpub Hheld|g0 i Hi Hhold|g0 i Hi Hfree]; subst.
  - split; [|constructor; [exact (Hp Hpub)|constructor]].
    unfold GInv; cbn. refine (conj Hp (conj Hs (conj _ Hh))). waiting_other Hw i.
  - split; [|constructor].
    unfold GInv; cbn. refine (conj _ (conj _ (conj _ _))).
    + intro H; discriminate H.
    + intros _ H; discriminate H.
    + intros j _. reflexivity.
    + intros _. reflexivity.
  - split; [|constructor].
    unfold GInv; cbn. refine (conj Hp (conj Hs (conj _ Hh))).
    intros j Hj. destruct (Nat.eq_dec j i) as [->|Hne]; [exact (Hh Hheld)|].
    rewrite aupd_other in Hj by exact Hne. exact (Hw j Hj).
  - split; [|constructor; [reflexivity|constructor]].
    unfold GInv; cbn. refine (conj _ (conj _ (conj _ _))).
    + intros _. reflexivity.
    + intros _ _. reflexivity.
    + waiting_other Hw i.
    + intro H. exfalso. apply H. reflexivity.
  - assert (Ha : authed g = true) by (apply Hs; [exact (Hw i Hi)|exact Hfree]).
    split; [|constructor; [exact Ha|constructor]].
    unfold GInv; cbn. refine (conj Hp (conj Hs (conj _ Hh))). waiting_other Hw i.
Qed.

Theorem publish_after_auth_safe : forall tr g, areach false ginit tr g -> Forall (fun v => match v with Call b => b = true end) tr.
Proof.
  intros tr g H. assert (GInv g /\ Forall (fun v => match v with Call b => b = true end) tr) as [_ HF]; [|exact HF].
  remember ginit as g0 eqn:E. induction H as [g|g tr g1 e g2 H IH St].
  - subst. split; [apply ginit_inv|constructor].
  - destruct (IH E) as [Hi Hf]. destruct (astep_inv _ _ _ Hi St) as [Hi' Hf']. split; [exact Hi'|].
    apply Forall_app. split; assumption.
Qed.

(* the other shape: thread 0 wins the lock (the attribute is published at once), thread 1 arrives, finds the attribute and transfers *)
Theorem publish_before_auth_refuted : exists tr g, areach true ginit tr g /\ In (Call false) tr.
Proof.
  pose (g1 := {| authed := false; published := true; started := true; aholder := Some 0; ats := aupd (ats ginit) 0 AAuthing |}).
  pose (g2 := {| authed := false; published := true; started := true; aholder := Some 0; ats := aupd (ats g1) 1 ADone |}).
  exists (([] ++ []) ++ [Call false]), g2. split; [|cbn; auto].
  eapply areach_step with (g1 := g1); [|exact (A_fast true g1 1 eq_refl eq_refl)].
  eapply areach_step with (g1 := ginit); [apply areach_refl|].
  exact (A_win true ginit 0 eq_refl eq_refl eq_refl).
Qed.

(* non-vacuity: three threads, one authenticates, one waits, one comes late: three authorised transfers *)
Example gate_concrete : exists tr g, areach false ginit tr g /\ tr = [Call true; Call true; Call true].
Proof.
  pose (g1 := {| authed := false; published := false; started := true; aholder := Some 0; ats := aupd (ats ginit) 0 AAuthing |}).
  pose (g2 := {| authed := false; published := false; started := true; aholder := Some 0; ats := aupd (ats g1) 1 AWaiting |}).
  pose (g3 := {| authed := true; published := true; started := true; aholder := None; ats := aupd (ats g2) 0 ADone |}).
  pose (g4 := {| authed := true; published := true; started := true; aholder := None; ats := aupd (ats g3) 1 ADone |}).
  pose (g5 := {| authed := true; published := true; started := true; aholder := None; ats := aupd (ats g4) 2 ADone |}).
  exists ((((([] ++ []) ++ []) ++ [Call true]) ++ [Call true]) ++ [Call true]), g5. split; [|reflexivity].
  eapply areach_step with (g1 := g4); [|exact (A_fast false g4 2 eq_refl eq_refl)].
  eapply areach_step with (g1 := g3); [|exact (A_wake false g3 1 eq_refl eq_refl)].
  eapply areach_step with (g1 := g2); [|exact (A_authenticated false g2 0 eq_refl eq_refl)].
  eapply areach_step with (g1 := g1); [|exact (A_lose false g1 1 eq_refl eq_refl ltac:(cbn; discriminate))].
  eapply areach_step with (g1 := ginit); [apply areach_refl|].
  exact (A_win false ginit 0 eq_refl eq_refl eq_refl).
Qed.
