(* Local backend: basic facts about paths and the directory-tree model, and the effect of the adapter's
   state-changing operations expressed as lookup functions.  The refinement itself is in
   LocalRefine.v. *)
From Coq Require Import List NArith Bool Arith Lia.
From Replicat Require Import Model.Store Model.LocalFs Proofs.StoreProofs.
Import ListNotations.
Local Open Scope N_scope.

Lemma path_eqb_eq : forall a b, path_eqb a b = true <-> a = b.
Proof.
  induction a as [|x a IH]; destruct b as [|y b]; cbn; split; intro H; try reflexivity; try discriminate.
  - apply andb_true_iff in H. destruct H as [H1 H2]. apply str_eqb_eq in H1. apply IH in H2. subst. reflexivity.
  - inversion H; subst. apply andb_true_iff. split. apply str_eqb_refl. apply IH. reflexivity.
Qed.

Lemma path_eqb_refl : forall a, path_eqb a a = true.
Proof. intro a. apply path_eqb_eq. reflexivity. Qed.

Lemma strip_spec : forall d p q, strip d p = Some q <-> p = d ++ q.
Proof.
  induction d as [|x d IH]; intros p q; cbn.
  - split; intro H; [inversion H|subst]; reflexivity.
  - destruct p as [|y p]; [split; intro H; discriminate|].
    destruct (str_eqb x y) eqn:E.
    + apply str_eqb_eq in E. subst y. rewrite IH. split; intro H; [subst|inversion H]; reflexivity.
    + split; intro H; [discriminate|]. inversion H; subst. rewrite str_eqb_refl in E. discriminate.
Qed.

Lemma strip_app : forall d q, strip d (d ++ q) = Some q.
Proof. intros d q. apply strip_spec. reflexivity. Qed.

Definition is_prefix (a b : path) : Prop := exists q, b = a ++ q.
Definition proper_prefix (a b : path) : Prop := exists q, q <> [] /\ b = a ++ q.

Lemma proper_is_prefix : forall a b, proper_prefix a b -> is_prefix a b.
Proof. intros a b (q & _ & H). exists q. exact H. Qed.

Lemma proper_prefix_neq : forall a b, proper_prefix a b -> a <> b.
Proof.
  intros a b (q & Hq & H) E. subst b. rewrite <- (app_nil_r a) in E at 1. apply app_inv_head in E. congruence.
Qed.

Lemma proper_prefix_trans : forall a b c, proper_prefix a b -> is_prefix b c -> proper_prefix a c.
Proof.
  intros a b c (q & Hq & ->) (r & ->). exists (q ++ r). split.
  - destruct q; [contradiction|discriminate].
  - rewrite app_assoc. reflexivity.
Qed.

Lemma parent_snoc : forall (p : path) s, parent (p ++ [s]) = p.
Proof. intros p s. unfold parent. apply removelast_last. Qed.

Lemma parent_last : forall n : path, n <> [] -> n = parent n ++ [last n []].
Proof. intros n H. unfold parent. apply app_removelast_last. exact H. Qed.

(* membership in the list of non-empty initial segments *)
Lemma In_inits_ne : forall rest pre x,
  In x (inits_ne pre rest) <-> exists q, q <> [] /\ is_prefix q rest /\ x = pre ++ q.
Proof.
  induction rest as [|s r IH]; intros pre x; cbn.
  - split; [contradiction|]. intros (q & Hq & (t & Ht) & _). destruct q; [contradiction|discriminate].
  - rewrite IH. split.
    + intros [H|(q & Hq & (t & Ht) & Hx)].
      * exists [s]. repeat split; [discriminate|exists r; reflexivity|auto].
      * exists (s :: q). repeat split; [discriminate|exists t; cbn; rewrite Ht; reflexivity|].
        rewrite Hx, <- app_assoc. reflexivity.
    + intros (q & Hq & (t & Ht) & Hx). destruct q as [|s' q]; [contradiction|].
      cbn in Ht. inversion Ht; subst s'. destruct q as [|s2 q].
      * left. auto.
      * right. exists (s2 :: q). repeat split; [discriminate|exists t; auto|].
        rewrite Hx, <- app_assoc. reflexivity.
Qed.

Lemma In_inits_parent : forall n x, n <> [] ->
  (In x (inits_ne [] (parent n)) <-> x <> [] /\ proper_prefix x n).
Proof.
  intros n x Hn. rewrite In_inits_ne. cbn. split.
  - intros (q & Hq & (t & Ht) & ->). split; auto.
    exists (t ++ [last n []]). split; [destruct t; discriminate|].
    rewrite (parent_last n Hn) at 1. rewrite Ht, <- app_assoc. reflexivity.
  - intros (Hx & t & Ht & E). exists x. repeat split; auto.
    destruct (exists_last Ht) as (t' & s & ->). exists t'.
    rewrite E, app_assoc, parent_snoc. reflexivity.
Qed.

Definition memp (x : path) (l : list path) : bool := existsb (path_eqb x) l.

Lemma memp_In : forall x l, memp x l = true <-> In x l.
Proof.
  intros x l. unfold memp. rewrite existsb_exists. split.
  - intros (y & Hy & E). apply path_eqb_eq in E. subst. exact Hy.
  - intro H. exists x. split; auto. apply path_eqb_refl.
Qed.

(* ---- mkdirs *)
Lemma mkdirs_spec : forall qs f,
  (forall q d, In q qs -> fs_lookup q f <> Some (EFile d)) ->
  NoDup (map fst f) ->
  exists f1, mkdirs qs f = Some f1 /\ NoDup (map fst f1) /\
    forall x, fs_lookup x f1 = if memp x qs then Some EDir else fs_lookup x f.
Proof.
  induction qs as [|q r IH]; intros f Hnf Hnd; cbn [mkdirs].
  - exists f. repeat split; auto.
  - destruct (fs_lookup q f) as [[d|]|] eqn:E.
    + exfalso. apply (Hnf q d); auto. left; reflexivity.
    + destruct (IH f) as (f1 & H1 & H2 & H3); auto.
      { intros q' d Hin. apply Hnf. right; exact Hin. }
      exists f1. repeat split; auto. intro x. rewrite H3. cbn. destruct (path_eqb x q) eqn:Ex.
      * apply path_eqb_eq in Ex. subst. cbn. destruct (memp q r); auto.
      * reflexivity.
    + destruct (IH ((q, EDir) :: f)) as (f1 & H1 & H2 & H3).
      { intros q' d Hin. unfold fs_lookup. cbn. destruct (path_eqb q' q); [discriminate|].
        apply Hnf. right; exact Hin. }
      { cbn. constructor; auto. apply (alookup_None_notin path_eqb path_eqb_eq). exact E. }
      exists f1. repeat split; auto. intro x. rewrite H3. unfold fs_lookup, memp. cbn.
      destruct (path_eqb x q); cbn; destruct (existsb (path_eqb x) r); reflexivity.
Qed.

(* ---- legality of the names used by a history *)
Definition prefix_free (U : list path) : Prop := forall a b, In a U -> In b U -> is_prefix a b -> a = b.
Definition legalU (U : list path) : Prop := prefix_free U /\ forall n, In n U -> legal_name n = true.
(* the temporary name picked for an upload of n: ends in .tmp and collides with nothing *)
Definition tmp_ok (U : list path) (n : path) (tmp : seg) : Prop :=
  forall u, In u U -> ~ is_prefix (parent n ++ [tmp]) u.

Lemma legal_nonempty : forall n, legal_name n = true -> n <> [].
Proof. intros n H E. subst. discriminate. Qed.

Lemma legal_not_tmp : forall n, legal_name n = true -> is_tmp_name n = false.
Proof.
  intros n H. destruct n; [discriminate|]. cbn [legal_name] in H. apply andb_true_iff in H.
  destruct H as [_ H]. apply negb_true_iff in H. exact H.
Qed.

(* ---- the representation invariant between the tree and the plain map *)
Record l_rel (U : list path) (f : fs) (st : @store path) : Prop := {
  r_files : forall n, In n U -> fs_lookup n f = option_map EFile (alookup path_eqb n st);
  r_shape_file : forall q d, fs_lookup q f = Some (EFile d) -> In q U;
  r_shape_dir : forall q, fs_lookup q f = Some EDir -> exists u, In u U /\ proper_prefix q u;
  r_parents : forall q e, fs_lookup q f = Some e -> forall q', q' <> [] -> proper_prefix q' q -> fs_lookup q' f = Some EDir;
  r_nodup : NoDup (map fst f);
  r_keys : forall k, In k (map fst st) -> In k U;
  r_nodup_st : NoDup (map fst st)
}.

Lemma l_rel_empty : forall U, l_rel U [] [].
Proof.
  intro U. constructor; cbn; try discriminate; try contradiction; try constructor.
Qed.

Section Ops.
  Variable U : list path.
  Hypothesis HU : legalU U.

  Lemma not_dir_in_U : forall f st n, l_rel U f st -> In n U -> fs_lookup n f <> Some EDir.
  Proof.
    intros f st n R Hn E. rewrite (r_files _ _ _ R n Hn) in E. destruct (alookup path_eqb n st); discriminate.
  Qed.

  Lemma no_proper_prefix_in_U : forall a b, In a U -> In b U -> ~ proper_prefix a b.
  Proof.
    intros a b Ha Hb H. apply (proper_prefix_neq a b H). apply (proj1 HU); auto. apply proper_is_prefix. exact H.
  Qed.

  (* ---- upload: the final tree as a lookup function *)
  Lemma l_upload_spec : forall f st n d tmp, l_rel U f st -> In n U -> tmp_ok U n tmp ->
    exists f', l_upload n d tmp f = Some f' /\ NoDup (map fst f') /\
      forall x, fs_lookup x f' =
        if path_eqb x n then Some (EFile d)
        else if memp x (inits_ne [] (parent n)) then Some EDir else fs_lookup x f.
  Proof.
    intros f st n d tmp R Hn Htmp.
    pose proof (legal_nonempty n (proj2 HU n Hn)) as Hne.
    set (t := parent n ++ [tmp]).
    assert (Hinits : forall x, memp x (inits_ne [] (parent n)) = true -> x <> [] /\ proper_prefix x n).
    { intros x Hx. apply memp_In in Hx. apply In_inits_parent in Hx; auto. }
    (* mkdir -p of the parent *)
    destruct (mkdirs_spec (inits_ne [] (parent n)) f) as (f1 & E1 & Hnd1 & L1).
    { intros q d' Hq Hl. apply In_inits_parent in Hq; auto. destruct Hq as [_ Hq].
      apply (no_proper_prefix_in_U q n); auto. eapply r_shape_file; eauto. }
    { eapply r_nodup; eauto. }
    (* the temporary name is fresh *)
    assert (Htf : fs_lookup t f = None).
    { destruct (fs_lookup t f) as [[d'|]|] eqn:E; auto; exfalso.
      - apply (Htmp t); [eapply r_shape_file; eauto|exists []; rewrite app_nil_r; reflexivity].
      - destruct (r_shape_dir _ _ _ R t E) as (u & Hu & Hp). apply (Htmp u Hu). apply proper_is_prefix. exact Hp. }
    assert (Htn : path_eqb t n = false).
    { apply (keq_false path_eqb path_eqb_eq). intro E. apply (Htmp n Hn). exists []. rewrite app_nil_r. symmetry. exact E. }
    assert (Hti : memp t (inits_ne [] (parent n)) = false).
    { destruct (memp t (inits_ne [] (parent n))) eqn:E; auto. exfalso.
      destruct (Hinits t E) as [_ Hp]. apply (Htmp n Hn). apply proper_is_prefix. exact Hp. }
    assert (Ht1 : fs_lookup t f1 = None) by (rewrite L1, Hti; exact Htf).
    assert (Hni : memp n (inits_ne [] (parent n)) = false).
    { destruct (memp n (inits_ne [] (parent n))) eqn:E; auto. exfalso.
      destruct (Hinits n E) as [_ Hp]. apply (proper_prefix_neq n n Hp). reflexivity. }
    unfold l_upload, up_mkdir, mkdir_p. rewrite E1. cbn [obind].
    unfold up_mktemp. fold t. rewrite Ht1. cbn [obind].
    unfold up_write. fold t. cbn [obind]. unfold up_replace, fs_rename. fold t.
    set (f2 := (t, EFile []) :: f1).
    set (f3 := aput path_eqb t (EFile d) f2).
    assert (L3 : forall x, fs_lookup x f3 = if path_eqb x t then Some (EFile d) else fs_lookup x f1).
    { intro x. unfold f3, fs_lookup. rewrite (alookup_aput _ path_eqb_eq). unfold f2. cbn.
      destruct (path_eqb x t); reflexivity. }
    assert (Hnd3 : NoDup (map fst f3)).
    { unfold f3. apply (NoDup_keys_aput _ path_eqb_eq). unfold f2. cbn. constructor; auto.
      apply (alookup_None_notin path_eqb path_eqb_eq). exact Ht1. }
    rewrite (L3 t), path_eqb_refl.
    assert (Hnt : path_eqb n t = false).
    { apply (keq_false path_eqb path_eqb_eq). intro E. apply (keq_false path_eqb path_eqb_eq) in Htn. auto. }
    assert (Hn3 : fs_lookup n f3 <> Some EDir).
    { rewrite L3, Hnt, L1, Hni. eapply not_dir_in_U; eauto. }
    assert (Hfin : forall f', f' = aput path_eqb n (EFile d) (aremove path_eqb t f3) ->
              NoDup (map fst f') /\
              forall x, fs_lookup x f' =
                if path_eqb x n then Some (EFile d)
                else if memp x (inits_ne [] (parent n)) then Some EDir else fs_lookup x f).
    { intros f' ->. split.
      - apply (NoDup_keys_aput _ path_eqb_eq). apply (NoDup_keys_aremove _ path_eqb_eq). exact Hnd3.
      - intro x. unfold fs_lookup at 1. rewrite (alookup_aput _ path_eqb_eq).
        destruct (path_eqb x n) eqn:Exn; auto.
        rewrite (alookup_aremove _ path_eqb_eq). fold (fs_lookup x f3).
        destruct (path_eqb x t) eqn:Ext.
        + apply path_eqb_eq in Ext. subst x. rewrite Hti. symmetry. exact Htf.
        + rewrite L3, Ext. apply L1. }
    destruct (fs_lookup n f3) as [[d0|]|] eqn:En3; [|exfalso; apply Hn3; reflexivity|];
      (eexists; split; [reflexivity|apply Hfin; reflexivity]).
  Qed.

  Lemma l_upload_rel : forall f st n d tmp, l_rel U f st -> In n U -> tmp_ok U n tmp ->
    exists f', l_upload n d tmp f = Some f' /\ l_rel U f' (aput path_eqb n d st).
  Proof.
    intros f st n d tmp R Hn Htmp.
    destruct (l_upload_spec f st n d tmp R Hn Htmp) as (f' & E & Hnd & L).
    pose proof (legal_nonempty n (proj2 HU n Hn)) as Hne.
    assert (Hinits : forall x, memp x (inits_ne [] (parent n)) = true <-> x <> [] /\ proper_prefix x n).
    { intro x. rewrite memp_In. apply In_inits_parent. exact Hne. }
    exists f'. split; auto. constructor.
    - intros u Hu. rewrite L, (alookup_aput _ path_eqb_eq). destruct (path_eqb u n) eqn:Eun; [reflexivity|].
      destruct (memp u (inits_ne [] (parent n))) eqn:Em.
      + exfalso. apply Hinits in Em. apply (no_proper_prefix_in_U u n); tauto.
      + eapply r_files; eauto.
    - intros q d' Hq. rewrite L in Hq. destruct (path_eqb q n) eqn:Eqn.
      + apply path_eqb_eq in Eqn. subst. exact Hn.
      + destruct (memp q (inits_ne [] (parent n))); [discriminate|]. eapply r_shape_file; eauto.
    - intros q Hq. rewrite L in Hq. destruct (path_eqb q n) eqn:Eqn; [discriminate|].
      destruct (memp q (inits_ne [] (parent n))) eqn:Em.
      + apply Hinits in Em. exists n. tauto.
      + eapply r_shape_dir; eauto.
    - intros q e Hq q' Hq' Hp. rewrite L in Hq. rewrite L.
      assert (Hq'n : forall E : is_prefix q n, path_eqb q' n = false /\ memp q' (inits_ne [] (parent n)) = true).
      { intros Hqn. assert (Hp' : proper_prefix q' n) by (eapply proper_prefix_trans; eauto). split.
        - apply (keq_false path_eqb path_eqb_eq). apply proper_prefix_neq. exact Hp'.
        - apply Hinits. tauto. }
      destruct (path_eqb q n) eqn:Eqn.
      + apply path_eqb_eq in Eqn. subst q. destruct Hq'n as [-> ->]; [exists []; rewrite app_nil_r; reflexivity|reflexivity].
      + destruct (memp q (inits_ne [] (parent n))) eqn:Em.
        * apply Hinits in Em. destruct Hq'n as [-> ->]; [apply proper_is_prefix; tauto|reflexivity].
        * pose proof (r_parents _ _ _ R q e Hq q' Hq' Hp) as Hd.
          destruct (path_eqb q' n) eqn:Eq'n.
          { apply path_eqb_eq in Eq'n. subst q'. exfalso. eapply not_dir_in_U; eauto. }
          destruct (memp q' (inits_ne [] (parent n))); auto.
    - exact Hnd.
    - intros k Hk. unfold aput in Hk. cbn in Hk. destruct Hk as [<-|Hk]; auto.
      apply (keys_aremove_subset _ path_eqb_eq) in Hk. eapply r_keys; eauto. tauto.
    - apply (NoDup_keys_aput _ path_eqb_eq). eapply r_nodup_st; eauto.
  Qed.

  (* ---- delete *)
  Lemma l_delete_rel : forall f st n, l_rel U f st -> In n U ->
    exists f', l_delete n f = Some f' /\ l_rel U f' (aremove path_eqb n st).
  Proof.
    intros f st n R Hn.
    assert (Hex : exists f', l_delete n f = Some f' /\ NoDup (map fst f') /\
                   forall x, fs_lookup x f' = if path_eqb x n then None else fs_lookup x f).
    { unfold l_delete. destruct (fs_lookup n f) as [[d|]|] eqn:E.
      - eexists. split; [reflexivity|]. split.
        + apply (NoDup_keys_aremove _ path_eqb_eq). eapply r_nodup; eauto.
        + intro x. unfold fs_lookup. rewrite (alookup_aremove _ path_eqb_eq). reflexivity.
      - exfalso. eapply not_dir_in_U; eauto.
      - exists f. split; [reflexivity|]. split; [eapply r_nodup; eauto|].
        intro x. destruct (path_eqb x n) eqn:Ex; auto. apply path_eqb_eq in Ex. subst. exact E. }
    destruct Hex as (f' & E & Hnd & L). exists f'. split; auto. constructor.
    - intros u Hu. rewrite L, (alookup_aremove _ path_eqb_eq). destruct (path_eqb u n); [reflexivity|].
      eapply r_files; eauto.
    - intros q d Hq. rewrite L in Hq. destruct (path_eqb q n); [discriminate|]. eapply r_shape_file; eauto.
    - intros q Hq. rewrite L in Hq. destruct (path_eqb q n); [discriminate|]. eapply r_shape_dir; eauto.
    - intros q e Hq q' Hq' Hp. rewrite L in Hq. rewrite L. destruct (path_eqb q n); [discriminate|].
      pose proof (r_parents _ _ _ R q e Hq q' Hq' Hp) as Hd.
      destruct (path_eqb q' n) eqn:Eq'n; auto.
      apply path_eqb_eq in Eq'n. subst q'. exfalso. eapply not_dir_in_U; eauto.
    - exact Hnd.
    - intros k Hk. apply (keys_aremove_subset _ path_eqb_eq) in Hk. eapply r_keys; eauto. tauto.
    - apply (NoDup_keys_aremove _ path_eqb_eq). eapply r_nodup_st; eauto.
  Qed.
End Ops.
