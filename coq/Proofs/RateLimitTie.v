(* C20 - the tie between the translated source (Gen/RateLimitGen.v, regenerated from the working
   tree on every run) and the hand model (Model/RateLimit.v), the source constants, the
   chunk-size formula at the rate-limited sites, and transparency of the wrapper. *)
From Coq Require Import QArith Lqa List Bool ZArith String Lia.
From Replicat Require Import Gen.RateLimitGen Model.RateLimit Proofs.RateLimitProofs.
Import ListNotations.

(* ------------------------------------------------------------------ B1: gen = model, by reflexivity *)
Lemma gen_pause_reads_eq : RateLimitGen.pause_reads = RateLimit.pause.
Proof. reflexivity. Qed.
Lemma gen_pause_writes_eq : RateLimitGen.pause_writes = RateLimit.pause.
Proof. reflexivity. Qed.
Lemma gen_py_max_eq : RateLimitGen.py_max = RateLimit.py_max.
Proof. reflexivity. Qed.
Lemma gen_wrapper_read_eq : @RateLimitGen.wrapper_read = @RateLimit.wrapper_read.
Proof. reflexivity. Qed.
Lemma gen_wrapper_write_eq : @RateLimitGen.wrapper_write = @RateLimit.wrapper_write.
Proof. reflexivity. Qed.
Lemma gen_wrapper_seek_eq : @RateLimitGen.wrapper_seek = @RateLimit.wrapper_passthrough.
Proof. reflexivity. Qed.
Lemma gen_wrapper_tell_eq : @RateLimitGen.wrapper_tell = @RateLimit.wrapper_passthrough.
Proof. reflexivity. Qed.
Lemma gen_wrapper_truncate_eq : @RateLimitGen.wrapper_truncate = @RateLimit.wrapper_passthrough.
Proof. reflexivity. Qed.
Lemma gen_initial_debt : RateLimitGen.initial_amortised = 0%Q.
Proof. reflexivity. Qed.
Lemma gen_tqdm_passthrough : RateLimitGen.tqdm_wrappers_return_underlying_result = true.
Proof. reflexivity. Qed.
(* at every rate-limited site: `if rate_limiter is not None: limited_wrapper = rate_limiter.wrap(stream) else: ... = stream`,
   and the backend receives the progress wrapper built over limited_wrapper - no size or other condition *)
Lemma gen_sites_wrap_unconditionally : RateLimitGen.rate_limited_sites_wrap_unconditionally = true.
Proof. reflexivity. Qed.

(* ------------------------------------------------------------------ source constants *)
Open Scope Q_scope.
(* debt is never forgiven for calls of at most a quarter second's worth of bytes *)
Lemma src_threshold_plus_quarter_le_limit :
  0 <= PAUSE_THRESHOLD_SECONDS /\ PAUSE_THRESHOLD_SECONDS + (1 # 4) <= PAUSE_LIMIT.
Proof. split; apply Qle_bool_iff; reflexivity. Qed.

Lemma src_sites_divisor : Forall (fun s => (4 <= snd s)%Z) rate_limited_sites /\ rate_limited_sites <> [].
Proof. split; [repeat constructor; cbn; lia|discriminate]. Qed.

(* the chunk size the commands choose: max(L // (n * div), 1) <= L / 4 for L >= 4, n >= 1, div >= 4 *)
Definition site_chunk (L n div : Z) : Z := Z.max (L / (n * div)) 1.

Lemma site_chunk_le_quarter : forall L n div, (4 <= L)%Z -> (1 <= n)%Z -> (4 <= div)%Z ->
  (1 <= site_chunk L n div /\ 4 * site_chunk L n div <= L)%Z.
Proof.
  intros L n div HL Hn Hd. unfold site_chunk. split; [lia|].
  assert (H4 : (L / (n * div) <= L / 4)%Z) by (apply Z.div_le_compat_l; nia).
  assert (H5 : (4 * (L / 4) <= L)%Z) by (apply Z.mul_div_le; lia).
  lia.
Qed.

Lemma site_chunk_Q : forall L n div, (4 <= L)%Z -> (1 <= n)%Z -> (4 <= div)%Z ->
  0 <= inject_Z (site_chunk L n div) /\ inject_Z (site_chunk L n div) <= inject_Z L * (1 # 4).
Proof.
  intros L n div HL Hn Hd. destruct (site_chunk_le_quarter L n div HL Hn Hd) as [H1 H2].
  split.
  - change 0 with (inject_Z 0). rewrite <- Zle_Qle. lia.
  - assert (H : inject_Z 4 * inject_Z (site_chunk L n div) <= inject_Z L).
    { rewrite <- inject_Z_mult, <- Zle_Qle. exact H2. }
    change (inject_Z 4) with 4 in H. lra.
Qed.

(* the bound at the sites: limit L >= 4 bytes/s, n >= 1 concurrent transfers, sizes up to the
   chunk size of any recognised site, exact sleep *)
Theorem window_bound_at_sites : forall site L n cs t T,
  In site rate_limited_sites -> (4 <= L)%Z -> (1 <= n)%Z ->
  let dmax := inject_Z (site_chunk L n (snd site)) in
  Forall (size_ok dmax) cs -> Forall (env_ok 0) cs -> 0 <= T ->
  window_bytes t T (run PAUSE_LIMIT PAUSE_THRESHOLD_SECONDS (inject_Z L) 0 0 cs)
    <= inject_Z L * T + inject_Z L * PAUSE_LIMIT + dmax.
Proof.
  intros site L n cs t T Hin HL Hn dmax Hsz Henv HT.
  destruct src_sites_divisor as [Hdiv _]. rewrite Forall_forall in Hdiv. specialize (Hdiv site Hin).
  destruct (site_chunk_Q L n (snd site) HL Hn Hdiv) as [Hd0 Hd1]. fold dmax in Hd0, Hd1.
  destruct src_threshold_plus_quarter_le_limit as [HTH Hcap].
  assert (HLq : 0 < inject_Z L) by (change 0 with (inject_Z 0); rewrite <- Zlt_Qlt; lia).
  pose proof (single_stream_window_bound PAUSE_LIMIT PAUSE_THRESHOLD_SECONDS (inject_Z L) (1 # 4) 0 dmax cs t T
                HTH Hcap (Qle_refl 0) HLq Hd0 Hd1 Hsz Henv HT) as H.
  eapply Qle_trans; [exact H|]. lra.
Qed.

(* ------------------------------------------------------------------ transparency *)
Section Transparency.
Context {F A D S R : Type}.
Variable file_read : F -> A -> D * F.
Variable file_write : F -> D -> Q * F.
Variable file_seek : F -> S -> R * F.
Variable file_tell : F -> unit -> R * F.
Variable file_truncate : F -> S -> R * F.
Variable len : D -> Q.

Lemma wrapper_read_transparent : forall PL TH limit over e clock debt file size,
  fst (wrapper_read file_read len PL TH limit over e clock debt file size) = file_read file size.
Proof.
  intros. unfold wrapper_read. destruct (file_read file size) as [d f].
  cbv zeta. match goal with |- context [match ?X with _ => _ end] => destruct X as [[c a] s] end. reflexivity.
Qed.

Lemma wrapper_write_transparent : forall PL TH limit over e clock debt file data,
  fst (wrapper_write file_write PL TH limit over e clock debt file data) = file_write file data.
Proof.
  intros. unfold wrapper_write. destruct (file_write file data) as [n f].
  cbv zeta. match goal with |- context [match ?X with _ => _ end] => destruct X as [[c a] s] end. reflexivity.
Qed.

Lemma wrapped_step_transparent : forall p env st file o,
  fst (wrapped_step file_read file_write file_seek file_tell file_truncate len p env st file o)
  = raw_step file_read file_write file_seek file_tell file_truncate file o.
Proof.
  intros p [e over] st file o. destruct o; cbn [wrapped_step raw_step].
  - pose proof (wrapper_read_transparent (l_PL p) (l_TH p) (l_rlimit p) over e (s_clock st) (s_rdebt st) file size) as H.
    destruct (wrapper_read _ _ _ _ _ _ _ _ _ _ _) as [[d f] [[c a] s]]. cbn [fst] in *. rewrite <- H. reflexivity.
  - pose proof (wrapper_write_transparent (l_PL p) (l_TH p) (l_wlimit p) over e (s_clock st) (s_wdebt st) file data) as H.
    destruct (wrapper_write _ _ _ _ _ _ _ _ _ _) as [[n f] [[c a] s]]. cbn [fst] in *. rewrite <- H. reflexivity.
  - unfold wrapper_passthrough. destruct (file_seek file args); reflexivity.
  - unfold wrapper_passthrough. destruct (file_tell file tt); reflexivity.
  - unfold wrapper_passthrough. destruct (file_truncate file args); reflexivity.
Qed.

(* any sequence of read/write/seek/tell/truncate through the wrapper, whatever the limits, clock,
   latencies and over-sleeps: the same results and the same final file as on the bare stream *)
Theorem wrapper_transparent : forall p os st file,
  run_wrapped file_read file_write file_seek file_tell file_truncate len p st file os
  = run_raw file_read file_write file_seek file_tell file_truncate file (map fst os).
Proof.
  intros p os. induction os as [|[o env] os IH]; intros st file; [reflexivity|].
  cbn [run_wrapped run_raw map fst].
  pose proof (wrapped_step_transparent p env st file o) as H.
  destruct (wrapped_step _ _ _ _ _ _ _ _ _ _ _) as [[r f] st']. cbn [fst] in H. rewrite <- H.
  rewrite IH. reflexivity.
Qed.
End Transparency.
