(* C15 size column: the sum of (end - start) over a file's chunk ranges is the file's length.
   Assembles the C01 tiling theorem (StreamProofs.refs_tile) with RoundTrip.plan_size_slices /
   refs_slice_lengths, stated over chunk LENGTHS only. *)
From Coq Require Import List Arith NArith Lia Permutation.
From Replicat Require Import Lib.ListX Model.Stream Model.Select Proofs.StreamProofs Proofs.RoundTrip.
Import ListNotations.

Lemma units_lengths clens : map (@length unit) (map (fun n => repeat tt n) clens) = clens.
Proof.
  rewrite map_map. induction clens as [|n t IH]; cbn [map]; [reflexivity|].
  rewrite repeat_length, IH. reflexivity.
Qed.

Lemma units_total clens : length (concat (map (fun n => repeat tt n) clens)) = list_sum clens.
Proof.
  induction clens as [|n t IH]; cbn [map concat list_sum]; [reflexivity|].
  rewrite app_length, repeat_length, IH. reflexivity.
Qed.

(* the ranges attributed to the file occupying [fs, fe) of a stream cut into chunks of the given
   lengths add up to fe - fs *)
Theorem refs_size_is_length clens fs fe : fs <= fe -> fe <= list_sum clens ->
  plan_size (refs_of (fs, fe) clens) = fe - fs.
Proof.
  intros Hle Hcov. set (chunks := map (fun n => repeat tt n) clens).
  rewrite <- (units_lengths clens). fold chunks.
  rewrite (plan_size_slices chunks) by (apply refs_slice_lengths; exact Hle).
  rewrite refs_tile by exact Hle.
  apply sub_length. unfold chunks. rewrite units_total. exact Hcov.
Qed.

(* the stored form of a reference: 'range': [start, end] *)
Definition ref_range (r : ref) : N * N := (N.of_nat (r_start r), N.of_nat (r_end r)).

Lemma ranges_size_plan m : ranges_size (map ref_range m) = N.of_nat (plan_size m).
Proof.
  induction m as [|r t IH]; [reflexivity|].
  cbn [map ranges_size fold_right plan_size]. fold (ranges_size (map ref_range t)). fold (plan_size t).
  rewrite IH. unfold range_len, ref_range. cbn [fst snd]. lia.
Qed.

Lemma ranges_size_app a b : ranges_size (a ++ b) = (ranges_size a + ranges_size b)%N.
Proof.
  induction a as [|r t IH]; [reflexivity|].
  cbn [app ranges_size fold_right]. fold (ranges_size (t ++ b)). fold (ranges_size t). rewrite IH. lia.
Qed.

(* SIZE_IS_TRUE_SIZE: whatever order the references were recorded in (upload completion order) *)
Theorem size_is_true_size clens fs fe m path id : fs <= fe -> fe <= list_sum clens ->
  Permutation m (refs_of (fs, fe) clens) ->
  file_size (mkfile path id (map ref_range m)) = N.of_nat (fe - fs).
Proof.
  intros Hle Hcov Hp. unfold file_size. cbn [f_ranges].
  rewrite ranges_size_plan, (plan_size_perm _ _ Hp), refs_size_is_length by assumption. reflexivity.
Qed.

(* the snapshot's SIZE cell is the sum of its files' sizes *)
Theorem snap_size_sum s : snap_size s = fold_right (fun f acc => (file_size f + acc)%N) 0%N (s_files s).
Proof.
  unfold snap_size. induction (s_files s) as [|f t IH]; [reflexivity|].
  cbn [flat_map fold_right]. rewrite ranges_size_app, IH. reflexivity.
Qed.
