(* C11: boundaries are decided locally.  Proofs over Model/Chunker.v + Model/Resync.v, generic in the
   hash function; everything about [chunkify] goes through ChunkerProofs.head_prefix. *)
From Coq Require Import List NArith Arith Lia Bool.
From Replicat Require Import Lib.ListX Model.Chunker Model.Clmul Model.Stream Model.Resync
  Proofs.ChunkerProofs Proofs.StreamProofs.
Import ListNotations.

(* ------------------------------------------------------------------ list helpers *)
Section Lists.
Context {A : Type}.

Lemma skipn_cons_firstn : forall k (l : list A) x r,
  skipn k l = x :: r -> firstn (S k) l = firstn k l ++ [x] /\ skipn (S k) l = r.
Proof.
  induction k as [|k IH]; intros l x r H.
  - cbn [skipn] in H. subst l. split; reflexivity.
  - destruct l as [|y l]; [discriminate H|]. cbn [skipn] in H.
    destruct (IH l x r H) as [E1 E2]. split.
    + change (firstn (S (S k)) (y :: l)) with (y :: firstn (S k) l). rewrite E1. reflexivity.
    + exact E2.
Qed.

Lemma Forall_firstn (P : A -> Prop) : forall k l, Forall P l -> Forall P (firstn k l).
Proof.
  induction k as [|k IH]; intros l H; [constructor|].
  destruct H as [|x l Hx Hl]; [constructor|]. cbn [firstn]. constructor; [exact Hx | apply IH; exact Hl].
Qed.

Lemma Forall2_and_l {C} (R R' : A -> C -> Prop) (P : A -> Prop) :
  (forall x y, R x y -> P x -> R' x y) -> forall l1 l2,
  Forall2 R l1 l2 -> Forall P l1 -> Forall2 R' l1 l2.
Proof.
  intros Himp. induction 1 as [|x y l1 l2 Hxy H IH]; intros HP; [constructor|].
  inversion HP; subst. constructor; [apply Himp; assumption | apply IH; assumption].
Qed.

Lemma concat_firstn_le : forall k (l : list (list A)),
  length (concat (firstn k l)) <= length (concat l).
Proof.
  induction k as [|k IH]; intros l; [cbn; lia|].
  destruct l as [|c l]; [cbn; lia|]. cbn [firstn concat]. rewrite !app_length. specialize (IH l). lia.
Qed.
End Lists.

Section R.
Context {B : Type}.
Variable hash : list B -> N.
Variables mn mx : nat.

Notation scan := (scan hash).
Notation ref_cut := (ref_cut hash mn mx).
Notation chunkify := (chunkify hash mn mx).
Notation head := (head hash mn mx).
Notation ncand := (ncand mx).
Notation cand := (cand hash).
Notation dominant := (dominant hash mx).
Notation dominantb := (dominantb hash mx).

(* ------------------------------------------------------------------ the scan returns the first strict maximum *)
Lemma scan_argmax (mem : list B) : forall k i bi bv,
  let r := scan mem i k bi bv in
  (r = bi /\ forall j, j < k -> (cand mem (i + 4 * j) <= bv)%N) \/
  (exists j0, j0 < k /\ r = i + 4 * j0 /\ (bv < cand mem r)%N /\
     (forall j, j < j0 -> (cand mem (i + 4 * j) < cand mem r)%N) /\
     (forall j, j < k -> (cand mem (i + 4 * j) <= cand mem r)%N)).
Proof.
  induction k as [|k IH]; intros i bi bv; cbn [Chunker.scan].
  - left. split; [reflexivity | intros j Hj; lia].
  - fold (cand mem i).
    assert (Hshift : forall j, i + 4 * S j = i + 4 + 4 * j) by (intros; lia).
    destruct (N.ltb_spec bv (cand mem i)) as [Hlt|Hge].
    + right. destruct (IH (i + 4) i (cand mem i)) as [[E Hall]|[j0 [Hj0 [E [Hbv [Hbefore Hall]]]]]].
      * exists 0. rewrite E. split; [lia|]. split; [lia|]. split; [exact Hlt|]. split; [intros j Hj; lia|].
        intros [|j] Hj; [rewrite Nat.mul_0_r, Nat.add_0_r; lia|]. rewrite Hshift. apply Hall. lia.
      * exists (S j0). rewrite Hshift. split; [lia|]. split; [exact E|]. rewrite E in *.
        split; [lia|]. split.
        -- intros [|j] Hj; [rewrite Nat.mul_0_r, Nat.add_0_r; exact Hbv|]. rewrite Hshift. apply Hbefore. lia.
        -- intros [|j] Hj; [rewrite Nat.mul_0_r, Nat.add_0_r; lia|]. rewrite Hshift. apply Hall. lia.
    + destruct (IH (i + 4) bi bv) as [[E Hall]|[j0 [Hj0 [E [Hbv [Hbefore Hall]]]]]].
      * left. split; [exact E|].
        intros [|j] Hj; [rewrite Nat.mul_0_r, Nat.add_0_r; exact Hge|]. rewrite Hshift. apply Hall. lia.
      * right. exists (S j0). rewrite Hshift. split; [lia|]. split; [exact E|]. rewrite E in *.
        split; [exact Hbv|]. split.
        -- intros [|j] Hj; [rewrite Nat.mul_0_r, Nat.add_0_r; lia|]. rewrite Hshift. apply Hbefore. lia.
        -- intros [|j] Hj; [rewrite Nat.mul_0_r, Nat.add_0_r; lia|]. rewrite Hshift. apply Hall. lia.
Qed.

(* the full scan of next_cut: 0 when every candidate hashes to 0, else the FIRST position of the
   maximal hash (ties are resolved towards the smaller offset) *)
Theorem scan_first_max (mem : list B) :
  let r := scan mem 4 ncand 0 0%N in
  (r = 0 /\ forall j, j < ncand -> cand mem (4 + 4 * j) = 0%N) \/
  (exists j0, j0 < ncand /\ r = 4 + 4 * j0 /\ (0 < cand mem r)%N /\
     (forall j, j < j0 -> (cand mem (4 + 4 * j) < cand mem r)%N) /\
     (forall j, j < ncand -> (cand mem (4 + 4 * j) <= cand mem r)%N)).
Proof.
  destruct (scan_argmax mem ncand 4 0 0%N) as [[E Hall]|H]; [left|right; exact H].
  split; [exact E|]. intros j Hj. specialize (Hall j Hj). lia.
Qed.

Lemma ncand_bound : forall j, j < ncand -> 4 + 4 * j < mx.
Proof.
  intros j Hj. unfold Chunker.ncand in *.
  pose proof (Nat.mul_div_le (mx - 1) 4 ltac:(lia)). lia.
Qed.

Lemma ncand_index : forall i, 4 <= i -> i < mx -> i mod 4 = 0 -> exists j, j < ncand /\ i = 4 + 4 * j.
Proof.
  intros i H4 Hmx Hmod. apply Nat.mod_divides in Hmod; [|lia]. destruct Hmod as [c Hc].
  exists (c - 1). split; [|lia]. unfold Chunker.ncand.
  apply (Nat.lt_le_trans _ c); [lia|]. apply Nat.div_le_lower_bound; lia.
Qed.

(* a strictly dominating candidate is where the scan stops *)
Lemma scan_dominant (mem : list B) i0 :
  4 <= i0 -> i0 < mx -> i0 mod 4 = 0 -> (0 < cand mem i0)%N ->
  (forall i, 4 <= i -> i < mx -> i mod 4 = 0 -> i <> i0 -> (cand mem i < cand mem i0)%N) ->
  scan mem 4 ncand 0 0%N = i0.
Proof.
  intros H4 Hmx Hmod Hpos Hdom.
  destruct (ncand_index i0 H4 Hmx Hmod) as [j0 [Hj0 Ei0]].
  destruct (scan_first_max mem) as [[_ Hall]|[j1 [Hj1 [E [_ [_ Hall]]]]]].
  - specialize (Hall j0 Hj0). rewrite <- Ei0 in Hall. lia.
  - rewrite E. destruct (Nat.eq_dec j1 j0) as [->|Hne]; [symmetry; exact Ei0|]. exfalso.
    pose proof (ncand_bound j1 Hj1) as Hb.
    assert (Hm : (4 + 4 * j1) mod 4 = 0).
    { replace (4 + 4 * j1) with (0 + (1 + j1) * 4) by lia. rewrite Nat.mod_add by lia. reflexivity. }
    specialize (Hdom (4 + 4 * j1) ltac:(lia) Hb Hm ltac:(lia)).
    specialize (Hall j0 Hj0). rewrite <- Ei0 in Hall. rewrite E in Hall. lia.
Qed.

Theorem ref_cut_dominant (mem : list B) i0 :
  4 <= i0 -> i0 < mx -> i0 mod 4 = 0 -> mn <= i0 -> (0 < cand mem i0)%N ->
  (forall i, 4 <= i -> i < mx -> i mod 4 = 0 -> i <> i0 -> (cand mem i < cand mem i0)%N) ->
  ref_cut mem = i0.
Proof.
  intros H4 Hmx Hmod Hmn Hpos Hdom. unfold Chunker.ref_cut.
  rewrite (scan_dominant mem i0 H4 Hmx Hmod Hpos Hdom).
  destruct (Nat.ltb_spec i0 mn); [lia|reflexivity].
Qed.

(* ------------------------------------------------------------------ dominant position of a stream *)
Lemma cand_skipn (s : list B) st i : 4 <= i -> cand (skipn st s) i = cand s (st + i).
Proof.
  intros Hi. unfold Resync.cand. rewrite <- ChunkerProofs.skipn_add.
  replace (st + (i - 4)) with (st + i - 4) by lia. reflexivity.
Qed.

Lemma mod4_shift st d : d mod 4 = 0 -> (st + d) mod 4 = st mod 4.
Proof.
  intros H. apply Nat.mod_divides in H; [|lia]. destruct H as [c ->].
  rewrite (Nat.mul_comm 4 c). apply Nat.mod_add. lia.
Qed.

(* every chunk that starts at st, with q - st a multiple of 4 in [mn, mx), is cut at q *)
Theorem dominant_cut (s : list B) q st :
  dominant s q -> st < q -> (q - st) mod 4 = 0 -> st + mn <= q -> q < st + mx ->
  ref_cut (skipn st s) = q - st.
Proof.
  intros [Hpos Hdom] Hlt Hmod Hmn Hmx.
  assert (H4 : 4 <= q - st).
  { apply Nat.mod_divides in Hmod; [|lia]. destruct Hmod as [c Hc]. lia. }
  apply ref_cut_dominant; try lia.
  - rewrite cand_skipn by lia. replace (st + (q - st)) with q by lia. exact Hpos.
  - intros i Hi4 Himx Himod Hne. rewrite !cand_skipn by lia.
    replace (st + (q - st)) with q by lia. apply Hdom; try lia.
    rewrite (mod4_shift st i Himod). replace q with (st + (q - st)) at 1 by lia.
    rewrite (mod4_shift st (q - st) Hmod). reflexivity.
Qed.

Lemma dominantb_sound (s : list B) q : 1 <= mx -> dominantb s q = true -> dominant s q.
Proof.
  intros Hmx H. unfold Resync.dominantb in H. apply andb_true_iff in H. destruct H as [Hpos Hall].
  split; [apply N.ltb_lt; exact Hpos|].
  intros p Hne H4 Hlo Hhi Hmod. rewrite forallb_forall in Hall.
  specialize (Hall p). rewrite in_seq in Hall. specialize (Hall ltac:(lia)).
  apply orb_true_iff in Hall. destruct Hall as [Hall|Hall]; [|apply N.ltb_lt; exact Hall].
  apply orb_true_iff in Hall. destruct Hall as [Hall|Hall]; [|apply negb_true_iff, Nat.eqb_neq in Hall; lia].
  apply orb_true_iff in Hall. destruct Hall as [Hall|Hall]; [|apply Nat.leb_le in Hall; lia].
  apply orb_true_iff in Hall. destruct Hall as [Hall|Hall].
  - apply Nat.eqb_eq in Hall. lia.
  - apply Nat.ltb_lt in Hall. lia.
Qed.

(* ------------------------------------------------------------------ under valid parameters *)
Hypothesis Hmn : 1 <= mn.
Hypothesis Hvalid : align4 mn <= mx.

Let mx4 : 4 <= mx := mx_ge4 mn mx Hmn Hvalid.

Lemma head_small : forall F (x : list B), length x < 2 * mx -> head F x = [].
Proof.
  intros [|F] x H; [reflexivity|]. cbn [Chunker.head].
  destruct (Nat.leb_spec (2 * mx) (length x)); [lia|reflexivity].
Qed.

Lemma head_unfold : forall F (x : list B), 2 * mx <= length x -> length x <= F ->
  head F x = firstn (ref_cut x) x :: head F (skipn (ref_cut x) x).
Proof.
  intros F x Hbig HF. destruct F as [|F]; [lia|].
  pose proof (ref_cut_le hash mn mx Hmn Hvalid x).
  rewrite <- (head_fuel hash mn mx Hmn Hvalid F (S F) (skipn (ref_cut x) x)) by (rewrite skipn_length; lia).
  cbn [Chunker.head]. destruct (Nat.leb_spec (2 * mx) (length x)); [reflexivity|lia].
Qed.

(* the head of a suffix: dropping k chunks leaves the reference sequence of the remaining bytes *)
Lemma head_skipn : forall F (s : list B) k, length s <= F ->
  skipn k (head F s) = head F (skipn (length (concat (firstn k (head F s)))) s).
Proof.
  induction F as [|F IH]; intros s k HF.
  - destruct s; [|cbn in HF; lia]. cbn [Chunker.head]. apply skipn_nil.
  - destruct k as [|k]; [reflexivity|].
    destruct (Nat.leb_spec (2 * mx) (length s)) as [Hbig|Hsmall].
    + rewrite (head_unfold (S F) s Hbig HF).
      pose proof (ref_cut_le hash mn mx Hmn Hvalid s) as Hc.
      assert (HF' : length (skipn (ref_cut s) s) <= F) by (rewrite skipn_length; lia).
      rewrite (head_fuel hash mn mx Hmn Hvalid (S F) F (skipn (ref_cut s) s)) by lia.
      cbn [skipn firstn concat]. rewrite app_length, firstn_length, Nat.min_l by lia.
      rewrite ChunkerProofs.skipn_add. rewrite (IH _ k HF').
      apply (head_fuel hash mn mx Hmn Hvalid); rewrite !skipn_length; lia.
    + rewrite (head_small (S F) s Hsmall). rewrite skipn_nil, firstn_nil. cbn [concat length skipn].
      symmetry. apply head_small. exact Hsmall.
Qed.

(* from a boundary at offset q of the suffix Sx on, the chunks are the reference sequence of the
   rest of Sx: they do not depend on the prefix P at all *)
Theorem head_from_boundary (P Sx : list B) q k :
  boundary_at (head (length (P ++ Sx)) (P ++ Sx)) k (length P + q) ->
  skipn k (head (length (P ++ Sx)) (P ++ Sx)) = head (length (skipn q Sx)) (skipn q Sx).
Proof.
  unfold boundary_at. intros Hb. rewrite head_skipn by lia. rewrite Hb.
  rewrite skipn_app. rewrite skipn_all2 by lia. replace (length P + q - length P) with q by lia.
  cbn [app]. apply (head_fuel hash mn mx Hmn Hvalid); [|lia].
  rewrite skipn_length, app_length. lia.
Qed.

Theorem head_suffix_determinism (P1 P2 Sx : list B) q k1 k2 :
  boundary_at (head (length (P1 ++ Sx)) (P1 ++ Sx)) k1 (length P1 + q) ->
  boundary_at (head (length (P2 ++ Sx)) (P2 ++ Sx)) k2 (length P2 + q) ->
  skipn k1 (head (length (P1 ++ Sx)) (P1 ++ Sx)) = skipn k2 (head (length (P2 ++ Sx)) (P2 ++ Sx)).
Proof.
  intros H1 H2. rewrite (head_from_boundary P1 Sx q k1 H1), (head_from_boundary P2 Sx q k2 H2). reflexivity.
Qed.

(* boundaries of the reference sequence are multiples of 4 from the start of the stream: a common
   boundary of P1 ++ Sx and P2 ++ Sx needs |P1| = |P2| (mod 4) *)
Lemma aligned_concat : forall l : list (list B),
  Forall (fun ch => mn <= length ch <= mx /\ length ch mod 4 = 0) l -> length (concat l) mod 4 = 0.
Proof.
  induction 1 as [|c l [_ Hc] _ IH]; [reflexivity|].
  cbn [concat]. rewrite app_length, Nat.add_comm, (mod4_shift _ _ Hc). exact IH.
Qed.

Theorem boundary_aligned (s : list B) k b :
  boundary_at (head (length s) s) k b -> b mod 4 = 0.
Proof.
  unfold boundary_at. intros <-. apply aligned_concat. apply Forall_firstn.
  apply (head_bounds hash mn mx Hmn Hvalid).
Qed.

(* ------------------------------------------------------------------ lifted to the real driver loop *)
Lemma chunkify_boundary_in_head pieces junk k b tl :
  chunkify pieces junk = head (length (concat pieces)) (concat pieces) ++ tl ->
  boundary_at (chunkify pieces junk) k b -> 2 * mx <= length (concat pieces) - b ->
  boundary_at (head (length (concat pieces)) (concat pieces)) k b /\
  skipn k (chunkify pieces junk) = skipn k (head (length (concat pieces)) (concat pieces)) ++ tl.
Proof.
  intros E Hb Hzone. unfold boundary_at in *. rewrite E in *.
  pose proof (head_covers hash mn mx Hmn Hvalid (concat pieces)) as Hcov.
  set (hd := head (length (concat pieces)) (concat pieces)) in *.
  assert (Hk : k <= length hd).
  { destruct (Nat.le_gt_cases k (length hd)) as [Hle|Hgt]; [exact Hle|exfalso].
    rewrite firstn_app, (firstn_all2 hd) in Hb by lia. rewrite concat_app, app_length in Hb. lia. }
  rewrite firstn_app in Hb. replace (k - length hd) with 0 in * by lia.
  cbn [firstn] in Hb. rewrite app_nil_r in Hb. split; [exact Hb|].
  rewrite skipn_app. replace (k - length hd) with 0 by lia. reflexivity.
Qed.

Theorem suffix_determinism (P1 P2 Sx : list B) q pieces1 pieces2 j1 j2 k1 k2 :
  concat pieces1 = P1 ++ Sx -> concat pieces2 = P2 ++ Sx ->
  boundary_at (chunkify pieces1 j1) k1 (length P1 + q) ->
  boundary_at (chunkify pieces2 j2) k2 (length P2 + q) ->
  exists common t1 t2,
    skipn k1 (chunkify pieces1 j1) = common ++ t1 /\
    skipn k2 (chunkify pieces2 j2) = common ++ t2 /\
    common = head (length (skipn q Sx)) (skipn q Sx) /\
    length Sx - q - length (concat common) < 2 * mx.
Proof.
  intros E1 E2 B1 B2.
  pose proof (head_covers hash mn mx Hmn Hvalid (skipn q Sx)) as Hcov. rewrite skipn_length in Hcov.
  destruct (Nat.le_gt_cases (2 * mx) (length Sx - q)) as [Hzone|Hzone].
  - destruct (head_prefix hash mn mx Hmn Hvalid pieces1 j1) as [t1 H1].
    destruct (head_prefix hash mn mx Hmn Hvalid pieces2 j2) as [t2 H2].
    destruct (chunkify_boundary_in_head pieces1 j1 k1 _ t1 H1 B1) as [B1' S1].
    { rewrite E1, app_length. lia. }
    destruct (chunkify_boundary_in_head pieces2 j2 k2 _ t2 H2 B2) as [B2' S2].
    { rewrite E2, app_length. lia. }
    rewrite E1 in B1', S1. rewrite E2 in B2', S2.
    exists (head (length (skipn q Sx)) (skipn q Sx)), t1, t2.
    rewrite S1, S2, (head_from_boundary P1 Sx q k1 B1'), (head_from_boundary P2 Sx q k2 B2').
    repeat split. rewrite skipn_length. exact Hcov.
  - exists [], (skipn k1 (chunkify pieces1 j1)), (skipn k2 (chunkify pieces2 j2)).
    repeat split; [|cbn [concat length]; lia].
    symmetry. apply head_small. rewrite skipn_length. exact Hzone.
Qed.

(* ------------------------------------------------------------------ chunks before an edit *)
(* two streams with the common prefix A: the reference sequences share every chunk that starts at
   least align4 mx bytes before the end of A (and outside both tail zones) *)
Lemma head_common_prefix : forall F (A R1 R2 : list B),
  length (A ++ R1) <= F -> length (A ++ R2) <= F ->
  exists pre t1 t2,
    head F (A ++ R1) = pre ++ t1 /\ head F (A ++ R2) = pre ++ t2 /\
    length (concat pre) <= length A /\
    (length A - length (concat pre) < align4 mx \/
     length (A ++ R1) - length (concat pre) < 2 * mx \/
     length (A ++ R2) - length (concat pre) < 2 * mx).
Proof.
  induction F as [|F IH]; intros A R1 R2 H1 H2.
  - exists [], [], []. cbn [Chunker.head app concat length]. pose proof mx4. repeat split; lia.
  - destruct (Nat.lt_ge_cases (length A) (align4 mx)) as [HA|HA].
    { exists [], (head (S F) (A ++ R1)), (head (S F) (A ++ R2)). cbn [app concat length]. repeat split; lia. }
    destruct (Nat.lt_ge_cases (length (A ++ R1)) (2 * mx)) as [HB1|HB1].
    { exists [], (head (S F) (A ++ R1)), (head (S F) (A ++ R2)). cbn [app concat length]. repeat split; lia. }
    destruct (Nat.lt_ge_cases (length (A ++ R2)) (2 * mx)) as [HB2|HB2].
    { exists [], (head (S F) (A ++ R1)), (head (S F) (A ++ R2)). cbn [app concat length]. repeat split; lia. }
    pose proof (M4_eq mn mx Hmn Hvalid) as HM.
    assert (Hc : ref_cut (A ++ R2) = ref_cut (A ++ R1)) by (apply ref_cut_app; rewrite HM; exact HA).
    pose proof (ref_cut_le hash mn mx Hmn Hvalid (A ++ R1)) as Hle.
    pose proof (align4_ge mx) as Hal.
    set (c := ref_cut (A ++ R1)) in *.
    assert (E1 : head (S F) (A ++ R1) = firstn c A :: head F (skipn c A ++ R1)).
    { rewrite (head_unfold (S F) (A ++ R1) HB1 H1). fold c. rewrite firstn_app, skipn_app.
      replace (c - length A) with 0 by lia. cbn [firstn skipn]. rewrite app_nil_r. f_equal.
      apply (head_fuel hash mn mx Hmn Hvalid); rewrite app_length in *; rewrite ?app_length, skipn_length; lia. }
    assert (E2 : head (S F) (A ++ R2) = firstn c A :: head F (skipn c A ++ R2)).
    { rewrite (head_unfold (S F) (A ++ R2) HB2 H2). rewrite Hc. rewrite firstn_app, skipn_app.
      replace (c - length A) with 0 by lia. cbn [firstn skipn]. rewrite app_nil_r. f_equal.
      apply (head_fuel hash mn mx Hmn Hvalid); rewrite app_length in *; rewrite ?app_length, skipn_length; lia. }
    destruct (IH (skipn c A) R1 R2) as [pre [t1 [t2 [F1 [F2 [Hlen Hend]]]]]].
    { rewrite app_length, skipn_length. rewrite app_length in H1. lia. }
    { rewrite app_length, skipn_length. rewrite app_length in H2. lia. }
    exists (firstn c A :: pre), t1, t2. rewrite E1, E2, F1, F2. cbn [app concat].
    rewrite app_length, firstn_length, Nat.min_l by lia.
    rewrite !app_length, skipn_length in *. repeat split; lia.
Qed.

Theorem prefix_determinism (A R1 R2 : list B) pieces1 pieces2 j1 j2 :
  concat pieces1 = A ++ R1 -> concat pieces2 = A ++ R2 ->
  exists pre t1 t2,
    chunkify pieces1 j1 = pre ++ t1 /\ chunkify pieces2 j2 = pre ++ t2 /\
    length (concat pre) <= length A /\
    (length A - length (concat pre) < align4 mx \/
     length (A ++ R1) - length (concat pre) < 2 * mx \/
     length (A ++ R2) - length (concat pre) < 2 * mx).
Proof.
  intros E1 E2.
  destruct (head_prefix hash mn mx Hmn Hvalid pieces1 j1) as [tl1 H1].
  destruct (head_prefix hash mn mx Hmn Hvalid pieces2 j2) as [tl2 H2].
  rewrite E1 in H1. rewrite E2 in H2.
  set (F := Nat.max (length (A ++ R1)) (length (A ++ R2))).
  destruct (head_common_prefix F A R1 R2 ltac:(lia) ltac:(lia)) as [pre [t1 [t2 [F1 [F2 [Hlen Hend]]]]]].
  rewrite (head_fuel hash mn mx Hmn Hvalid _ F (A ++ R1)) in H1 by lia.
  rewrite (head_fuel hash mn mx Hmn Hvalid _ F (A ++ R2)) in H2 by lia.
  exists pre, (t1 ++ tl1), (t2 ++ tl2). rewrite H1, H2, F1, F2, <- !app_assoc. repeat split; assumption.
Qed.

(* ------------------------------------------------------------------ the re-synchronisation mechanism *)
(* a chunk of the reference sequence that starts at st, q - st a multiple of 4 in [mn, mx), ends at
   the dominant position q *)
Theorem dominant_boundary (s : list B) q st k :
  dominant s q -> st < q -> (q - st) mod 4 = 0 -> st + mn <= q -> q < st + mx ->
  2 * mx <= length s - st ->
  boundary_at (head (length s) s) k st ->
  boundary_at (head (length s) s) (S k) q /\
  skipn (S k) (head (length s) s) = head (length (skipn q s)) (skipn q s).
Proof.
  intros Hdom Hlt Hmod Hlo Hhi Hzone Hb.
  pose proof (head_skipn (length s) s k (le_n _)) as Hs. unfold boundary_at in Hb. rewrite Hb in Hs.
  rewrite (head_unfold _ (skipn st s)) in Hs by (rewrite skipn_length; lia).
  rewrite (dominant_cut s q st Hdom Hlt Hmod Hlo Hhi) in Hs.
  destruct (skipn_cons_firstn _ _ _ _ Hs) as [Ef Es]. split.
  - unfold boundary_at. rewrite Ef, concat_app, app_length, Hb. cbn [concat]. rewrite app_nil_r.
    rewrite firstn_length, skipn_length, Nat.min_l by lia. lia.
  - rewrite Es. rewrite <- ChunkerProofs.skipn_add. replace (st + (q - st)) with q by lia.
    apply (head_fuel hash mn mx Hmn Hvalid); rewrite skipn_length; lia.
Qed.

(* two streams with the common suffix Sx: if q is dominant inside Sx and each stream has a boundary
   st_i in Sx with q - st_i a multiple of 4 in [mn, mx), both have a boundary at q and are
   identical from there on *)
Lemma dominant_resync_single (P Sx : list B) q st k :
  dominant Sx q -> st < q -> (q - st) mod 4 = 0 -> st + mn <= q -> q < st + mx ->
  2 * mx <= length Sx - st ->
  boundary_at (head (length (P ++ Sx)) (P ++ Sx)) k (length P + st) ->
  skipn (S k) (head (length (P ++ Sx)) (P ++ Sx)) = head (length (skipn q Sx)) (skipn q Sx).
Proof.
  intros Hdom Hlt Hmod Hlo Hhi Hzone Hb.
  pose proof (head_from_boundary P Sx st k Hb) as Hs.
  rewrite (head_unfold _ (skipn st Sx)) in Hs by (rewrite skipn_length; lia).
  rewrite (dominant_cut Sx q st Hdom Hlt Hmod Hlo Hhi) in Hs.
  destruct (skipn_cons_firstn _ _ _ _ Hs) as [_ Es]. rewrite Es.
  rewrite <- ChunkerProofs.skipn_add. replace (st + (q - st)) with q by lia.
  apply (head_fuel hash mn mx Hmn Hvalid); rewrite !skipn_length; lia.
Qed.

Theorem resync_at_dominant (P1 P2 Sx : list B) q st1 st2 k1 k2 :
  dominant Sx q ->
  st1 < q -> (q - st1) mod 4 = 0 -> st1 + mn <= q -> q < st1 + mx -> 2 * mx <= length Sx - st1 ->
  st2 < q -> (q - st2) mod 4 = 0 -> st2 + mn <= q -> q < st2 + mx -> 2 * mx <= length Sx - st2 ->
  boundary_at (head (length (P1 ++ Sx)) (P1 ++ Sx)) k1 (length P1 + st1) ->
  boundary_at (head (length (P2 ++ Sx)) (P2 ++ Sx)) k2 (length P2 + st2) ->
  skipn (S k1) (head (length (P1 ++ Sx)) (P1 ++ Sx)) = skipn (S k2) (head (length (P2 ++ Sx)) (P2 ++ Sx)).
Proof.
  intros Hdom A1 A2 A3 A4 A5 B1 B2 B3 B4 B5 H1 H2.
  rewrite (dominant_resync_single P1 Sx q st1 k1 Hdom A1 A2 A3 A4 A5 H1).
  rewrite (dominant_resync_single P2 Sx q st2 k2 Hdom B1 B2 B3 B4 B5 H2). reflexivity.
Qed.

End R.

(* ------------------------------------------------------------------ padding between files *)
Lemma pad_len_aligns a n : 1 <= a -> (n + pad_len a n) mod a = 0.
Proof.
  intros Ha. unfold pad_len.
  pose proof (Nat.mod_upper_bound n a ltac:(lia)) as Hm.
  pose proof (Nat.div_mod n a ltac:(lia)) as Hd.
  destruct (Nat.eq_dec (n mod a) 0) as [E|E].
  - rewrite E, Nat.sub_0_r, Nat.mod_same, Nat.add_0_r by lia. exact E.
  - rewrite (Nat.mod_small (a - n mod a)) by lia.
    replace (n + (a - n mod a)) with (0 + (n / a + 1) * a) by nia.
    rewrite Nat.mod_add by lia. apply Nat.mod_0_l. lia.
Qed.

Lemma add_mod_0 a x y : 1 <= a -> x mod a = 0 -> y mod a = 0 -> (x + y) mod a = 0.
Proof.
  intros Ha Hx Hy. rewrite Nat.add_mod, Hx, Hy by lia. cbn [plus]. apply Nat.mod_0_l. lia.
Qed.

Lemma extents_aligned a : 1 <= a -> forall lens off, off mod a = 0 ->
  Forall (fun e => fst e mod a = 0) (extents a off lens).
Proof.
  intros Ha. induction lens as [|n rest IH]; intros off Hoff; cbn [extents]; constructor.
  - exact Hoff.
  - apply IH. rewrite <- Nat.add_assoc. apply add_mod_0; [exact Ha|exact Hoff|apply pad_len_aligns; exact Ha].
Qed.

Section Pad.
Context {B : Type}.
Variable zero : B.

(* every file of the snapshot stream is found at its extent, and the extent starts at a multiple
   of the alignment *)
Theorem padding_aligns a (files : list (list B)) : 1 <= a ->
  Forall2 (fun e f => sub (stream zero a files) (fst e) (snd e) = f /\ fst e mod a = 0)
          (extents a 0 (map (@length B) files)) files.
Proof.
  intros Ha. pose proof (stream_extents zero a files []) as H. cbn [app length] in H.
  pose proof (extents_aligned a Ha (map (@length B) files) 0 (Nat.mod_0_l a ltac:(lia))) as HA.
  refine (Forall2_and_l _ _ _ _ _ _ H HA). cbn beta. intros e f [E _] M. split; assumption.
Qed.

(* the same trailing files form a common suffix of the two streams, behind prefixes whose lengths
   are multiples of the alignment *)
Lemma stream_app_aligned a (rest : list (list B)) : 1 <= a -> rest <> [] -> forall fs,
  exists P, stream zero a (fs ++ rest) = P ++ stream zero a rest /\ length P mod a = 0.
Proof.
  intros Ha Hne. induction fs as [|f fs [P [E M]]].
  - exists []. split; [reflexivity|]. apply Nat.mod_0_l. lia.
  - exists (f ++ repeat zero (pad_len a (length f)) ++ P). split.
    + cbn [app stream]. destruct (fs ++ rest) as [|g r] eqn:Eg.
      * destruct fs; [cbn in Eg; congruence | discriminate Eg].
      * rewrite E, <- !app_assoc. reflexivity.
    + rewrite !app_length, repeat_length, Nat.add_assoc.
      apply add_mod_0; [exact Ha|apply pad_len_aligns; exact Ha|exact M].
Qed.

Theorem stream_common_suffix a (fs1 fs2 rest : list (list B)) : 1 <= a -> rest <> [] ->
  exists P1 P2, stream zero a (fs1 ++ rest) = P1 ++ stream zero a rest /\
                stream zero a (fs2 ++ rest) = P2 ++ stream zero a rest /\
                length P1 mod a = 0 /\ length P2 mod a = 0.
Proof.
  intros Ha Hne. destruct (stream_app_aligned a rest Ha Hne fs1) as [P1 [E1 M1]].
  destruct (stream_app_aligned a rest Ha Hne fs2) as [P2 [E2 M2]].
  exists P1, P2. repeat split; assumption.
Qed.
End Pad.

(* ------------------------------------------------------------------ the key: k1 is an xor mask *)
Local Open Scope N_scope.
Theorem keyf_k1_xor k0 k1 w : keyf k0 k1 w = N.lxor (N.land k1 M64) (keyf k0 0 w).
Proof.
  unfold keyf. cbv zeta. apply N.bits_inj. intros n.
  repeat (rewrite N.lxor_spec || rewrite N.land_spec). rewrite N.bits_0.
  repeat match goal with |- context [N.testbit ?x n] => destruct (N.testbit x n) end; reflexivity.
Qed.

(* hence k1 never changes which of two windows compares equal; it permutes the order *)
Corollary keyf_k1_eq k0 k1 w1 w2 : keyf k0 k1 w1 = keyf k0 k1 w2 <-> keyf k0 0 w1 = keyf k0 0 w2.
Proof.
  rewrite !(keyf_k1_xor k0 k1). split; [|intros ->; reflexivity].
  intros H. apply (f_equal (N.lxor (N.land k1 M64))) in H.
  rewrite <- !N.lxor_assoc, N.lxor_nilpotent, !N.lxor_0_l in H. exact H.
Qed.
