(* Proofs about Model/Stream.v: layout, tiling of every file by its chunk ranges, the restore
   plan, and independence of the restored content from write order and pre-existing content. *)
From Coq Require Import List Arith Lia Bool Permutation Sorting.Sorted.
From Replicat Require Import Lib.ListX Model.Stream.
Import ListNotations.

(* ------------------------------------------------------------------ ranges are well formed *)
Lemma touches_spec fs fe cs ce : touches fs fe cs ce = true <-> fs <= ce /\ cs <= fe.
Proof.
  unfold touches. rewrite andb_true_iff, negb_true_iff, Nat.leb_le, Nat.ltb_ge. tauto.
Qed.

Lemma ref_of_wf fs fe cs ce k : fs <= fe -> cs <= ce -> touches fs fe cs ce = true ->
  r_start (ref_of fs fe cs ce k) <= r_end (ref_of fs fe cs ce k) /\
  r_end (ref_of fs fe cs ce k) <= ce - cs.
Proof. intros H1 H2 Ht. apply touches_spec in Ht. cbn. lia. Qed.

(* ------------------------------------------------------------------ slices of one file *)
Section Slices.
Context {B : Type}.

(* the slices the refs of refs_from stand for, computed alongside the chunk contents *)
Fixpoint slices_from (fs fe off : nat) (chunks : list (list B)) : list (list B) :=
  match chunks with
  | [] => []
  | c :: rest =>
    let ce := off + length c in
    (if touches fs fe off ce
     then [sub c (r_start (ref_of fs fe off ce 0)) (r_end (ref_of fs fe off ce 0))] else [])
    ++ slices_from fs fe ce rest
  end.

Lemma slices_from_concat : forall chunks fs fe off, fs <= fe ->
  concat (slices_from fs fe off chunks) = sub (concat chunks) (fs - off) (fe - off).
Proof.
  induction chunks as [|c rest IH]; intros fs fe off Hle; cbn [slices_from concat].
  - unfold sub. rewrite skipn_nil, firstn_nil. reflexivity.
  - rewrite concat_app, IH by exact Hle.
    rewrite (sub_app c (concat rest) (fs - off) (fe - off)) by lia.
    replace (fs - (off + length c)) with (fs - off - length c) by lia.
    replace (fe - (off + length c)) with (fe - off - length c) by lia.
    f_equal.
    destruct (touches fs fe off (off + length c)) eqn:Ht; cbn [concat ref_of r_start r_end].
    + rewrite app_nil_r. apply touches_spec in Ht.
      replace (Nat.min fe (off + length c) - off) with (Nat.min (fe - off) (length c)) by lia.
      destruct (Nat.le_gt_cases (fs - off) (length c)) as [H|H].
      * rewrite (Nat.min_l (fs - off)) by exact H. reflexivity.
      * rewrite (Nat.min_r (fs - off)) by lia.
        rewrite !sub_nil_past by lia. reflexivity.
    + assert (Hn : ~ (fs <= off + length c /\ off <= fe)).
      { intros H. apply touches_spec in H. congruence. }
      destruct (Nat.le_gt_cases fs (off + length c)) as [H|H].
      * assert (fe < off) by lia. rewrite sub_nil_ge by lia. reflexivity.
      * rewrite (Nat.min_r (fs - off)) by lia. rewrite sub_nil_past by lia. reflexivity.
Qed.

(* refs_from and slices_from walk the chunk list in step *)
Lemma refs_slices : forall (rest done : list (list B)) fs fe off,
  off = length (concat done) ->
  map (slice_of (done ++ rest)) (refs_from fs fe off (S (length done)) (map (@length B) rest))
  = slices_from fs fe off rest.
Proof.
  induction rest as [|c rest IH]; intros done fs fe off Hoff; cbn [refs_from slices_from map]; [reflexivity|].
  rewrite map_app. f_equal.
  - destruct (touches fs fe off (off + length c)); [|reflexivity]. cbn [map]. f_equal.
    unfold slice_of, chunk_at. cbn [ref_of r_counter r_start r_end].
    replace (S (length done) - 1) with (length done) by lia.
    rewrite app_nth2 by lia. rewrite Nat.sub_diag. cbn [nth].
    destruct (Nat.le_gt_cases (fs - off) (Nat.min fe (off + length c) - off)) as [H|H].
    + replace (fs - off + (Nat.min fe (off + length c) - off - (fs - off)))
        with (Nat.min fe (off + length c) - off) by lia. reflexivity.
    + replace (Nat.min fe (off + length c) - off - (fs - off)) with 0 by lia.
      rewrite Nat.add_0_r. rewrite !sub_nil_ge by lia. reflexivity.
  - specialize (IH (done ++ [c]) fs fe (off + length c)).
    rewrite <- app_assoc in IH. cbn [app] in IH.
    rewrite app_length in IH. cbn [length] in IH. rewrite Nat.add_1_r in IH.
    apply IH. rewrite concat_app, app_length. cbn [concat]. rewrite app_nil_r. lia.
Qed.

(* TILING: the slices of a file's refs, in counter order, concatenate to that part of the stream *)
Theorem refs_tile (chunks : list (list B)) fs fe : fs <= fe ->
  concat (map (slice_of chunks) (refs_of (fs, fe) (map (@length B) chunks))) = sub (concat chunks) fs fe.
Proof.
  intros Hle. unfold refs_of. cbn [fst snd].
  pose proof (refs_slices chunks [] fs fe 0 eq_refl) as H. cbn [app length] in H. rewrite H.
  rewrite slices_from_concat by exact Hle.
  rewrite !Nat.sub_0_r. reflexivity.
Qed.

(* each slice has the length its range announces *)
Lemma refs_from_wf : forall clens fs fe off k r, fs <= fe ->
  In r (refs_from fs fe off k clens) ->
  r_start r <= r_end r /\ k <= r_counter r /\ r_counter r < k + length clens /\
  r_end r <= nth (r_counter r - k) clens 0.
Proof.
  induction clens as [|n rest IH]; intros fs fe off k r Hle Hin; cbn [refs_from] in Hin; [destruct Hin|].
  apply in_app_or in Hin as [Hin|Hin].
  - destruct (touches fs fe off (off + n)) eqn:Ht; [|destruct Hin].
    destruct Hin as [<-|[]].
    destruct (ref_of_wf fs fe off (off + n) k Hle ltac:(lia) Ht) as [H1 H2].
    cbn [r_counter ref_of] in *. cbn [length]. rewrite Nat.sub_diag. cbn [nth]. lia.
  - destruct (IH fs fe (off + n) (S k) r Hle Hin) as [H1 [H2 [H3 H4]]]. cbn [length].
    split; [exact H1|]. split; [lia|]. split; [lia|].
    replace (r_counter r - k) with (S (r_counter r - S k)) by lia. exact H4.
Qed.

Lemma slice_length (chunks : list (list B)) r :
  r_start r <= r_end r -> r_end r <= length (chunk_at chunks (r_counter r)) ->
  length (slice_of chunks r) = r_end r - r_start r.
Proof.
  intros H1 H2. unfold slice_of.
  replace (r_start r + (r_end r - r_start r)) with (r_end r) by lia.
  apply sub_length. exact H2.
Qed.

End Slices.

(* ------------------------------------------------------------------ layout *)
Section Layout.
Context {B : Type}.
Variable zero : B.

Lemma stream_extents (a : nat) : forall (files : list (list B)) (pre : list B),
  Forall2 (fun e f => sub (pre ++ stream zero a files) (fst e) (snd e) = f /\ fst e <= snd e)
          (extents a (length pre) (map (@length B) files)) files.
Proof.
  induction files as [|f rest IH]; intros pre; cbn [extents map]; constructor.
  - cbn [fst snd stream]. split; [|lia]. unfold sub.
    replace (length pre + length f - length pre) with (length f) by lia.
    rewrite skipn_app, skipn_all, Nat.sub_diag. cbn [skipn app].
    rewrite firstn_app, firstn_all, Nat.sub_diag. cbn [firstn]. apply app_nil_r.
  - destruct rest as [|g rest]; [constructor|].
    specialize (IH (pre ++ f ++ repeat zero (pad_len a (length f)))).
    rewrite !app_length, repeat_length in IH. rewrite <- !app_assoc in IH.
    rewrite Nat.add_assoc in IH.
    change (stream zero a (f :: g :: rest))
      with (f ++ repeat zero (pad_len a (length f)) ++ stream zero a (g :: rest)).
    exact IH.
Qed.

End Layout.

(* ------------------------------------------------------------------ sorting by counter *)
Definition cnt_lt (x y : ref) : Prop := r_counter x < r_counter y.
Definition cnt_le (x y : ref) : Prop := r_counter x <= r_counter y.

Lemma insert_ref_perm r l : Permutation (r :: l) (insert_ref r l).
Proof.
  induction l as [|x t IH]; cbn [insert_ref]; [apply Permutation_refl|].
  destruct (r_counter r <=? r_counter x); [apply Permutation_refl|].
  eapply perm_trans; [apply perm_swap|]. apply perm_skip. exact IH.
Qed.

Lemma sort_refs_perm l : Permutation l (sort_refs l).
Proof.
  induction l as [|x t IH]; cbn [sort_refs fold_right]; [constructor|].
  eapply perm_trans; [apply perm_skip; exact IH | apply insert_ref_perm].
Qed.

Lemma insert_ref_sorted r l : StronglySorted cnt_le l -> StronglySorted cnt_le (insert_ref r l).
Proof.
  induction l as [|x t IH]; intros Hs; cbn [insert_ref].
  - constructor; constructor.
  - inversion Hs as [|? ? Hst Hfa]; subst.
    destruct (Nat.leb_spec (r_counter r) (r_counter x)) as [Hle|Hgt].
    + constructor; [exact Hs|]. constructor; [exact Hle|].
      eapply Forall_impl; [|exact Hfa]. intros y Hy. unfold cnt_le in *. lia.
    + constructor; [apply IH; exact Hst|].
      assert (Hp := insert_ref_perm r t).
      eapply Permutation_Forall; [exact Hp|]. constructor; [unfold cnt_le; lia | exact Hfa].
Qed.

Lemma sort_refs_sorted l : StronglySorted cnt_le (sort_refs l).
Proof.
  induction l as [|x t IH]; cbn [sort_refs fold_right]; [constructor|].
  apply insert_ref_sorted. exact IH.
Qed.

(* a weakly sorted permutation of a strictly sorted list is that list *)
Lemma sorted_perm_unique : forall s l,
  StronglySorted cnt_lt s -> StronglySorted cnt_le l -> Permutation l s -> l = s.
Proof.
  induction s as [|x s IH]; intros l Hs Hl Hp.
  - apply Permutation_nil. apply Permutation_sym. exact Hp.
  - destruct l as [|y l]; [apply Permutation_nil_cons in Hp; destruct Hp|].
    inversion Hs as [|? ? Hss Hxs]; subst. inversion Hl as [|? ? Hll Hyl]; subst.
    assert (Hxy : x = y).
    { assert (Hy : In y (x :: s)) by (eapply Permutation_in; [exact Hp | left; reflexivity]).
      assert (Hx : In x (y :: l)) by (eapply Permutation_in; [apply Permutation_sym; exact Hp | left; reflexivity]).
      destruct Hy as [E|Hy]; [exact E|]. destruct Hx as [E|Hx]; [symmetry; exact E|].
      rewrite Forall_forall in Hxs, Hyl.
      specialize (Hxs y Hy). specialize (Hyl x Hx). unfold cnt_lt, cnt_le in *. lia. }
    subst y. f_equal. apply IH; [exact Hss | exact Hll |].
    eapply Permutation_cons_inv. exact Hp.
Qed.

Lemma refs_from_sorted : forall clens fs fe off k,
  StronglySorted cnt_lt (refs_from fs fe off k clens) /\
  Forall (fun r => k <= r_counter r) (refs_from fs fe off k clens).
Proof.
  induction clens as [|n rest IH]; intros fs fe off k; cbn [refs_from]; [split; constructor|].
  destruct (IH fs fe (off + n) (S k)) as [Hs Hf].
  destruct (touches fs fe off (off + n)); cbn [app].
  - split.
    + constructor; [exact Hs|]. eapply Forall_impl; [|exact Hf].
      intros r Hr. unfold cnt_lt. cbn in *. lia.
    + constructor; [cbn; lia|]. eapply Forall_impl; [|exact Hf]. intros r Hr. cbn beta in *. lia.
  - split; [exact Hs|]. eapply Forall_impl; [|exact Hf]. intros r Hr. cbn beta in *. lia.
Qed.

Lemma filter_sorted (f : ref -> bool) l : StronglySorted cnt_lt l -> StronglySorted cnt_lt (filter f l).
Proof.
  induction l as [|x t IH]; intros Hs; cbn [filter]; [constructor|].
  inversion Hs as [|? ? Hst Hfa]; subst.
  destruct (f x); [|apply IH; exact Hst].
  constructor; [apply IH; exact Hst|].
  rewrite Forall_forall in *. intros y Hy. apply filter_In in Hy as [Hy _]. auto.
Qed.

(* whatever order the chunks completed in, sorting by counter recovers stream order *)
Lemma sort_refs_of_perm (keep : ref -> bool) refs m :
  StronglySorted cnt_lt refs -> Permutation m (filter keep refs) -> sort_refs m = filter keep refs.
Proof.
  intros Hs Hp. apply sorted_perm_unique.
  - apply filter_sorted. exact Hs.
  - apply sort_refs_sorted.
  - eapply perm_trans; [apply Permutation_sym, sort_refs_perm | exact Hp].
Qed.

(* ------------------------------------------------------------------ writes *)
Section Writes.
Context {B : Type}.
Variable zero : B.

Notation fs_truncate := (fs_truncate zero).
Notation write_part := (write_part zero).
Notation apply_writes := (apply_writes zero).

Lemma fs_truncate_length n (l : list B) : length (fs_truncate n l) = n.
Proof. unfold Stream.fs_truncate. rewrite app_length, firstn_length, repeat_length. lia. Qed.

Lemma nth_repeat_zero k i : nth i (repeat zero k) zero = zero.
Proof.
  revert i; induction k as [|k IH]; intros i; cbn [repeat]; destruct i; cbn [nth]; auto.
Qed.

Lemma nth_fs_truncate n (l : list B) i : i < n -> nth i (fs_truncate n l) zero = nth i l zero.
Proof.
  intros Hi. unfold Stream.fs_truncate.
  destruct (Nat.lt_ge_cases i (length l)) as [H|H].
  - rewrite app_nth1 by (rewrite firstn_length; lia). apply nth_firstn_lt. exact Hi.
  - rewrite app_nth2 by (rewrite firstn_length; lia). rewrite nth_repeat_zero.
    rewrite nth_overflow by lia. reflexivity.
Qed.

Lemma nth_fs_write (l : list B) off d i : off + length d <= length l ->
  nth i (fs_write l off d) zero =
  if (off <=? i) && (i <? off + length d) then nth (i - off) d zero else nth i l zero.
Proof.
  intros Hlen. unfold fs_write.
  destruct (Nat.leb_spec off i) as [H1|H1]; cbn [andb].
  - rewrite app_nth2 by (rewrite firstn_length; lia).
    rewrite firstn_length, Nat.min_l by lia.
    destruct (Nat.ltb_spec i (off + length d)) as [H2|H2].
    + rewrite app_nth1 by lia. reflexivity.
    + rewrite app_nth2 by lia. rewrite nth_skipn_add. f_equal. lia.
  - rewrite app_nth1 by (rewrite firstn_length; lia). apply nth_firstn_lt. exact H1.
Qed.

Lemma nth_write_part (pre : list B) off d i :
  nth i (write_part pre off d) zero =
  if (off <=? i) && (i <? off + length d) then nth (i - off) d zero else nth i pre zero.
Proof.
  unfold Stream.write_part.
  rewrite nth_fs_write by (rewrite fs_truncate_length; lia).
  destruct ((off <=? i) && (i <? off + length d)) eqn:E; [reflexivity|].
  destruct (Nat.lt_ge_cases i (Nat.max (length pre) (off + length d))) as [H|H].
  - apply nth_fs_truncate. exact H.
  - rewrite !nth_overflow; [reflexivity | lia | rewrite fs_truncate_length; lia].
Qed.

Definition covers (w : nat * list B) (i : nat) : bool := (fst w <=? i) && (i <? fst w + length (snd w)).
Definition consistent (target : list B) (w : nat * list B) : Prop :=
  forall i, covers w i = true -> nth (i - fst w) (snd w) zero = nth i target zero.

Lemma apply_writes_nth (target : list B) : forall ws pre,
  Forall (consistent target) ws -> forall i,
  nth i (apply_writes ws pre) zero =
  if existsb (fun w => covers w i) ws then nth i target zero else nth i pre zero.
Proof.
  induction ws as [|w ws IH]; intros pre Hc i; [reflexivity|].
  inversion Hc as [|? ? Hw Hws]; subst.
  unfold Stream.apply_writes in *. cbn [fold_left existsb].
  rewrite IH by exact Hws. rewrite nth_write_part. fold (covers w i).
  destruct (existsb (fun w0 => covers w0 i) ws); [rewrite orb_true_r; reflexivity|].
  rewrite orb_false_r. destruct (covers w i) eqn:E; [apply Hw; exact E | reflexivity].
Qed.

(* RESTORE: any sequence of target-consistent writes that covers the target, on top of any
   pre-existing content, followed by truncation to the target's size, yields the target *)
Theorem writes_restore (target : list B) ws pre :
  Forall (consistent target) ws ->
  (forall i, i < length target -> existsb (fun w => covers w i) ws = true) ->
  fs_truncate (length target) (apply_writes ws pre) = target.
Proof.
  intros Hc Hcov. apply (nth_ext _ _ zero zero).
  - apply fs_truncate_length.
  - intros i Hi. rewrite fs_truncate_length in Hi.
    rewrite nth_fs_truncate by exact Hi. rewrite (apply_writes_nth target) by exact Hc.
    rewrite Hcov by exact Hi. reflexivity.
Qed.

(* writes laid out at cumulative positions of a list of slices *)
Fixpoint writes_from (pos : nat) (ss : list (list B)) : list (nat * list B) :=
  match ss with [] => [] | s :: t => (pos, s) :: writes_from (pos + length s) t end.

Lemma nth_app_mid (pre s post : list B) i : length pre <= i -> i < length pre + length s ->
  nth i (pre ++ s ++ post) zero = nth (i - length pre) s zero.
Proof. intros H1 H2. rewrite app_nth2 by lia. rewrite app_nth1 by lia. reflexivity. Qed.

Lemma writes_from_consistent : forall ss pre,
  Forall (consistent (pre ++ concat ss)) (writes_from (length pre) ss).
Proof.
  induction ss as [|s t IH]; intros pre; cbn [writes_from concat]; constructor.
  - intros i Hc. unfold covers in Hc. cbn [fst snd] in *.
    apply andb_true_iff in Hc as [H1 H2]. apply Nat.leb_le in H1. apply Nat.ltb_lt in H2.
    symmetry. apply nth_app_mid; assumption.
  - specialize (IH (pre ++ s)). rewrite app_length, <- app_assoc in IH. exact IH.
Qed.

Lemma writes_from_cover : forall ss pos i, pos <= i -> i < pos + length (concat ss) ->
  existsb (fun w => covers w i) (writes_from pos ss) = true.
Proof.
  induction ss as [|s t IH]; intros pos i H1 H2; cbn [writes_from concat existsb] in *; [cbn in H2; lia|].
  rewrite app_length in H2. unfold covers at 1. cbn [fst snd].
  destruct (Nat.lt_ge_cases i (pos + length s)) as [H|H].
  - replace (pos <=? i) with true by (symmetry; apply Nat.leb_le; exact H1).
    replace (i <? pos + length s) with true by (symmetry; apply Nat.ltb_lt; exact H). reflexivity.
  - rewrite IH by lia. apply orb_true_r.
Qed.

End Writes.
