(* Proofs about Model/Repo.v. *)
From Coq Require Import List Arith Lia Bool.
From Replicat Require Import Model.Repo.
Import ListNotations.

Lemma pair_eqb_spec a b : pair_eqb a b = true <-> a = b.
Proof. destruct a, b; unfold pair_eqb; cbn. rewrite andb_true_iff, !Nat.eqb_eq. split; [intros [-> ->]; reflexivity | intros E; inversion E; auto]. Qed.
Lemma memc_In c l : memc c l = true <-> In c l.
Proof. unfold memc. rewrite existsb_exists. split.
  - intros [x [Hx E]]. apply pair_eqb_spec in E. subst; exact Hx.
  - intros H. exists c. split; [exact H | apply pair_eqb_spec; reflexivity]. Qed.

Lemma in_mid {A} (x y : A) l1 l2 : In x (l1 ++ y :: l2) <-> x = y \/ In x (l1 ++ l2).
Proof. rewrite !in_app_iff; cbn; intuition congruence. Qed.

Lemma referenced_spec f l d : referenced f l d = true <->
  exists s, In s l /\ s_fam s = f /\ In d (s_tab s).
Proof.
  unfold referenced. rewrite existsb_exists. split.
  - intros [s [Hs E]]. apply andb_true_iff in E as [E1 E2]. apply Nat.eqb_eq in E1.
    apply existsb_exists in E2 as [d' [Hd E2]]. apply Nat.eqb_eq in E2. subst. eauto.
  - intros [s [Hs [Hf Hd]]]. exists s. split; [exact Hs|]. apply andb_true_iff. split; [apply Nat.eqb_eq; exact Hf|].
    apply existsb_exists. exists d. split; [exact Hd | apply Nat.eqb_refl].
Qed.

Lemma remove_snaps_spec f ids l s : In s (remove_snaps f ids l) <->
  In s l /\ ~ (s_fam s = f /\ In (s_id s) ids).
Proof.
  unfold remove_snaps. rewrite filter_In. split; intros [H1 H2]; split; try exact H1.
  - intros [Hf Hi]. apply negb_true_iff, andb_false_iff in H2 as [H2|H2].
    + apply Nat.eqb_neq in H2. auto.
    + assert (existsb (Nat.eqb (s_id s)) ids = true) by (apply existsb_exists; exists (s_id s); split; [exact Hi|apply Nat.eqb_refl]). congruence.
  - apply negb_true_iff, andb_false_iff. destruct (Nat.eqb_spec (s_fam s) f) as [Hf|Hf]; [right|left; reflexivity].
    destruct (existsb (Nat.eqb (s_id s)) ids) eqn:E; [|reflexivity]. exfalso. apply H2. split; [exact Hf|].
    apply existsb_exists in E as [x [Hx E]]. apply Nat.eqb_eq in E. subst. exact Hx.
Qed.

Theorem step_preserves_J g g' : step g g' -> J g -> J g'.
Proof.
  intros Hs [HInv [HRun HDes]]. destruct Hs; cbn [g_st g_run g_des] in *; unfold J; cbn [g_st g_run g_des].
  - (* start *) split; [exact HInv|]. split; [|exact I]. intros i' [<-|Hi]; [|auto].
    match goal with H : g_pending_ok _ |- _ => destruct H as [Hp [Ht Hd]] end.
    split; [rewrite Hd; intros ? []|]. intros d Hdin. left. rewrite Hp. exact Hdin.
  - (* check *) split; [exact HInv|]. split; [|exact I]. intros i' Hi'. apply in_mid in Hi' as [->|Hi'].
    + destruct (HRun i ltac:(apply in_mid; left; reflexivity)) as [Hd Hc].
      destruct (memc (i_fam i, d) (chunks st)) eqn:Em; split; cbn.
      * intros d' [<-|Hd']; [apply memc_In; exact Em|auto].
      * intros d' Hd'. destruct (Hc d' Hd') as [Hp|[Hp|Hp]]; [|auto|auto].
        match goal with H : i_pending i = _ |- _ => rewrite H in Hp end. destruct Hp as [<-|Hp]; auto.
      * exact Hd.
      * intros d' Hd'. destruct (Hc d' Hd') as [Hp|[Hp|Hp]]; [|auto|auto].
        match goal with H : i_pending i = _ |- _ => rewrite H in Hp end. destruct Hp as [<-|Hp]; auto.
    + apply HRun. apply in_mid. right. exact Hi'.
  - (* put *) split; [|split; [|exact I]].
    + intros s Hs' d' Hd'. right. exact (HInv s Hs' d' Hd').
    + intros i' Hi'. apply in_mid in Hi' as [->|Hi'].
      * destruct (HRun i ltac:(apply in_mid; left; reflexivity)) as [Hd Hc]. split; cbn.
        -- intros d' [<-|Hd']; [left; reflexivity | right; auto].
        -- intros d' Hd'. destruct (Hc d' Hd') as [Hp|[Hp|Hp]]; [auto| |auto].
           match goal with H : i_toput i = _ |- _ => rewrite H in Hp end. apply in_mid in Hp as [<-|Hp]; auto.
      * destruct (HRun i' ltac:(apply in_mid; right; exact Hi')) as [Hd Hc]. split; [|exact Hc].
        intros d' Hd'. right. auto.
  - (* commit *) split; [|split; [|exact I]].
    + intros s [<-|Hs'] d' Hd'; cbn in *; [|exact (HInv s Hs' d' Hd')].
      destruct (HRun i ltac:(apply in_mid; left; reflexivity)) as [Hd Hc].
      destruct (Hc d' Hd') as [Hp|[Hp|Hp]]; [| |auto].
      * match goal with H : i_pending i = [] |- _ => rewrite H in Hp end. destruct Hp.
      * match goal with H : i_toput i = [] |- _ => rewrite H in Hp end. destruct Hp.
    + intros i' Hi'. apply HRun. apply in_mid. right. exact Hi'.
  - (* crash of a snapshot instance *) split; [exact HInv|]. split.
    + intros i' Hi'. apply HRun. apply in_mid. right. exact Hi'.
    + destruct des as [p|]; [|exact I]. destruct HDes as [Hnil _]. destruct run1; discriminate.
  - (* plan delete *) split; [exact HInv|]. split; [intros ? []|]. split; [reflexivity|].
    match goal with H : plan_delete _ _ _ _ = Some _ |- _ => rename H into Hplan end.
    unfold plan_delete in Hplan.
    match type of Hplan with (if ?b then _ else _) = _ => destruct b eqn:Ef; [|discriminate] end.
    inversion Hplan; subst; clear Hplan.
    intros c Hc. cbn [d_chunks d_fam d_snaps] in *. apply filter_In in Hc as [Hc Hnr].
    apply in_flat_map in Hc as [s0 [Hs0 Hc]]. apply in_map_iff in Hc as [d0 [<- Hd0]]. cbn [fst snd] in *.
    split; [reflexivity|]. intros s Hs' Hf Hd'.
    destruct (in_dec Nat.eq_dec (s_id s) ids) as [Hin|Hnin]; [exact Hin|]. exfalso.
    apply negb_true_iff in Hnr. assert (Hr : referenced f (remove_snaps f ids (snaps st)) d0 = true).
    { apply referenced_spec. exists s. split; [|auto]. apply remove_snaps_spec. split; [exact Hs'|]. intros [_ Hi]. auto. }
    pose proof (eq_trans (eq_sym Hr) Hnr) as Habs. discriminate Habs.
  - (* plan clean *) split; [exact HInv|]. split; [intros ? []|]. split; [reflexivity|].
    intros c Hc. cbn [plan_clean d_chunks d_fam d_snaps] in *. apply filter_In in Hc as [Hc E].
    apply andb_true_iff in E as [Ef Enr]. apply Nat.eqb_eq in Ef. split; [exact Ef|].
    intros s Hs' Hf Hd'. exfalso. apply negb_true_iff in Enr.
    assert (Hr : referenced f (snaps st) (snd c) = true).
    { apply referenced_spec. exists s. split; [exact Hs'|]. split; [rewrite Hf; exact Ef|exact Hd']. }
    pose proof (eq_trans (eq_sym Hr) Enr) as Habs. discriminate Habs.
  - (* delete snapshot *) destruct HDes as [_ HD]. split; [|split; [intros ? []|split; [reflexivity|]]].
    + intros s Hs' d' Hd'. cbn in *. apply remove_snaps_spec in Hs' as [Hs' _]. exact (HInv s Hs' d' Hd').
    + intros c Hc. cbn [d_chunks d_fam d_snaps snaps] in *. destruct (HD c Hc) as [Hf Href]. split; [exact Hf|].
      intros s Hs' Hfs Hd'. apply remove_snaps_spec in Hs' as [Hs' Hne].
      pose proof (Href s Hs' Hfs Hd') as Hin. apply in_mid in Hin as [E|Hin]; [|exact Hin].
      exfalso. apply Hne. split; [rewrite Hfs; exact Hf|]. left. auto.
  - (* delete chunk *) destruct HDes as [_ HD]. split; [|split; [intros ? []|split; [reflexivity|]]].
    + intros s Hs' d' Hd'. cbn in *. apply filter_In. split; [exact (HInv s Hs' d' Hd')|].
      apply negb_true_iff. destruct (pair_eqb c (s_fam s, d')) eqn:E; [|reflexivity]. exfalso.
      apply pair_eqb_spec in E. subst c.
      destruct (HD (s_fam s, d') ltac:(cbn; apply in_mid; left; reflexivity)) as [_ Href].
      exact (Href s Hs' eq_refl Hd').
    + intros c' Hc'. cbn [d_chunks d_fam d_snaps snaps] in *. apply (HD c'). apply in_mid. right. exact Hc'.
  - (* destructive done *) split; [exact HInv|]. split; [exact HRun|exact I].
  - (* destructive crash *) split; [exact HInv|]. split; [exact HRun|exact I].
Qed.

(* ------------------------------------------------------------------ all reachable states *)
Inductive reachable (g0 : gstate) : gstate -> Prop :=
| reach_refl : reachable g0 g0
| reach_step g g' : reachable g0 g -> step g g' -> reachable g0 g'.

Theorem reachable_J g0 g : J g0 -> reachable g0 g -> J g.
Proof. intros H0 R. induction R as [|g g' _ IH Hs]; [exact H0 | exact (step_preserves_J g g' Hs IH)]. Qed.

Definition quiescent (st : store) : gstate := {| g_st := st; g_run := []; g_des := None |}.

Lemma quiescent_J st : Inv st -> J (quiescent st).
Proof. intros H. split; [exact H|]. split; [intros ? []|exact I]. Qed.

(* C02/C03: from any consistent repository, after any interleaving of the backend steps of any
   number of snapshot instances, delete and clean runs, and crashes at any point, every snapshot
   object present refers only to chunk objects that are present *)
Theorem every_history_safe st g : Inv st -> reachable (quiescent st) g -> Inv (g_st g).
Proof. intros H R. exact (proj1 (reachable_J _ _ (quiescent_J st H) R)). Qed.

Lemma empty_Inv : Inv empty_store.
Proof. intros s []. Qed.

(* ------------------------------------------------------------------ sequential commands *)
Lemma missing_spec f tab cs d : In d (missing f tab cs) <-> In d tab /\ ~ In (f, d) cs.
Proof.
  unfold missing. rewrite filter_In, nodup_In, negb_true_iff. split; intros [H1 H2]; split; try exact H1.
  - intros H. apply memc_In in H. congruence.
  - destruct (memc (f, d) cs) eqn:E; [|reflexivity]. apply memc_In in E. contradiction.
Qed.

Lemma add_chunks_spec f tab cs c :
  In c (add_chunks f tab cs) <-> In c cs \/ (fst c = f /\ In (snd c) tab).
Proof.
  unfold add_chunks. rewrite in_app_iff, in_map_iff. split.
  - intros [H|[d [<- Hd]]]; [left; exact H|]. apply missing_spec in Hd as [Hd _]. right. split; [reflexivity|exact Hd].
  - intros [H|[Hf Hd]]; [left; exact H|].
    destruct (memc c cs) eqn:Em; [left; apply memc_In; exact Em|].
    assert (Hnin : ~ In c cs) by (intros H; apply memc_In in H; congruence).
    right. exists (snd c). destruct c as [cf cd]. cbn [fst snd] in *. subst cf. split; [reflexivity|].
    apply missing_spec. split; assumption.
Qed.

Lemma remove_chunks_spec del cs c : In c (remove_chunks del cs) <-> In c cs /\ ~ In c del.
Proof.
  unfold remove_chunks. rewrite filter_In, negb_true_iff. split; intros [H1 H2]; split; try exact H1.
  - intros H. apply memc_In in H. congruence.
  - destruct (memc c del) eqn:E; [|reflexivity]. apply memc_In in E. contradiction.
Qed.

Lemma NoDup_filter {A} (f : A -> bool) l : NoDup l -> NoDup (filter f l).
Proof.
  induction 1 as [|x l Hx Hl IH]; cbn [filter]; [constructor|].
  destruct (f x); [constructor; [|exact IH]|exact IH]. intros H. apply filter_In in H as [H _]. contradiction.
Qed.

Lemma NoDup_app_disjoint {A} (l1 l2 : list A) :
  NoDup l1 -> NoDup l2 -> (forall c, In c l1 -> ~ In c l2) -> NoDup (l1 ++ l2).
Proof.
  intros H1 H2 Hd. induction H1 as [|x l Hx Hl IH]; cbn [app]; [exact H2|]. constructor.
  - rewrite in_app_iff. intros [H|H]; [contradiction|]. exact (Hd x (or_introl eq_refl) H).
  - apply IH. intros c Hc. apply Hd. right. exact Hc.
Qed.

Lemma add_chunks_NoDup f tab cs : NoDup cs -> NoDup (add_chunks f tab cs).
Proof.
  intros Hn. unfold add_chunks. apply NoDup_app_disjoint; [exact Hn| |].
  - assert (Hm : NoDup (missing f tab cs)) by (unfold missing; apply NoDup_filter, NoDup_nodup).
    revert Hm. generalize (missing f tab cs). induction 1 as [|x l Hx Hl IH]; cbn [map]; constructor; [|exact IH].
    intros H. apply in_map_iff in H as [y [E Hy]]. inversion E; subst. contradiction.
  - intros c Hc H. apply in_map_iff in H as [d [<- Hd]]. apply missing_spec in Hd as [_ Hd]. contradiction.
Qed.

(* the plan of delete: what it contains *)
Lemma plan_delete_spec u f ids st p : plan_delete u f ids st = Some p ->
  d_fam p = f /\ d_snaps p = ids /\
  (forall id, In id ids -> exists s, In s (snaps st) /\ s_id s = id /\ s_fam s = f /\ s_usr s = u) /\
  (forall c, In c (d_chunks p) <->
     fst c = f /\ (exists s, In s (snaps st) /\ s_fam s = f /\ In (s_id s) ids /\ In (snd c) (s_tab s)) /\
     ~ (exists s, In s (snaps st) /\ s_fam s = f /\ ~ In (s_id s) ids /\ In (snd c) (s_tab s))).
Proof.
  unfold plan_delete.
  match goal with |- (if ?b then _ else _) = _ -> _ => destruct b eqn:Ef; [|discriminate] end.
  intros E. inversion E; subst; clear E. cbn [d_fam d_snaps d_chunks].
  split; [reflexivity|]. split; [reflexivity|]. split.
  - intros id Hid. rewrite forallb_forall in Ef. specialize (Ef id Hid).
    apply existsb_exists in Ef as [s [Hs E]]. apply andb_true_iff in E as [E1 E2].
    apply Nat.eqb_eq in E1, E2. apply filter_In in Hs as [Hs Hf]. apply andb_true_iff in Hf as [_ Hf].
    apply Nat.eqb_eq in Hf. exists s. auto.
  - intros c. rewrite filter_In, in_flat_map, negb_true_iff. split.
    + intros [[s [Hs Hc]] Hnr]. apply in_map_iff in Hc as [d [<- Hd]]. cbn [fst snd] in *.
      apply filter_In in Hs as [Hs Hf]. apply andb_true_iff in Hf as [Hi Hf]. apply Nat.eqb_eq in Hf.
      apply existsb_exists in Hi as [i [Hi Ei]]. apply Nat.eqb_eq in Ei. subst i.
      split; [reflexivity|]. split; [exists s; auto|].
      intros [s' [Hs' [Hf' [Hni Hd']]]].
      assert (Hr : referenced f (remove_snaps f ids (snaps st)) d = true).
      { apply referenced_spec. exists s'. split; [|auto]. apply remove_snaps_spec. split; [exact Hs'|]. tauto. }
      congruence.
    + intros [Hf [[s [Hs [Hfs [Hi Hd]]]] Hno]]. destruct c as [cf cd]. cbn [fst snd] in *. subst cf. split.
      * exists s. split.
        -- apply filter_In. split; [exact Hs|]. apply andb_true_iff. split; [|apply Nat.eqb_eq; exact Hfs].
           apply existsb_exists. exists (s_id s). split; [exact Hi|apply Nat.eqb_refl].
        -- apply in_map_iff. exists cd. split; [reflexivity|exact Hd].
      * destruct (referenced f (remove_snaps f ids (snaps st)) cd) eqn:E; [|reflexivity]. exfalso.
        apply referenced_spec in E as [s' [Hs' [Hf' Hd']]]. apply remove_snaps_spec in Hs' as [Hs' Hne].
        apply Hno. exists s'. repeat split; try assumption. intros Hi'. apply Hne. split; assumption.
Qed.

Lemma plan_clean_spec f st c : In c (d_chunks (plan_clean f st)) <->
  In c (chunks st) /\ fst c = f /\ ~ (exists s, In s (snaps st) /\ s_fam s = f /\ In (snd c) (s_tab s)).
Proof.
  unfold plan_clean. cbn [d_chunks]. rewrite filter_In. cbv beta. rewrite andb_true_iff, Nat.eqb_eq, negb_true_iff. split.
  - intros [Hc [Hf Hr]]. split; [exact Hc|]. split; [exact Hf|]. intros Hex.
    assert (Ht : referenced f (snaps st) (snd c) = true) by (apply referenced_spec; exact Hex).
    pose proof (eq_trans (eq_sym Ht) Hr) as Habs. discriminate Habs.
  - intros [Hc [Hf Hno]]. split; [exact Hc|]. split; [exact Hf|].
    match goal with |- ?x = false => destruct x eqn:E end; [|reflexivity]. exfalso. apply Hno. apply referenced_spec. exact E.
Qed.

(* C02 (sequential): every command preserves "every listed snapshot has all its chunks" *)
Theorem exec_Inv st o : Inv st -> Inv (fst (exec st o)).
Proof.
  intros HI. destruct o as [u f id tab|u f ids|f]; cbn [exec].
  - cbn [fst]. intros s [<-|Hs] d Hd; cbn [chunks snaps s_fam s_tab] in *.
    + apply add_chunks_spec. right. split; [reflexivity|exact Hd].
    + apply add_chunks_spec. left. exact (HI s Hs d Hd).
  - destruct (plan_delete u f ids st) as [p|] eqn:Hp; cbn [fst]; [|exact HI].
    destruct (plan_delete_spec _ _ _ _ _ Hp) as [_ [_ [_ Hc]]].
    intros s Hs d Hd. cbn [chunks snaps] in *. apply remove_snaps_spec in Hs as [Hs Hne].
    apply remove_chunks_spec. split; [exact (HI s Hs d Hd)|].
    intros Hin. apply Hc in Hin as [Hf [_ Hno]]. cbn [fst snd] in *. apply Hno.
    exists s. repeat split; try assumption. intros Hi. apply Hne. split; assumption.
  - cbn [fst]. intros s Hs d Hd. cbn [chunks snaps] in *.
    apply remove_chunks_spec. split; [exact (HI s Hs d Hd)|].
    intros Hin. apply plan_clean_spec in Hin as [_ [Hf Hno]]. cbn [fst snd] in *. apply Hno.
    exists s. auto.
Qed.

Theorem run_Inv ops : forall st, Inv st -> Inv (run ops st).
Proof.
  induction ops as [|o ops IH]; intros st H; [exact H|]. unfold run in *. cbn [fold_left].
  apply IH. apply exec_Inv. exact H.
Qed.

(* C07: crash-free commands keep the chunk objects EXACTLY the referenced chunks, each once *)
Theorem exec_Exact st o : Exact st -> Exact (fst (exec st o)).
Proof.
  intros [Hn He]. destruct o as [u f id tab|u f ids|f]; cbn [exec].
  - cbn [fst]. split; cbn [chunks snaps].
    + apply add_chunks_NoDup. exact Hn.
    + intros c. rewrite add_chunks_spec, He. split.
      * intros [[s [Hs Hx]]|[Hf Hd]]; [exists s; split; [right; exact Hs|exact Hx]|].
        eexists. split; [left; reflexivity|]. cbn [s_fam s_tab]. auto.
      * intros [s [[<-|Hs] [Hf Hd]]]; cbn [s_fam s_tab] in *; [right; auto|left; exists s; auto].
  - destruct (plan_delete u f ids st) as [p|] eqn:Hp; cbn [fst]; [|split; assumption].
    destruct (plan_delete_spec _ _ _ _ _ Hp) as [_ [_ [_ Hc]]]. split; cbn [chunks snaps].
    + apply NoDup_filter. exact Hn.
    + intros c. rewrite remove_chunks_spec, He, Hc. split.
      * intros [[s [Hs [Hf Hd]]] Hnot].
        destruct (Nat.eq_dec (s_fam s) f) as [Ef|Ef];
          [destruct (in_dec Nat.eq_dec (s_id s) ids) as [Hi|Hi]|].
        -- (* s is being deleted: another snapshot must reference c, else c is in the plan *)
           destruct (referenced f (remove_snaps f ids (snaps st)) (snd c)) eqn:Er.
           ++ apply referenced_spec in Er as [s' [Hs' [Hf' Hd']]]. exists s'. split; [exact Hs'|].
              split; [congruence|exact Hd'].
           ++ exfalso. apply Hnot. split; [congruence|]. split; [exists s; repeat split; auto; congruence|].
              intros [s' [Hs' [Hf' [Hni Hd']]]].
              assert (Hr : referenced f (remove_snaps f ids (snaps st)) (snd c) = true).
              { apply referenced_spec. exists s'. split; [|auto]. apply remove_snaps_spec. split; [exact Hs'|tauto]. }
              congruence.
        -- exists s. split; [apply remove_snaps_spec; split; [exact Hs|tauto]|auto].
        -- exists s. split; [apply remove_snaps_spec; split; [exact Hs|tauto]|auto].
      * intros [s [Hs [Hf Hd]]]. apply remove_snaps_spec in Hs as [Hs Hne]. split; [exists s; auto|].
        intros [Hcf [_ Hno]]. apply Hno. exists s. repeat split; auto; try congruence.
        intros Hi. apply Hne. split; [congruence|exact Hi].
  - cbn [fst]. split; cbn [chunks snaps].
    + apply NoDup_filter. exact Hn.
    + intros c. rewrite remove_chunks_spec, plan_clean_spec, He. split.
      * intros [H _]. exact H.
      * intros [s [Hs [Hf Hd]]]. split; [exists s; auto|]. intros [_ [Hcf Hno]]. apply Hno.
        exists s. repeat split; auto. congruence.
Qed.

Theorem run_Exact ops : forall st, Exact st -> Exact (run ops st).
Proof.
  induction ops as [|o ops IH]; intros st H; [exact H|]. unfold run in *. cbn [fold_left].
  apply IH. apply exec_Exact. exact H.
Qed.

Lemma empty_Exact : Exact empty_store.
Proof. split; [constructor|]. intros c. cbn. split; [intros []|intros [s [[] _]]]. Qed.

(* C07: a snapshot whose chunks are all present uploads nothing; in particular a repeated one *)
Theorem present_uploads_nothing f tab cs :
  (forall d, In d tab -> In (f, d) cs) -> missing f tab cs = [].
Proof.
  intros H. destruct (missing f tab cs) as [|d l] eqn:E; [reflexivity|]. exfalso.
  assert (Hd : In d (missing f tab cs)) by (rewrite E; left; reflexivity).
  apply missing_spec in Hd as [Hd Hn]. exact (Hn (H d Hd)).
Qed.

Theorem repeat_uploads_nothing st u f id tab u' id' :
  missing f tab (chunks (fst (exec st (OSnap u f id tab)))) = [] /\
  chunks (fst (exec (fst (exec st (OSnap u f id tab))) (OSnap u' f id' tab)))
  = chunks (fst (exec st (OSnap u f id tab))).
Proof.
  assert (H : missing f tab (chunks (fst (exec st (OSnap u f id tab)))) = []).
  { apply present_uploads_nothing. intros d Hd. cbn [exec fst chunks].
    apply add_chunks_spec. right. split; [reflexivity|exact Hd]. }
  split; [exact H|]. cbn [exec fst chunks] in *. unfold add_chunks at 1. rewrite H. cbn [map]. apply app_nil_r.
Qed.

(* C08 delete: what is gone, what stays *)
Theorem delete_effect st u f ids st' : exec st (ODel u f ids) = (st', true) ->
  (forall c, In c (chunks st') <->
     In c (chunks st) /\
     ~ (fst c = f /\ (exists s, In s (snaps st) /\ s_fam s = f /\ In (s_id s) ids /\ In (snd c) (s_tab s)) /\
        ~ (exists s, In s (snaps st) /\ s_fam s = f /\ ~ In (s_id s) ids /\ In (snd c) (s_tab s)))) /\
  (forall s, In s (snaps st') <-> In s (snaps st) /\ ~ (s_fam s = f /\ In (s_id s) ids)) /\
  (forall id, In id ids -> exists s, In s (snaps st) /\ s_id s = id /\ s_fam s = f /\ s_usr s = u).
Proof.
  cbn [exec]. destruct (plan_delete u f ids st) as [p|] eqn:Hp; [|intros E; inversion E].
  intros E. inversion E; subst; clear E. cbn [chunks snaps].
  destruct (plan_delete_spec _ _ _ _ _ Hp) as [_ [_ [Hown Hc]]].
  split; [|split; [|exact Hown]].
  - intros c. rewrite remove_chunks_spec, Hc. reflexivity.
  - intros s. apply remove_snaps_spec.
Qed.

(* C06: delete refuses, and changes nothing, unless every named snapshot is the caller's own *)
Theorem delete_refuses st u f ids :
  (exists id, In id ids /\ ~ exists s, In s (snaps st) /\ s_id s = id /\ s_fam s = f /\ s_usr s = u) ->
  exec st (ODel u f ids) = (st, false).
Proof.
  intros [id [Hid Hno]]. cbn [exec]. destruct (plan_delete u f ids st) as [p|] eqn:Hp; [|reflexivity].
  exfalso. destruct (plan_delete_spec _ _ _ _ _ Hp) as [_ [_ [Hown _]]]. exact (Hno (Hown id Hid)).
Qed.

(* C08 clean: the family's chunk objects become exactly the referenced ones *)
Theorem clean_exact st f : Inv st ->
  forall d, In (f, d) (chunks (fst (exec st (OClean f)))) <->
            exists s, In s (snaps st) /\ s_fam s = f /\ In d (s_tab s).
Proof.
  intros HI d. cbn [exec fst chunks]. rewrite remove_chunks_spec, plan_clean_spec. cbn [fst snd]. split.
  - intros [Hc Hn].
    destruct (referenced f (snaps st) d) eqn:E; [apply referenced_spec; exact E|].
    exfalso. apply Hn. split; [exact Hc|]. split; [reflexivity|]. intros Hex.
    assert (Ht : referenced f (snaps st) d = true) by (apply referenced_spec; exact Hex). congruence.
  - intros [s [Hs [Hf Hd]]]. split; [subst f; exact (HI s Hs d Hd)|].
    intros [_ [_ Hno]]. apply Hno. exists s. auto.
Qed.

(* C08/C06 confinement: delete and clean by family f touch no chunk of another family and no
   snapshot of another family; clean touches no snapshot at all *)
Theorem gc_confined st o f' c :
  (match o with ODel _ f _ => f <> f' | OClean f => f <> f' | OSnap _ _ _ _ => False end) ->
  fst c = f' -> (In c (chunks (fst (exec st o))) <-> In c (chunks st)).
Proof.
  intros Hne Hc. destruct o as [u f id tab|u f ids|f]; [destruct Hne| |].
  - cbn [exec]. destruct (plan_delete u f ids st) as [p|] eqn:Hp; cbn [fst chunks]; [|reflexivity].
    destruct (plan_delete_spec _ _ _ _ _ Hp) as [_ [_ [_ Hcs]]].
    rewrite remove_chunks_spec, Hcs. split; [tauto|]. intros H. split; [exact H|]. intros [E _]. congruence.
  - cbn [exec fst chunks]. rewrite remove_chunks_spec, plan_clean_spec. split; [tauto|].
    intros H. split; [exact H|]. intros [_ [E _]]. congruence.
Qed.

Theorem gc_confined_snaps st o f' s :
  (match o with ODel _ f _ => f <> f' | OClean _ => True | OSnap _ _ _ _ => False end) ->
  s_fam s = f' -> (In s (snaps (fst (exec st o))) <-> In s (snaps st)).
Proof.
  intros Hne Hs. destruct o as [u f id tab|u f ids|f]; [destruct Hne| |reflexivity].
  cbn [exec]. destruct (plan_delete u f ids st) as [p|] eqn:Hp; cbn [fst snaps]; [|reflexivity].
  rewrite remove_snaps_spec. split; [tauto|]. intros H. split; [exact H|]. intros [E _]. congruence.
Qed.

(* C03: whatever happened before (any interleaving, any crash), once nothing is running a clean by a
   member of family f leaves exactly the referenced chunks of f: orphans are collectable, and every
   visible snapshot stays complete *)
Theorem clean_after_any_history st g f :
  Inv st -> reachable (quiescent st) g ->
  Inv (fst (exec (g_st g) (OClean f))) /\
  forall d, In (f, d) (chunks (fst (exec (g_st g) (OClean f)))) <->
            exists s, In s (snaps (g_st g)) /\ s_fam s = f /\ In d (s_tab s).
Proof.
  intros HI R. pose proof (every_history_safe st g HI R) as Hg.
  split; [apply exec_Inv; exact Hg | apply clean_exact; exact Hg].
Qed.
