(* C07 (e): users of independent keys never alias each other's objects - at the level of storage
   names.  Families differ in their MAC key; with a MAC that is injective in (key, message) (the
   free-constructor idealisation of DESIGN 3.3, an explicit premise here) two chunk locations
   coincide only for the same key family and the same digest. *)
From Coq Require Import List Arith Bool String.
From Replicat Require Import Lib.PyStr Model.Location Proofs.LocationProofs.

Section Families.
Context {B K : Type}.
Variable mac2 : K -> B -> B.
Variable hex : B -> string.
Hypothesis hex_is_hex : forall b, hexs (hex b).
Hypothesis hex_long : forall b, 4 <= String.length (hex b).
Hypothesis hex_inj : forall a b, hex a = hex b -> a = b.
Hypothesis mac_free : forall k1 k2 a b, mac2 k1 a = mac2 k2 b -> k1 = k2 /\ a = b.

Theorem families_disjoint k1 k2 d1 d2 :
  chunk_location (mac2 k1) hex true d1 = chunk_location (mac2 k2) hex true d2 -> k1 = k2 /\ d1 = d2.
Proof.
  intros E.
  pose proof (chunk_location_parses (mac2 k1) hex hex_is_hex true d1 hex_long) as P1.
  pose proof (chunk_location_parses (mac2 k2) hex hex_is_hex true d2 hex_long) as P2.
  rewrite E, P2 in P1. inversion P1 as [[H1 H2]].
  apply hex_inj in H1. symmetry in H1. exact (mac_free _ _ _ _ H1).
Qed.

(* an encrypted family never shares a name with the unencrypted naming of any digest the MAC can output
   is not claimed: an unencrypted repository has a single family *)
End Families.
