(* B1 tie for C15: the facts and expressions translated from replicat/repository.py,
   replicat/utils/__init__.py and replicat/__main__.py (Gen/SelectGen.v) are the ones Model/Select.v
   and Model/Timestamp.v are written from.  Each lemma names one modelling decision; a source edit
   that changes it breaks that lemma.  Arithmetic is tied semantically (lia). *)
From Coq Require Import ZArith NArith Bool String List Lia.
From Replicat Require Import Model.Timestamp Model.Select Gen.SelectGen.
Import ListNotations.
Local Open Scope string_scope.

(* snapshot(): 'utc_timestamp': str(datetime.utcnow())  -- Model/Timestamp.render *)
Lemma tie_timestamp_is_str_utcnow : gen_now_expr = "datetime.utcnow()" /\ gen_timestamp_expr = "str(now)".
Proof. split; reflexivity. Qed.

(* _load_snapshots: the snapshot filter is re.search on parse_snapshot_location(path).NAME;
   no pattern = no filtering  -- Select.loaded, Select.opt_match *)
Lemma tie_snapshot_filter_on_name :
  gen_snapshot_filter_method = "search" /\ gen_snapshot_filter_subject = "parse_snapshot_location(path).name" /\
  gen_snapshot_filter_skips = true /\ gen_snapshot_filter_regex = "self._compile_or_none(snapshot_regex)" /\
  gen_compile_or_none = "re.compile(pattern) if pattern is not None else None".
Proof. repeat split; reflexivity. Qed.

(* restore: readable snapshots only, sorted by the timestamp STRING, newest first  -- Select.restore_order *)
Lemma tie_restore_order :
  gen_restore_sort_key = "x['data']['utc_timestamp']" /\ gen_restore_sort_reverse = true /\
  gen_restore_loads_filtered = true /\ gen_restore_readable_only = true.
Proof. repeat split; reflexivity. Qed.

(* restore: `if file_path in files_digests: continue` comes first, then the file filter (re.search on
   the path), then the path is marked as taken  -- Select.first_wins *)
Lemma tie_restore_first_wins :
  gen_restore_first_wins_guard = true /\ gen_restore_file_filter_method = "search" /\
  gen_restore_file_filter_subject = "file_data['path']" /\ gen_restore_file_filter_skips = true /\
  gen_restore_file_filter_regex = "self._compile_or_none(file_regex)" /\
  gen_restore_marks_after_filter = true /\ gen_restore_result_is_taken_paths = true.
Proof. repeat split; reflexivity. Qed.

(* list_snapshots: rows keyed by (timestamp or ''), newest first  -- Select.ls_key, Select.ls_order *)
Lemma tie_ls_order :
  gen_ls_sort_key = "x[0] or ''" /\ gen_ls_sort_reverse = true /\ gen_ls_rows_keyed_by_timestamp = true /\
  gen_ls_loads_filtered = true /\ gen_ls_prints_sorted = true.
Proof. repeat split; reflexivity. Qed.

(* list_files: rows of readable snapshots keyed by the snapshot's timestamp, newest first; file
   filter = re.search on the path  -- Select.lf_pairs, Select.lf_order *)
Lemma tie_lf_order :
  gen_lf_sort_key = "x[0]" /\ gen_lf_sort_reverse = true /\ gen_lf_rows_keyed_by_timestamp = true /\
  gen_lf_loads_filtered = true /\ gen_lf_skips_unreadable = true /\ gen_lf_prints_sorted = true /\
  gen_lf_file_filter_method = "search" /\ gen_lf_file_filter_subject = "file_data['path']" /\
  gen_lf_file_filter_skips = true /\ gen_lf_file_filter_regex = "self._compile_or_none(file_regex)".
Proof. repeat split; reflexivity. Qed.

(* the column getters  -- Select.scell, Select.fcell *)
Lemma tie_columns :
  gen_ls_getters = [("NAME", "_format_snapshot_name"); ("NOTE", "_format_snapshot_note");
                    ("TIMESTAMP", "_format_snapshot_utc_timestamp"); ("FILE_COUNT", "_format_snapshot_file_count");
                    ("SIZE", "_format_snaphot_size")] /\
  gen_lf_getters = [("SNAPSHOT_NAME", "_format_file_snapshot_name"); ("SNAPSHOT_DATE", "_format_file_snapshot_date");
                    ("PATH", "_format_file_path"); ("CHUNK_COUNT", "_format_file_chunk_count"); ("SIZE", "_format_file_size");
                    ("DIGEST", "_format_file_digest"); ("ATIME", "_format_file_atime"); ("MTIME", "_format_file_mtime");
                    ("CTIME", "_format_file_ctime")] /\
  gen_fmt_snapshot_file_count = "data and self._extract_snapshot_file_count(data)" /\
  gen_extract_file_count = "len(snapshot_data['files'])" /\
  gen_fmt_snapshot_size = "data and utils.bytes_to_human(self._extract_snapshot_size(data))" /\
  gen_extract_timestamp = "datetime.fromisoformat(snapshot_data['utc_timestamp'])" /\
  gen_fmt_snapshot_timestamp = "return dt.isoformat(sep=' ', timespec='seconds')" /\
  gen_fmt_file_path = "file_data['path']" /\ gen_fmt_file_chunk_count = "len(file_data['chunks'])" /\
  gen_fmt_file_digest = "(digest := file_data.get('digest')) and digest.hex()" /\
  gen_fmt_file_snapshot_date = "dt = datetime.fromisoformat(snapshot_data['utc_timestamp']); return dt.isoformat(sep=' ', timespec='seconds')".
Proof. repeat split; reflexivity. Qed.

(* NAMES: the printed name, the string the snapshot filter is applied to and the string delete
   compares its arguments with are all parse_snapshot_location(path).name  -- Select.s_name *)
Lemma tie_names :
  gen_fmt_snapshot_name = "self.parse_snapshot_location(path).name" /\
  gen_fmt_file_snapshot_name = "self.parse_snapshot_location(snapshot_path).name" /\
  gen_load_parse = "name, tag = self.parse_snapshot_location(path)" /\
  gen_delete_name = "name = self.parse_snapshot_location(path).name" /\
  gen_delete_test = "name in remaining_names" /\ gen_delete_names_are_the_arguments = true.
Proof. repeat split; reflexivity. Qed.

(* delete: loads without a filter, refuses another key's snapshot and unknown names before the first
   deletion  -- Select.delete_ok, Select.delete_names *)
Lemma tie_delete_refusals :
  gen_delete_loads = "self._load_snapshots()" /\ gen_delete_refuses_other_key = true /\
  gen_delete_refuses_unknown_before_deleting = true.
Proof. repeat split; reflexivity. Qed.

(* sizes: both SIZE cells sum r[1] - r[0] over the chunk ranges  -- Select.range_len, ranges_size *)
Lemma tie_size_terms (a b : N) : (a <= b)%N ->
  gen_file_size_term (Z.of_N a) (Z.of_N b) = Z.of_N (range_len (a, b)) /\
  gen_snapshot_size_term (Z.of_N a) (Z.of_N b) = Z.of_N (range_len (a, b)).
Proof. intros H. unfold gen_file_size_term, gen_snapshot_size_term, range_len. cbn [fst snd]. lia. Qed.

Lemma tie_size_ranges :
  gen_file_size_ranges = "(cd['range'] for cd in file_data['chunks'])" /\
  gen_snapshot_size_ranges = "(chunk['range'] for file in files for chunk in file['chunks'])" /\
  gen_file_size_humanised = true.
Proof. repeat split; reflexivity. Qed.

(* bytes_to_human: divisor and unit for every value  -- Select.bth_unit *)
Lemma tie_bytes_to_human (v : N) :
  gen_bth_divisor (Z.of_N v) = Z.of_N (fst (bth_unit v)) /\ gen_bth_unit (Z.of_N v) = snd (bth_unit v).
Proof.
  unfold gen_bth_divisor, gen_bth_unit, bth_unit.
  destruct (N.ltb_spec v 1000), (N.ltb_spec v 1000000), (N.ltb_spec v 1000000000),
           (Z.ltb_spec (Z.of_N v) 1000), (Z.ltb_spec (Z.of_N v) 1000000), (Z.ltb_spec (Z.of_N v) 1000000000),
           (Z.leb_spec 1000 (Z.of_N v)), (Z.leb_spec 1000000 (Z.of_N v));
    cbn [andb fst snd]; try lia; split; reflexivity.
Qed.

Lemma tie_bytes_to_human_format :
  gen_bth_prec = 2%Z /\ gen_bth_format = "f'{round(value / divisor, prec):g}{unit}'".
Proof. split; reflexivity. Qed.

(* several patterns: '|'.join, None stays None, and every CLI filter goes through it
   -- Select.join_bar, Select.combine_optional *)
Lemma tie_combine : (forall ps, gen_combine ps = join_bar ps) /\ (forall o, gen_combine_optional o = combine_optional o) /\
  gen_cli_filters_combined = true.
Proof. split; [reflexivity|]. split; [intros [ps|]; reflexivity|reflexivity]. Qed.

(* the interpreter still answers as recorded on the finding's witnesses *)
Lemma tie_re_observed : gen_re_observed = observed_re.
Proof. reflexivity. Qed.
