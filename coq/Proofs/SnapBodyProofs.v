(* decode (encode body) = body for the snapshot object, for the owner and for a holder of the shared
   secrets only; the restore plan does not look at metadata; which utime call finalises a file. *)
From Coq Require Import String Ascii List Bool.
From Replicat Require Import Lib.PyStr Model.Json Model.Stream Model.SnapBody Proofs.JsonProofs.
Import ListNotations.
Local Open Scope string_scope.

Section BodyProofs.
Context {B Num R : Type}.
Notation jv := (jv B Num).
Variables (serialize : jv -> B) (deserialize : B -> option jv).
Variables (encrypt : R -> B -> B -> B) (decrypt : B -> B -> option B).
Variables (hash derive : B -> B).
Hypothesis deser_ser : forall v : jv, no_bang v = true -> uniq v = true -> deserialize (serialize v) = Some v.
Hypothesis dec_enc : forall r m k, decrypt (encrypt r m k) k = Some m.

Let enc_body := encrypt_snapshot_body serialize encrypt hash derive.
Let dec_body := decrypt_snapshot_body deserialize decrypt hash derive.

Lemma mk_body_ok (chunks data : jv) : no_bang chunks = true -> uniq chunks = true -> no_bang data = true -> uniq data = true ->
  no_bang (mk_body chunks data) = true /\ uniq (mk_body chunks data) = true.
Proof.
  intros H1 H2 H3 H4. unfold mk_body. cbn [no_bang uniq is_bang negb forallb map fst snd andb nodupb existsb].
  rewrite H1, H2, H3, H4. split; reflexivity.
Qed.

(* the owner reads back exactly what was written *)
Theorem body_roundtrip (encrypted : bool) (userkey : B) (r1 r2 : R) (chunks data : jv) :
  no_bang chunks = true -> uniq chunks = true -> no_bang data = true -> uniq data = true ->
  obind (enc_body userkey encrypted r1 r2 (mk_body chunks data)) (dec_body userkey encrypted)
  = Some (mk_body chunks data).
Proof.
  intros H1 H2 H3 H4. destruct (mk_body_ok chunks data H1 H2 H3 H4) as [Hb Hu].
  unfold enc_body, dec_body, encrypt_snapshot_body, decrypt_snapshot_body. destruct encrypted.
  - unfold mk_body at 1 2. cbn [field lookup String.eqb Ascii.eqb Bool.eqb obind].
    rewrite deser_ser by reflexivity.
    cbn [obind field_bytes field lookup String.eqb Ascii.eqb Bool.eqb].
    rewrite dec_enc. cbn [obind]. rewrite deser_ser by assumption.
    cbn [obind set_field set_kv field_bytes field lookup String.eqb Ascii.eqb Bool.eqb].
    rewrite dec_enc, deser_ser by assumption.
    cbn [obind set_field set_kv String.eqb Ascii.eqb Bool.eqb]. reflexivity.
  - cbn [obind]. rewrite deser_ser by assumption. reflexivity.
Qed.

(* a holder of the shared secrets with another user key reads the chunk table, and data = None *)
Theorem body_shared_reader (userkey other : B) (r1 r2 : R) (chunks data : jv) :
  no_bang chunks = true -> uniq chunks = true ->
  decrypt (encrypt r1 (serialize data) userkey) other = None ->
  obind (enc_body userkey true r1 r2 (mk_body chunks data)) (dec_body other true)
  = Some (mk_body chunks JNull).
Proof.
  intros H1 H2 Hother.
  unfold enc_body, dec_body, encrypt_snapshot_body, decrypt_snapshot_body.
  unfold mk_body at 1 2. cbn [field lookup String.eqb Ascii.eqb Bool.eqb obind].
  rewrite deser_ser by reflexivity.
  cbn [obind field_bytes field lookup String.eqb Ascii.eqb Bool.eqb].
  rewrite dec_enc. cbn [obind]. rewrite deser_ser by assumption.
  cbn [obind set_field set_kv field_bytes field lookup String.eqb Ascii.eqb Bool.eqb].
  rewrite Hother.
  cbn [obind set_field set_kv String.eqb Ascii.eqb Bool.eqb]. reflexivity.
Qed.

(* a chunk object decrypts with the key derived from the digest of its plaintext *)
Theorem chunk_object_roundtrip (r : R) (c : B) :
  obind (chunk_ciphertext encrypt hash derive r c) (chunk_plaintext decrypt derive (hash c)) = Some c.
Proof. unfold chunk_ciphertext, chunk_plaintext. cbn [obind]. rewrite dec_enc. reflexivity. Qed.
End BodyProofs.

(* ------------------------------------------------------------------ metadata variants *)
Section Meta.
Context {T : Type}.

Theorem restore_metadata_current (md : string -> option T) a m :
  md "st_atime_ns" = Some a -> md "st_mtime_ns" = Some m -> restore_metadata md = Some (UtimeNs a m).
Proof. intros Ha Hm. unfold restore_metadata. rewrite Ha, Hm. reflexivity. Qed.

(* the pre-1.3 variant: no *_ns keys, seconds under st_atime / st_mtime *)
Theorem restore_metadata_legacy (md : string -> option T) a m :
  md "st_atime_ns" = None \/ md "st_mtime_ns" = None ->
  md "st_atime" = Some a -> md "st_mtime" = Some m -> restore_metadata md = Some (UtimeTimes a m).
Proof.
  intros Hns Ha Hm. unfold restore_metadata.
  replace (opair (md "st_atime_ns") (md "st_mtime_ns")) with (@None (T * T)).
  - rewrite Ha, Hm. reflexivity.
  - destruct Hns as [H|H]; rewrite H; [reflexivity | destruct (md "st_atime_ns"); reflexivity].
Qed.

(* what restore writes and where does not depend on the metadata at all *)
Theorem plan_ignores_metadata {M1 M2} (f1 : M1 -> option (utime_call T)) (f2 : M2 -> option (utime_call T))
  (e1 : file_entry M1) (e2 : file_entry M2) :
  fe_refs e1 = fe_refs e2 -> fst (restore_entry f1 e1) = fst (restore_entry f2 e2).
Proof. intros E. unfold restore_entry. cbn [fst]. rewrite E. reflexivity. Qed.

Theorem legacy_same_restore (refs : list ref) (cur leg : string -> option T) a m a' m' :
  cur "st_atime_ns" = Some a -> cur "st_mtime_ns" = Some m ->
  leg "st_atime_ns" = None -> leg "st_mtime_ns" = None -> leg "st_atime" = Some a' -> leg "st_mtime" = Some m' ->
  restore_entry restore_metadata {| fe_refs := refs; fe_meta := cur |} = (plan refs, plan_size refs, Some (UtimeNs a m)) /\
  restore_entry restore_metadata {| fe_refs := refs; fe_meta := leg |} = (plan refs, plan_size refs, Some (UtimeTimes a' m')).
Proof.
  intros C1 C2 L1 L2 L3 L4. unfold restore_entry. cbn [fe_refs fe_meta].
  rewrite (restore_metadata_current cur a m C1 C2), (restore_metadata_legacy leg a' m' (or_introl L1) L3 L4).
  split; reflexivity.
Qed.
End Meta.

(* ------------------------------------------------------------------ with the JSON layer plugged in *)
Section BodyJson.
Context {B Num R : Type}.
Notation jv := (jv B Num).
Variables (b64 : B -> string) (unb64 : string -> B).
Hypothesis unb64_b64 : forall b, unb64 (b64 b) = b.
Variables (dumps : jv -> B) (loads : B -> option jv).
Hypothesis loads_dumps : forall j : jv, pure j = true -> uniq j = true -> loads (dumps j) = Some j.
Variables (encrypt : R -> B -> B -> B) (decrypt : B -> B -> option B).
Hypothesis dec_enc : forall r m k, decrypt (encrypt r m k) k = Some m.
Variables (hash derive : B -> B).

Theorem body_roundtrip_json (encrypted : bool) (userkey : B) (r1 r2 : R) (chunks data : jv) :
  no_bang chunks = true -> uniq chunks = true -> no_bang data = true -> uniq data = true ->
  obind (encrypt_snapshot_body (serialize b64 dumps) encrypt hash derive userkey encrypted r1 r2 (mk_body chunks data))
        (decrypt_snapshot_body (deserialize unb64 loads) decrypt hash derive userkey encrypted)
  = Some (mk_body chunks data).
Proof.
  apply body_roundtrip; [|exact dec_enc].
  intros v Hb Hu. apply (deserialize_serialize b64 unb64 unb64_b64 dumps loads loads_dumps v Hb Hu).
Qed.
End BodyJson.
