(* C20 - proofs about Model/RateLimit.v: single-stream window bound, the cap never fires. *)
From Coq Require Import QArith Lqa List Bool.
From Replicat Require Import Model.RateLimit.
Import ListNotations.
Open Scope Q_scope.

(* ------------------------------------------------------------------ booleans to propositions *)
Lemma Qle_bool_false : forall x y, Qle_bool x y = false -> y < x.
Proof.
  intros x y H. apply Qnot_le_lt. intro Hle. apply Qle_bool_iff in Hle. congruence.
Qed.

Lemma Qle_bool_true : forall x y, Qle_bool x y = true -> x <= y.
Proof. intros x y H. now apply Qle_bool_iff. Qed.

Lemma py_max_0_spec : forall a, a <= py_max a 0 /\ 0 <= py_max a 0 /\ (0 <= a -> py_max a 0 <= a) /\ (a <= 0 -> py_max a 0 <= 0).
Proof.
  intros a. unfold py_max. destruct (Qle_bool 0 a) eqn:E; cbn [negb].
  - apply Qle_bool_true in E. repeat split; intros; lra.
  - apply Qle_bool_false in E. repeat split; intros; lra.
Qed.

(* ------------------------------------------------------------------ one pause *)
Lemma pause_no_cap : forall PL TH over clock a s,
  a + s <= PL -> pause PL TH over clock a s = pause_nocap TH over clock a s.
Proof.
  intros PL TH over clock a s H. unfold pause, pause_nocap. cbv zeta.
  apply Qle_bool_iff in H. rewrite H. reflexivity.
Qed.

Lemma pause_nocap_spec : forall TH over clock a s,
  (a + s <= TH /\ pause_nocap TH over clock a s = (clock, a + s, 0)) \/
  (TH < a + s /\ pause_nocap TH over clock a s
                 = (clock + (a + s + over), a + s - (clock + (a + s + over) - clock), a + s)).
Proof.
  intros TH over clock a s. unfold pause_nocap. cbv zeta.
  destruct (Qle_bool (a + s) TH) eqn:E.
  - left. split; [now apply Qle_bool_true|reflexivity].
  - right. split; [now apply Qle_bool_false|reflexivity].
Qed.

(* the amount handed to pause by the wrapper, for n bytes moved in e seconds *)
Definition owed (L e clock n : Q) : Q := py_max (n / L - (clock + e - clock)) 0.

Lemma owed_spec : forall L e clock n, 0 <= e ->
  n / L - e <= owed L e clock n /\ 0 <= owed L e clock n /\ (0 <= n / L -> owed L e clock n <= n / L).
Proof.
  intros L e clock n He. unfold owed.
  destruct (py_max_0_spec (n / L - (clock + e - clock))) as (H1 & H2 & H3 & H4).
  set (q := n / L) in *. set (m := py_max _ _) in *.
  split; [lra|]. split; [lra|].
  intros Hq. destruct (Qlt_le_dec (q - (clock + e - clock)) 0) as [Hn|Hn].
  - assert (m <= 0) by (apply H4; lra). lra.
  - assert (m <= q - (clock + e - clock)) by (apply H3; lra). lra.
Qed.

Lemma io_timing_nocap_spec : forall TH L over e clock debt n,
  let p := owed L e clock n in
  (debt + p <= TH /\ io_timing_nocap TH L over e clock debt n = (clock + e, debt + p, 0)) \/
  (TH < debt + p /\ io_timing_nocap TH L over e clock debt n
       = (clock + e + (debt + p + over), debt + p - (clock + e + (debt + p + over) - (clock + e)), debt + p)).
Proof.
  intros. unfold io_timing_nocap. fold (owed L e clock n). fold p.
  apply pause_nocap_spec.
Qed.

(* ------------------------------------------------------------------ hypotheses on a call sequence *)
(* quarter: bound on size/L (the property's d <= L/4); O: bound on over-sleep *)
Definition call_ok (L quarter O : Q) (c : call) : Prop :=
  0 <= c_gap c /\ 0 <= c_lat c /\ 0 <= c_size c / L <= quarter /\ 0 <= c_over c <= O.

Definition debt_inv (TH O debt : Q) : Prop := - O <= debt <= TH.

Section Single.
Variables PL TH L quarter O : Q.
Hypothesis HTH : 0 <= TH.
Hypothesis Hcap : TH + quarter <= PL.
Hypothesis HO : 0 <= O.
Hypothesis Hquarter : 0 <= quarter.

(* bytes/L of the events that happened up to time u *)
Definition q_upto (u : Q) (evs : list event) : Q :=
  sumQ (map (fun ev => ev_bytes ev / L) (filter (fun ev => Qle_bool (ev_time ev) u) evs)).
Definition q_window (t T : Q) (evs : list event) : Q :=
  sumQ (map (fun ev => ev_bytes ev / L) (filter (in_window t T) evs)).

(* one step of run_nocap: what it does, and the facts the bounds need *)
Lemma step_facts : forall c clock debt, call_ok L quarter O c -> debt_inv TH O debt ->
  exists r D clock1 debt1 slept,
    io_timing_nocap TH L (c_over c) (c_lat c) (clock + c_gap c) debt (c_size c) = (clock1, debt1, slept) /\
    r = clock + c_gap c + c_lat c /\
    clock <= r /\ debt <= D /\ - O <= D /\ D <= PL /\
    c_size c / L <= r - clock + (D - debt) /\
    r - clock1 - debt1 == r - r - D /\ r <= clock1 /\
    debt_inv TH O debt1.
Proof.
  intros c clock debt (Hg & He & (Hq0 & Hq1) & (Ho0 & Ho1)) (Hd0 & Hd1).
  destruct (owed_spec L (c_lat c) (clock + c_gap c) (c_size c) He) as (P1 & P2 & P3).
  specialize (P3 Hq0).
  destruct (io_timing_nocap_spec TH L (c_over c) (c_lat c) (clock + c_gap c) debt (c_size c)) as [[HD Heq]|[HD Heq]];
    set (p := owed L (c_lat c) (clock + c_gap c) (c_size c)) in *;
    set (q := c_size c / L) in *.
  - exists (clock + c_gap c + c_lat c), (debt + p), (clock + c_gap c + c_lat c), (debt + p), 0.
    split; [exact Heq|]. unfold debt_inv. repeat split; try lra.
  - eexists (clock + c_gap c + c_lat c), (debt + p), _, _, _.
    split; [exact Heq|]. unfold debt_inv. repeat split; try lra.
Qed.

Lemma upto_bound : forall cs clock debt u B,
  Forall (call_ok L quarter O) cs -> debt_inv TH O debt ->
  0 <= B -> u - clock + PL - debt <= B ->
  q_upto u (run_nocap TH L clock debt cs) <= B.
Proof.
  induction cs as [|c cs IH]; intros clock debt u B Hcs Hinv HB0 HB.
  - unfold q_upto. cbn. lra.
  - inversion Hcs as [|c' cs' Hc Hcs']; subst.
    destruct (step_facts c clock debt Hc Hinv)
      as (r & D & clock1 & debt1 & slept & Heq & Hr & F1 & F2 & F3 & F4 & F5 & F6 & F7 & Hinv1).
    pose proof (Qred_correct clock1) as R1. pose proof (Qred_correct debt1) as R2.
    assert (Hinv1' : debt_inv TH O (Qred debt1)) by (unfold debt_inv in *; lra).
    cbn [run_nocap]. rewrite Heq. unfold q_upto. cbn [filter ev_time].
    rewrite <- Hr.
    destruct (Qle_bool r u) eqn:E.
    + apply Qle_bool_true in E. cbn [map sumQ fold_right ev_bytes].
      fold (sumQ (map (fun ev => ev_bytes ev / L) (filter (fun ev => Qle_bool (ev_time ev) u) (run_nocap TH L (Qred clock1) (Qred debt1) cs)))).
      fold (q_upto u (run_nocap TH L (Qred clock1) (Qred debt1) cs)).
      assert (q_upto u (run_nocap TH L (Qred clock1) (Qred debt1) cs) <= B - c_size c / L).
      { apply IH; auto; set (q := c_size c / L) in *; lra. }
      lra.
    + apply Qle_bool_false in E.
      fold (q_upto u (run_nocap TH L (Qred clock1) (Qred debt1) cs)).
      apply IH; auto. lra.
Qed.

Lemma run_nocap_bytes_nonneg : forall cs clock debt, Forall (call_ok L quarter O) cs ->
  Forall (fun ev => 0 <= ev_bytes ev / L) (run_nocap TH L clock debt cs).
Proof.
  induction cs as [|c cs IH]; intros clock debt Hcs; cbn [run_nocap]; [constructor|].
  inversion Hcs as [|c' cs' Hc Hcs']; subst.
  destruct (io_timing_nocap TH L (c_over c) (c_lat c) (clock + c_gap c) debt (c_size c)) as [[c1 d1] s1].
  constructor; [cbn; apply Hc|apply IH; assumption].
Qed.

Lemma window_le_upto : forall evs t T, Forall (fun ev => 0 <= ev_bytes ev / L) evs ->
  q_window t T evs <= q_upto (t + T) evs.
Proof.
  induction evs as [|ev evs IH]; intros t T Hnn; unfold q_window, q_upto; cbn [filter].
  - cbn. lra.
  - inversion Hnn as [|x xs H0 Hrest]; subst. specialize (IH t T Hrest). unfold q_window, q_upto in IH.
    unfold in_window at 1.
    destruct (Qle_bool t (ev_time ev)); destruct (Qle_bool (ev_time ev) (t + T)); cbn [andb map sumQ fold_right];
      fold (sumQ (map (fun ev => ev_bytes ev / L) (filter (in_window t T) evs)));
      fold (sumQ (map (fun ev => ev_bytes ev / L) (filter (fun ev => Qle_bool (ev_time ev) (t + T)) evs))); lra.
Qed.

Lemma window_bound_q : forall cs clock debt t T qmax,
  Forall (call_ok L quarter O) cs -> Forall (fun c => c_size c / L <= qmax) cs ->
  debt_inv TH O debt -> 0 <= T -> 0 <= qmax ->
  q_window t T (run_nocap TH L clock debt cs) <= T + PL + qmax + O.
Proof.
  induction cs as [|c cs IH]; intros clock debt t T qmax Hcs Hmax Hinv HT Hqm.
  - unfold q_window. cbn. lra.
  - inversion Hcs as [|c' cs' Hc Hcs']; subst. inversion Hmax as [|c'' cs'' Hm Hmax']; subst.
    destruct (step_facts c clock debt Hc Hinv)
      as (r & D & clock1 & debt1 & slept & Heq & Hr & F1 & F2 & F3 & F4 & F5 & F6 & F7 & Hinv1).
    pose proof (Qred_correct clock1) as R1. pose proof (Qred_correct debt1) as R2.
    assert (Hinv1' : debt_inv TH O (Qred debt1)) by (unfold debt_inv in *; lra).
    cbn [run_nocap]. rewrite Heq. unfold q_window. cbn [filter]. unfold in_window at 1. cbn [ev_time].
    rewrite <- Hr.
    destruct (Qle_bool t r) eqn:E1.
    + apply Qle_bool_true in E1.
      assert (Hrest : q_window t T (run_nocap TH L (Qred clock1) (Qred debt1) cs) <= T + PL - D).
      { eapply Qle_trans; [apply window_le_upto; apply run_nocap_bytes_nonneg; assumption|].
        apply upto_bound; auto; lra. }
      unfold q_window in Hrest.
      destruct Hc as (_ & _ & (Hq0 & _) & _).
      destruct (Qle_bool r (t + T)); cbn [andb map sumQ fold_right ev_bytes];
        fold (sumQ (map (fun ev => ev_bytes ev / L) (filter (in_window t T) (run_nocap TH L (Qred clock1) (Qred debt1) cs))));
        set (q := c_size c / L) in *; lra.
    + cbn [andb]. fold (q_window t T (run_nocap TH L (Qred clock1) (Qred debt1) cs)). apply IH; auto.
Qed.

(* the cap at PAUSE_LIMIT never fires: the run with the cap is the run without it *)
Lemma cap_never_fires_run : forall cs clock debt,
  Forall (call_ok L quarter O) cs -> debt_inv TH O debt ->
  run PL TH L clock debt cs = run_nocap TH L clock debt cs.
Proof.
  induction cs as [|c cs IH]; intros clock debt Hcs Hinv; [reflexivity|].
  inversion Hcs as [|c' cs' Hc Hcs']; subst.
  destruct (step_facts c clock debt Hc Hinv)
    as (r & D & clock1 & debt1 & slept & Heq & Hr & F1 & F2 & F3 & F4 & F5 & F6 & F7 & Hinv1).
  cbn [run run_nocap].
  assert (Hsame : io_timing PL TH L (c_over c) (c_lat c) (clock + c_gap c) debt (c_size c)
                  = io_timing_nocap TH L (c_over c) (c_lat c) (clock + c_gap c) debt (c_size c)).
  { unfold io_timing, io_timing_nocap. apply pause_no_cap.
    fold (owed L (c_lat c) (clock + c_gap c) (c_size c)).
    destruct Hc as (Hg & He & (Hq0 & Hq1) & _). destruct Hinv as (_ & Hd1).
    destruct (owed_spec L (c_lat c) (clock + c_gap c) (c_size c) He) as (_ & _ & P3). specialize (P3 Hq0).
    set (p := owed _ _ _ _) in *. set (q := c_size c / L) in *. lra. }
  rewrite Hsame, Heq. f_equal. apply IH; [assumption|].
  pose proof (Qred_correct debt1) as R2. unfold debt_inv in *; lra.
Qed.

(* debt stays within [-O, TH] after every call; the sleep requested never exceeds PL *)
Lemma debt_bounded : forall cs clock debt,
  Forall (call_ok L quarter O) cs -> debt_inv TH O debt ->
  Forall (fun ev => debt_inv TH O (ev_debt ev) /\ 0 <= ev_sleep ev <= PL) (run_nocap TH L clock debt cs).
Proof.
  induction cs as [|c cs IH]; intros clock debt Hcs Hinv; cbn [run_nocap]; [constructor|].
  inversion Hcs as [|c' cs' Hc Hcs']; subst.
  destruct Hc as (Hg & He & (Hq0 & Hq1) & (Ho0 & Ho1)). destruct Hinv as (Hd0 & Hd1).
  destruct (owed_spec L (c_lat c) (clock + c_gap c) (c_size c) He) as (P1 & P2 & P3). specialize (P3 Hq0).
  destruct (io_timing_nocap_spec TH L (c_over c) (c_lat c) (clock + c_gap c) debt (c_size c)) as [[HD Heq]|[HD Heq]];
    rewrite Heq; set (p := owed _ _ _ _) in *; set (q := c_size c / L) in *.
  - constructor.
    + cbn [ev_debt ev_sleep]. unfold debt_inv. repeat split; lra.
    + apply IH; [assumption|]. unfold debt_inv. rewrite Qred_correct. split; lra.
  - constructor.
    + cbn [ev_debt ev_sleep]. unfold debt_inv. repeat split; lra.
    + apply IH; [assumption|]. unfold debt_inv. rewrite Qred_correct. split; lra.
Qed.
End Single.

(* ------------------------------------------------------------------ from time units to bytes *)
Lemma sum_scale : forall L evs, ~ L == 0 ->
  sumQ (map ev_bytes evs) == L * sumQ (map (fun ev => ev_bytes ev / L) evs).
Proof.
  intros L evs HL. induction evs as [|ev evs IH]; cbn [map sumQ fold_right].
  - ring.
  - fold (sumQ (map ev_bytes evs)). fold (sumQ (map (fun ev => ev_bytes ev / L) evs)).
    rewrite IH. field. exact HL.
Qed.

Lemma window_bytes_scale : forall L t T evs, ~ L == 0 -> window_bytes t T evs == L * q_window L t T evs.
Proof. intros. unfold window_bytes, q_window. now apply sum_scale. Qed.

(* The single-stream theorem.  L > 0 bytes/s, sizes 0 <= d <= dmax <= L*quarter with
   TH + quarter <= PL, latencies and caller gaps >= 0, over-sleep in [0, O]:
   bytes in any window [t, t+T] <= L*T + L*PL + dmax + L*O. *)
Definition size_ok (dmax : Q) (c : call) : Prop := 0 <= c_size c <= dmax.
Definition env_ok (O : Q) (c : call) : Prop := 0 <= c_gap c /\ 0 <= c_lat c /\ 0 <= c_over c <= O.

Lemma call_ok_of : forall L quarter O dmax c, 0 < L -> dmax <= L * quarter ->
  size_ok dmax c -> env_ok O c -> call_ok L quarter O c /\ c_size c / L <= dmax / L.
Proof.
  intros L quarter O dmax c HL Hdm (Hs0 & Hs1) (Hg & He & Ho).
  assert (HL' : ~ L == 0) by (intro HH; rewrite HH in HL; now apply Qlt_irrefl in HL).
  assert (Hq0 : 0 <= c_size c / L).
  { apply Qle_shift_div_l; [exact HL|]. lra. }
  assert (Hq1 : c_size c / L <= dmax / L).
  { apply Qle_shift_div_r; [exact HL|]. unfold Qdiv. rewrite <- Qmult_assoc, (Qmult_comm (/ L)), Qmult_inv_r by exact HL'. lra. }
  assert (Hq2 : dmax / L <= quarter).
  { apply Qle_shift_div_r; [exact HL|]. lra. }
  unfold call_ok. repeat split; try tauto; try lra.
Qed.

Theorem single_stream_window_bound : forall PL TH L quarter O dmax cs t T,
  0 <= TH -> TH + quarter <= PL -> 0 <= O -> 0 < L -> 0 <= dmax -> dmax <= L * quarter ->
  Forall (size_ok dmax) cs -> Forall (env_ok O) cs -> 0 <= T ->
  window_bytes t T (run PL TH L 0 0 cs) <= L * T + L * PL + dmax + L * O.
Proof.
  intros PL TH L quarter O dmax cs t T HTH Hcap HO HL Hd0 Hdm Hsz Henv HT.
  assert (HL' : ~ L == 0) by (intro HH; rewrite HH in HL; now apply Qlt_irrefl in HL).
  assert (Hok : Forall (call_ok L quarter O) cs /\ Forall (fun c => c_size c / L <= dmax / L) cs).
  { clear - HL Hdm Hsz Henv. induction cs as [|c cs IH]; [split; constructor|].
    inversion Hsz; inversion Henv; subst. destruct (IH H2 H6) as [I1 I2].
    destruct (call_ok_of L quarter O dmax c HL Hdm H1 H5) as [J1 J2]. split; constructor; assumption. }
  destruct Hok as [Hok Hmax].
  assert (Hinv : debt_inv TH O 0) by (unfold debt_inv; lra).
  rewrite (cap_never_fires_run PL TH L quarter O HTH Hcap cs 0 0 Hok Hinv).
  assert (Hquarter : 0 <= quarter).
  { apply Qle_trans with (dmax / L); [apply Qle_shift_div_l; [exact HL|lra]|apply Qle_shift_div_r; [exact HL|lra]]. }
  rewrite window_bytes_scale by exact HL'.
  assert (Hq : q_window L t T (run_nocap TH L 0 0 cs) <= T + PL + dmax / L + O).
  { apply (window_bound_q PL TH L quarter O HTH Hcap HO Hquarter); auto.
    apply Qle_shift_div_l; [exact HL|]. lra. }
  assert (Hm : L * q_window L t T (run_nocap TH L 0 0 cs) <= L * (T + PL + dmax / L + O)).
  { apply Qmult_le_l; assumption. }
  eapply Qle_trans; [exact Hm|].
  assert (E : L * (T + PL + dmax / L + O) == L * T + L * PL + dmax + L * O) by (field; exact HL').
  rewrite E. apply Qle_refl.
Qed.

Theorem cap_never_fires : forall PL TH L quarter O dmax cs,
  0 <= TH -> TH + quarter <= PL -> 0 < L -> dmax <= L * quarter ->
  Forall (size_ok dmax) cs -> Forall (env_ok O) cs ->
  run PL TH L 0 0 cs = run_nocap TH L 0 0 cs.
Proof.
  intros PL TH L quarter O dmax cs HTH Hcap HL Hdm Hsz Henv.
  assert (Hok : Forall (call_ok L quarter O) cs).
  { clear - HL Hdm Hsz Henv. induction cs as [|c cs IH]; [constructor|].
    inversion Hsz; inversion Henv; subst.
    destruct (call_ok_of L quarter O dmax c HL Hdm H1 H5) as [J1 _]. constructor; auto. }
  destruct cs as [|c cs]; [reflexivity|].
  assert (HO : 0 <= O).
  { inversion Henv as [|x xs (_ & _ & Ho) _]; subst. lra. }
  apply (cap_never_fires_run PL TH L quarter O HTH Hcap); [exact Hok|]. unfold debt_inv. lra.
Qed.
