(* C17 - B1 tie: the tables extracted from the working tree (Gen/C17Adapters.v) are the ones the model and
   the proofs are about.  A changed signature, default, constructor check, schema key, default adapter name,
   kind check or a re-ordered init breaks the lemma named after it. *)
From Coq Require Import String ZArith List.
From Replicat Require Import Model.PyVal Model.Settings Gen.C17Adapters.
Import ListNotations.

Lemma gen_adapters_eq_model : C17Adapters.adapters = Settings.adapters.
Proof. reflexivity. Qed.

Lemma gen_cipher_sizes_eq_model :
  C17Adapters.key_bytes_expr = Settings.key_bytes_expr /\ C17Adapters.nonce_bytes_expr = Settings.nonce_bytes_expr.
Proof. split; reflexivity. Qed.

(* the order of validation, instantiation, key generation, trial derivation / encryption and the upload *)
Lemma gen_init_steps_eq_model : C17Adapters.init_steps = Settings.init_steps.
Proof. reflexivity. Qed.

Lemma gen_schemas_eq_model :
  C17Adapters.init_schema_keys = Settings.init_schema_keys /\
  C17Adapters.init_encryption_schema_keys = Settings.init_encryption_schema_keys /\
  C17Adapters.add_key_schema_keys = Settings.add_key_schema_keys /\
  C17Adapters.add_key_encryption_schema_keys = Settings.add_key_encryption_schema_keys.
Proof. repeat split; reflexivity. Qed.

Lemma gen_default_names_eq_model :
  C17Adapters.DEFAULT_CHUNKER_NAME = Settings.DEFAULT_CHUNKER_NAME /\
  C17Adapters.DEFAULT_CIPHER_NAME = Settings.DEFAULT_CIPHER_NAME /\
  C17Adapters.DEFAULT_HASHER_NAME = Settings.DEFAULT_HASHER_NAME /\
  C17Adapters.DEFAULT_MAC_NAME = Settings.DEFAULT_MAC_NAME /\
  C17Adapters.DEFAULT_USER_KDF_NAME = Settings.DEFAULT_USER_KDF_NAME /\
  C17Adapters.DEFAULT_SHARED_KDF_NAME = Settings.DEFAULT_SHARED_KDF_NAME.
Proof. repeat split; reflexivity. Qed.

Lemma gen_kind_checks_eq_model : C17Adapters.kind_checks = Settings.kind_checks.
Proof. reflexivity. Qed.

(* facts about the table the proofs rely on, by computation over the generated table: every adapter that can be
   bound with a [length] keyword is a KDF (so the user KDF needs no kind check), adapter names are distinct *)
Lemma gen_length_adapters_are_kdfs :
  forallb (fun a => implb (existsb (String.eqb "length") (param_names a)) (has_kind KKdf a)) C17Adapters.adapters = true.
Proof. vm_compute. reflexivity. Qed.

Lemma gen_adapter_names_distinct :
  let names := map a_name C17Adapters.adapters in
  forallb (fun n => Nat.eqb (length (filter (String.eqb n) names)) 1) names = true.
Proof. vm_compute. reflexivity. Qed.
