(* Local backend: list_files returns exactly the live names with the prefix, each once; the adapter over
   the directory-tree model refines the Store specification for every legal operation history;
   intermediate states of an upload never show a partial object; '/'-joined names and prefixes
   agree with the segment-level prefix test; slicing of entry paths. *)
From Coq Require Import List NArith Bool Arith Lia.
From Replicat Require Import Model.Store Model.LocalFs Proofs.StoreProofs Proofs.LocalFsProofs.
Import ListNotations.
Local Open Scope N_scope.

Lemma NoDup_app_intro : forall {A} (l1 l2 : list A),
  NoDup l1 -> NoDup l2 -> (forall x, In x l1 -> In x l2 -> False) -> NoDup (l1 ++ l2).
Proof.
  intros A l1 l2 H1 H2 Hd. induction l1 as [|a l1 IH]; cbn; auto.
  inversion H1 as [|? ? Hni Hnd]; subst. constructor.
  - intro Hin. apply in_app_or in Hin. destruct Hin as [Hin|Hin]; [contradiction|].
    apply (Hd a); [left; reflexivity|exact Hin].
  - apply IH; auto. intros x Hx1 Hx2. apply (Hd x); [right; exact Hx1|exact Hx2].
Qed.

Lemma NoDup_flat_map : forall {A B} (g : A -> list B) (l : list A),
  NoDup l -> (forall x, In x l -> NoDup (g x)) ->
  (forall x y k, In x l -> In y l -> In k (g x) -> In k (g y) -> x = y) ->
  NoDup (flat_map g l).
Proof.
  intros A B g l Hnd Hg Hinj. induction l as [|a l IH]; cbn; [constructor|].
  inversion Hnd as [|? ? Hni Hnd']; subst. apply NoDup_app_intro.
  - apply Hg. left; reflexivity.
  - apply IH; auto.
    + intros x Hx. apply Hg. right; exact Hx.
    + intros x y k Hx Hy. apply Hinj; right; assumption.
  - intros k Hk1 Hk2. apply in_flat_map in Hk2. destruct Hk2 as (y & Hy & Hky).
    assert (a = y) by (apply (Hinj a y k); auto; [left; reflexivity|right; exact Hy]). subst. contradiction.
Qed.

Lemma NoDup_keys_inj : forall (f : fs) x y, NoDup (map fst f) -> In x f -> In y f -> fst x = fst y -> x = y.
Proof.
  intros f [q1 e1] [q2 e2] Hnd Hx Hy E. cbn in E. subst q2.
  pose proof (In_alookup_NoDup path_eqb path_eqb_eq q1 e1 f Hnd Hx) as H1.
  pose proof (In_alookup_NoDup path_eqb path_eqb_eq q1 e2 f Hnd Hy) as H2.
  congruence.
Qed.

Lemma In_files_below : forall q (f : fs) k,
  In k (files_below q f) <-> exists d r, In (k, EFile d) f /\ r <> [] /\ k = q ++ r.
Proof.
  intros q f k. unfold files_below. rewrite in_flat_map. split.
  - intros ([k' e] & Hin & Hk). cbn [fst snd] in Hk. destruct e as [d|]; [|contradiction].
    destruct (strip q k') as [[|s r]|] eqn:Es; try contradiction.
    destruct Hk as [<-|[]]. apply strip_spec in Es. exists d, (s :: r). repeat split; auto. discriminate.
  - intros (d & r & Hin & Hr & ->). exists (q ++ r, EFile d). split; auto. cbn [fst snd].
    rewrite strip_app. destruct r; [contradiction|]. left; reflexivity.
Qed.

Lemma NoDup_files_below : forall q (f : fs), NoDup (map fst f) -> NoDup (files_below q f).
Proof.
  intros q f Hnd. unfold files_below. apply NoDup_flat_map.
  - eapply NoDup_map_inv. exact Hnd.
  - intros [k e] _. cbn [fst snd]. destruct e; [|constructor]. destruct (strip q k) as [[|? ?]|]; repeat constructor. intros [].
  - intros x y k Hx Hy Hkx Hky. apply (NoDup_keys_inj f); auto.
    assert (Hfst : forall z, In k (match snd z, strip q (fst z) with EFile _, Some (_ :: _) => [fst z] | _, _ => [] end) -> k = fst z).
    { intros [z1 z2]. cbn [fst snd]. destruct z2; [|contradiction]. destruct (strip q z1) as [[|? ?]|]; try contradiction.
      intros [<-|[]]. reflexivity. }
    rewrite <- (Hfst x Hkx), <- (Hfst y Hky). reflexivity.
Qed.

(* what one first-level entry contributes to a listing *)
Definition l_list_entry (d : path) (b : seg) (f : fs) (qe : path * entry) : list path :=
  match strip d (fst qe) with
  | Some [s] => if starts_with s b then match snd qe with EFile _ => [fst qe] | EDir => files_below (fst qe) f end else []
  | _ => []
  end.

Lemma l_list_unfold : forall d b f,
  l_list d b f = if is_dir d f then filter (fun q => negb (is_tmp_name q)) (flat_map (l_list_entry d b f) f) else [].
Proof. reflexivity. Qed.

Lemma In_l_list_entry : forall d b f q e k, In k (l_list_entry d b f (q, e)) ->
  exists s r, q = d ++ [s] /\ starts_with s b = true /\ k = q ++ r /\
    ((exists dd, e = EFile dd /\ r = []) \/ (e = EDir /\ r <> [] /\ exists dd, In (k, EFile dd) f)).
Proof.
  intros d b f q e k. unfold l_list_entry. cbn [fst snd].
  destruct (strip d q) as [[|s [|? ?]]|] eqn:Es; try contradiction.
  apply strip_spec in Es. destruct (starts_with s b) eqn:Eb; [|contradiction].
  destruct e as [dd|].
  - intros [<-|[]]. exists s, []. rewrite app_nil_r. repeat split; auto. left. eauto.
  - intro H. apply In_files_below in H. destruct H as (dd & r & Hin & Hr & ->).
    exists s, r. repeat split; auto. right. eauto.
Qed.

Section Refine.
  Variable U : list path.
  Hypothesis HU : legalU U.

  Lemma l_list_correct : forall f st d b, l_rel U f st ->
    NoDup (l_list d b f) /\
    forall k, In k (l_list d b f) <-> In k (filter (seg_starts (d, b)) (map fst st)).
  Proof.
    intros f st d b R. pose proof (r_nodup _ _ _ R) as Hnd. rewrite l_list_unfold. split.
    - destruct (is_dir d f); [|constructor]. apply NoDup_filter. apply NoDup_flat_map.
      + eapply NoDup_map_inv. exact Hnd.
      + intros [q e] _. unfold l_list_entry. cbn [fst snd].
        destruct (strip d q) as [[|s [|? ?]]|]; try constructor. destruct (starts_with s b); [|constructor].
        destruct e; [repeat constructor; intros []|apply NoDup_files_below; exact Hnd].
      + intros [q1 e1] [q2 e2] k H1 H2 Hk1 Hk2. apply (NoDup_keys_inj f); auto. cbn [fst].
        apply In_l_list_entry in Hk1. apply In_l_list_entry in Hk2.
        destruct Hk1 as (s1 & r1 & -> & _ & E1 & _). destruct Hk2 as (s2 & r2 & -> & _ & E2 & _).
        rewrite E1 in E2. rewrite <- !app_assoc in E2. apply app_inv_head in E2. cbn in E2. congruence.
    - intro k. rewrite filter_In. split.
      + (* everything listed is a live name with the prefix *)
        destruct (is_dir d f) eqn:Ed; [|contradiction]. rewrite filter_In, in_flat_map.
        intros [([q e] & Hin & Hk) _]. apply In_l_list_entry in Hk.
        destruct Hk as (s & r & -> & Hb & -> & Hcase).
        assert (Hfile : exists dd, In ((d ++ [s]) ++ r, EFile dd) f).
        { destruct Hcase as [(dd & -> & ->)|(_ & _ & dd & Hdd)]; [rewrite app_nil_r|]; eauto. }
        destruct Hfile as (dd & Hdd).
        pose proof (In_alookup_NoDup path_eqb path_eqb_eq _ _ f Hnd Hdd) as Hl.
        pose proof (r_shape_file _ _ _ R _ _ Hl) as HkU.
        split.
        * apply (In_keys_alookup path_eqb path_eqb_eq). fold (fs_lookup ((d ++ [s]) ++ r) f) in Hl.
          rewrite (r_files _ _ _ R _ HkU) in Hl. destruct (alookup path_eqb ((d ++ [s]) ++ r) st); [eauto|discriminate].
        * unfold seg_starts. cbn [fst snd]. rewrite <- app_assoc. rewrite strip_app. cbn. exact Hb.
      + (* every live name with the prefix is listed *)
        intros [Hk Hs]. pose proof (r_keys _ _ _ R k Hk) as HkU.
        apply (In_keys_alookup path_eqb path_eqb_eq) in Hk. destruct Hk as (dd & Hdd).
        pose proof (r_files _ _ _ R k HkU) as Hl. rewrite Hdd in Hl. cbn in Hl.
        unfold seg_starts in Hs. cbn [fst snd] in Hs.
        destruct (strip d k) as [[|s r]|] eqn:Es; try discriminate. apply strip_spec in Es. subst k.
        assert (Hdir : is_dir d f = true).
        { unfold is_dir. destruct d as [|d0 d']; auto.
          rewrite (r_parents _ _ _ R _ _ Hl (d0 :: d')); auto; [discriminate|].
          exists (s :: r). split; [discriminate|reflexivity]. }
        rewrite Hdir. rewrite filter_In. split.
        * rewrite in_flat_map. destruct r as [|s2 r].
          -- exists (d ++ [s], EFile dd). split; [apply (alookup_In path_eqb path_eqb_eq); exact Hl|].
             unfold l_list_entry. cbn [fst snd]. rewrite strip_app, Hs. left; reflexivity.
          -- assert (Hq : fs_lookup (d ++ [s]) f = Some EDir).
             { apply (r_parents _ _ _ R _ _ Hl); [destruct d; discriminate|].
               exists (s2 :: r). split; [discriminate|]. rewrite <- app_assoc. reflexivity. }
             exists (d ++ [s], EDir). split; [apply (alookup_In path_eqb path_eqb_eq); exact Hq|].
             unfold l_list_entry. cbn [fst snd]. rewrite strip_app, Hs. apply In_files_below.
             exists dd, (s2 :: r). split; [apply (alookup_In path_eqb path_eqb_eq); exact Hl|].
             split; [discriminate|]. rewrite <- app_assoc. reflexivity.
        * rewrite (legal_not_tmp _ (proj2 HU _ HkU)). reflexivity.
  Qed.

  Definition lop_ok (ot : lop) : Prop :=
    (forall n, In n (op_key (fst ot)) -> In n U) /\
    match fst ot with Upload n _ | UploadStream n _ => tmp_ok U n (snd ot) | _ => True end.

  Lemma local_commute : forall (ot : lop) f st, lop_ok ot -> l_rel U f st ->
    l_rel U (fst (local_step ot f)) (fst (spec_step path_eqb seg_starts (fst ot) st)) /\
    obs_equiv (snd (local_step ot f)) (snd (spec_step path_eqb seg_starts (fst ot) st)).
  Proof.
    intros [o tmp] f st [HinU Htmp] R. cbn [fst snd] in *.
    assert (Hread : forall n, In n U ->
              (match l_read n f with Some d => OData d | None => @OMissing path end) =
              (match alookup path_eqb n st with Some d => OData d | None => OMissing end)).
    { intros n Hn. unfold l_read. rewrite (r_files _ _ _ R n Hn). destruct (alookup path_eqb n st); reflexivity. }
    destruct o as [n v|n v|n|n|n|n|[d b]]; cbn [local_step spec_step op_key] in *.
    - destruct (l_upload_rel U HU f st n v tmp R) as (f' & E & R'); auto; [apply HinU; left; reflexivity|].
      rewrite E. cbn [fst snd]. split; [exact R'|reflexivity].
    - destruct (l_upload_rel U HU f st n v tmp R) as (f' & E & R'); auto; [apply HinU; left; reflexivity|].
      rewrite E. cbn [fst snd]. split; [exact R'|reflexivity].
    - destruct (l_delete_rel U f st n R) as (f' & E & R'); [apply HinU; left; reflexivity|].
      rewrite E. cbn [fst snd]. split; [exact R'|reflexivity].
    - cbn [fst snd]. split; auto. assert (Hn : In n U) by (apply HinU; left; reflexivity).
      unfold l_exists. pose proof (legal_nonempty n (proj2 HU n Hn)) as Hne.
      destruct n as [|n0 n']; [contradiction|]. rewrite (r_files _ _ _ R _ Hn).
      destruct (alookup path_eqb (n0 :: n') st); reflexivity.
    - cbn [fst snd]. split; auto. rewrite Hread by (apply HinU; left; reflexivity).
      destruct (alookup path_eqb n st); reflexivity.
    - cbn [fst snd]. split; auto. rewrite Hread by (apply HinU; left; reflexivity).
      destruct (alookup path_eqb n st); reflexivity.
    - cbn [fst snd]. split; auto. cbn [obs_equiv]. apply l_list_correct. exact R.
  Qed.

  (* ---- atomicity: after any number of micro-steps of an upload, every legal name reads as before;
     after the last one (the rename) it reads as in the updated map *)
  Lemma l_upload_prefix_reads : forall f st n d tmp k, l_rel U f st -> In n U -> tmp_ok U n tmp -> (k <= 3)%nat ->
    exists fk, l_upload_prefix k n d tmp f = Some fk /\ forall u, In u U -> fs_lookup u fk = fs_lookup u f.
  Proof.
    intros f st n d tmp k R Hn Htmp Hk.
    pose proof (legal_nonempty n (proj2 HU n Hn)) as Hne.
    set (t := parent n ++ [tmp]).
    destruct (mkdirs_spec (inits_ne [] (parent n)) f) as (f1 & E1 & Hnd1 & L1).
    { intros q d' Hq Hl. apply In_inits_parent in Hq; auto. destruct Hq as [_ Hq].
      apply (no_proper_prefix_in_U U HU q n); auto. eapply r_shape_file; eauto. }
    { eapply r_nodup; eauto. }
    assert (HU1 : forall u, In u U -> fs_lookup u f1 = fs_lookup u f).
    { intros u Hu. rewrite L1. destruct (memp u (inits_ne [] (parent n))) eqn:Em; auto. exfalso.
      apply memp_In in Em. apply In_inits_parent in Em; auto. apply (no_proper_prefix_in_U U HU u n); tauto. }
    assert (Htf : fs_lookup t f = None).
    { destruct (fs_lookup t f) as [[d'|]|] eqn:E; auto; exfalso.
      - apply (Htmp t); [eapply r_shape_file; eauto|exists []; rewrite app_nil_r; reflexivity].
      - destruct (r_shape_dir _ _ _ R t E) as (u & Hu & Hp). apply (Htmp u Hu). apply proper_is_prefix. exact Hp. }
    assert (Hti : memp t (inits_ne [] (parent n)) = false).
    { destruct (memp t (inits_ne [] (parent n))) eqn:E; auto. exfalso.
      apply memp_In in E. apply In_inits_parent in E; auto. apply (Htmp n Hn). apply proper_is_prefix. tauto. }
    assert (Ht1 : fs_lookup t f1 = None) by (rewrite L1, Hti; exact Htf).
    assert (Hut : forall u, In u U -> path_eqb u t = false).
    { intros u Hu. apply (keq_false path_eqb path_eqb_eq). intro E. apply (Htmp u Hu). rewrite E. exists []. rewrite app_nil_r. reflexivity. }
    destruct k as [|[|[|[|k]]]]; try lia; cbn [l_upload_prefix].
    - exists f. auto.
    - exists f1. auto.
    - unfold up_mkdir, mkdir_p. rewrite E1. cbn [obind]. unfold up_mktemp. fold t. rewrite Ht1.
      eexists. split; [reflexivity|]. intros u Hu. unfold fs_lookup. cbn. rewrite (Hut u Hu). apply HU1. exact Hu.
    - unfold up_mkdir, mkdir_p. rewrite E1. cbn [obind]. unfold up_mktemp. fold t. rewrite Ht1. cbn [obind].
      unfold up_write. fold t. eexists. split; [reflexivity|]. intros u Hu. unfold fs_lookup.
      rewrite (alookup_aput _ path_eqb_eq), (Hut u Hu). cbn. rewrite (Hut u Hu). apply HU1. exact Hu.
  Qed.

  Theorem local_upload_atomic : forall f st n d tmp k, l_rel U f st -> In n U -> tmp_ok U n tmp ->
    exists fk, l_upload_prefix k n d tmp f = Some fk /\
      ((forall u, In u U -> l_read u fk = alookup path_eqb u st) \/
       (forall u, In u U -> l_read u fk = alookup path_eqb u (aput path_eqb n d st))).
  Proof.
    intros f st n d tmp k R Hn Htmp.
    assert (Hrd : forall g st', l_rel U g st' -> forall u, In u U -> l_read u g = alookup path_eqb u st').
    { intros g st' R' u Hu. unfold l_read. rewrite (r_files _ _ _ R' u Hu). destruct (alookup path_eqb u st'); reflexivity. }
    destruct (le_lt_dec k 3) as [Hk|Hk].
    - destruct (l_upload_prefix_reads f st n d tmp k R Hn Htmp Hk) as (fk & E & L).
      exists fk. split; auto. left. intros u Hu. unfold l_read. rewrite (L u Hu). apply (Hrd f st R u Hu).
    - destruct (l_upload_rel U HU f st n d tmp R Hn Htmp) as (f' & E & R').
      exists f'. split; [|right; apply Hrd; exact R'].
      destruct k as [|[|[|[|k]]]]; try lia. exact E.
  Qed.
End Refine.

(* ---- the history theorem *)
Definition names_of (ops : list lop) : list path := flat_map (fun ot => op_key (fst ot)) ops.
Definition tmp_cond (U : list path) (ot : lop) : Prop :=
  match fst ot with Upload n _ | UploadStream n _ => tmp_ok U n (snd ot) | _ => True end.

Theorem local_refines_store : forall ops : list lop,
  legalU (names_of ops) -> Forall (tmp_cond (names_of ops)) ops ->
  Forall2 obs_equiv (run local_step ops []) (run (spec_step path_eqb seg_starts) (map fst ops) []).
Proof.
  intros ops HU Htmp.
  apply (run_refine local_step (spec_step path_eqb seg_starts) fst (l_rel (names_of ops)) obs_equiv (lop_ok (names_of ops))).
  - intros o s1 s2 Hok HR. apply local_commute; auto.
  - rewrite Forall_forall in *. intros ot Hot. split; [|apply Htmp; exact Hot].
    intros n Hn. unfold names_of. apply in_flat_map. exists ot. auto.
  - apply l_rel_empty.
Qed.

(* ---- '/'-joined names: the flat prefix test is the segment-level one *)
Definition no_slash (s : seg) : Prop := forallb (fun c => negb (c =? slash)) s = true.

Lemma no_slash_cons : forall c s, no_slash (c :: s) -> (c =? slash) = false /\ no_slash s.
Proof. unfold no_slash. cbn. intros c s H. apply andb_true_iff in H. destruct H as [H1 H2]. apply negb_true_iff in H1. auto. Qed.

Lemma starts_with_seg_slash : forall s b t, no_slash s -> no_slash b ->
  starts_with (s ++ slash :: t) b = starts_with s b.
Proof.
  induction s as [|x s IH]; intros b t Hs Hb; destruct b as [|y b]; cbn [starts_with app]; auto.
  - apply no_slash_cons in Hb. destruct Hb as [Hy _]. rewrite N.eqb_sym, Hy. reflexivity.
  - apply no_slash_cons in Hs. apply no_slash_cons in Hb. rewrite IH; tauto.
Qed.

Lemma starts_with_seg_seg : forall s x t u, no_slash s -> no_slash x ->
  starts_with (s ++ slash :: t) (x ++ slash :: u) = str_eqb s x && starts_with t u.
Proof.
  induction s as [|a s IH]; intros x t u Hs Hx; destruct x as [|y x]; cbn [starts_with app str_eqb].
  - rewrite N.eqb_refl. reflexivity.
  - apply no_slash_cons in Hx. destruct Hx as [Hy _]. rewrite N.eqb_sym, Hy. reflexivity.
  - apply no_slash_cons in Hs. destruct Hs as [Ha _]. rewrite Ha. reflexivity.
  - apply no_slash_cons in Hs. apply no_slash_cons in Hx. rewrite IH by tauto. rewrite andb_assoc. reflexivity.
Qed.

Lemma starts_with_seg_none : forall s x u, no_slash s -> no_slash x -> starts_with s (x ++ slash :: u) = false.
Proof.
  induction s as [|a s IH]; intros x u Hs Hx; destruct x as [|y x]; cbn [starts_with app]; auto.
  - apply no_slash_cons in Hs. destruct Hs as [Ha _]. rewrite Ha. reflexivity.
  - apply no_slash_cons in Hs. apply no_slash_cons in Hx. rewrite IH by tauto. apply andb_false_r.
Qed.

Lemma str_eqb_sym : forall a b, str_eqb a b = str_eqb b a.
Proof.
  intros a b. destruct (str_eqb a b) eqn:E1; destruct (str_eqb b a) eqn:E2; auto.
  - apply str_eqb_eq in E1. subst. rewrite str_eqb_refl in E2. discriminate.
  - apply str_eqb_eq in E2. subst. rewrite str_eqb_refl in E1. discriminate.
Qed.

Theorem flat_prefix_is_seg_prefix : forall d b n,
  Forall no_slash d -> no_slash b -> Forall no_slash n -> n <> [] ->
  starts_with (flat n) (flatp d b) = seg_starts (d, b) n.
Proof.
  induction d as [|x d IH]; intros b n Hd Hb Hn Hne; destruct n as [|s rest]; try contradiction.
  - unfold seg_starts. cbn [fst snd strip flatp]. inversion Hn; subst.
    destruct rest as [|s2 rest]; [reflexivity|]. cbn [flat]. apply starts_with_seg_slash; auto.
  - inversion Hd; subst. inversion Hn; subst. unfold seg_starts. cbn [fst snd strip flatp].
    destruct rest as [|s2 rest].
    + cbn [flat]. rewrite starts_with_seg_none by auto.
      destruct (str_eqb x s); [|reflexivity]. destruct d; reflexivity.
    + change (flat (s :: s2 :: rest)) with (s ++ slash :: flat (s2 :: rest)).
      rewrite starts_with_seg_seg by auto. rewrite (str_eqb_sym s x).
      destruct (str_eqb x s); [|reflexivity]. cbn [andb].
      rewrite IH; auto. discriminate.
Qed.

(* ---- slicing of entry paths *)
Theorem slice_fixed_correct : forall scanned rel, slice_fixed scanned (entry_path scanned rel) = rel.
Proof.
  intros scanned rel. unfold slice_fixed, entry_path.
  induction scanned as [|c s IH]; cbn; auto.
Qed.

(* the slicing used before the fix of defect 7, for a repository opened as "." and prefix "data/..." *)
Example slice_old_refuted :
  exists root scanned rel, slice_old root (entry_path scanned rel) <> rel.
Proof. exists [46], [100; 97; 116; 97], [97; 98]. vm_compute. discriminate. Qed.

(* ---- '.' / '..' segments: legal names are fixed points of the URL normalisation *)
Lemma legal_seg_not_dot : forall s, legal_seg s = true -> str_eqb s [46] = false /\ str_eqb s [46; 46] = false.
Proof.
  intros s H. unfold legal_seg in H. repeat (apply andb_true_iff in H; destruct H as [H ?]).
  split; apply negb_true_iff; assumption.
Qed.

Lemma dot_normalize_from_legal : forall n acc, forallb legal_seg n = true -> dot_normalize_from acc n = rev acc ++ n.
Proof.
  induction n as [|s r IH]; intros acc H; cbn [dot_normalize_from].
  - rewrite app_nil_r. reflexivity.
  - cbn in H. apply andb_true_iff in H. destruct H as [Hs Hr].
    destruct (legal_seg_not_dot s Hs) as [-> ->]. rewrite IH by exact Hr. cbn. rewrite <- app_assoc. reflexivity.
Qed.

Theorem dot_normalize_legal : forall n, legal_name n = true -> dot_normalize n = n.
Proof.
  intros n H. destruct n as [|s r]; [discriminate|]. cbn [legal_name] in H. apply andb_true_iff in H.
  unfold dot_normalize. rewrite dot_normalize_from_legal; tauto.
Qed.

(* ---- witnesses for what is not true *)
Definition tmp_witness : list lop :=
  [(Upload [[122; 46; 116; 109; 112]] [1], [116; 46; 116; 109; 112]); (ListFiles ([], []), [])].
Lemma local_tmp_suffix_refuted :
  ~ Forall2 obs_equiv (run local_step tmp_witness []) (run (spec_step path_eqb seg_starts) (map fst tmp_witness) []).
Proof.
  intro H. vm_compute in H. inversion H as [|? ? ? ? _ H2]; subst. inversion H2 as [|? ? ? ? H3 _]; subst.
  destruct H3 as [_ Hin]. destruct (proj2 (Hin [[122; 46; 116; 109; 112]]) (or_introl eq_refl)).
Qed.

Lemma dot_segments_refuted : exists n, dot_normalize n <> n.
Proof. exists [[97]; [46; 46]; [98]]. vm_compute. discriminate. Qed.
