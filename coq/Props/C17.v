(* C17 - accepted settings always yield a usable repository and working keys; rejected settings leave the
   backend untouched; every key opens with its own password and with no other.
   Only statements closed by [exact], each followed by Print Assumptions. *)
From Coq Require Import String ZArith List Bool NArith.
From Replicat Require Import Model.PyVal Model.Settings Model.Keys Proofs.SettingsProofs Proofs.SettingsTie Proofs.KeysProofs
  Gen.C17Adapters.
Import ListNotations.
Open Scope string_scope.
Open Scope Z_scope.

(* A. the model of Repository.init over the tables extracted from the working tree *)
Definition gen_init := Settings.init C17Adapters.adapters C17Adapters.key_bytes_expr C17Adapters.nonce_bytes_expr.
Definition gen_accept pw s := snd (gen_init pw s).

Lemma gen_init_is_model : gen_init = init_std.
Proof. reflexivity. Qed.

(* whatever init accepts - any settings dictionary, with or without a password - lies in the domain of every
   primitive it configures: digest sizes, chunk bounds, AEAD key and nonce sizes, KDF parameters, adapter kinds *)
Theorem C17_accept_usable : forall pw s r, gen_accept pw s = Some r -> usable r = true.
Proof. exact accept_usable. Qed.
Print Assumptions C17_accept_usable.

(* the same through the flat command-line form (parse_cli_settings, guess_type fragment, flat_to_nested) *)
Theorem C17_accept_cli_usable : forall pw args r, accept_cli_std pw args = Some r -> usable r = true.
Proof. exact accept_cli_usable. Qed.
Print Assumptions C17_accept_cli_usable.

(* a rejected init has written nothing to the backend *)
Theorem C17_reject_untouched : forall pw s puts, gen_init pw s = (puts, None) -> puts = [].
Proof. exact reject_untouched. Qed.
Print Assumptions C17_reject_untouched.

(* an accepted init has written the config and nothing else *)
Theorem C17_accept_writes_config_only : forall pw s puts r, gen_init pw s = (puts, Some r) -> puts = ["config"].
Proof. exact accept_writes_config_only. Qed.
Print Assumptions C17_accept_writes_config_only.

(* for ANY order of the steps in which the upload comes last, a failing step means no write *)
Theorem C17_reject_untouched_any_order : forall table ke ne pre s puts,
  ~ In SUploadConfig pre -> run table ke ne (pre ++ [SUploadConfig]) s = (puts, None) -> puts = st_puts s.
Proof. exact reject_untouched_generic. Qed.
Print Assumptions C17_reject_untouched_any_order.

(* the order of the steps of Repository.init in the working tree is the modelled one *)
Theorem C17_init_order_fact : C17Adapters.init_steps = Settings.init_steps.
Proof. exact gen_init_steps_eq_model. Qed.
Print Assumptions C17_init_order_fact.

(* add-key: accepted key-derivation settings lie in the KDF's domain *)
Theorem C17_add_key_accept_usable : forall pw kb s kdf, add_key_accept C17Adapters.adapters pw kb s = Some kdf ->
  exists pl, pw = Some pl /\ has_kind KKdf (fst kdf) = true /\ kdf_domain (a_name (fst kdf)) (snd kdf) kb pl = true.
Proof. exact add_key_accept_usable. Qed.
Print Assumptions C17_add_key_accept_usable.

Section Keys.
Variables Pw Salt Prm UKey Nonce Priv Blob : Type.
Variable kdf : Prm -> Pw -> Salt -> UKey.
Variable enc : UKey -> Nonce -> Priv -> Blob.
Variable dec : UKey -> Blob -> option Priv.
Hypothesis dec_enc : forall k n m, dec k (enc k n m) = Some m.
Hypothesis dec_other : forall k k' n m, k <> k' -> dec k' (enc k n m) = None.
Hypothesis kdf_inj : forall prm s p1 p2, kdf prm p1 s = kdf prm p2 s -> p1 = p2.
Hypothesis ukey_eq_dec : forall a b : UKey, {a = b} + {a <> b}.

(* every key of every add-key chain (independent / shared / clone, any KDF parameters per key) opens with its
   own password, yielding the private section it protects, and with no other password *)
Theorem C17_keys_unlock_own_only : forall pw0 prm0 salt0 n0 priv0 ops st,
  apply_ops Pw Salt Prm UKey Nonce Priv Blob kdf enc dec
            (init_holders Pw Salt Prm UKey Nonce Priv Blob kdf enc pw0 prm0 salt0 n0 priv0) ops = Some st ->
  forall h, In h st ->
    unlock Pw Salt Prm UKey Priv Blob kdf dec (h_key h) (h_pw h) = Some (h_priv h) /\
    forall pw', (exists p, unlock Pw Salt Prm UKey Priv Blob kdf dec (h_key h) pw' = Some p) <-> pw' = h_pw h.
Proof. exact (keys_unlock_own_only Pw Salt Prm UKey Nonce Priv Blob kdf enc dec dec_enc dec_other kdf_inj ukey_eq_dec). Qed.

(* the full cross-unlock matrix: key i with password j opens iff the two passwords are equal *)
Theorem C17_cross_unlock : forall pw0 prm0 salt0 n0 priv0 ops st,
  apply_ops Pw Salt Prm UKey Nonce Priv Blob kdf enc dec
            (init_holders Pw Salt Prm UKey Nonce Priv Blob kdf enc pw0 prm0 salt0 n0 priv0) ops = Some st ->
  forall hi hj, In hi st -> In hj st ->
    (unlock Pw Salt Prm UKey Priv Blob kdf dec (h_key hi) (h_pw hj) <> None <-> h_pw hj = h_pw hi).
Proof. exact (cross_unlock Pw Salt Prm UKey Nonce Priv Blob kdf enc dec dec_enc dec_other kdf_inj ukey_eq_dec). Qed.
End Keys.
Print Assumptions C17_keys_unlock_own_only.
Print Assumptions C17_cross_unlock.

(* The premise [kdf_inj] is needed, and the real scrypt KDF does not have it on passwords that differ by trailing NUL
   bytes (PBKDF2-HMAC zero-pads: known finding C17-scrypt-trailing-nul).  With a KDF that sends two passwords to one user
   key the statement is false: a witness with the free-constructor cipher and a KDF that forgets the last bit.
   [C17_keys_unlock_own_only] is the partial statement: every KDF that is injective in the password. *)
Theorem C17_keys_unlock_own_only_refuted_without_injectivity :
  exists pw pw' : N, pw <> pw' /\
    unlock N N N tkey N tblob lossy_kdf tdec (make_key N N N tkey N N tblob lossy_kdf tenc 0%N 0%N 0%N pw 7%N) pw' = Some 7%N.
Proof. exact lossy_kdf_breaks_own_only. Qed.
Print Assumptions C17_keys_unlock_own_only_refuted_without_injectivity.

(* non-vacuity *)
Example C17_defaults_accepted :
  option_map usable (gen_accept (Some 8) None) = Some true /\
  fst (gen_init (Some 8) None) = ["config"] /\
  gen_accept None None = None /\ fst (gen_init None None) = [].
Proof. vm_compute. repeat split. Qed.

(* the witnesses of DESIGN.md section 5 row 11 are rejected by the repaired constructors *)
Example C17_row11_witnesses_rejected :
  map (fun s => gen_accept None (Some (("encryption", VNull) :: s)))
    [ [("hashing", VDict [("length", VInt 0)])]; [("hashing", VDict [("length", VInt 65)])];
      [("hashing", VDict [("length", VHalf 128)])]; [("hashing", VDict [("name", VStr "aes_gcm")])];
      [("chunking", VDict [("min_length", VInt (-5))])]; [("chunking", VDict [("min_length", VHalf 3)])];
      [("chunking", VDict [("min_length", VInt 0); ("max_length", VInt 4)])];
      [("chunking", VDict [("name", VStr "sha2")])] ]
  = repeat None 8.
Proof. vm_compute. reflexivity. Qed.

Example C17_cli_form :
  option_map usable (accept_cli_std (Some 3) ["--hashing.name"; "sha2"; "--hashing.bits"; "256"; "--encryption.kdf.n"; "4";
                                              "--chunking.min-length"; "5"; "--chunking.max-length"; "8"]) = Some true /\
  accept_cli_std (Some 3) ["--hashing.bits"; "256"] = None /\
  accept_cli_std (Some 3) ["--hashing"; "sha2"; "--hashing.bits"; "256"] = None.
Proof. vm_compute. repeat split. Qed.

(* the premises of the key theorems are satisfiable, and the model really runs chains *)
Example C17_key_premises_satisfiable :
  (forall k n m, tdec k (tenc k n m) = Some m) /\
  (forall k k' n m, k <> k' -> tdec k' (tenc k n m) = None) /\
  (forall prm s p1 p2, tkdf prm p1 s = tkdf prm p2 s -> p1 = p2).
Proof. exact toy_premises. Qed.

Example C17_chain_runs :
  toy_chain 1 [TIndependent 2 5 7 77; TShared 0%nat 3 5 8; TClone 1%nat 9 9]%N
  = Some ([[true; false; false; false]; [false; true; false; true]; [false; false; true; false]; [false; true; false; true]],
          [1000; 77; 1000; 77]%N).
Proof. vm_compute. reflexivity. Qed.
