(* C16 - every request sent to an S3 service is correctly signed (AWS Signature Version 4), and the declared
   payload hash and content length match the body.  Only statements closed by [exact], each followed by
   Print Assumptions.  SHA-256 / HMAC / hex are arbitrary functions: the theorems hold for every hash function
   because the strings hashed by the adapter and by the specification are equal.
   Byte classes covered: object names, prefixes, continuation tokens = arbitrary byte strings (a superset of the
   UTF-8 encodings of Python str), except object names whose quoted path has a "." or ".." segment (decidable
   guard; known finding); host, %Y%m%d, %H%M%S without spaces; 8-character %Y%m%d. *)
From Coq Require Import List NArith Bool String.
From Coq Require Import Strings.Byte.
From Replicat Require Import Model.SigV4Prims Gen.SigV4Gen Model.SigV4 Model.SigV4Spec
  Proofs.SigV4Proofs Proofs.SigV4Main Proofs.SigV4Ops Proofs.SigV4Tie.
Import ListNotations.

(* B1: the signing code of s3c.py, translated, is the model *)
Theorem C16_tie_prepare_request : @SigV4Gen.prepare_request = @SigV4.prepare_request.
Proof. exact gen_prepare_request_eq. Qed.
Print Assumptions C16_tie_prepare_request.

Theorem C16_tie_assembly :
  @SigV4Gen.make_canonical_request = @SigV4.make_canonical_request /\ @SigV4Gen.make_string_to_sign = @SigV4.make_string_to_sign /\
  @SigV4Gen.make_credential_scope = @SigV4.make_credential_scope /\ @SigV4Gen.make_canonical_headers = @SigV4.make_canonical_headers /\
  @SigV4Gen.make_signature_key = @SigV4.make_signature_key /\ @SigV4Gen.list_objects_query = @SigV4.list_objects_query.
Proof.
  exact (conj gen_make_canonical_request_eq (conj gen_make_string_to_sign_eq (conj gen_make_credential_scope_eq
        (conj gen_make_canonical_headers_eq (conj gen_make_signature_key_eq gen_list_objects_query_eq))))).
Qed.
Print Assumptions C16_tie_assembly.

Theorem C16_tie_operations :
  @SigV4Gen.op_exists = @SigV4.op_exists /\ @SigV4Gen.op_put_object = @SigV4.op_put_object /\
  @SigV4Gen.op_put_object_stream = @SigV4.op_put_object_stream /\ @SigV4Gen.op_download = @SigV4.op_download /\
  @SigV4Gen.op_download_stream = @SigV4.op_download_stream /\ @SigV4Gen.op_delete = @SigV4.op_delete /\
  @SigV4Gen.op_list_objects = @SigV4.op_list_objects /\ SigV4Gen.aws_host = SigV4.aws_host.
Proof.
  exact (conj gen_op_exists_eq (conj gen_op_put_object_eq (conj gen_op_put_object_stream_eq (conj gen_op_download_eq
        (conj gen_op_download_stream_eq (conj gen_op_delete_eq (conj gen_op_list_objects_eq gen_aws_host_eq))))))).
Qed.
Print Assumptions C16_tie_operations.

(* the HTTP client is constructed so that it only sends what the adapter prepared: no automatic redirect follow-ups *)
Theorem C16_client_sends_only_prepared_requests : SigV4Gen.client_sends_only_prepared_requests = true.
Proof. exact gen_client_sends_only_prepared_requests. Qed.
Print Assumptions C16_client_sends_only_prepared_requests.

(* urllib's quote is SigV4's UriEncode: with "/" kept on a path, with nothing kept on query names and values;
   decoding what quote produced gives back the string *)
Theorem C16_quote_is_uri_encode : forall s,
  uri_encode s = py_quote [] s /\ pct_decode false (py_quote [] s) = s /\ pct_decode true (py_quote [] s) = s /\
  canonical_uri (py_quote (b "/") s) = py_quote (b "/") s.
Proof. exact (fun s => conj (uri_encode_eq s) (conj (decode_quote false s) (conj (decode_quote true s) (canonical_uri_of_quoted s)))). Qed.
Print Assumptions C16_quote_is_uri_encode.

(* the query string the code sends and signs is the canonical query string whenever sorting the encoded pairs
   agrees with the code's sort of the raw pairs - which holds for the listing query, whatever token and prefix *)
Theorem C16_query_canonical : forall tok prefix,
  let ps := sorted_items (list_objects_query tok prefix) in
  canonical_query (Some (urlencode_quote ps)) = urlencode_quote ps.
Proof.
  exact (fun tok prefix => canonical_query_of_urlencode _ (proj1 (list_query_sorted tok prefix)) (proj1 (proj2 (list_query_sorted tok prefix)))).
Qed.
Print Assumptions C16_query_canonical.

(* the Authorization header sent = the one the specification computes from the wire request, for every hash *)
Theorem C16_authorization_correct :
  forall sha256hex hmac hex self_host self_region self_key_id self_access_key self_url ymd hms method uri query digest headers extra,
  request_ok self_host ymd hms uri query digest headers extra ->
  let w := wire_of self_url extra (the_request sha256hex hmac hex self_host self_region self_key_id self_access_key self_url
                                               ymd hms method uri query digest headers) in
  authorization_on_wire w = authorization_spec sha256hex hmac hex w signed3 self_key_id self_access_key self_region (b "s3").
Proof. exact authorization_correct. Qed.
Print Assumptions C16_authorization_correct.

(* every request of exists / upload / upload_stream / download / download_stream / delete / list_files is correctly
   signed, and host plus every x-amz-* header on the wire is among the signed headers *)
Theorem C16_every_operation_signed :
  forall sha256hex hmac hex, (forall x, no_space (sha256hex x) = true) ->
  forall self_host self_region self_key_id self_access_key self_url self_bucket_name o ymd hms extra,
  op_guard self_host self_bucket_name o ymd hms extra = true ->
  let w := wire_of self_url extra (op_request sha256hex hmac hex self_host self_region self_key_id self_access_key self_url self_bucket_name o ymd hms) in
  authorization_on_wire w = authorization_spec sha256hex hmac hex w signed3 self_key_id self_access_key self_region (b "s3")
  /\ must_sign (w_headers w) = signed3.
Proof. exact every_operation_signed. Qed.
Print Assumptions C16_every_operation_signed.

(* declared payload hash and length: bytes *)
Theorem C16_upload_declares_payload : forall sha256hex hmac hex self_host self_region self_key_id self_access_key self_url self_bucket_name name data ymd hms,
  snd (op_request sha256hex hmac hex self_host self_region self_key_id self_access_key self_url self_bucket_name (OpUpload name data) ymd hms)
  = [ (b "content-length", py_str_len data); (b "host", self_host); (b "x-amz-content-sha256", sha256hex data);
      (b "x-amz-date", amz_date ymd hms);
      (b "authorization", code_authorization sha256hex hmac hex self_host self_region self_key_id self_access_key ymd hms (b "PUT")
                             (b "/" ++ self_bucket_name ++ b "/" ++ name) [] (sha256hex data)) ].
Proof. exact upload_declares_payload. Qed.
Print Assumptions C16_upload_declares_payload.

(* declared payload hash and length: streams (positioned at 0; content-length is the caller's length argument) *)
Theorem C16_upload_stream_declares_payload : forall sha256hex hmac hex self_host self_region self_key_id self_access_key self_url self_bucket_name
  name content length (cs : N) ymd hms, (0 < cs)%N ->
  let body := List.concat (stream_chunks cs content) in
  body = content /\
  snd (op_request sha256hex hmac hex self_host self_region self_key_id self_access_key self_url self_bucket_name (OpUploadStream name content length) ymd hms)
  = [ (b "content-length", py_str_N length); (b "host", self_host); (b "x-amz-content-sha256", sha256hex body);
      (b "x-amz-date", amz_date ymd hms);
      (b "authorization", code_authorization sha256hex hmac hex self_host self_region self_key_id self_access_key ymd hms (b "PUT")
                             (b "/" ++ self_bucket_name ++ b "/" ++ name) [] (sha256hex body)) ].
Proof. exact upload_stream_declares_payload. Qed.
Print Assumptions C16_upload_stream_declares_payload.

(* without the guard the statement fails: a ".." segment is signed as written and sent collapsed (known finding) *)
Theorem C16_dot_segment_refuted :
  exists (sha256hex : bytes -> bytes) (hmac : bytes -> bytes -> bytes) (hex : bytes -> bytes)
         (host region key_id secret url bucket name ymd hms : bytes),
    let o := OpExists name in
    op_guard host bucket o ymd hms [] = false /\
    no_dot_segments (py_quote (b "/") (op_uri bucket o)) = false /\
    let w := wire_of url [] (op_request sha256hex hmac hex host region key_id secret url bucket o ymd hms) in
    w_target w = b "/bkt/b" /\
    authorization_on_wire w <> authorization_spec sha256hex hmac hex w signed3 key_id secret region (b "s3").
Proof. exact dot_segment_refuted. Qed.
Print Assumptions C16_dot_segment_refuted.

(* non-vacuity: the guard holds for a name full of reserved and non-ASCII bytes, a listing with a token and a prefix
   containing spaces, and extra headers as httpx adds them; and the model really escapes *)
Definition demo_extra : list (bytes * bytes) :=
  [(b "Accept", b "*/*"); (b "Accept-Encoding", b "gzip, deflate"); (b "Connection", b "keep-alive"); (b "User-Agent", b "python-httpx/0.28.1")].
Example C16_guard_satisfiable :
  op_guard (b "minio.internal:9000") (b "my.bucket") (OpExists (bs [97; 32; 98; 47; 195; 169; 126; 42; 39; 40; 41; 33; 47; 120; 37; 52; 49; 63; 35; 38; 61; 43; 46; 46; 120]%N))
           (b "20240229") (b "235959") demo_extra = true
  /\ op_guard (b "s3.example.com") (b "bkt") (OpList (Some (b "to ken+/=")) (b "pre fix/")) (b "20231231") (b "235959") demo_extra = true
  /\ string_of_list_byte (w_target (wire_of (b "http://h") demo_extra
        (op_request tag_hash tag_hmac (fun x => x) (b "h") (b "r") (b "AK") (b "SK") (b "http://h") (b "bkt") (OpList (Some (b "to ken+/=")) (b "pre fix/")) (b "20231231") (b "235959"))))
     = "/bkt?continuation-token=to%20ken%2B%2F%3D&list-type=2&prefix=pre%20fix%2F"%string.
Proof. vm_compute. repeat split; reflexivity. Qed.
