(* C01 - backup round trip is the identity on file trees (model level: stream layout, attribution
   of chunk ranges, restore plan, file-part writes).  Statements closed by [exact]. *)
From Coq Require Import List Arith NArith ZArith Lia Bool Permutation.
From Replicat Require Import Lib.ListX Model.Stream Model.Dedup Model.Chunker
  Model.FsTree Proofs.StreamProofs Proofs.RoundTrip Proofs.ChunkerProofs Proofs.C01Tie Proofs.FsTreeProofs.
Import ListNotations.

Section C01.
Context {B : Type}.
Variable zero : B.

(* One file occupying [fs, fe) of the concatenated chunks; m = its manifest entry after ANY completion
   order (a permutation of the refs, refs of empty range optional); order = the part writes in ANY
   order; pre = ANY pre-existing content of the target: the restored content is exactly the file. *)
Theorem C01_restore_one_file :
  forall (chunks : list (list B)) (fs fe : nat) (f : list B) (keep : ref -> bool) (m : list ref)
         (order : list (nat * list B)) (pre : list B),
  fs <= fe -> sub (concat chunks) fs fe = f ->
  (forall r, In r (refs_of (fs, fe) (map (@length B) chunks)) -> keep r = false -> r_end r <= r_start r) ->
  Permutation m (filter keep (refs_of (fs, fe) (map (@length B) chunks))) ->
  (forall w, In w order <-> In w (writes_of chunks m)) ->
  restore_file zero chunks m order pre = f.
Proof. exact (restore_one_file zero). Qed.

(* Every file of the snapshot, every alignment, every lossless chunking of the padded stream. *)
Theorem C01_restore_every_file :
  forall (a : nat) (files chunks : list (list B)), concat chunks = stream zero a files ->
  Forall2 (fun e f => forall keep m order pre,
     (forall r, In r (refs_of e (map (@length B) chunks)) -> keep r = false -> r_end r <= r_start r) ->
     Permutation m (filter keep (refs_of e (map (@length B) chunks))) ->
     (forall w, In w order <-> In w (writes_of chunks m)) ->
     restore_file zero chunks m order pre = f)
    (extents a 0 (map (@length B) files)) files.
Proof. exact (restore_every_file zero). Qed.

(* ... in particular for the gclmul chunker with any hash, valid parameters, segmentation and junk *)
Theorem C01_roundtrip_gclmul :
  forall (hash : list B -> N) (mn mx a : nat) (files pieces : list (list B)) junk,
  1 <= mn -> mn <= mx -> concat pieces = stream zero a files ->
  let chunks := chunkify hash mn mx pieces junk in
  Forall2 (fun m f => forall pre, restore_file zero chunks m (writes_of chunks m) pre = f)
          (manifest a (map (@length B) files) (map (@length B) chunks)) files.
Proof.
  exact (fun hash mn mx a files pieces junk H1 H2 Hs =>
    restore_model_manifest zero a files _ (eq_trans (lossless hash mn mx H1 H2 pieces junk) Hs)).
Qed.

(* TILING (also the range half of C14): a file's refs in counter order slice exactly its bytes *)
Theorem C01_tiling :
  forall (chunks : list (list B)) fs fe, fs <= fe ->
  concat (map (slice_of chunks) (refs_of (fs, fe) (map (@length B) chunks))) = sub (concat chunks) fs fe.
Proof. exact refs_tile. Qed.

(* any write order, any pre-existing content, finalisation to the recorded size *)
Theorem C01_writes_restore :
  forall (target : list B) ws pre, Forall (consistent zero target) ws ->
  (forall i, i < length target -> existsb (fun w => covers w i) ws = true) ->
  fs_truncate zero (length target) (apply_writes zero ws pre) = target.
Proof. exact (writes_restore zero). Qed.
End C01.

Print Assumptions C01_restore_one_file.
Print Assumptions C01_restore_every_file.
Print Assumptions C01_roundtrip_gclmul.
Print Assumptions C01_tiling.
Print Assumptions C01_writes_restore.

(* the restore target as a map from paths to contents: with pairwise distinct restore paths every
   restored path ends up holding exactly its file, whatever it held before, and every other path is
   left exactly as it was (no other file created, bystanders untouched) *)
Theorem C01_restore_tree : forall {B} (zero : B) chunks (items : list (@item B)) (files : list (list B)) (f : @fs B),
  NoDup (map (fun it : item => fst (fst it)) items) ->
  Forall2 (fun (it : item) file => forall pre, restore_file zero chunks (snd (fst it)) (snd it) pre = file) items files ->
  Forall2 (fun (it : item) file => restore_all zero chunks items f (fst (fst it)) = Some file) items files /\
  (forall q, ~ In q (map (fun it : item => fst (fst it)) items) -> restore_all zero chunks items f q = f q).
Proof. exact (fun B zero => restore_tree zero). Qed.
Print Assumptions C01_restore_tree.

(* restoring the same snapshot again into the restored tree changes nothing (idempotence, every path) *)
Theorem C01_restore_tree_idempotent : forall {B} (zero : B) chunks (items : list (@item B)) (files : list (list B)) (f : @fs B),
  NoDup (map (fun it : item => fst (fst it)) items) ->
  Forall2 (fun (it : item) file => forall pre, restore_file zero chunks (snd (fst it)) (snd it) pre = file) items files ->
  forall q, restore_all zero chunks items (restore_all zero chunks items f) q = restore_all zero chunks items f q.
Proof. exact (fun B zero => restore_tree_idempotent zero). Qed.
Print Assumptions C01_restore_tree_idempotent.

(* chunk table / de-duplicated path arguments: first-occurrence order, every element once, and a
   ref's index leads back to its digest *)
Theorem C01_table_spec : forall {D} (deqb : D -> D -> bool), (forall x y, deqb x y = true <-> x = y) ->
  forall ds, NoDup (table_of deqb ds) /\ (forall d, In d (table_of deqb ds) <-> In d ds).
Proof. exact (fun D deqb H => table_spec deqb H). Qed.
Print Assumptions C01_table_spec.

Theorem C01_index_of_nth : forall {D} (deqb : D -> D -> bool), (forall x y, deqb x y = true <-> x = y) ->
  forall d0 l d, In d l -> nth (index_of deqb d l) l d0 = d.
Proof. exact (fun D deqb H => index_of_nth deqb H). Qed.
Print Assumptions C01_index_of_nth.

(* MONOTONE HISTORY of the chunk table: the index written into a file's ref when its chunk was first
   seen still denotes that chunk in the final table, whatever digests (new or repeated) arrive later;
   indices are inside the table and no two digests share one *)
Theorem C01_table_index_stable : forall {D} (deqb : D -> D -> bool), (forall x y, deqb x y = true <-> x = y) ->
  forall ds later d, In d ds ->
  index_of deqb d (table_of deqb (ds ++ later)) = index_of deqb d (table_of deqb ds).
Proof.
  exact (fun D deqb H ds later d Hin =>
    eq_trans (f_equal (index_of deqb d) (fold_left_app (add_digest deqb) ds later []))
             (index_stable_fold deqb H later (table_of deqb ds) d (proj2 (proj2 (table_spec deqb H ds) d) Hin))).
Qed.
Print Assumptions C01_table_index_stable.

Theorem C01_table_index_bijective : forall {D} (deqb : D -> D -> bool), (forall x y, deqb x y = true <-> x = y) ->
  forall l d d', In d l -> In d' l ->
  index_of deqb d l < length l /\ (index_of deqb d l = index_of deqb d' l -> d = d').
Proof. exact (fun D deqb H l d d' Hd Hd' => conj (index_of_lt deqb H l d Hd) (index_of_inj deqb H l d d' Hd Hd')). Qed.
Print Assumptions C01_table_index_bijective.

(* DE-DUPLICATION: chunks whose digests are already in the table add no entry, in any number and order *)
Theorem C01_table_known_suffix : forall {D} (deqb : D -> D -> bool), (forall x y, deqb x y = true <-> x = y) ->
  forall ds later, (forall d, In d later -> In d ds) -> table_of deqb (ds ++ later) = table_of deqb ds.
Proof. exact (fun D deqb H => table_known_suffix deqb H). Qed.
Print Assumptions C01_table_known_suffix.

Example C01_table_concrete :
  let t1 := table_of N.eqb [5;3;5]%N in
  let t2 := table_of N.eqb ([5;3;5] ++ [7;3])%N in
  (t2, index_of N.eqb 5%N t2, index_of N.eqb 3%N t2) = ([5;3;7]%N, index_of N.eqb 5%N t1, index_of N.eqb 3%N t1).
Proof. vm_compute. reflexivity. Qed.

(* the tie: what the Python arithmetic in snapshot/_chunk_done/restore/_write_file_part means *)
Theorem C01_tie_touches : forall fs fe cs ce : nat,
  touches fs fe cs ce =
  ((Z.of_nat fs <? Gen.StreamGen.gen_bisect_key (Z.of_nat fs) (Z.of_nat fe) (Z.of_nat cs) (Z.of_nat ce))%Z
   && negb (Gen.StreamGen.gen_break (Z.of_nat fs) (Z.of_nat fe) (Z.of_nat cs) (Z.of_nat ce)))%bool.
Proof. exact tie_touches. Qed.
Theorem C01_tie_range : forall fs fe cs ce k : nat, cs <= fe -> cs <= ce ->
  Z.of_nat (r_start (ref_of fs fe cs ce k)) = Gen.StreamGen.gen_part_start (Z.of_nat fs) (Z.of_nat fe) (Z.of_nat cs) (Z.of_nat ce) /\
  Z.of_nat (r_end (ref_of fs fe cs ce k)) = Gen.StreamGen.gen_part_end (Z.of_nat fs) (Z.of_nat fe) (Z.of_nat cs) (Z.of_nat ce).
Proof. exact (fun fs fe cs ce k H1 H2 => conj (tie_part_start fs fe cs ce k) (tie_part_end fs fe cs ce k H1 H2)). Qed.
Theorem C01_tie_padding : forall a n off : nat, 1 <= a ->
  Z.of_nat (pad_len a n) = Gen.StreamGen.gen_padding (Z.of_nat off) (Z.of_nat (off + n)) (Z.of_nat a).
Proof. exact tie_padding. Qed.
Theorem C01_tie_truncate : forall file_end offset len : nat,
  Gen.StreamGen.gen_truncate_to (Z.of_nat file_end) (Z.of_nat offset) (Z.of_nat len) = Z.of_nat (Nat.max file_end (offset + len)).
Proof. exact tie_truncate. Qed.
Theorem C01_tie_plan : forall (pos : nat) (r : ref), r_start r <= r_end r ->
  Z.of_nat (pos + (r_end r - r_start r)) =
  Gen.StreamGen.gen_next_position (Z.of_nat pos) (Gen.StreamGen.gen_chunk_size (Z.of_nat (r_start r)) (Z.of_nat (r_end r))).
Proof. exact tie_position. Qed.
Theorem C01_tie_structure :
  (Gen.StreamGen.gen_ref_fields_ok && Gen.StreamGen.gen_padding_is_zero_bytes && Gen.StreamGen.gen_producer_ok
   && Gen.StreamGen.gen_write_offset_is_position && Gen.StreamGen.gen_finalise_truncates_to_plan_size
   && Gen.StreamGen.gen_write_part_shape_ok)%bool = true.
Proof. exact tie_structure. Qed.
Print Assumptions C01_tie_touches.
Print Assumptions C01_tie_range.
Print Assumptions C01_tie_padding.
Print Assumptions C01_tie_truncate.
Print Assumptions C01_tie_plan.
Print Assumptions C01_tie_structure.

(* non-vacuity: a concrete snapshot with an empty file, padding, a file spanning chunks, a
   pre-existing longer target and reversed write order *)
Example C01_concrete :
  let files := [[]; [1;2;3;4;5]; [6;7]; [8;9;10;11;12;13;14;15;16]]%N in
  let chunks := [[1;2;3;4]; [5;0;0;0;6;7]; [0;0;8;9]; [10;11;12;13;14;15;16]]%N in
  concat chunks = stream 0%N 4 files /\
  map (fun m => restore_file 0%N chunks m (rev (writes_of chunks m)) [99;99;99;99;99;99;99;99;99;99;99;99]%N)
      (manifest 4 (map (@length N) files) (map (@length N) chunks)) = files.
Proof. vm_compute. split; reflexivity. Qed.
