(* C04 - damaged or substituted repository objects are never restored silently.
   The store is an ARBITRARY map from locations to terms (the adversary chooses it: garbage, other
   objects' contents, missing objects, forged objects).  Idealisation: free constructors, i.e. the
   hash is injective and AEAD ciphertexts cannot be forged (Model/Crypto.v).
   Only statements closed by [exact], each followed by Print Assumptions. *)
From Coq Require Import List NArith Bool.
From Replicat Require Import Model.Crypto Model.Objects Proofs.CryptoProofs Proofs.RestoreIntegrity Gen.IntegrityFacts.
Import ListNotations.

(* B1: the verification steps the argument rests on are present in the source *)
Theorem C04_source_facts : src_facts = intended.
Proof. exact eq_refl. Qed.
Print Assumptions C04_source_facts.

(* B1: restore decrypts the object stored for digest d under the per-digest sub-key of the model *)
Theorem C04_chunk_key_tie : forall k d, gen_fetch_chunk_key k d = shared_subkey k d.
Proof. exact (fun k d => eq_refl). Qed.
Print Assumptions C04_chunk_key_tie.

(* for every store, every file a restore that returned normally wrote is a file of the unique
   snapshot contents that hash to the requested name, with exactly the recorded parts *)
Theorem C04_restore_authentic : forall m st target out,
  restore src_facts m st target = Ok out ->
  forall x, In x out -> exists a, authentic m target = Some a /\ In x a.
Proof. exact (fun m st target out => restore_authentic src_facts m st target out eq_refl eq_refl). Qed.
Print Assumptions C04_restore_authentic.

(* the same when the listing and the store disagree (objects changed or removed after the listing) *)
Theorem C04_restore_listed_authentic : forall m listing st target out,
  restore_listed src_facts m listing st target = Ok out ->
  forall x, In x out -> exists a, authentic m target = Some a /\ In x a.
Proof. exact (fun m listing st target out => restore_listed_authentic src_facts m listing st target out eq_refl eq_refl). Qed.
Print Assumptions C04_restore_listed_authentic.

(* a snapshot that was listed and is gone when it is downloaded fails the restore - it is not skipped *)
Theorem C04_vanished_snapshot_fails : forall m listing st name tag,
  In (name, tag) listing -> lookup st (LSnap name tag) = None ->
  (match m with Some k => tag = Mac (k_mac k) name | None => True end) ->
  exists e, restore_listed src_facts m listing st name = Err e.
Proof. exact (restore_listed_vanished_fails src_facts). Qed.
Print Assumptions C04_vanished_snapshot_fails.

(* hence two stores (the honest one and any damaged one) cannot both succeed with different files *)
Theorem C04_restore_store_independent : forall m st1 st2 target out1 out2,
  restore src_facts m st1 target = Ok out1 -> restore src_facts m st2 target = Ok out2 ->
  forall x1 x2, In x1 out1 -> In x2 out2 -> exists a, In x1 a /\ In x2 a /\ authentic m target = Some a.
Proof. exact (fun m st1 st2 target out1 out2 => restore_store_independent src_facts m st1 st2 target out1 out2 eq_refl eq_refl). Qed.
Print Assumptions C04_restore_store_independent.

(* what the name of an honestly written snapshot denotes: the files that were backed up *)
Theorem C04_authentic_of_snapshot : forall m n1 n2 chunks info files,
  Forall (refs_in_range (length chunks)) files ->
  authentic m (Hash (encrypt_body m n1 n2 (tlist (map Hash chunks)) (enc_data info files)))
  = Some (map (plain_file chunks) files).
Proof. exact authentic_of_snapshot. Qed.
Print Assumptions C04_authentic_of_snapshot.

(* the individual mechanisms *)
Theorem C04_chunk_rehash : forall m st d c, fetch_chunk src_facts m st d = Ok c -> d = Hash c.
Proof. exact (fun m st d c => fetch_chunk_sound src_facts m st d c eq_refl). Qed.
Print Assumptions C04_chunk_rehash.

(* per-digest key: another chunk's ciphertext fails authentication (even if the re-hash were absent) *)
Theorem C04_swapped_chunk_fails_auth : forall fc k st d n c',
  lookup st (chunk_loc (Some k) d) = Some (chunk_obj (Some k) n c') -> Hash c' <> d ->
  fetch_chunk fc (Some k) st d = Err DecryptFail.
Proof. exact swapped_chunk_fails_auth. Qed.
Print Assumptions C04_swapped_chunk_fails_auth.

Theorem C04_missing_chunk_fails : forall fc m st d, lookup st (chunk_loc m d) = None -> fetch_chunk fc m st d = Err Missing.
Proof. exact missing_chunk_fails. Qed.
Print Assumptions C04_missing_chunk_fails.

(* snapshot bytes under a name they do not hash to (damage, swap, replay) are rejected *)
Theorem C04_foreign_snapshot_contents_rejected : forall m st name tag c,
  lookup st (LSnap name tag) = Some c -> Hash c <> name ->
  (match m with Some k => tag = Mac (k_mac k) name | None => True end) ->
  load_one src_facts m st name tag = Err Corrupted.
Proof. exact (fun m st name tag c => load_one_foreign_contents_rejected src_facts m st name tag c eq_refl). Qed.
Print Assumptions C04_foreign_snapshot_contents_rejected.

(* encrypted: an object replayed under a name whose tag is not the MAC of the name is never read *)
Theorem C04_bad_tag_skipped : forall k st name tag,
  tag <> Mac (k_mac k) name -> load_one src_facts (Some k) st name tag = Ok None.
Proof. exact (fun k st name tag => load_one_bad_tag_skipped src_facts k st name tag eq_refl). Qed.
Print Assumptions C04_bad_tag_skipped.

(* ---------------------------------------------------------------- non-vacuity *)
Definition kr : keyring := {| k_shared := Bytes 1; k_salt := Bytes 2; k_mac := Bytes 3; k_user := Kdf (Bytes 4) (Bytes 5) |}.
Definition c1 := Bytes 100. Definition c2 := Bytes 101.
Definition f1 : file := {| f_path := Bytes 50; f_refs := [(0, 0, 10); (1, 0, 20)]%N; f_digest := Hash (Bytes 60); f_meta := Bytes 70 |}.
Definition snap (m : mode) : term := encrypt_body m 8 9 (tlist [Hash c1; Hash c2]) (enc_data (Bytes 80) [f1]).
Definition honest (m : mode) : store :=
  [ (chunk_loc m (Hash c1), chunk_obj m 6 c1); (chunk_loc m (Hash c2), chunk_obj m 7 c2); (snapshot_loc m (Hash (snap m)), snap m) ].
Definition expected := [(Bytes 50, [(c1, 0, 10); (c2, 0, 20)]%N)].

(* the honest store restores, encrypted and not *)
Example C04_honest_restores :
  restore src_facts (Some kr) (honest (Some kr)) (Hash (snap (Some kr))) = Ok expected /\
  restore src_facts None (honest None) (Hash (snap None)) = Ok expected.
Proof. split; vm_compute; reflexivity. Qed.

(* swapping the two chunk objects, garbage, deletion, snapshot under another name: all errors *)
Example C04_damaged_store_errors :
  let m := Some kr in
  let swap := [ (chunk_loc m (Hash c1), Some (chunk_obj m 7 c2)); (chunk_loc m (Hash c2), Some (chunk_obj m 6 c1)) ] in
  restore src_facts m (apply_mods (honest m) swap) (Hash (snap m)) = Err DecryptFail /\
  restore src_facts None (apply_mods (honest None) [ (chunk_loc None (Hash c1), Some c2) ]) (Hash (snap None)) = Err Corrupted /\
  restore src_facts m (apply_mods (honest m) [ (chunk_loc m (Hash c2), Some (Garbage 1)) ]) (Hash (snap m)) = Err DecryptFail /\
  restore src_facts m (apply_mods (honest m) [ (chunk_loc m (Hash c2), None) ]) (Hash (snap m)) = Err Missing /\
  restore src_facts m (apply_mods (honest m) [ (snapshot_loc m (Hash (snap m)), Some (Garbage 2)) ]) (Hash (snap m)) = Err Corrupted /\
  restore src_facts m (apply_mods (honest m) [ (snapshot_loc m (Hash (snap m)), None) ]) (Hash (snap m)) = Ok [].
Proof. vm_compute. repeat split. Qed.

(* the re-hash is load-bearing: without it an unencrypted store with one substituted chunk restores
   different bytes and reports success *)
Example C04_without_rehash_refuted :
  let fc := {| f_rehash_chunk := false; f_verify_snapshot := true; f_check_tag := true |} in
  restore fc None (apply_mods (honest None) [ (chunk_loc None (Hash c1), Some c2) ]) (Hash (snap None))
  = Ok [(Bytes 50, [(c2, 0, 10); (c2, 0, 20)]%N)].
Proof. vm_compute. reflexivity. Qed.
