(* C05 - an encrypted repository reveals no plaintext at rest: the SYMBOLIC statement.
   [leaks sa t]: a secret (a secret atom, its digest, a key derived from a secret password or master
   key) occurs in t outside every Enc body / Mac message under a hidden key and outside hidden key
   positions.  Proved: nothing that init / add-key / snapshot / delete / clean send to the backend,
   write into a key file or print exposes a secret, for ALL file trees, notes, paths, metadata and
   digests (arbitrary terms); every encryption takes its own nonce.
   NOT reachable by this technique and not claimed: indistinguishability of the ciphertexts, quality of
   os.urandom, lengths/timing/access patterns.  Only [exact] + Print Assumptions here. *)
From Coq Require Import List NArith Bool.
From Replicat Require Import Model.Crypto Model.Objects Model.Emit Proofs.CryptoProofs Proofs.SecrecyProofs Gen.ObjTerms.
Import ListNotations.

(* ---------------------------------------------------------------- B1: the model's terms are the source's *)
Theorem C05_snapshot_body_tie :
  (forall k n1 n2 table data, gen_encrypt_body_enc k n1 n2 table data = encrypt_body (Some k) n1 n2 table data) /\
  (forall n1 n2 table data, gen_encrypt_body_plain table data = encrypt_body None n1 n2 table data).
Proof. exact (conj (fun k n1 n2 table data => eq_refl) (fun n1 n2 table data => eq_refl)). Qed.
Print Assumptions C05_snapshot_body_tie.

Theorem C05_names_tie :
  (forall k d, gen_chunk_name_enc k d = chunk_name_parts (Some k) d) /\ (forall d, gen_chunk_name_plain d = chunk_name_parts None d) /\
  (forall k d, gen_snapshot_name_enc k d = snapshot_name_parts (Some k) d) /\ (forall d, gen_snapshot_name_plain d = snapshot_name_parts None d).
Proof. exact (conj (fun k d => eq_refl) (conj (fun d => eq_refl) (conj (fun k d => eq_refl) (fun d => eq_refl)))). Qed.
Print Assumptions C05_names_tie.

Theorem C05_chunk_object_tie :
  (forall k n c, gen_chunk_obj_enc k n c = chunk_obj (Some k) n c) /\ (forall n c, gen_chunk_obj_plain c = chunk_obj None n c).
Proof. exact (conj (fun k n c => eq_refl) (fun n c => eq_refl)). Qed.
Print Assumptions C05_chunk_object_tie.

(* reading side: the chunk table opens under the shared sub-key of Hash(data ciphertext), the data
   under the user key, and only a failure of the latter is tolerated *)
Theorem C05_decrypt_keys_tie :
  (forall k ec ed, gen_dec_chunks_key k ec ed = shared_subkey k (Hash ed)) /\ (forall k ec ed, gen_dec_data_key k ec ed = k_user k) /\
  gen_dec_chunks_failure_tolerated = false /\ gen_dec_data_failure_tolerated = true.
Proof. exact (conj (fun k ec ed => eq_refl) (conj (fun k ec ed => eq_refl) (conj eq_refl eq_refl))). Qed.
Print Assumptions C05_decrypt_keys_tie.

Theorem C05_source_facts :
  encrypt_draws_fresh_nonce = true /\ nonce_is_prefix_of_ciphertext = true /\ key_private_encrypted_before_output = true.
Proof. exact (conj eq_refl (conj eq_refl eq_refl)). Qed.
Print Assumptions C05_source_facts.

(* ---------------------------------------------------------------- A: the symbolic statement *)
(* for every choice of which atoms are secret such that shared key, MAC key and passwords are secret and
   config / KDF settings / user salt carry no secret: no emitted term or name exposes a secret *)
Theorem C05_no_leak : forall sa p n t, Forall (cmd_ok sa) p -> In t (emitted_terms n p) -> leaks sa t = false.
Proof. exact no_leak. Qed.
Print Assumptions C05_no_leak.

(* chunk names are Mac / Mac o Mac of the digest; the snapshot name is the hash of the ciphertext *)
Theorem C05_name_shapes : forall f u c n chunks info files,
  chunk_loc (Some (keyring_of f u)) (Hash c) = LChunk (Mac (fm_mac f) (Hash c)) (Mac (fm_mac f) (Mac (fm_mac f) (Hash c))) /\
  (let obj := snapshot_obj (Some (keyring_of f u)) n chunks info files in
   snapshot_loc (Some (keyring_of f u)) (Hash obj) = LSnap (Hash obj) (Mac (fm_mac f) (Hash obj)) /\
   exists k1 n1 t1 k2 n2 t2, obj = Pair (Enc k1 n1 t1) (Enc k2 n2 t2)).
Proof. exact name_shapes. Qed.
Print Assumptions C05_name_shapes.

(* each encryption takes a distinct element of the nonce supply ... *)
Theorem C05_nonces_distinct : forall p n, NoDup (map op_nonce (enc_ops n p)).
Proof. exact nonces_distinct. Qed.
Print Assumptions C05_nonces_distinct.

(* ... and every ciphertext occurring anywhere in what init / add-key / snapshot emit is one of these
   encryptions, so two ciphertexts with the same nonce are the same ciphertext *)
Theorem C05_nonce_determines_ciphertext : forall p n t1 t2 e1 e2, Forall cmd_encfree p ->
  In t1 (emitted_terms n p) -> In t2 (emitted_terms n p) -> In e1 (enc_nodes t1) -> In e2 (enc_nodes t2) ->
  op_nonce e1 = op_nonce e2 -> e1 = e2.
Proof. exact nonce_determines_ciphertext. Qed.
Print Assumptions C05_nonce_determines_ciphertext.

(* ---------------------------------------------------------------- non-vacuity *)
Definition fam : family := {| fm_shared := Bytes 1; fm_salt := Bytes 2; fm_mac := Bytes 3; fm_chunker := Bytes 6;
                              fm_shared_kdf_cfg := Bytes 60001; fm_mac_cfg := Bytes 60002 |}.
Definition usr : user := {| u_pw := Bytes 4; u_salt := Bytes 5; u_kdf_cfg := Bytes 60003 |}.
Definition secret (i : N) : bool := (N.ltb i 5) || (N.eqb i 6) || (N.leb 1000 i && N.ltb i 60000).   (* keys, password, all data atoms *)
Definition fl : file := {| f_path := Bytes 20001; f_refs := [(0, 0, 64); (1, 0, 10)]%N; f_digest := Hash (Bytes 30001); f_meta := Bytes 40001 |}.
Definition prog : list cmd :=
  [ CInit (Bytes 60000) fam usr true; CAddKey fam {| u_pw := Bytes 14; u_salt := Bytes 15; u_kdf_cfg := Bytes 60003 |} false;
    CSnapshot fam usr [Bytes 1001; Bytes 1002] (Bytes 50001) [fl];
    CDelete fam usr [Hash (snapshot_obj (Some (keyring_of fam usr)) 2 [Bytes 1001; Bytes 1002] (Bytes 50001) [fl])] [Hash (Bytes 1001)];
    CClean fam usr ].

Definition secret' (i : N) : bool := secret i || N.eqb i 14.

Example C05_hypotheses_satisfiable : Forall (cmd_ok secret') prog /\ length (emitted_terms 0 prog) = 21%nat.
Proof.
  split; [|reflexivity]. unfold prog.
  repeat apply Forall_cons; try apply Forall_nil; cbn [cmd_ok]; unfold fam_ok, user_ok; repeat split;
    try (vm_compute; reflexivity).
  apply Forall_cons; [vm_compute; reflexivity | apply Forall_nil].
Qed.

Example C05_demo_no_leak : forallb (fun t => negb (leaks secret' t)) (emitted_terms 0 prog) = true.
Proof. vm_compute. reflexivity. Qed.

(* the predicate is not trivially false: the same snapshot in an UNENCRYPTED repository exposes file
   bytes, digests, paths; a chunk named by its plain digest exposes the digest; a nonce-reusing or
   wrongly keyed variant is also flagged *)
Example C05_plain_repository_leaks :
  existsb (leaks secret) (flat_map item_terms (emit_snapshot_plain [Bytes 1001; Bytes 1002] (Bytes 50001) [fl])) = true /\
  leaks secret (Hash (Bytes 1001)) = true /\
  leaks secret (Enc (Derive (Bytes 60000) (Bytes 2) (Hash (Bytes 1001))) 0 (Bytes 1001)) = true /\
  leaks secret (Mac (Bytes 3) (Hash (Bytes 1001))) = false.
Proof. vm_compute. repeat split. Qed.
