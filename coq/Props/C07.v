(* C07 - identical data is stored once. *)
From Coq Require Import List Arith Bool.
From Coq Require Import String NArith.
From Replicat Require Model.Chunker Proofs.ChunkerProofs.
From Replicat Require Import Model.Repo Proofs.RepoProofs Proofs.RepoTie Gen.RepoFacts Model.Dedup Proofs.RoundTrip.
From Replicat Require Import Lib.PyStr Model.Location Proofs.LocationProofs Proofs.FamiliesDisjoint.
Import ListNotations.

(* for crash-free histories of snapshot/delete/clean by any users, the chunk objects are exactly
   the chunks referenced by the remaining snapshots of their family, each stored once *)
Theorem C07_objects_eq_referenced : forall ops, Exact (run ops empty_store).
Proof. exact (fun ops => run_Exact ops empty_store empty_Exact). Qed.
Print Assumptions C07_objects_eq_referenced.

Theorem C07_exact_preserved : forall st o, Exact st -> Exact (fst (exec st o)).
Proof. exact exec_Exact. Qed.
Print Assumptions C07_exact_preserved.

(* unchanged data transfers no chunk payload, also for another user of the same family *)
Theorem C07_repeat_uploads_nothing : forall st u f id tab u' id',
  missing f tab (chunks (fst (exec st (OSnap u f id tab)))) = [] /\
  chunks (fst (exec (fst (exec st (OSnap u f id tab))) (OSnap u' f id' tab))) = chunks (fst (exec st (OSnap u f id tab))).
Proof. exact repeat_uploads_nothing. Qed.
Print Assumptions C07_repeat_uploads_nothing.

Theorem C07_present_uploads_nothing : forall f tab cs, (forall d, In d tab -> In (f, d) cs) -> missing f tab cs = [].
Proof. exact present_uploads_nothing. Qed.
Print Assumptions C07_present_uploads_nothing.

(* "a snapshot of unchanged data transfers no chunk payload" starts at the chunker: the chunk sequence of a stream is a function of the
   stream, the key (inside [hash]) and the chunk lengths only - not of what lies in memory behind a chunking buffer ([junk], one value
   per call of the native scan, arbitrary) - so the second snapshot of the same files names the same chunks, which are present
   (C07_present_uploads_nothing).  Same pieces here; for other read-piece boundaries the head outside the last 2*max bytes is shared
   (C10_bounds_and_segmentation). *)
Theorem C07_unchanged_stream_same_chunks : forall {B : Type} (hash : list B -> N) mn mx, 1 <= mn -> Chunker.align4 mn <= mx -> forall pieces j1 j2,
  Chunker.chunkify hash mn mx pieces j1 = Chunker.chunkify hash mn mx pieces j2.
Proof. exact (fun B hash mn mx H1 H2 => ChunkerProofs.junk_independent hash mn mx H1 H2). Qed.
Print Assumptions C07_unchanged_stream_same_chunks.

(* within one snapshot every distinct digest has one table entry *)
Theorem C07_table_once : forall {D} (deqb : D -> D -> bool), (forall x y, deqb x y = true <-> x = y) ->
  forall ds, NoDup (table_of deqb ds) /\ (forall d, In d (table_of deqb ds) <-> In d ds).
Proof. exact (fun D deqb H => table_spec deqb H). Qed.
Print Assumptions C07_table_once.

(* users of independent keys never alias each other's objects: two chunk storage names coincide only for
   the same MAC key (= key family) and the same digest, for a MAC injective in (key, message) *)
Theorem C07_families_disjoint : forall {B K} (mac2 : K -> B -> B) (hex : B -> string),
  (forall b, hexs (hex b)) -> (forall b, 4 <= String.length (hex b)) -> (forall a b, hex a = hex b -> a = b) ->
  (forall k1 k2 a b, mac2 k1 a = mac2 k2 b -> k1 = k2 /\ a = b) ->
  forall k1 k2 d1 d2, chunk_location (mac2 k1) hex true d1 = chunk_location (mac2 k2) hex true d2 -> k1 = k2 /\ d1 = d2.
Proof. exact (fun B K => @families_disjoint B K). Qed.
Print Assumptions C07_families_disjoint.

Theorem C07_source_facts : fact_worker_checks_then_uploads_then_records && fact_snapshot_object_uploaded_last && fact_snapshot_table_is_chunk_table = true.
Proof. exact fact_snapshot_order. Qed.
Print Assumptions C07_source_facts.

Example C07_concrete :
  let st := run [OSnap 1 0 100 [5;6;5]; OSnap 2 0 101 [6;5;8]; OSnap 9 7 102 [5]] empty_store in
  chunks st = [(0,6); (0,5); (0,8); (7,5)].
Proof. vm_compute. reflexivity. Qed.
