(* C07 - identical data is stored once. *)
From Coq Require Import List Arith Bool.
From Replicat Require Import Model.Repo Proofs.RepoProofs Proofs.RepoTie Gen.RepoFacts Model.Dedup Proofs.RoundTrip.
Import ListNotations.

(* for crash-free histories of snapshot/delete/clean by any users, the chunk objects are exactly
   the chunks referenced by the remaining snapshots of their family, each stored once *)
Theorem C07_objects_eq_referenced : forall ops, Exact (run ops empty_store).
Proof. exact (fun ops => run_Exact ops empty_store empty_Exact). Qed.
Print Assumptions C07_objects_eq_referenced.

Theorem C07_exact_preserved : forall st o, Exact st -> Exact (fst (exec st o)).
Proof. exact exec_Exact. Qed.
Print Assumptions C07_exact_preserved.

(* unchanged data transfers no chunk payload, also for another user of the same family *)
Theorem C07_repeat_uploads_nothing : forall st u f id tab u' id',
  missing f tab (chunks (fst (exec st (OSnap u f id tab)))) = [] /\
  chunks (fst (exec (fst (exec st (OSnap u f id tab))) (OSnap u' f id' tab))) = chunks (fst (exec st (OSnap u f id tab))).
Proof. exact repeat_uploads_nothing. Qed.
Print Assumptions C07_repeat_uploads_nothing.

Theorem C07_present_uploads_nothing : forall f tab cs, (forall d, In d tab -> In (f, d) cs) -> missing f tab cs = [].
Proof. exact present_uploads_nothing. Qed.
Print Assumptions C07_present_uploads_nothing.

(* within one snapshot every distinct digest has one table entry *)
Theorem C07_table_once : forall {D} (deqb : D -> D -> bool), (forall x y, deqb x y = true <-> x = y) ->
  forall ds, NoDup (table_of deqb ds) /\ (forall d, In d (table_of deqb ds) <-> In d ds).
Proof. exact (fun D deqb H => table_spec deqb H). Qed.
Print Assumptions C07_table_once.

Theorem C07_source_facts : fact_worker_checks_then_uploads_then_records && fact_snapshot_object_uploaded_last && fact_snapshot_table_is_chunk_table = true.
Proof. exact fact_snapshot_order. Qed.
Print Assumptions C07_source_facts.

Example C07_concrete :
  let st := run [OSnap 1 0 100 [5;6;5]; OSnap 2 0 101 [6;5;8]; OSnap 9 7 102 [5]] empty_store in
  chunks st = [(0,6); (0,5); (0,8); (7,5)].
Proof. vm_compute. reflexivity. Qed.
