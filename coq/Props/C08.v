(* C08 - garbage collection is complete and confined to the caller's own data. *)
From Coq Require Import List Arith Bool.
From Replicat Require Import Model.Repo Proofs.RepoProofs Proofs.RepoTie Gen.RepoFacts.
Import ListNotations.

(* delete, when it completes: a chunk object is removed iff it is of the caller's family, referenced by
   a deleted snapshot and by no remaining snapshot of the family; the snapshot objects removed are
   exactly the named ones; everything else is unchanged *)
Theorem C08_delete_effect : forall st u f ids st', exec st (ODel u f ids) = (st', true) ->
  (forall c, In c (chunks st') <->
     In c (chunks st) /\
     ~ (fst c = f /\ (exists s, In s (snaps st) /\ s_fam s = f /\ In (s_id s) ids /\ In (snd c) (s_tab s)) /\
        ~ (exists s, In s (snaps st) /\ s_fam s = f /\ ~ In (s_id s) ids /\ In (snd c) (s_tab s)))) /\
  (forall s, In s (snaps st') <-> In s (snaps st) /\ ~ (s_fam s = f /\ In (s_id s) ids)) /\
  (forall id, In id ids -> exists s, In s (snaps st) /\ s_id s = id /\ s_fam s = f /\ s_usr s = u).
Proof. exact delete_effect. Qed.
Print Assumptions C08_delete_effect.

(* clean, when it completes: the family's chunk objects are exactly the referenced ones *)
Theorem C08_clean_exact : forall st f, Inv st ->
  forall d, In (f, d) (chunks (fst (exec st (OClean f)))) <-> exists s, In s (snaps st) /\ s_fam s = f /\ In d (s_tab s).
Proof. exact clean_exact. Qed.
Print Assumptions C08_clean_exact.

(* confinement *)
Theorem C08_confined_chunks : forall st o f' c,
  (match o with ODel _ f _ => f <> f' | OClean f => f <> f' | OSnap _ _ _ _ => False end) ->
  fst c = f' -> (In c (chunks (fst (exec st o))) <-> In c (chunks st)).
Proof. exact gc_confined. Qed.
Theorem C08_confined_snaps : forall st o f' s,
  (match o with ODel _ f _ => f <> f' | OClean _ => True | OSnap _ _ _ _ => False end) ->
  s_fam s = f' -> (In s (snaps (fst (exec st o))) <-> In s (snaps st)).
Proof. exact gc_confined_snaps. Qed.
Print Assumptions C08_confined_chunks.
Print Assumptions C08_confined_snaps.

(* also from states with orphans left by interrupted commands *)
Theorem C08_clean_after_any_history : forall st g f, Inv st -> reachable (quiescent st) g ->
  Inv (fst (exec (g_st g) (OClean f))) /\
  forall d, In (f, d) (chunks (fst (exec (g_st g) (OClean f)))) <-> exists s, In s (snaps (g_st g)) /\ s_fam s = f /\ In d (s_tab s).
Proof. exact clean_after_any_history. Qed.
Print Assumptions C08_clean_after_any_history.

Theorem C08_source_facts :
  (fact_delete_keeps_chunks_of_all_other_loaded_snapshots && fact_delete_refuses_before_mutating && fact_delete_snapshots_then_chunks = true) /\
  (fact_clean_loads_then_lists_then_checks_tag && fact_load_skips_foreign_tags = true).
Proof. exact (conj fact_delete_shape fact_clean_shape). Qed.
Print Assumptions C08_source_facts.

Example C08_concrete :
  let st := {| chunks := [(0,5); (0,6); (0,8); (0,77); (7,5); (7,66)];
               snaps := [ {| s_id := 100; s_fam := 0; s_usr := 1; s_tab := [5;6] |};
                          {| s_id := 101; s_fam := 0; s_usr := 2; s_tab := [5;8] |};
                          {| s_id := 102; s_fam := 7; s_usr := 9; s_tab := [5] |} ] |} in
  chunks (fst (exec st (ODel 1 0 [100]))) = [(0,5); (0,8); (0,77); (7,5); (7,66)] /\
  chunks (fst (exec st (OClean 0))) = [(0,5); (0,6); (0,8); (7,5); (7,66)].
Proof. vm_compute. split; reflexivity. Qed.
