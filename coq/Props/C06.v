(* C06 - access rights follow key relationships (layer 1: family = shared secrets, usr = user key). *)
From Coq Require Import List Arith Bool.
From Replicat Require Import Model.Repo Proofs.RepoProofs Proofs.RepoTie Gen.RepoFacts.
Import ListNotations.

(* delete refuses and changes nothing unless every named snapshot is of the caller's family AND was
   written under the caller's own user key *)
Theorem C06_delete_refuses : forall st u f ids,
  (exists id, In id ids /\ ~ exists s, In s (snaps st) /\ s_id s = id /\ s_fam s = f /\ s_usr s = u) ->
  exec st (ODel u f ids) = (st, false).
Proof. exact delete_refuses. Qed.
Print Assumptions C06_delete_refuses.

(* a successful delete named only the caller's own snapshots *)
Theorem C06_delete_only_own : forall st u f ids st', exec st (ODel u f ids) = (st', true) ->
  forall id, In id ids -> exists s, In s (snaps st) /\ s_id s = id /\ s_fam s = f /\ s_usr s = u.
Proof. exact (fun st u f ids st' H => proj2 (proj2 (delete_effect st u f ids st' H))). Qed.
Print Assumptions C06_delete_only_own.

(* neither delete nor clean of one family removes a chunk or a snapshot of another family *)
Theorem C06_gc_confined_chunks : forall st o f' c,
  (match o with ODel _ f _ => f <> f' | OClean f => f <> f' | OSnap _ _ _ _ => False end) ->
  fst c = f' -> (In c (chunks (fst (exec st o))) <-> In c (chunks st)).
Proof. exact gc_confined. Qed.
Theorem C06_gc_confined_snaps : forall st o f' s,
  (match o with ODel _ f _ => f <> f' | OClean _ => True | OSnap _ _ _ _ => False end) ->
  s_fam s = f' -> (In s (snaps (fst (exec st o))) <-> In s (snaps st)).
Proof. exact gc_confined_snaps. Qed.
Print Assumptions C06_gc_confined_chunks.
Print Assumptions C06_gc_confined_snaps.

(* a shared-key user's delete never removes a chunk another user of the family still references *)
Theorem C06_shared_chunks_protected : forall ops st, Inv st -> Inv (run ops st).
Proof. exact run_Inv. Qed.
Print Assumptions C06_shared_chunks_protected.

(* deduplication across shared keys: the second user of the family uploads nothing for chunks present *)
Theorem C06_shared_dedup : forall f tab cs, (forall d, In d tab -> In (f, d) cs) -> missing f tab cs = [].
Proof. exact present_uploads_nothing. Qed.
Print Assumptions C06_shared_dedup.

Theorem C06_visibility_facts : fact_load_skips_foreign_tags && fact_unreadable_data_is_none = true.
Proof. exact fact_visibility. Qed.
Print Assumptions C06_visibility_facts.

Example C06_concrete :
  let st := run [OSnap 1 0 100 [5;6]; OSnap 2 0 101 [5;8]; OSnap 9 7 102 [5]] empty_store in
  exec st (ODel 2 0 [100]) = (st, false) /\ exec st (ODel 9 7 [100]) = (st, false) /\
  exec st (ODel 1 0 [100; 102]) = (st, false) /\ snd (exec st (ODel 1 0 [100])) = true /\
  missing 0 [5;8] (chunks st) = [] /\ missing 7 [5;8] (chunks st) = [8].
Proof. vm_compute. repeat split. Qed.
