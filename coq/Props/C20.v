(* C20 - the bandwidth limit is respected in every window up to a fixed burst, and the limiter is
   transparent to the data.  Only statements closed by [exact], each followed by Print Assumptions.
   The model (Model/RateLimit.v) is tied to the source by Proofs/RateLimitTie.v (Gen = Model by
   reflexivity; constants and the chunk-size formula at the rate-limited sites as source facts). *)
From Coq Require Import QArith Lqa List Bool ZArith String.
From Replicat Require Import Gen.RateLimitGen Model.RateLimit Proofs.RateLimitProofs Proofs.RateLimitTie Proofs.RateLimitMulti Proofs.RateLimitMultiBound.
Import ListNotations.
Open Scope Q_scope.

(* B1 ties restated (a changed source definition breaks these named statements) *)
Theorem C20_tie_pause : RateLimitGen.pause_reads = RateLimit.pause /\ RateLimitGen.pause_writes = RateLimit.pause.
Proof. exact (conj gen_pause_reads_eq gen_pause_writes_eq). Qed.
Print Assumptions C20_tie_pause.

Theorem C20_tie_wrapper :
  @RateLimitGen.wrapper_read = @RateLimit.wrapper_read /\ @RateLimitGen.wrapper_write = @RateLimit.wrapper_write /\
  @RateLimitGen.wrapper_seek = @RateLimit.wrapper_passthrough /\ @RateLimitGen.wrapper_tell = @RateLimit.wrapper_passthrough /\
  @RateLimitGen.wrapper_truncate = @RateLimit.wrapper_passthrough.
Proof. exact (conj gen_wrapper_read_eq (conj gen_wrapper_write_eq (conj gen_wrapper_seek_eq (conj gen_wrapper_tell_eq gen_wrapper_truncate_eq)))). Qed.
Print Assumptions C20_tie_wrapper.

(* source constants: PAUSE_THRESHOLD_SECONDS + 1/4 <= PAUSE_LIMIT *)
Theorem C20_source_constants : 0 <= PAUSE_THRESHOLD_SECONDS /\ PAUSE_THRESHOLD_SECONDS + (1 # 4) <= PAUSE_LIMIT.
Proof. exact src_threshold_plus_quarter_le_limit. Qed.
Print Assumptions C20_source_constants.

(* every rate-limited site divides by at least 4 (in fact 16) times the concurrency *)
Theorem C20_source_sites : Forall (fun s => (4 <= snd s)%Z) rate_limited_sites /\ rate_limited_sites <> [].
Proof. exact src_sites_divisor. Qed.
Print Assumptions C20_source_sites.

(* every rate-limited site hands the backend a stream wrapped by the limiter whenever a limiter exists (no other condition) *)
Theorem C20_source_sites_wrap : rate_limited_sites_wrap_unconditionally = true.
Proof. exact gen_sites_wrap_unconditionally. Qed.
Print Assumptions C20_source_sites_wrap.

(* one stream; limit L > 0; sizes 0 <= d <= dmax <= L*quarter where TH + quarter <= PL (quarter = 1/4 for
   the source constants); any caller gaps and underlying latencies >= 0; over-sleep of time.sleep in [0, O]:
   the bytes whose passing instant lies in any window [t, t+T] are at most L*T + L*PL + dmax + L*O *)
Theorem C20_single_stream_window_bound : forall PL TH L quarter O dmax cs t T,
  0 <= TH -> TH + quarter <= PL -> 0 <= O -> 0 < L -> 0 <= dmax -> dmax <= L * quarter ->
  Forall (size_ok dmax) cs -> Forall (env_ok O) cs -> 0 <= T ->
  window_bytes t T (run PL TH L 0 0 cs) <= L * T + L * PL + dmax + L * O.
Proof. exact single_stream_window_bound. Qed.
Print Assumptions C20_single_stream_window_bound.

(* the same at the source's constants and chunk size max(L // (n*div), 1) of any recognised site, exact sleep *)
Theorem C20_window_bound_at_sites : forall site L n cs t T,
  In site rate_limited_sites -> (4 <= L)%Z -> (1 <= n)%Z ->
  let dmax := inject_Z (site_chunk L n (snd site)) in
  Forall (size_ok dmax) cs -> Forall (env_ok 0) cs -> 0 <= T ->
  window_bytes t T (run PAUSE_LIMIT PAUSE_THRESHOLD_SECONDS (inject_Z L) 0 0 cs)
    <= inject_Z L * T + inject_Z L * PAUSE_LIMIT + dmax.
Proof. exact window_bound_at_sites. Qed.
Print Assumptions C20_window_bound_at_sites.

(* the cap at PAUSE_LIMIT never fires: no debt is ever forgiven *)
Theorem C20_cap_never_fires : forall PL TH L quarter O dmax cs,
  0 <= TH -> TH + quarter <= PL -> 0 < L -> dmax <= L * quarter ->
  Forall (size_ok dmax) cs -> Forall (env_ok O) cs ->
  run PL TH L 0 0 cs = run_nocap TH L 0 0 cs.
Proof. exact cap_never_fires. Qed.
Print Assumptions C20_cap_never_fires.

(* transparency: any op sequence through the wrapper returns exactly what the bare stream returns
   and leaves it in the same state, for every underlying stream behaviour *)
Theorem C20_wrapper_transparent : forall (F A D S R : Type)
  (file_read : F -> A -> D * F) (file_write : F -> D -> Q * F) (file_seek : F -> S -> R * F)
  (file_tell : F -> unit -> R * F) (file_truncate : F -> S -> R * F) (len : D -> Q) p os st file,
  run_wrapped file_read file_write file_seek file_tell file_truncate len p st file os
  = run_raw file_read file_write file_seek file_tell file_truncate file (map fst os).
Proof. exact (@wrapper_transparent). Qed.
Print Assumptions C20_wrapper_transparent.

(* several streams (thread ids < n) on one limiter, every underlying call of zero latency (the in-memory payloads of
   snapshot and restore), any valid lock order, exact sleep: bytes in any window <= L*T + L*PL + (n+1)*dmax.
   This is the multi-stream statement with the finding's inputs (slow overlapping I/O) excluded by m_lat == 0. *)
Theorem C20_multi_stream_window_bound_partial : forall PL TH L quarter dmax (n : nat) cs t T,
  0 <= TH -> TH + quarter <= PL -> 0 < L -> 0 <= dmax -> dmax <= L * quarter ->
  Forall (msize_in dmax) cs -> Forall (fun c => m_lat c == 0) cs -> Forall (fun c => (m_thread c < n)%nat) cs ->
  mvalid PL TH L mstate0 cs = true -> 0 <= T ->
  window_bytes t T (mrun PL TH L mstate0 cs) <= L * T + L * PL + (inject_Z (Z.of_nat n) + 1) * dmax.
Proof. exact multi_stream_window_bound. Qed.
Print Assumptions C20_multi_stream_window_bound_partial.

(* several streams whose underlying I/O is slow and overlaps: the bound fails (known finding) *)
Theorem C20_multi_stream_slow_io_refuted :
  exists (PL TH L dmax T t : Q) (n : nat) (cs : list mcall),
    TH + (1 # 4) <= PL /\ 0 < L /\ dmax <= L * (1 # 4) /\ 0 <= T /\
    mvalid PL TH L mstate0 cs = true /\ forallb (msize_ok dmax) cs = true /\
    forallb (fun c => Nat.ltb (m_thread c) n) cs = true /\
    ~ window_bytes t T (mrun PL TH L mstate0 cs) <= L * T + L * PL + (inject_Z (Z.of_nat n) + 1) * dmax.
Proof. exact multi_stream_slow_io_refuted. Qed.
Print Assumptions C20_multi_stream_slow_io_refuted.

(* non-vacuity: a run that sleeps, and one window that comes close to the bound *)
Definition demo_calls : list call :=
  [ {| c_gap := 0; c_size := 256; c_lat := 1 # 4; c_over := 0 |};
    {| c_gap := 0; c_size := 256; c_lat := 0; c_over := 0 |};
    {| c_gap := 0; c_size := 256; c_lat := 0; c_over := 0 |};
    {| c_gap := 0; c_size := 100; c_lat := 0; c_over := 0 |} ].
Example C20_demo_run :
  map (fun ev => (Qred (ev_time ev), Qred (ev_sleep ev), Qred (ev_debt ev))) (run PAUSE_LIMIT PAUSE_THRESHOLD_SECONDS 1024 0 0 demo_calls)
  = [ (1 # 4, 0, 0); (1 # 4, 0, 1 # 4); (1 # 4, 1 # 2, 0); (3 # 4, 0, 25 # 256) ]
  /\ window_bytes (1 # 4) 0 (run PAUSE_LIMIT PAUSE_THRESHOLD_SECONDS 1024 0 0 demo_calls) == 768
  /\ Forall (size_ok 256) demo_calls /\ Forall (env_ok 0) demo_calls.
Proof.
  split; [vm_compute; reflexivity|]. split; [vm_compute; reflexivity|].
  split; repeat constructor; cbn; try (apply Qle_bool_iff; reflexivity).
Qed.

(* non-vacuity of the multi-stream hypotheses: two threads, zero latency, a valid lock order in which thread 1 waits
   for the lock while thread 0 sleeps *)
Definition demo_mcalls : list mcall :=
  [ {| m_thread := 0; m_begin := 0; m_lat := 0; m_size := 32; m_lock := 0 |};
    {| m_thread := 1; m_begin := 0; m_lat := 0; m_size := 32; m_lock := 0 |};
    {| m_thread := 0; m_begin := 0; m_lat := 0; m_size := 32; m_lock := 0 |};
    {| m_thread := 1; m_begin := 0; m_lat := 0; m_size := 32; m_lock := 0 |};
    {| m_thread := 0; m_begin := 0; m_lat := 0; m_size := 32; m_lock := 0 |};
    {| m_thread := 1; m_begin := 0; m_lat := 0; m_size := 32; m_lock := 0 |};
    {| m_thread := 0; m_begin := 0; m_lat := 0; m_size := 32; m_lock := 0 |};
    {| m_thread := 1; m_begin := 0; m_lat := 0; m_size := 32; m_lock := 0 |};
    {| m_thread := 0; m_begin := 0; m_lat := 0; m_size := 32; m_lock := 0 |};
    {| m_thread := 1; m_begin := 9 # 32; m_lat := 0; m_size := 32; m_lock := 9 # 32 |} ].
Example C20_demo_multi :
  mvalid PAUSE_LIMIT PAUSE_THRESHOLD_SECONDS 1024 mstate0 demo_mcalls = true
  /\ map (fun ev => Qred (ev_sleep ev)) (mrun PAUSE_LIMIT PAUSE_THRESHOLD_SECONDS 1024 mstate0 demo_mcalls)
     = [0; 0; 0; 0; 0; 0; 0; 0; 9 # 32; 0]
  /\ window_bytes 0 0 (mrun PAUSE_LIMIT PAUSE_THRESHOLD_SECONDS 1024 mstate0 demo_mcalls) == 288.
Proof. split; [vm_compute; reflexivity|]. split; vm_compute; reflexivity. Qed.
