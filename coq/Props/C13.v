(* C13 - all backends behave as the same simple object store.
   Only statements closed by [exact], each followed by Print Assumptions.
   Models: Model/Store.v (specification), Model/S3Proto.v, Model/B2Proto.v, Model/LocalFs.v.
   Proofs: Proofs/StoreProofs.v, S3ProtoProofs.v, B2ProtoProofs.v, LocalFsProofs.v, LocalRefine.v. *)
From Coq Require Import List NArith Arith Bool String.
From Replicat Require Import Model.Store Model.S3Proto Model.B2Proto Model.LocalFs.
From Replicat Require Import Proofs.StoreProofs Proofs.S3ProtoProofs Proofs.B2ProtoProofs Proofs.LocalFsProofs Proofs.LocalRefine.
From Replicat Require Gen.C13Facts.
Import ListNotations.

(* ---- B1: the source facts the models are built on (regenerated from the working tree) *)
Theorem C13_source_facts_local :
  C13Facts.local_tmp_suffix = tmp_suffix /\ C13Facts.local_list_suffix_filter = tmp_suffix /\
  C13Facts.local_tmp_in_parent = true /\ C13Facts.local_mkdir_parents = true /\
  C13Facts.local_temp_then_replace = true /\ C13Facts.local_destination_only_renamed_onto = true /\
  C13Facts.local_download_size_of_open_file = true /\ C13Facts.local_download_reads_whole_file = true /\
  C13Facts.local_delete_missing_ok = true /\
  C13Facts.local_exists_is_path_exists = true /\ C13Facts.local_list_empty_only_when_missing = true /\
  C13Facts.local_list_split = true /\ C13Facts.local_list_slice_by_scanned_dir = true /\
  C13Facts.local_list_first_level_filter = true.
Proof. exact (conj eq_refl (conj eq_refl (conj eq_refl (conj eq_refl (conj eq_refl (conj eq_refl (conj eq_refl (conj eq_refl (conj eq_refl
             (conj eq_refl (conj eq_refl (conj eq_refl (conj eq_refl eq_refl))))))))))))). Qed.
Print Assumptions C13_source_facts_local.

Theorem C13_source_facts_services :
  C13Facts.s3_list_loop = true /\ C13Facts.s3_list_request = true /\ C13Facts.s3_exists_404_false = true /\
  C13Facts.s3_object_requests = true /\
  C13Facts.b2_hide_tolerated = ["already_hidden"; "no_such_file"]%string /\ C13Facts.b2_delete_is_hide = true /\
  C13Facts.b2_list_loop = true /\ C13Facts.b2_list_request = true /\ C13Facts.b2_name_quoted_everywhere = true /\
  C13Facts.b2_exists_404_false = true.
Proof. exact (conj eq_refl (conj eq_refl (conj eq_refl (conj eq_refl (conj eq_refl (conj eq_refl
             (conj eq_refl (conj eq_refl (conj eq_refl eq_refl))))))))). Qed.
Print Assumptions C13_source_facts_services.

(* ---- the specification: an upload replaces the object, a delete is idempotent *)
Theorem C13_spec_upload_replaces : forall (K P : Type) keq (matches : P -> K -> bool),
  (forall a b, keq a b = true <-> a = b) -> forall k v (s : @store K),
  let s' := fst (spec_step keq matches (Upload k v) s) in
  snd (spec_step keq matches (Download k) s') = OData v /\
  forall j, j <> k -> snd (spec_step keq matches (Download j) s') = snd (spec_step keq matches (Download j) s).
Proof. exact (fun K P keq matches H => spec_upload_replaces keq matches H). Qed.
Print Assumptions C13_spec_upload_replaces.

Theorem C13_spec_delete_idempotent : forall (K P : Type) keq (matches : P -> K -> bool) k (s : @store K),
  fst (spec_step keq matches (Delete k) (fst (spec_step keq matches (Delete k) s))) = fst (spec_step keq matches (Delete k) s).
Proof. exact (fun K P keq matches => spec_delete_idempotent keq matches). Qed.
Print Assumptions C13_spec_delete_idempotent.

(* ---- S3: for any key order, prefix test, page size >= 1, number of objects and pages *)
Theorem C13_s3_list_exact : forall (K P : Type) cmp (matches : P -> K -> bool), total_order cmp ->
  forall ps p (svc : s3svc), (1 <= ps)%nat -> ksorted cmp svc ->
  exists n, s3c_list cmp matches ps p svc = Some (filter (matches p) (map fst svc), n).
Proof. exact (fun K P cmp matches H => s3_list_exact cmp matches H). Qed.
Print Assumptions C13_s3_list_exact.

Theorem C13_s3_refines_store : forall (K P : Type) cmp (matches : P -> K -> bool), total_order cmp ->
  forall ps, (1 <= ps)%nat -> forall ops : list (op K P),
  Forall2 obs_equiv (run (s3c_step cmp matches ps) ops []) (run (spec_step (ceq cmp) matches) ops []).
Proof. exact (fun K P cmp matches H => s3_refines_store cmp matches H). Qed.
Print Assumptions C13_s3_refines_store.

(* ---- B2 *)
Theorem C13_b2_list_exact : forall (K P : Type) cmp (matches : P -> K -> bool), total_order cmp ->
  forall ps p (svc : b2svc), (1 <= ps)%nat -> ksorted cmp svc ->
  exists n, b2c_list cmp matches ps p svc = Some (filter (matches p) (b2_names svc), n).
Proof. exact (fun K P cmp matches H => b2_list_exact cmp matches H). Qed.
Print Assumptions C13_b2_list_exact.

Theorem C13_b2_refines_store : forall (K P : Type) cmp (matches : P -> K -> bool), total_order cmp ->
  forall ps, (1 <= ps)%nat -> forall ops : list (op K P),
  Forall2 obs_equiv (run (b2c_step cmp matches ps) ops []) (run (spec_step (ceq cmp) matches) ops []).
Proof. exact (fun K P cmp matches H => b2_refines_store cmp matches H). Qed.
Print Assumptions C13_b2_refines_store.

Theorem C13_b2_delete_idempotent : forall (K P : Type) cmp (matches : P -> K -> bool), total_order cmp ->
  forall ps k (svc : b2svc), ksorted cmp svc ->
  snd (b2c_step cmp matches ps (Delete k) svc) = ODone /\
  forall j, b2_abs cmp (fst (b2c_step cmp matches ps (Delete k) (fst (b2c_step cmp matches ps (Delete k) svc)))) j =
            b2_abs cmp (fst (b2c_step cmp matches ps (Delete k) svc)) j.
Proof. exact (fun K P cmp matches H => b2_delete_idempotent cmp matches H). Qed.
Print Assumptions C13_b2_delete_idempotent.

(* ---- local: every history over legal names (non-empty segments, not '.'/'..', not ending in '.tmp',
   none a directory prefix of another), whatever temporary names were picked (fresh ones) *)
Theorem C13_local_refines_store : forall ops : list lop,
  legalU (names_of ops) -> Forall (tmp_cond (names_of ops)) ops ->
  Forall2 obs_equiv (run local_step ops []) (run (spec_step path_eqb seg_starts) (map fst ops) []).
Proof. exact local_refines_store. Qed.
Print Assumptions C13_local_refines_store.

Theorem C13_local_list_exact : forall U, legalU U -> forall f st d b, l_rel U f st ->
  NoDup (l_list d b f) /\ forall k, In k (l_list d b f) <-> In k (filter (seg_starts (d, b)) (map fst st)).
Proof. exact l_list_correct. Qed.
Print Assumptions C13_local_list_exact.

(* between the micro-steps of an upload (mkdir -p, create temp, write, rename) every legal name reads
   either as before or as after: never a partial object *)
Theorem C13_local_upload_atomic : forall U, legalU U -> forall f st n d tmp k, l_rel U f st -> In n U -> tmp_ok U n tmp ->
  exists fk, l_upload_prefix k n d tmp f = Some fk /\
    ((forall u, In u U -> l_read u fk = alookup path_eqb u st) \/
     (forall u, In u U -> l_read u fk = alookup path_eqb u (aput path_eqb n d st))).
Proof. exact local_upload_atomic. Qed.
Print Assumptions C13_local_upload_atomic.

(* the '/'-joined strings callers pass: the string prefix test is the segment-level one *)
Theorem C13_flat_prefix : forall d b n,
  Forall no_slash d -> no_slash b -> Forall no_slash n -> n <> [] ->
  starts_with (flat n) (flatp d b) = seg_starts (d, b) n.
Proof. exact flat_prefix_is_seg_prefix. Qed.
Print Assumptions C13_flat_prefix.

(* names are sliced relative to the scanned directory: independent of how the repository path is spelled *)
Theorem C13_slice_spelling_independent : forall scanned rel, slice_fixed scanned (entry_path scanned rel) = rel.
Proof. exact slice_fixed_correct. Qed.
Print Assumptions C13_slice_spelling_independent.

(* legal names are unchanged by the URL normalisation of '.' / '..' segments *)
Theorem C13_dot_normalize_legal : forall n, legal_name n = true -> dot_normalize n = n.
Proof. exact dot_normalize_legal. Qed.
Print Assumptions C13_dot_normalize_legal.

Local Open Scope N_scope.
(* ---- what is NOT true (known findings / repaired defects), with witnesses *)
(* a local name ending in ".tmp" is never listed: the full statement without the legality guard is false *)
Theorem C13_local_tmp_suffix_refuted :
  ~ Forall2 obs_equiv (run local_step tmp_witness []) (run (spec_step path_eqb seg_starts) (map fst tmp_witness) []).
Proof. exact local_tmp_suffix_refuted. Qed.
Print Assumptions C13_local_tmp_suffix_refuted.

(* a name with a '..' segment is not a fixed point of the URL normalisation (S3 and B2 address another object) *)
Theorem C13_dot_segments_refuted : exists n, dot_normalize n <> n.
Proof. exact dot_segments_refuted. Qed.
Print Assumptions C13_dot_segments_refuted.

(* the slicing used before the fix of defect 7 depends on the spelling of the repository path *)
Theorem C13_slice_old_refuted : exists root scanned rel, slice_old root (entry_path scanned rel) <> rel.
Proof. exact slice_old_refuted. Qed.
Print Assumptions C13_slice_old_refuted.

(* ---- non-vacuity: the hypotheses are satisfiable and the models do something *)
Example C13_order_inhabited : total_order str_cmp.
Proof. exact str_cmp_total_order. Qed.

Definition demo_ops : list (op str str) :=
  [Upload [100; 47; 97] [1%N]; Upload [100; 47; 98] [2%N]; Upload [100; 47; 99] [3%N]; Upload [101] [];
   Delete [100; 47; 98]; Upload [100; 47; 97] [9%N]; ListFiles [100; 47]; Download [100; 47; 97]; Exists [100; 47; 98]].
Example C13_concrete_run :
  run (s3c_step str_cmp (fun p k => starts_with k p) 1%nat) demo_ops [] =
  run (b2c_step str_cmp (fun p k => starts_with k p) 1%nat) demo_ops [] /\
  nth 6%nat (run (s3c_step str_cmp (fun p k => starts_with k p) 1%nat) demo_ops []) OFail = ONames [[100; 47; 97]; [100; 47; 99]]%N /\
  s3c_list_pages str_cmp (fun p k => starts_with k p) 1%nat [100; 47]%N
    (final (s3c_step str_cmp (fun p k => starts_with k p) 1%nat) demo_ops []) = 2%nat.
Proof. vm_compute. repeat split. Qed.

Definition demo_lops : list lop :=
  [(Upload [[100]; [97]] [1%N], [116; 46; 116; 109; 112]); (Upload [[100]; [98; 99]; [120]] [2%N], [116; 46; 116; 109; 112]);
   (Delete [[100]; [97]], []); (ListFiles ([[100]], [98]), [])].
Example C13_local_hypotheses_inhabited :
  legalU (names_of demo_lops) /\ Forall (tmp_cond (names_of demo_lops)) demo_lops /\
  nth 3%nat (run local_step demo_lops []) OFail = ONames [[[100]; [98; 99]; [120]]]%N.
Proof.
  split; [split|split].
  - intros a b Ha Hb [q Hq]. cbn in Ha, Hb.
    repeat (destruct Ha as [Ha|Ha]; [subst a|]); try contradiction;
    repeat (destruct Hb as [Hb|Hb]; [subst b|]); try contradiction; try reflexivity; cbn in Hq; try discriminate;
    inversion Hq.
  - intros n Hn. cbn in Hn. repeat (destruct Hn as [Hn|Hn]; [subst n; vm_compute; reflexivity|]). contradiction.
  - repeat constructor; intros u Hu [q Hq]; cbn in Hu;
      repeat (destruct Hu as [Hu|Hu]; [subst u; cbn in Hq; inversion Hq|]); try contradiction.
  - vm_compute. reflexivity.
Qed.
