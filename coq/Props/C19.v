(* C19 - option precedence is command line over environment over profile over default section over built-in,
   with the same coercion whichever source; mutually exclusive options are rejected.
   Only statements closed by [exact], each followed by Print Assumptions.  The theorems quantify over the option
   tables extracted from the working tree (Gen/C19Tables.v). *)
From Coq Require Import String ZArith List Bool.
From Replicat Require Import Model.PyVal Model.Options Proofs.OptionsProofs Proofs.OptionsTie Gen.C19Tables.
Import ListNotations.
Open Scope string_scope.
Open Scope Z_scope.

(* the pipeline of main() over the extracted orders *)
Definition gen_effective (table : list optrow) (s : sources) (d : string) : option eff :=
  effective_in C19Tables.general_source_order table s d.

Theorem C19_pipeline_order_fact :
  C19Tables.general_source_order = [SrcFile; SrcEnv; SrcCli] /\ C19Tables.backend_source_order = [SrcFile; SrcEnv; SrcCli] /\
  C19Tables.file_merge_order = [SecDefault; SecProfile] /\ C19Tables.cli_repository_selects_backend = true /\
  C19Tables.config_values_become_parser_defaults = true /\ C19Tables.env_prefix_is_own_class_name = true.
Proof. exact (conj eq_refl (conj eq_refl (conj eq_refl (conj eq_refl (conj eq_refl eq_refl))))). Qed.
Print Assumptions C19_pipeline_order_fact.

(* general options: for every row of the extracted table and all contents of the four external sources in which
   only this spelling of the destination is used and every given value is acceptable, the effective value is the
   coercion of the first present source in the order CLI, environment, profile, default section, else the built-in *)
Theorem C19_first_present_wins_general : forall s r,
  In r C19Tables.general_rows -> siblings_absent C19Tables.general_rows s r -> all_set s r ->
  gen_effective C19Tables.general_rows s (o_dest r) = Some (first_present s r (builtin_for C19Tables.general_rows (o_dest r))).
Proof. exact (fun s r => first_present_wins C19Tables.general_rows s r (nodupb_sound _ gen_general_names_distinct)). Qed.
Print Assumptions C19_first_present_wins_general.

(* the same for every option (general or backend-specific) of a run with any of the built-in backends *)
Theorem C19_first_present_wins_backend : forall b s r,
  In b C19Tables.backends -> In r (gen_full_table (snd b)) -> siblings_absent (gen_full_table (snd b)) s r -> all_set s r ->
  gen_effective (gen_full_table (snd b)) s (o_dest r) = Some (first_present s r (builtin_for (gen_full_table (snd b)) (o_dest r))).
Proof.
  exact (fun b s r Hb => first_present_wins (gen_full_table (snd b)) s r
           (nodupb_sound _ (proj1 (forallb_forall _ _) gen_backend_names_distinct b Hb))).
Qed.
Print Assumptions C19_first_present_wins_backend.

(* and for a custom backend with ANY keyword-only parameters whose option names are distinct from each other
   and from the general ones *)
Theorem C19_first_present_wins_custom : forall params s r,
  NoDup (map o_name (gen_full_table params)) ->
  In r (gen_full_table params) -> siblings_absent (gen_full_table params) s r -> all_set s r ->
  gen_effective (gen_full_table params) s (o_dest r) = Some (first_present s r (builtin_for (gen_full_table params) (o_dest r))).
Proof. exact (fun params s r Hnd => first_present_wins (gen_full_table params) s r Hnd). Qed.
Print Assumptions C19_first_present_wins_custom.

(* general options: the coercions of the sources of one option agree - on every string for options that take a
   value, and "flag given" = "true in the file" for flags *)
Theorem C19_coercion_agrees_general : forall r, In r C19Tables.general_rows ->
  (forall a b, o_cli r = Some a -> o_env r = Some b -> agrees a b) /\
  (forall a b, o_cli r = Some a -> o_file r = Some b -> agrees a b) /\
  (forall a b, o_env r = Some a -> o_file r = Some b -> agrees a b).
Proof. exact (fun r Hr => row_agrees_sound r (proj1 (forallb_forall _ _) gen_general_rows_agree r Hr)). Qed.
Print Assumptions C19_coercion_agrees_general.

(* backend options: the full statement is false on the unchanged tree (a str that came from the environment or
   the file is coerced a second time by argparse): DESIGN.md section 5 row 13b, known finding *)
Theorem C19_coercion_agrees_refuted :
  C19Tables.backend_coercions = (CoGuessCli, CoGuessCfg, CoGuessCfg) /\
  exists str, apply_co CoGuessCli (VStr str) <> apply_co CoGuessCfg (VStr str).
Proof. exact (conj eq_refl backend_coercion_agrees_refuted). Qed.
Print Assumptions C19_coercion_agrees_refuted.

(* ... and holds on every string a second guess_type leaves alone, and for typed TOML values *)
Theorem C19_coercion_agrees_partial : forall str, stable str = true ->
  apply_co CoGuessCli (VStr str) = apply_co CoGuessCfg (VStr str).
Proof. exact backend_coercion_agrees_partial. Qed.
Print Assumptions C19_coercion_agrees_partial.

Theorem C19_typed_file_values_unchanged : C19Tables.guess_type_passes_non_str = true ->
  forall v, (forall s, v <> VStr s) -> apply_co CoGuessCfg v = RSet (EVal v).
Proof. exact (fun _ => backend_typed_file_values). Qed.
Print Assumptions C19_typed_file_values_unchanged.

(* mutually exclusive options: both members in the configuration file (same or different sections), or both on
   the command line -> the program exits with an error, whatever else is given *)
Theorem C19_exclusive_rejected : forall table s a b,
  (In (a, b) C19Tables.excl_file /\ (slookup a (s_prof s) <> None \/ slookup a (s_dflt s) <> None)
                               /\ (slookup b (s_prof s) <> None \/ slookup b (s_dflt s) <> None)) \/
  (In (a, b) C19Tables.excl_cli /\ slookup a (s_cli s) <> None /\ slookup b (s_cli s) <> None) ->
  run_main table C19Tables.excl_file C19Tables.excl_cli s = None.
Proof.
  exact (fun table s a b H => match H with
    | or_introl (conj Hin (conj Ha Hb)) =>
        exclusive_file_rejected table _ _ s a b Hin (proj2 (present_file_iff s a) Ha) (proj2 (present_file_iff s b) Hb)
    | or_intror (conj Hin (conj Ha Hb)) =>
        exclusive_cli_rejected table _ _ s a b Hin
          (match slookup a (s_cli s) as o return (o <> None -> match o with Some _ => true | None => false end = true)
           with Some _ => fun _ => eq_refl | None => fun h => False_ind _ (h eq_refl) end Ha)
          (match slookup b (s_cli s) as o return (o <> None -> match o with Some _ => true | None => false end = true)
           with Some _ => fun _ => eq_refl | None => fun h => False_ind _ (h eq_refl) end Hb)
    end).
Qed.
Print Assumptions C19_exclusive_rejected.

(* non-vacuity: the README's custom backend, all five sources at work *)
Definition pc_params : list (string * option value) :=
  [("account_id", None); ("secret", None); ("port", Some (VInt 9876)); ("legacy", Some (VBool false))].

Example C19_run_example :
  run_main (gen_full_table pc_params) C19Tables.excl_file C19Tables.excl_cli
    {| s_cli := [("repository", "pc:c1"); ("port", "1")];
       s_env := [("port", "2"); ("secret", "pr0ud"); ("password", "envpw")];
       s_prof := [("port", VInt 3); ("concurrent", VStr "7"); ("legacy", VBool true)];
       s_dflt := [("port", VStr "4"); ("concurrent", VInt 9); ("account-id", VInt 12345); ("no-cache", VBool true)] |}
  = Some [("repository", ERepo "pc" "c1"); ("concurrent", EVal (VInt 7)); ("quiet", EVal (VBool false));
          ("cache_directory", EVal VNull); ("password", EBytes "envpw"); ("key", EVal VNull); ("log_level", EVal (VInt 30));
          ("account_id", EVal (VInt 12345)); ("secret", EVal (VStr "pr0ud")); ("port", EVal (VInt 1)); ("legacy", EVal (VBool true))].
Proof. vm_compute. reflexivity. Qed.

Example C19_hypotheses_satisfiable :
  let s := {| s_cli := []; s_env := [("password", "envpw")]; s_prof := [("password", VStr "p")]; s_dflt := [("password", VStr "d")] |} in
  let r := nth 5 C19Tables.general_rows (backend_row ("x", None)) in
  o_name r = "password" /\ siblings_absent C19Tables.general_rows s r /\ all_set s r /\
  first_present s r (EVal VNull) = EBytes "envpw".
Proof.
  cbn zeta. split; [reflexivity|]. split; [|split; [|reflexivity]].
  - intros r' Hin Hd Hn x. cbn in Hin. repeat (destruct Hin as [<-|Hin]; [try discriminate Hd; try (exfalso; apply Hn; reflexivity); destruct x; reflexivity|]). contradiction.
  - intros x Hx. cbn in Hx. repeat (destruct Hx as [Hx|Hx]; [try discriminate Hx; injection Hx as <-; eexists; reflexivity|]). contradiction.
Qed.

Example C19_exclusive_example :
  run_main C19Tables.general_rows C19Tables.excl_file C19Tables.excl_cli
    {| s_cli := []; s_env := []; s_prof := [("password", VStr "x")]; s_dflt := [("password-file", VStr "/f")] |} = None /\
  run_main C19Tables.general_rows C19Tables.excl_file C19Tables.excl_cli
    {| s_cli := [("no-cache", ""); ("cache-directory", "/c")]; s_env := []; s_prof := []; s_dflt := [] |} = None.
Proof. vm_compute. split; reflexivity. Qed.
