(* C14 - what replicat writes follows the documented repository format: storage names, byte-string
   tagging in JSON, the snapshot object layout, chunk objects, tiling of files by the recorded ranges,
   the older metadata variant.  Statements closed by [exact]. *)
From Coq Require Import String Ascii List Arith NArith ZArith Bool.
From Replicat Require Import Lib.ListX Lib.PyStr Model.Location Model.Json Model.Base64 Model.Stream Model.SnapBody
  Proofs.LocationProofs Proofs.JsonProofs Proofs.SnapBodyProofs Proofs.StreamProofs Proofs.C14Tie.
From Replicat Require Gen.LocationGen Gen.BodyGen.
Import ListNotations.
Local Open Scope string_scope.

(* ================================================================== storage names *)
(* data/<tag[:2]>/<tag[2:4]>/<tag[4:]>-<name> and snapshots/<tag[:2]>/<tag[2:]>-<name> *)
Theorem C14_chunk_location_shape : forall name tag, hexs tag -> 4 <= String.length tag ->
  get_chunk_location name tag =
  CHUNK_PREFIX ++ py_slice tag None (Some 2) ++ "/" ++ py_slice tag (Some 2) (Some 4) ++ "/" ++
  py_slice tag (Some 4) None ++ "-" ++ name.
Proof. exact chunk_shape. Qed.
Theorem C14_snapshot_location_shape : forall name tag, hexs tag -> 2 <= String.length tag ->
  get_snapshot_location name tag =
  SNAPSHOT_PREFIX ++ py_slice tag None (Some 2) ++ "/" ++ py_slice tag (Some 2) None ++ "-" ++ name.
Proof. exact snapshot_shape. Qed.
Print Assumptions C14_chunk_location_shape.
Print Assumptions C14_snapshot_location_shape.

Theorem C14_chunk_location_roundtrip : forall name tag, hexs name -> hexs tag -> 4 <= String.length tag ->
  parse_chunk_location (get_chunk_location name tag) = Some (name, tag).
Proof. exact chunk_roundtrip. Qed.
Theorem C14_snapshot_location_roundtrip : forall name tag, hexs name -> hexs tag -> 2 <= String.length tag ->
  parse_snapshot_location (get_snapshot_location name tag) = Some (name, tag).
Proof. exact snapshot_roundtrip. Qed.
Print Assumptions C14_chunk_location_roundtrip.
Print Assumptions C14_snapshot_location_roundtrip.

(* ... and about the definitions translated from the working tree *)
Theorem C14_translated_chunk_roundtrip : forall name tag, hexs name -> hexs tag -> 4 <= String.length tag ->
  LocationGen.gen_parse_chunk_location (LocationGen.gen_get_chunk_location name tag) = Some (name, tag).
Proof. exact gen_chunk_roundtrip. Qed.
Theorem C14_translated_snapshot_roundtrip : forall name tag, hexs name -> hexs tag -> 2 <= String.length tag ->
  LocationGen.gen_parse_snapshot_location (LocationGen.gen_get_snapshot_location name tag) = Some (name, tag).
Proof. exact gen_snapshot_roundtrip. Qed.
Print Assumptions C14_translated_chunk_roundtrip.
Print Assumptions C14_translated_snapshot_roundtrip.

Theorem C14_location_prefixes : forall name tag, hexs tag -> 4 <= String.length tag ->
  startswith CHUNK_PREFIX (get_chunk_location name tag) = true /\
  startswith SNAPSHOT_PREFIX (get_snapshot_location name tag) = true /\
  parse_snapshot_location (get_chunk_location name tag) = None /\
  parse_chunk_location (get_snapshot_location name tag) = None.
Proof.
  exact (fun name tag Ht Hl =>
    conj (chunk_prefix name tag Ht Hl)
      (conj (snapshot_prefix name tag Ht (Nat.le_trans _ _ _ (le_S _ _ (le_S _ _ (le_n 2))) Hl))
         (prefixes_disjoint name tag Ht Hl))).
Qed.
Print Assumptions C14_location_prefixes.

Theorem C14_chunk_location_injective : forall n1 t1 n2 t2,
  hexs n1 -> hexs t1 -> 4 <= String.length t1 -> hexs n2 -> hexs t2 -> 4 <= String.length t2 ->
  get_chunk_location n1 t1 = get_chunk_location n2 t2 -> n1 = n2 /\ t1 = t2.
Proof. exact chunk_injective. Qed.
Theorem C14_snapshot_location_injective : forall n1 t1 n2 t2,
  hexs n1 -> hexs t1 -> 2 <= String.length t1 -> hexs n2 -> hexs t2 -> 2 <= String.length t2 ->
  get_snapshot_location n1 t1 = get_snapshot_location n2 t2 -> n1 = n2 /\ t1 = t2.
Proof. exact snapshot_injective. Qed.
Print Assumptions C14_chunk_location_injective.
Print Assumptions C14_snapshot_location_injective.

(* the file name proper: '<rest of tag>-<name>', no '/', and its length (253 resp. 255 bytes for
   128-character name and tag) *)
Theorem C14_chunk_last_component : forall name tag, hexs name -> hexs tag -> 4 <= String.length tag ->
  exists dir last, get_chunk_location name tag = dir ++ "/" ++ last /\
    last = py_slice tag (Some 4) None ++ "-" ++ name /\ has_char "/" last = false /\
    String.length last = String.length tag - 4 + 1 + String.length name.
Proof. exact chunk_last_component. Qed.
Theorem C14_snapshot_last_component : forall name tag, hexs name -> hexs tag -> 2 <= String.length tag ->
  exists dir last, get_snapshot_location name tag = dir ++ "/" ++ last /\
    last = py_slice tag (Some 2) None ++ "-" ++ name /\ has_char "/" last = false /\
    String.length last = String.length tag - 2 + 1 + String.length name.
Proof. exact snapshot_last_component. Qed.
Print Assumptions C14_chunk_last_component.
Print Assumptions C14_snapshot_last_component.

(* names from keyed MACs of content digests: the location parses back to (hex MAC(d), hex MAC(MAC(d)))
   resp. (hex d, hex MAC(d)); distinct digests get distinct chunk locations *)
Theorem C14_names_from_digests : forall {B} (mac : B -> B) (hex : B -> string),
  (forall b, hexs (hex b)) -> (forall b, 4 <= String.length (hex b)) ->
  forall enc d,
  parse_chunk_location (chunk_location mac hex enc d) = Some (chunk_parts mac hex enc d) /\
  parse_snapshot_location (snapshot_location mac hex enc d) = Some (snapshot_parts mac hex enc d) /\
  chunk_parts mac hex true d = (hex (mac d), hex (mac (mac d))) /\
  snapshot_parts mac hex true d = (hex d, hex (mac d)) /\
  chunk_parts mac hex false d = (hex d, hex d) /\ snapshot_parts mac hex false d = (hex d, hex d).
Proof.
  exact (fun B mac hex Hh Hl enc d =>
    conj (chunk_location_parses mac hex Hh enc d Hl)
      (conj (snapshot_location_parses mac hex Hh enc d
               (fun b => Nat.le_trans _ _ _ (le_S _ _ (le_S _ _ (le_n 2))) (Hl b)))
         (conj eq_refl (conj eq_refl (conj eq_refl eq_refl))))).
Qed.
Theorem C14_chunk_names_distinct : forall {B} (mac : B -> B) (hex : B -> string),
  (forall b, hexs (hex b)) -> (forall a b, hex a = hex b -> a = b) -> (forall a b, mac a = mac b -> a = b) ->
  (forall b, 4 <= String.length (hex b)) ->
  forall enc d1 d2, chunk_location mac hex enc d1 = chunk_location mac hex enc d2 -> d1 = d2.
Proof. exact (fun B mac hex H1 H2 H3 H4 enc d1 d2 => chunk_location_injective mac hex H1 H2 H3 enc d1 d2 H4). Qed.
Print Assumptions C14_names_from_digests.
Print Assumptions C14_chunk_names_distinct.

(* ================================================================== byte strings in JSON *)
Theorem C14_type_reverse_hint : forall {B Num} (b64 : B -> string) (unb64 : string -> B),
  (forall b, unb64 (b64 b) = b) ->
  forall b, type_reverse unb64 [(BANG, JStr (b64 b))] = (JBytes b : jv B Num) /\
            reverse_tree unb64 (type_hint b64 b) = (JBytes b : jv B Num).
Proof. exact (fun B Num b64 unb64 H b => conj (type_reverse_hint b64 unb64 H b) (reverse_type_hint b64 unb64 H b)). Qed.
Print Assumptions C14_type_reverse_hint.

(* value trees without a one-key {"!b": ...} object survive serialize / deserialize *)
Theorem C14_deserialize_serialize : forall {B Num Text} (b64 : B -> string) (unb64 : string -> B),
  (forall b, unb64 (b64 b) = b) ->
  forall (dumps : jv B Num -> Text) (loads : Text -> option (jv B Num)),
  (forall j, pure j = true -> uniq j = true -> loads (dumps j) = Some j) ->
  forall v, no_bang v = true -> uniq v = true -> deserialize unb64 loads (serialize b64 dumps v) = Some v.
Proof. exact (fun B Num Text b64 unb64 H dumps loads H' => deserialize_serialize b64 unb64 H dumps loads H'). Qed.
Print Assumptions C14_deserialize_serialize.

(* ================================================================== snapshot and chunk objects *)
(* chunk table under Derive(shared, Hash(encrypted private data)), private data under the user key:
   the owner decodes exactly what was encoded *)
Theorem C14_snapshot_body_roundtrip : forall {B Num R} (serialize : jv B Num -> B) deserialize
  (encrypt : R -> B -> B -> B) decrypt (hash derive : B -> B),
  (forall v, no_bang v = true -> uniq v = true -> deserialize (serialize v) = Some v) ->
  (forall r m k, decrypt (encrypt r m k) k = Some m) ->
  forall encrypted userkey r1 r2 chunks data,
  no_bang chunks = true -> uniq chunks = true -> no_bang data = true -> uniq data = true ->
  obind (encrypt_snapshot_body serialize encrypt hash derive userkey encrypted r1 r2 (mk_body chunks data))
        (decrypt_snapshot_body deserialize decrypt hash derive userkey encrypted)
  = Some (mk_body chunks data).
Proof. exact (fun B Num R ser deser enc dec hash derive H1 H2 => body_roundtrip ser deser enc dec hash derive H1 H2). Qed.
Print Assumptions C14_snapshot_body_roundtrip.

(* the same with serialize / deserialize being the JSON layer above *)
Theorem C14_snapshot_body_roundtrip_json : forall {B Num R} (b64 : B -> string) unb64, (forall b, unb64 (b64 b) = b) ->
  forall (dumps : jv B Num -> B) loads, (forall j, pure j = true -> uniq j = true -> loads (dumps j) = Some j) ->
  forall (encrypt : R -> B -> B -> B) decrypt, (forall r m k, decrypt (encrypt r m k) k = Some m) ->
  forall (hash derive : B -> B) encrypted userkey r1 r2 chunks data,
  no_bang chunks = true -> uniq chunks = true -> no_bang data = true -> uniq data = true ->
  obind (encrypt_snapshot_body (serialize b64 dumps) encrypt hash derive userkey encrypted r1 r2 (mk_body chunks data))
        (decrypt_snapshot_body (deserialize unb64 loads) decrypt hash derive userkey encrypted)
  = Some (mk_body chunks data).
Proof.
  exact (fun B Num R b64 unb64 H1 dumps loads H2 enc dec H3 hash derive =>
           body_roundtrip_json b64 unb64 H1 dumps loads H2 enc dec H3 hash derive).
Qed.
Print Assumptions C14_snapshot_body_roundtrip_json.

(* a holder of the shared secrets with a different user key reads the chunk table; data = None *)
Theorem C14_snapshot_body_shared_reader : forall {B Num R} (serialize : jv B Num -> B) deserialize
  (encrypt : R -> B -> B -> B) decrypt (hash derive : B -> B),
  (forall v, no_bang v = true -> uniq v = true -> deserialize (serialize v) = Some v) ->
  (forall r m k, decrypt (encrypt r m k) k = Some m) ->
  forall userkey other r1 r2 chunks data, no_bang chunks = true -> uniq chunks = true ->
  decrypt (encrypt r1 (serialize data) userkey) other = None ->
  obind (encrypt_snapshot_body serialize encrypt hash derive userkey true r1 r2 (mk_body chunks data))
        (decrypt_snapshot_body deserialize decrypt hash derive other true)
  = Some (mk_body chunks JNull).
Proof. exact (fun B Num R ser deser enc dec hash derive H1 H2 => body_shared_reader ser deser enc dec hash derive H1 H2). Qed.
Print Assumptions C14_snapshot_body_shared_reader.

(* chunk key = Derive(shared, digest of the plaintext) *)
Theorem C14_chunk_object_roundtrip : forall {B R} (encrypt : R -> B -> B -> B) decrypt (hash derive : B -> B),
  (forall r m k, decrypt (encrypt r m k) k = Some m) ->
  forall r c, obind (chunk_ciphertext encrypt hash derive r c) (chunk_plaintext decrypt derive (hash c)) = Some c.
Proof. exact (fun B R enc dec hash derive H => chunk_object_roundtrip enc dec hash derive H). Qed.
Print Assumptions C14_chunk_object_roundtrip.

(* ================================================================== ranges *)
(* the ranges recorded for a file, in counter order, slice exactly the file's bytes (C01_tiling) *)
Theorem C14_tiling : forall {B} (chunks : list (list B)) fs fe, fs <= fe ->
  concat (map (slice_of chunks) (refs_of (fs, fe) (map (@length B) chunks))) = sub (concat chunks) fs fe.
Proof. exact (fun B => @refs_tile B). Qed.
Print Assumptions C14_tiling.

(* ================================================================== metadata variants *)
Theorem C14_plan_ignores_metadata : forall {T M1 M2} (f1 : M1 -> option (utime_call T)) (f2 : M2 -> option (utime_call T))
  (e1 : file_entry M1) (e2 : file_entry M2),
  fe_refs e1 = fe_refs e2 -> fst (restore_entry f1 e1) = fst (restore_entry f2 e2).
Proof. exact (fun T M1 M2 => @plan_ignores_metadata T M1 M2). Qed.
Theorem C14_legacy_same_restore : forall {T} (refs : list ref) (cur leg : string -> option T) a m a' m',
  cur "st_atime_ns" = Some a -> cur "st_mtime_ns" = Some m ->
  leg "st_atime_ns" = None -> leg "st_mtime_ns" = None -> leg "st_atime" = Some a' -> leg "st_mtime" = Some m' ->
  restore_entry restore_metadata {| fe_refs := refs; fe_meta := cur |} = (plan refs, plan_size refs, Some (UtimeNs a m)) /\
  restore_entry restore_metadata {| fe_refs := refs; fe_meta := leg |} = (plan refs, plan_size refs, Some (UtimeTimes a' m')).
Proof. exact (fun T => @legacy_same_restore T). Qed.
Print Assumptions C14_plan_ignores_metadata.
Print Assumptions C14_legacy_same_restore.

(* ================================================================== the tie to the working tree *)
Theorem C14_tie_locations :
  LocationGen.gen_get_chunk_location = get_chunk_location /\ LocationGen.gen_parse_chunk_location = parse_chunk_location /\
  LocationGen.gen_get_snapshot_location = get_snapshot_location /\ LocationGen.gen_parse_snapshot_location = parse_snapshot_location /\
  (forall B mac hex enc d, @LocationGen.gen_chunk_parts B mac hex enc d = chunk_parts mac hex enc d) /\
  (forall B mac hex enc d, @LocationGen.gen_snapshot_parts B mac hex enc d = snapshot_parts mac hex enc d) /\
  LocationGen.gen_locations_from_digests = true.
Proof.
  exact (conj tie_get_chunk_location (conj tie_parse_chunk_location (conj tie_get_snapshot_location
        (conj tie_parse_snapshot_location (conj tie_chunk_parts (conj tie_snapshot_parts tie_locations_from_digests)))))).
Qed.
Theorem C14_tie_body :
  (forall B Num R serialize encrypt hash derive userkey,
     @BodyGen.gen_encrypt_snapshot_body B Num R serialize encrypt hash derive userkey
     = encrypt_snapshot_body serialize encrypt hash derive userkey) /\
  (forall B Num deserialize decrypt hash derive userkey,
     @BodyGen.gen_decrypt_snapshot_body B Num deserialize decrypt hash derive userkey
     = decrypt_snapshot_body deserialize decrypt hash derive userkey) /\
  (forall B R encrypt hash derive, @BodyGen.gen_chunk_ciphertext B R encrypt hash derive = chunk_ciphertext encrypt hash derive) /\
  (forall B decrypt derive, @BodyGen.gen_chunk_plaintext B decrypt derive = chunk_plaintext decrypt derive) /\
  BodyGen.gen_chunk_verified_after_decryption = true /\
  BodyGen.gen_mac_and_subkey_fields = ["mac_params"; "shared_key"; "shared_kdf_params"].
Proof.
  exact (conj tie_encrypt_snapshot_body (conj tie_decrypt_snapshot_body (conj tie_chunk_ciphertext
        (conj tie_chunk_plaintext (conj tie_chunk_verified tie_key_fields))))).
Qed.
Theorem C14_tie_json :
  (forall B Num b64, @BodyGen.gen_type_hint B Num b64 = type_hint b64) /\
  (forall B Num unb64, @BodyGen.gen_type_reverse B Num unb64 = type_reverse unb64) /\
  (BodyGen.gen_b64_encoder = "standard_b64encode" /\ BodyGen.gen_b64_decoder = "standard_b64decode") /\
  BodyGen.gen_serialize_wiring_ok = true.
Proof. exact (conj tie_type_hint (conj tie_type_reverse (conj tie_base64_flavour tie_serialize_wiring))). Qed.
Theorem C14_tie_metadata :
  (forall T, @BodyGen.gen_restore_metadata T = restore_metadata) /\ BodyGen.gen_metadata_only_finalises = true.
Proof. exact (conj tie_restore_metadata tie_metadata_only_finalises). Qed.
Print Assumptions C14_tie_locations.
Print Assumptions C14_tie_body.
Print Assumptions C14_tie_json.
Print Assumptions C14_tie_metadata.

(* ================================================================== non-vacuity *)
Example C14_concrete_locations :
  get_chunk_location "00ff17" "a1b2c3d4e5" = "data/a1/b2/c3d4e5-00ff17" /\
  parse_chunk_location "data/a1/b2/c3d4e5-00ff17" = Some ("00ff17", "a1b2c3d4e5") /\
  get_chunk_location "ab" "0123" = "data/01/23/-ab" /\ parse_chunk_location "data/01/23/-ab" = Some ("ab", "0123") /\
  get_snapshot_location "00ff17" "a1b2" = "snapshots/a1/b2-00ff17" /\
  parse_snapshot_location "snapshots/a1/b2-00ff17" = Some ("00ff17", "a1b2") /\
  parse_chunk_location "snapshots/a1/b2-00ff17" = None /\ parse_chunk_location "data/a1-00" = None /\
  hexs "00ff17" /\ hexs "a1b2c3d4e5" /\ ~ hexs "A1" /\ ~ hexs "a-1".
Proof. vm_compute. repeat split; try reflexivity; discriminate. Qed.

(* 128-character name and tag: the file name is 253 bytes for a chunk and 255 for a snapshot *)
Example C14_longest_names :
  let h := "0123456789abcdef0123456789abcdef0123456789abcdef0123456789abcdef0123456789abcdef0123456789abcdef0123456789abcdef0123456789abcdef" in
  String.length h = 128 /\ parse_chunk_location (get_chunk_location h h) = Some (h, h) /\
  String.length (rp_tail (rpartition "/" (get_chunk_location h h))) = 253 /\
  String.length (rp_tail (rpartition "/" (get_snapshot_location h h))) = 255.
Proof. vm_compute. repeat split; reflexivity. Qed.

(* the side condition of C14_deserialize_serialize is needed: a dict that looks like a hint comes back
   as bytes (base64 instance: Model/Base64.v) *)
Example C14_bang_needed :
  let v : jv (list N) N := JObj [("!b", JStr "aGk=")] in
  no_bang v = false /\ reverse_tree b64_decode (hint_tree b64_encode v) = JBytes [104; 105]%N /\
  reverse_tree b64_decode (hint_tree b64_encode (JArr [JBytes [1; 2; 255]%N; JObj [("k", JBytes []); ("!b", JNum 7%N)]]))
  = (JArr [JBytes [1; 2; 255]%N; JObj [("k", JBytes []); ("!b", JNum 7%N)]] : jv (list N) N) /\
  hint_tree b64_encode (JBytes [1; 2; 255]%N : jv (list N) N) = JObj [("!b", JStr "AQL/")].
Proof. vm_compute. repeat split; reflexivity. Qed.

(* the hypotheses of the JSON theorem are satisfiable (identity codecs) ... *)
Example C14_json_hypotheses_satisfiable :
  (forall b : string, (fun s => s) ((fun s => s) b) = b) /\
  (forall j : jv string N, pure j = true -> uniq j = true -> Some ((fun x => x) j) = Some j).
Proof. split; reflexivity. Qed.

(* ... and so are those of the object theorems: a free term algebra of byte strings in which
   decryption checks the key *)
Inductive blob := Raw (n : N) | Ser (v : jv blob N) | Enc (r : N) (m k : blob) | Hashed (b : blob) | Derived (b : blob).
Definition blob_deser (b : blob) : option (jv blob N) := match b with Ser v => Some v | _ => None end.
Definition blob_dec (c k : blob) : option blob :=
  match c with
  | Enc _ m (Raw a) => match k with Raw b => if N.eqb a b then Some m else None | _ => None end
  | Enc _ m _ => Some m
  | _ => None
  end.
Example C14_object_hypotheses_satisfiable :
  (forall v : jv blob N, blob_deser (Ser v) = Some v) /\ (forall r m k, blob_dec (Enc r m k) k = Some m).
Proof.
  split; [reflexivity|]. intros r m k. destruct k; try reflexivity. cbn. rewrite N.eqb_refl. reflexivity.
Qed.
Example C14_concrete_body :
  let chunks : jv blob N := JArr [JBytes (Raw 11); JBytes (Raw 12)] in
  let data : jv blob N := JObj [("utc_timestamp", JStr "2026-09-30 20:00:00"); ("files", JArr [JObj [("path", JStr "/a"); ("chunks", JArr [])]])] in
  let enc := encrypt_snapshot_body Ser Enc Hashed Derived (Raw 1) true 7%N 8%N (mk_body chunks data) in
  enc = Some (Ser (JObj [("chunks", JBytes (Enc 8 (Ser chunks) (Derived (Hashed (Enc 7 (Ser data) (Raw 1))))));
                         ("data", JBytes (Enc 7 (Ser data) (Raw 1)))])) /\
  obind enc (decrypt_snapshot_body blob_deser blob_dec Hashed Derived (Raw 1) true) = Some (mk_body chunks data) /\
  obind enc (decrypt_snapshot_body blob_deser blob_dec Hashed Derived (Raw 2) true) = Some (mk_body chunks JNull).
Proof. vm_compute. repeat split; reflexivity. Qed.

(* the two metadata variants of one file: same writes, same size, different utime call *)
Example C14_concrete_metadata :
  let refs := [mkref 2 5 2; mkref 0 4 3; mkref 0 1 4] in
  let cur : string -> option Z := fun k => if String.eqb k "st_atime_ns" then Some 1500123%Z
                      else if String.eqb k "st_mtime_ns" then Some 1400001%Z else None in
  let leg : string -> option Z := fun k => if String.eqb k "st_atime" then Some 15%Z
                      else if String.eqb k "st_mtime" then Some 14%Z else None in
  restore_entry restore_metadata {| fe_refs := refs; fe_meta := cur |}
    = ([(0, mkref 2 5 2); (3, mkref 0 4 3); (7, mkref 0 1 4)], 8, Some (UtimeNs 1500123%Z 1400001%Z)) /\
  restore_entry restore_metadata {| fe_refs := refs; fe_meta := leg |}
    = ([(0, mkref 2 5 2); (3, mkref 0 4 3); (7, mkref 0 1 4)], 8, Some (UtimeTimes 15%Z 14%Z)).
Proof. vm_compute. split; reflexivity. Qed.
