(* C09 - snapshot and restore do not depend on thread or I/O scheduling.
   Every theorem quantifies over ALL sequences of steps of the transition systems of Model/Sched.v,
   i.e. over all schedules; the manifest/restore-plan half is C01's quantification over completion
   orders and write orders (re-exported here). *)
From Coq Require Import List Arith Bool Permutation.
From Coq Require Import ZArith.
From Replicat Require Model.LimiterLock Proofs.LimiterLockProofs Model.AuthGate Proofs.AuthGateProofs.
From Replicat Require Import Lib.ListX Model.Sched Model.Stream Proofs.SchedProofs Proofs.SchedTie Proofs.RoundTrip Gen.SchedFacts.
Import ListNotations.

(* 1. connection slots *)
Theorem C09_slots_bounded : forall n k s, sreach (slots_init n k) s -> free s + holding s = n /\ holding s <= n.
Proof. exact slots_bounded. Qed.
Theorem C09_slots_restored : forall n k s, sreach (slots_init n k) s -> holding s = 0 -> free s = n.
Proof. exact slots_restored. Qed.
Theorem C09_slots_no_deadlock : forall n k s, sreach (slots_init n k) s -> 0 < n -> free s = 0 ->
  exists i, nth_error (tasks s) i = Some THolding.
Proof. exact slots_no_deadlock. Qed.
Theorem C09_slots_progress : forall s i, nth_error (tasks s) i = Some THolding -> exists s', sstep s s'.
Proof. exact slots_progress. Qed.
Print Assumptions C09_slots_bounded.
Print Assumptions C09_slots_restored.
Print Assumptions C09_slots_no_deadlock.
Print Assumptions C09_slots_progress.

(* 2. snapshot pipeline: producer thread, bounded queue, N workers *)
Theorem C09_pipe_exactly_once : forall cap chunks n p, preach cap (pipe_init chunks n) p ->
  In true (exited p) -> in_flight p = [] -> Permutation (processed p) chunks.
Proof. exact pipe_exactly_once. Qed.
Theorem C09_pipe_no_early_exit : forall cap chunks n p, preach cap (pipe_init chunks n) p ->
  In true (exited p) -> to_produce p = [] /\ queue p = [].
Proof. exact pipe_no_early_exit. Qed.
Theorem C09_pipe_progress : forall cap p, 0 < cap ->
  (exists w, nth_error (in_hand p) w = Some None /\ nth_error (exited p) w = Some false) -> exists p', pstep cap p p'.
Proof. exact pipe_progress. Qed.
Print Assumptions C09_pipe_exactly_once.
Print Assumptions C09_pipe_no_early_exit.
Print Assumptions C09_pipe_progress.

(* 3. restore: finalisation under the lock *)
Theorem C09_finalise_once : forall evs p, wf p -> Permutation evs (events_of p) ->
  Permutation (fst (run_events evs p)) (map fst p) /\ snd (run_events evs p) = [].
Proof. exact finalise_once. Qed.
Theorem C09_finalise_after_all_writes : forall f d p ds, wf p -> In (f, ds) p -> In d ds ->
  snd (finish_digest f d p) = true -> ds = [d].
Proof. exact finalise_after_all_writes. Qed.
Print Assumptions C09_finalise_once.
Print Assumptions C09_finalise_after_all_writes.

(* 4. the result does not depend on the completion order of uploads nor on the order of part writes *)
Theorem C09_result_schedule_free : forall {B} (zero : B) (a : nat) (files chunks : list (list B)),
  concat chunks = stream zero a files ->
  Forall2 (fun e f => forall keep m order pre,
     (forall r, In r (refs_of e (map (@length B) chunks)) -> keep r = false -> r_end r <= r_start r) ->
     Permutation m (filter keep (refs_of e (map (@length B) chunks))) ->
     (forall w, In w order <-> In w (writes_of chunks m)) ->
     restore_file zero chunks m order pre = f)
    (extents a 0 (map (@length B) files)) files.
Proof. exact (fun B zero => restore_every_file zero). Qed.
Print Assumptions C09_result_schedule_free.

(* 5. trace-level tie: the executable checkers the harness runs on event logs of the implementation are sound --
   an accepted slot log never has more than n holders, an accepted pipeline log processes every chunk put exactly once *)
Theorem C09_slot_trace_sound : forall evs free held mh free' held' mh' n,
  slot_trace free evs held mh = Some (free', held', mh') ->
  length free + held = n -> mh <= n -> length free' + held' = n /\ mh' <= n /\ mh <= mh'.
Proof. exact slot_trace_sound. Qed.
Theorem C09_pipe_trace_exactly_once : forall cap evs done',
  pipe_trace cap [] [] [] evs = Some ([], [], done') -> Permutation done' (puts_of evs).
Proof. exact pipe_trace_exactly_once. Qed.
Print Assumptions C09_slot_trace_sound.
Print Assumptions C09_pipe_trace_exactly_once.

(* 6. "no spurious errors": the rate limiter shared by the transfer threads.  For any number of threads, any amounts owed and any
   interleaving of their steps, every length time.sleep is called with exceeds the pause threshold (so it is positive: no
   ValueError in a transfer because of what another thread did to the shared account).  The boolean is what the translator found
   in the working tree: evaluation of the length, sleep and settlement inside the critical section of the threshold test *)
Theorem C09_limiter_sleep_lengths : forall cap thr prog tr s,
  LimiterLock.lreach cap thr limiter_sleeps_under_lock (LimiterLock.linit prog) tr s ->
  Forall (fun v => match v with LimiterLock.Sleep x => (thr < x)%Z end) tr.
Proof. exact (fun cap thr prog tr s H => proj2 (LimiterLockProofs.locked_sleep_lengths cap thr prog tr s H)). Qed.
Theorem C09_limiter_never_sleeps_negative : forall cap thr, (0 <= thr)%Z -> forall prog tr s,
  LimiterLock.lreach cap thr limiter_sleeps_under_lock (LimiterLock.linit prog) tr s ->
  Forall (fun v => match v with LimiterLock.Sleep x => (0 < x)%Z end) tr.
Proof. exact LimiterLockProofs.locked_never_sleeps_negative. Qed.
Theorem C09_limiter_threshold_nonneg : limiter_threshold_nonneg = true.
Proof. reflexivity. Qed.
(* with the sleep after the lock has been released, two threads suffice for a negative length *)
Theorem C09_limiter_unlocked_refuted :
  exists tr s, LimiterLock.lreach 500 250 false
                 (LimiterLock.linit (fun i => match i with 0 => [500%Z] | 1 => [0%Z] | _ => [] end)) tr s /\
               In (LimiterLock.Sleep (-1)) tr.
Proof. exact LimiterLockProofs.unlocked_sleep_negative_refuted. Qed.
Example C09_limiter_concrete :
  exists tr s, LimiterLock.lreach 500 250 true (LimiterLock.linit (fun i => match i with 0 => [500%Z] | _ => [] end)) tr s /\
               tr = [LimiterLock.Sleep 500].
Proof. exact LimiterLockProofs.locked_concrete. Qed.
Print Assumptions C09_limiter_sleep_lengths.
Print Assumptions C09_limiter_never_sleeps_negative.
Print Assumptions C09_limiter_unlocked_refuted.
Print Assumptions C09_limiter_threshold_nonneg.

(* 7. "no spurious errors": the first authentication of a thread backend (requires_auth).  For any number of transfer threads arriving
   in any order, every transfer is issued with an authorisation in place; the boolean is the order the translator finds in the working
   tree (lock attribute published after authenticate() has returned) *)
Theorem C09_first_authentication_gate : forall tr g,
  AuthGate.areach (negb auth_lock_published_after_authenticate) AuthGate.ginit tr g ->
  Forall (fun v => match v with AuthGate.Call b => b = true end) tr.
Proof. exact AuthGateProofs.publish_after_auth_safe. Qed.
Theorem C09_first_authentication_published_early_refuted :
  exists tr g, AuthGate.areach true AuthGate.ginit tr g /\ In (AuthGate.Call false) tr.
Proof. exact AuthGateProofs.publish_before_auth_refuted. Qed.
Example C09_first_authentication_concrete :
  exists tr g, AuthGate.areach false AuthGate.ginit tr g /\ tr = [AuthGate.Call true; AuthGate.Call true; AuthGate.Call true].
Proof. exact AuthGateProofs.gate_concrete. Qed.
Print Assumptions C09_first_authentication_gate.
Print Assumptions C09_first_authentication_published_early_refuted.

Theorem C09_source_facts : all_sched_facts = true.
Proof. exact sched_facts_hold. Qed.
Print Assumptions C09_source_facts.

(* non-vacuity *)
Example C09_concrete_finalise :
  let p := [(1, [10; 11]); (2, [11]); (3, [12; 10; 13])] in
  wf p /\ fst (run_events [(3,13); (1,11); (2,11); (3,10); (1,10); (3,12)] p) = [2; 1; 3].
Proof. split; [|vm_compute; reflexivity]. split; [repeat constructor; cbn; intuition discriminate|].
  repeat constructor; cbn; try discriminate; intuition discriminate. Qed.
