(* C02 - no history of snapshot / delete / clean damages a remaining snapshot. *)
From Coq Require Import List Arith Bool.
From Replicat Require Import Model.Repo Proofs.RepoProofs Proofs.RepoLink Proofs.RepoTie Gen.RepoFacts.
From Replicat Require Proofs.RepoPartial.
Import ListNotations.

(* every backend step of every command, in any interleaving of overlapping snapshot runs, with
   delete/clean running alone, and crashes anywhere, preserves the invariant J *)
Theorem C02_step_preserves_J : forall g g', step g g' -> J g -> J g'.
Proof. exact step_preserves_J. Qed.
Print Assumptions C02_step_preserves_J.

(* hence in every reachable state every snapshot object present has all its chunk objects *)
Theorem C02_every_history_safe : forall st g, Inv st -> reachable (quiescent st) g -> Inv (g_st g).
Proof. exact every_history_safe. Qed.
Print Assumptions C02_every_history_safe.

Theorem C02_from_empty : forall g, reachable (quiescent empty_store) g -> Inv (g_st g).
Proof. exact (fun g => every_history_safe empty_store g empty_Inv). Qed.
Print Assumptions C02_from_empty.

(* the sequential reading used by the correspondence: any list of commands by any users *)
Theorem C02_run_safe : forall ops st, Inv st -> Inv (run ops st).
Proof. exact run_Inv. Qed.
Print Assumptions C02_run_safe.

(* the sequential commands the correspondence harness runs and lifts are themselves histories of the
   interleaving relation (chunk lists compared as sets) *)
Theorem C02_exec_snapshot_is_a_history : forall st u f id tab,
  exists st', reachable (quiescent st) (quiescent st') /\ store_equiv st' (fst (exec st (OSnap u f id tab))).
Proof. exact exec_snapshot_is_a_history. Qed.
Theorem C02_exec_delete_is_a_history : forall st u f ids st', exec st (ODel u f ids) = (st', true) ->
  exists st'', reachable (quiescent st) (quiescent st'') /\ store_equiv st'' st'.
Proof. exact exec_delete_is_a_history. Qed.
Theorem C02_exec_clean_is_a_history : forall st f,
  exists st'', reachable (quiescent st) (quiescent st'') /\ store_equiv st'' (fst (exec st (OClean f))).
Proof. exact exec_clean_is_a_history. Qed.
Print Assumptions C02_exec_snapshot_is_a_history.
Print Assumptions C02_exec_delete_is_a_history.
Print Assumptions C02_exec_clean_is_a_history.

(* histories issued through ONE long-lived session: whatever the session believes to be stored (a memo on the Repository object,
   the answer of an earlier command), a snapshot that skips the uploads of chunks it believes present keeps every listed snapshot
   complete exactly when the belief holds of the store at that moment; the code's belief is the store itself (the worker's only
   source of [exists] is the backend's answer, asked per chunk: fact_worker_checks_then_uploads_then_records) *)
Theorem C02_snapshot_with_sound_belief_safe : forall bel u f id tab st,
  Inv st -> incl bel (chunks st) -> Inv (RepoPartial.snap_believing bel u f id tab st).
Proof. exact RepoPartial.snap_with_sound_belief_safe. Qed.
Theorem C02_belief_of_the_code_is_the_store : forall u f id tab st,
  RepoPartial.snap_believing (chunks st) u f id tab st = fst (exec st (OSnap u f id tab)).
Proof. exact RepoPartial.snap_believing_the_store. Qed.
Theorem C02_snapshot_with_stale_belief_refuted :
  exists bel u f id tab st, Inv st /\ ~ Inv (RepoPartial.snap_believing bel u f id tab st).
Proof. exact RepoPartial.snap_with_stale_belief_refuted. Qed.
Print Assumptions C02_snapshot_with_sound_belief_safe.
Print Assumptions C02_belief_of_the_code_is_the_store.
Print Assumptions C02_snapshot_with_stale_belief_refuted.

Theorem C02_source_facts : all_repo_facts = true.
Proof. exact repo_facts_hold. Qed.
Print Assumptions C02_source_facts.

(* non-vacuity: two users of one family (1,2) and an independent one (family 7); shared chunk 5
   survives the owner's delete because the other user's snapshot references it *)
Example C02_concrete :
  let ops := [OSnap 1 0 100 [5;6]; OSnap 2 0 101 [5;8]; OSnap 9 7 102 [5]; ODel 1 0 [100]; OClean 0] in
  let st := run ops empty_store in
  chunks st = [(0,5); (0,8); (7,5)] /\ map s_id (snaps st) = [102; 101] /\
  snd (exec (run (firstn 3 ops) empty_store) (ODel 2 0 [100])) = false.
Proof. vm_compute. repeat split. Qed.
