(* C12 - transient faults are masked, persistent ones end in a bounded error.
   Only statements closed by [exact], each followed by Print Assumptions.
   Model: Model/Retry.v.  Proofs: Proofs/RetryProofs.v (generic), Proofs/RetryInstances.v (with the facts
   read off the source, Gen/C12Facts.v).
   A fault sequence is a list of [option fault], one element per try: [Some f] = the try meets fault f
   (any position in the transfer, any kind), [None] = the try meets no fault. *)
From Coq Require Import List NArith Arith Bool.
From Replicat Require Import Model.Store Model.Retry Proofs.RetryProofs Proofs.RetryInstances.
From Replicat Require Gen.C12Facts.
Import ListNotations.

(* ---- B1: structure of the source *)
Theorem C12_source_facts :
  C12Facts.local_decorated = true /\ C12Facts.s3_decorated = true /\ C12Facts.b2_decorated = true /\
  C12Facts.s3_giveup_403 = true /\ C12Facts.b2_giveup_403 = true /\ C12Facts.s3_upload_calls_retried = true /\
  C12Facts.s3_hash_seek0 = true /\ C12Facts.s3_hash_before_retries = true /\ C12Facts.s3_hook_raises_status = true /\
  C12Facts.b2_backoff_handlers = true /\ C12Facts.b2_on_backoff_reauth_unless_429 = true /\ C12Facts.b2_hook_401_auth = true /\
  C12Facts.b2_upload_gets_fresh_url_each_try = true /\ C12Facts.b2_upload_url_not_cached = true /\
  C12Facts.requires_auth_bounded = true /\ C12Facts.requires_auth_waits_for_refresh = true /\ C12Facts.wrappers_forward = true.
Proof. exact source_facts. Qed.
Print Assumptions C12_source_facts.

Theorem C12_budgets_positive : 1 <= mt FlLocal /\ 1 <= mt FlS3 /\ 2 <= mt FlB2.
Proof. exact budgets_positive. Qed.
Print Assumptions C12_budgets_positive.

(* the except paths rewind / unlink, downloads truncate first: every adapter, as read off the source *)
Theorem C12_transfer_facts : forall fl,
  (fact_rewind (up_facts fl) = true /\ fact_truncate (up_facts fl) = true /\ fact_unlink_temp (up_facts fl) = true) /\
  (fact_rewind (down_facts fl) = true /\ fact_truncate (down_facts fl) = true /\ fact_unlink_temp (down_facts fl) = true).
Proof. exact (fun fl => conj (up_facts_ok fl) (down_facts_ok fl)). Qed.
Print Assumptions C12_transfer_facts.

(* ---- transient faults within the budget are masked: for every backend, every position and kind (except 403)
   of every fault, every number of consecutive faults below the budget, every chunk size, payload and
   previous object: the object is exactly the payload, the stream is at its end, no temporary is left,
   and the number of tries is the number of faults + 1 *)
Theorem C12_upload_stream_masked : forall fl c data old pre rest,
  no403 pre -> budget_ok fl (length pre) ->
  exists s' auths,
    run_method fl (up_attempt (up_facts fl) (uses_temp fl) c) (mt fl) C12Facts.max_reauth (map Some pre ++ None :: rest) (ustart data old)
    = (ROk tt, s', length pre + 1, auths) /\
    u_obj s' = Some data /\ sdata (u_src s') = data /\ spos (u_src s') = length data /\ u_temps s' = 0.
Proof. exact upload_stream_masked. Qed.
Print Assumptions C12_upload_stream_masked.

Theorem C12_download_stream_masked : forall fl c init D pre rest,
  no403 pre -> budget_ok fl (length pre) ->
  exists s' auths,
    run_method fl (down_attempt (down_facts fl) c) (mt fl) C12Facts.max_reauth (map Some pre ++ None :: rest) (dstart init D)
    = (ROk tt, s', length pre + 1, auths) /\ sdata (d_dst s') = D /\ spos (d_dst s') = length D.
Proof. exact download_stream_masked. Qed.
Print Assumptions C12_download_stream_masked.

Theorem C12_local_upload_bytes_masked : forall data old pre rest,
  length pre < mt FlLocal ->
  exists s' auths,
    run_method FlLocal (up_attempt local_upbytes_facts true (length data)) (mt FlLocal) C12Facts.max_reauth (map Some pre ++ None :: rest) (ustart data old)
    = (ROk tt, s', length pre + 1, auths) /\ u_obj s' = Some data /\ u_temps s' = 0.
Proof. exact upload_bytes_masked_local. Qed.
Print Assumptions C12_local_upload_bytes_masked.

(* ---- persistent faults: an error after exactly max_tries tries; stream rewound, no temporary left, the
   object is the previous one or the complete new one (never partial) *)
Theorem C12_upload_stream_persistent_error : forall fl c data old pre rest,
  stays_in_backoff fl pre -> length pre = mt fl ->
  exists s' k auths,
    run_method fl (up_attempt (up_facts fl) (uses_temp fl) c) (mt fl) C12Facts.max_reauth (map Some pre ++ rest) (ustart data old)
    = (RError k, s', mt fl, auths) /\
    spos (u_src s') = 0 /\ u_temps s' = 0 /\ (u_obj s' = old \/ u_obj s' = Some data).
Proof. exact upload_stream_persistent_error. Qed.
Print Assumptions C12_upload_stream_persistent_error.

Theorem C12_download_stream_persistent_error : forall fl c init D pre rest,
  stays_in_backoff fl pre -> length pre = mt fl ->
  exists s' k auths,
    run_method fl (down_attempt (down_facts fl) c) (mt fl) C12Facts.max_reauth (map Some pre ++ rest) (dstart init D)
    = (RError k, s', mt fl, auths) /\ spos (d_dst s') = 0.
Proof. exact download_stream_persistent_error. Qed.
Print Assumptions C12_download_stream_persistent_error.

(* B2, faults that trigger re-authentication (5xx, 401, 400), persistent: AuthRequired after exactly
   MAX_REAUTH_ATTEMPTS + 1 tries and MAX_REAUTH_ATTEMPTS refreshes (defect 6 repaired: it used to be unbounded) *)
Theorem C12_b2_upload_stream_persistent_auth : forall c data old pre rest,
  triggers_reauth pre -> length pre = S C12Facts.max_reauth ->
  exists s',
    run_method FlB2 (up_attempt b2_up_facts false c) (mt FlB2) C12Facts.max_reauth (map Some pre ++ rest) (ustart data old)
    = (RAuthRequired, s', S C12Facts.max_reauth, C12Facts.max_reauth) /\
    spos (u_src s') = 0 /\ u_temps s' = 0 /\ (u_obj s' = old \/ u_obj s' = Some data).
Proof. exact b2_upload_stream_persistent_auth. Qed.
Print Assumptions C12_b2_upload_stream_persistent_auth.

Theorem C12_b2_download_stream_persistent_auth : forall c init D pre rest,
  triggers_reauth pre -> length pre = S C12Facts.max_reauth ->
  exists s',
    run_method FlB2 (down_attempt b2_down_facts c) (mt FlB2) C12Facts.max_reauth (map Some pre ++ rest) (dstart init D)
    = (RAuthRequired, s', S C12Facts.max_reauth, C12Facts.max_reauth) /\ spos (d_dst s') = 0.
Proof. exact b2_download_stream_persistent_auth. Qed.
Print Assumptions C12_b2_download_stream_persistent_auth.

Theorem C12_forbidden_not_retried : forall fl c data old f rest, fl <> FlLocal -> f_kind f = K403 ->
  exists s', run_method fl (up_attempt (up_facts fl) (uses_temp fl) c) (mt fl) C12Facts.max_reauth (Some f :: rest) (ustart data old)
             = (RError K403, s', 1, 0) /\ spos (u_src s') = 0 /\ (u_obj s' = old \/ u_obj s' = Some data).
Proof. exact forbidden_not_retried. Qed.
Print Assumptions C12_forbidden_not_retried.

(* ---- boundedness for EVERY fault sequence (any mixture, any length) and whatever one try does *)
Theorem C12_tries_bounded : forall fl (St Res : Type) (attempt : option fault -> St -> outcome Res * St) fs s,
  snd (fst (run_method fl attempt (mt fl) C12Facts.max_reauth fs s))
  <= (match fl with FlB2 => S C12Facts.max_reauth | _ => 1 end) * mt fl.
Proof. exact (fun fl St Res => @tries_bounded_all fl St Res). Qed.
Print Assumptions C12_tries_bounded.

(* ---- the hypotheses matter: without the rewind in the except path one fault in mid-transfer is not masked *)
Theorem C12_no_rewind_upload_refuted :
  fst (fst (fst (run_method FlS3 (up_attempt no_rewind false 2) 4 3 [Some mid_fault] (ustart [1; 2; 3; 4; 5]%N None)))) = RError K400.
Proof. exact upload_without_rewind_not_masked. Qed.
Print Assumptions C12_no_rewind_upload_refuted.

Theorem C12_no_rewind_download_refuted :
  sdata (d_dst (snd (fst (fst (run_method FlS3 (down_attempt no_rewind 2) 4 3 [Some mid_fault] (dstart [] [1; 2; 3; 4; 5]%N))))))
  = [1; 2; 1; 2; 3; 4; 5]%N.
Proof. exact download_without_rewind_duplicates. Qed.
Print Assumptions C12_no_rewind_download_refuted.

(* ---- non-vacuity: budgets leave room for faults, and a concrete run with two faults in mid-transfer *)
Example C12_budget_inhabited : budget_ok FlLocal 4 /\ budget_ok FlS3 3 /\ budget_ok FlB2 3 /\ ~ budget_ok FlB2 4.
Proof.
  unfold budget_ok, mt. split; [|split; [|split]].
  - split; [apply Nat.ltb_lt; reflexivity | discriminate].
  - split; [apply Nat.ltb_lt; reflexivity | discriminate].
  - split; [apply Nat.ltb_lt; reflexivity | intros _; apply Nat.leb_le; reflexivity].
  - intros [H _]. apply Nat.ltb_lt in H. discriminate.
Qed.

Example C12_concrete_run :
  let f1 := {| f_before := false; f_after := 1; f_kind := KTransport; f_applied := false |} in
  let f2 := {| f_before := false; f_after := 9; f_kind := K5xx; f_applied := true |} in
  run_method FlB2 (up_attempt b2_up_facts false 2) (mt FlB2) C12Facts.max_reauth [Some f1; Some f2; None] (ustart [7; 8; 9]%N None)
  = (ROk tt, {| u_src := {| sdata := [7; 8; 9]%N; spos := 3 |}; u_obj := Some [7; 8; 9]%N; u_temps := 0 |}, 3, 1).
Proof. vm_compute. reflexivity. Qed.
