(* C15 - restore and the listings select exactly what the filters and timestamps say.
   Only statements closed by [exact], each followed by Print Assumptions.
   Filters are arbitrary predicates on strings (any regular expression, any matcher, "no filter" =
   constantly true): [smatch] is applied to the parsed snapshot NAME, [fmatch] to the file path. *)
From Coq Require Import List Arith NArith ZArith Bool String Lia Permutation Sorting.Sorted.
From Replicat Require Model.Repo Proofs.RepoProofs.
From Replicat Require Import Model.Timestamp Model.Select Model.Stream
  Proofs.TimestampProofs Proofs.SelectProofs Proofs.SizeProofs Proofs.SelectTie Gen.SelectGen.
Import ListNotations.

(* ------------------------------------------------------------------ restore *)
(* For every history (list of snapshots as the caller sees them) with pairwise distinct timestamps
   and every pair of filters: a file version is restored iff its path matches the file filter and
   it is the version held by the snapshot with the greatest timestamp among the readable snapshots
   that match the snapshot filter and contain the path; no path is restored twice. *)
Theorem C15_newest_matching_wins : forall (smatch fmatch : string -> bool) (snaps : list snap),
  NoDup (map s_ts snaps) ->
  (forall s, In s snaps -> NoDup (map f_path (s_files s))) ->
  (forall f, In f (restore_sel smatch fmatch snaps) <->
     fmatch (f_path f) = true /\
     exists s, In s (loaded_readable smatch snaps) /\ In f (s_files s) /\
       forall s', In s' (loaded_readable smatch snaps) -> has_path (f_path f) s' -> str_leb (s_ts s') (s_ts s) = true)
  /\ NoDup (map f_path (restore_sel smatch fmatch snaps)).
Proof.
  exact (fun sm fm snaps Hts Hnd =>
    newest_matching_wins sm fm snaps (NoDup_map_filter s_ts _ _ (NoDup_map_filter s_ts _ _ Hts)) Hnd).
Qed.
Print Assumptions C15_newest_matching_wins.

(* the restored path set: exactly the matching paths that some readable matching snapshot contains *)
Theorem C15_restored_paths : forall (smatch fmatch : string -> bool) (snaps : list snap),
  (forall s, In s snaps -> NoDup (map f_path (s_files s))) ->
  forall p, In p (map f_path (restore_sel smatch fmatch snaps)) <->
    fmatch p = true /\ exists s, In s (loaded_readable smatch snaps) /\ has_path p s.
Proof. exact restored_paths. Qed.
Print Assumptions C15_restored_paths.

(* which snapshots are candidates: family-visible, name matches, details readable *)
Theorem C15_candidates : forall (smatch : string -> bool) snaps s,
  In s (loaded_readable smatch snaps) <->
  In s snaps /\ visible s = true /\ smatch (s_name s) = true /\ readable s = true.
Proof. exact (fun sm snaps s => loaded_readable_In sm snaps s). Qed.
Print Assumptions C15_candidates.

(* ------------------------------------------------------------------ listings *)
Theorem C15_list_snapshots_exact_sorted : forall (smatch : string -> bool) snaps,
  Permutation (loaded smatch snaps) (ls_order smatch snaps) /\
  StronglySorted (desc ls_key) (ls_order smatch snaps) /\
  (forall s, In s (ls_order smatch snaps) <-> In s snaps /\ visible s = true /\ smatch (s_name s) = true) /\
  (forall cols, map fst (ls_rows smatch cols snaps) = map s_id (ls_order smatch snaps)).
Proof. exact ls_exact_sorted. Qed.
Print Assumptions C15_list_snapshots_exact_sorted.

Theorem C15_list_files_exact_sorted : forall (smatch fmatch : string -> bool) snaps,
  Permutation (lf_pairs smatch fmatch snaps) (lf_order smatch fmatch snaps) /\
  StronglySorted (desc lf_key) (lf_order smatch fmatch snaps) /\
  (forall s f, In (s, f) (lf_order smatch fmatch snaps) <->
     In s snaps /\ visible s = true /\ smatch (s_name s) = true /\ readable s = true /\
     In f (s_files s) /\ fmatch (f_path f) = true) /\
  (forall cols, map fst (lf_rows smatch fmatch cols snaps) = map (fun p => f_id (snd p)) (lf_order smatch fmatch snaps)).
Proof. exact lf_exact_sorted. Qed.
Print Assumptions C15_list_files_exact_sorted.

(* ------------------------------------------------------------------ sizes *)
(* the SIZE cell of a file whose references are the ranges attributed to [fs, fe) of a stream cut
   into chunks of lengths clens (C01 tiling), recorded in any order, is fe - fs *)
Theorem C15_size_is_true_size : forall clens fs fe m path id, fs <= fe -> fe <= list_sum clens ->
  Permutation m (refs_of (fs, fe) clens) ->
  file_size (mkfile path id (map ref_range m)) = N.of_nat (fe - fs).
Proof. exact size_is_true_size. Qed.
Print Assumptions C15_size_is_true_size.

Theorem C15_plan_size_is_length : forall clens fs fe, fs <= fe -> fe <= list_sum clens ->
  plan_size (refs_of (fs, fe) clens) = fe - fs.
Proof. exact refs_size_is_length. Qed.
Print Assumptions C15_plan_size_is_length.

Theorem C15_snapshot_size_is_sum : forall s,
  snap_size s = fold_right (fun f acc => (file_size f + acc)%N) 0%N (s_files s).
Proof. exact snap_size_sum. Qed.
Print Assumptions C15_snapshot_size_is_sum.

(* ------------------------------------------------------------------ names *)
(* the printed NAME is s_name (= parse_snapshot_location(path).name, tie_names), the string the
   snapshot filter is applied to (C15_candidates) and the string delete compares with *)
Theorem C15_names_accepted : forall names snaps,
  (forall n, In n names -> exists s, In s (ls_order all_names snaps) /\ readable s = true /\ s_name s = n) ->
  (forall s, In s snaps -> visible s = true -> In (s_name s) names -> readable s = true) ->
  delete_names names snaps = (filter (fun s => negb (named names s)) snaps, true).
Proof. exact names_accepted. Qed.
Print Assumptions C15_names_accepted.

Theorem C15_names_unknown_changes_nothing : forall names snaps,
  (exists n, In n names /\ forall s, In s (ls_order all_names snaps) -> s_name s <> n) ->
  delete_names names snaps = (snaps, false).
Proof. exact names_unknown. Qed.
Print Assumptions C15_names_unknown_changes_nothing.

Theorem C15_names_other_key_changes_nothing : forall names snaps,
  (exists s, In s snaps /\ visible s = true /\ readable s = false /\ In (s_name s) names) ->
  delete_names names snaps = (snaps, false).
Proof. exact names_other_key. Qed.
Print Assumptions C15_names_other_key_changes_nothing.

(* the same refusal at the level of stored objects (layer-1 repository model of C02...C08) *)
Theorem C15_unknown_name_layer1 : forall st u f ids,
  (exists id, In id ids /\ ~ exists s, In s (Repo.snaps st) /\ Repo.s_id s = id /\ Repo.s_fam s = f /\ Repo.s_usr s = u) ->
  Repo.exec st (Repo.ODel u f ids) = (st, false).
Proof. exact RepoProofs.delete_refuses. Qed.
Print Assumptions C15_unknown_name_layer1.

Theorem C15_names_source_facts :
  gen_fmt_snapshot_name = "self.parse_snapshot_location(path).name"%string /\
  gen_fmt_file_snapshot_name = "self.parse_snapshot_location(snapshot_path).name"%string /\
  gen_load_parse = "name, tag = self.parse_snapshot_location(path)"%string /\
  gen_delete_name = "name = self.parse_snapshot_location(path).name"%string /\
  gen_delete_test = "name in remaining_names"%string /\ gen_delete_names_are_the_arguments = true.
Proof. exact tie_names. Qed.
Print Assumptions C15_names_source_facts.

(* ------------------------------------------------------------------ timestamps *)
(* for all datetimes (years 0..9999, hence 1000..9999): Python's comparison of the two strings,
   with the fractional part omitted when zero, is the chronological comparison *)
Theorem C15_ts_string_order : forall a b, wf_dt a -> wf_dt b -> str_cmp (render a) (render b) = dt_cmp a b.
Proof. exact ts_string_order. Qed.
Print Assumptions C15_ts_string_order.

Theorem C15_ts_prefix_case : forall t, wf_dt t -> dus t <> 0%N ->
  str_cmp (render (whole_second t)) (render t) = Lt /\ dt_cmp (whole_second t) t = Lt.
Proof. exact ts_prefix_case. Qed.
Print Assumptions C15_ts_prefix_case.

Theorem C15_distinct_instants_distinct_strings : forall a b, wf_dt a -> wf_dt b -> render a = render b -> a = b.
Proof. exact render_inj. Qed.
Print Assumptions C15_distinct_instants_distinct_strings.

Theorem C15_timestamp_column : forall t, seconds_part (render t) = render (whole_second t).
Proof. exact seconds_part_render. Qed.
Print Assumptions C15_timestamp_column.

(* ------------------------------------------------------------------ several patterns *)
(* PARTIAL: "matching ANY of the given regexes" holds for matchers obeying the alternation law *)
Theorem C15_combine_partial : forall (matches : string -> string -> bool),
  (forall ps s, ps <> [] -> matches (join_bar ps) s = existsb (fun p => matches p s) ps) ->
  forall o s, o <> Some [] -> opt_match matches (combine_optional o) s = any_of matches o s.
Proof. exact combine_any. Qed.
Print Assumptions C15_combine_partial.

Theorem C15_restore_any_partial : forall (matches : string -> string -> bool),
  (forall ps s, ps <> [] -> matches (join_bar ps) s = existsb (fun p => matches p s) ps) ->
  forall so fo snaps, so <> Some [] -> fo <> Some [] ->
  restore_sel (opt_match matches (combine_optional so)) (opt_match matches (combine_optional fo)) snaps
  = restore_sel (any_of matches so) (any_of matches fo) snaps.
Proof. exact restore_any. Qed.
Print Assumptions C15_restore_any_partial.

(* REFUTED without the law: CPython's re on back-references (and on inline global flags, where the
   joined pattern is rejected) -- known finding C15-regex-combination *)
Theorem C15_combine_unrestricted_refuted :
  exists (matches : string -> string -> bool) o s, o <> Some [] /\
    opt_match matches (combine_optional o) s <> any_of matches o s.
Proof. exact combine_unrestricted_refuted. Qed.
Print Assumptions C15_combine_unrestricted_refuted.

Theorem C15_re_observation_current : gen_re_observed = observed_re.
Proof. exact tie_re_observed. Qed.
Print Assumptions C15_re_observation_current.

Theorem C15_combine_flags_refuted :
  opt_match observed_matches (combine_optional (Some ["x"; "(?i)abc"]%string)) "ABC"
  <> any_of observed_matches (Some ["x"; "(?i)abc"]%string) "ABC".
Proof. exact combine_flags_refuted. Qed.
Print Assumptions C15_combine_flags_refuted.

(* ------------------------------------------------------------------ the model is the code's (B1) *)
Theorem C15_tie_order_and_guard :
  (gen_restore_sort_key = "x['data']['utc_timestamp']" /\ gen_restore_sort_reverse = true /\
   gen_restore_loads_filtered = true /\ gen_restore_readable_only = true)%string /\
  (gen_restore_first_wins_guard = true /\ gen_restore_file_filter_method = "search" /\
   gen_restore_file_filter_subject = "file_data['path']" /\ gen_restore_file_filter_skips = true /\
   gen_restore_file_filter_regex = "self._compile_or_none(file_regex)" /\
   gen_restore_marks_after_filter = true /\ gen_restore_result_is_taken_paths = true)%string /\
  (gen_snapshot_filter_method = "search" /\ gen_snapshot_filter_subject = "parse_snapshot_location(path).name" /\
   gen_snapshot_filter_skips = true /\ gen_snapshot_filter_regex = "self._compile_or_none(snapshot_regex)" /\
   gen_compile_or_none = "re.compile(pattern) if pattern is not None else None")%string.
Proof. exact (conj tie_restore_order (conj tie_restore_first_wins tie_snapshot_filter_on_name)). Qed.
Print Assumptions C15_tie_order_and_guard.

Theorem C15_tie_bytes_to_human : forall v : N,
  gen_bth_divisor (Z.of_N v) = Z.of_N (fst (bth_unit v)) /\ gen_bth_unit (Z.of_N v) = snd (bth_unit v).
Proof. exact tie_bytes_to_human. Qed.
Print Assumptions C15_tie_bytes_to_human.

Theorem C15_tie_combine : (forall ps, gen_combine ps = join_bar ps) /\ (forall o, gen_combine_optional o = combine_optional o) /\
  gen_cli_filters_combined = true.
Proof. exact tie_combine. Qed.
Print Assumptions C15_tie_combine.

(* ------------------------------------------------------------------ non-vacuity *)
Definition ex_snaps : list snap :=
  [ mksnap "aa01" 1 "2024-01-01 00:00:00" Own [mkfile "/d/a.txt" 10 [(0, 5)]; mkfile "/d/b.log" 11 [(0, 7)]];
    mksnap "bb02" 2 "2024-01-01 00:00:00.000001" Own [mkfile "/d/a.txt" 20 [(0, 3); (0, 4)]];
    mksnap "cc03" 3 "2023-12-31 23:59:59.999999" Own [mkfile "/d/a.txt" 30 []; mkfile "/d/c" 31 [(2, 2)]];
    mksnap "dd04" 4 "2025-06-01 12:00:00" Family [mkfile "/d/a.txt" 40 [(0, 9)]];
    mksnap "ee05" 5 "2026-01-01 00:00:00" Foreign [mkfile "/d/a.txt" 50 [(0, 9)]] ]%string%N.

Example C15_example_hypotheses : NoDup (map s_ts ex_snaps) /\ forall s, In s ex_snaps -> NoDup (map f_path (s_files s)).
Proof.
  split.
  - repeat constructor; cbn; intuition discriminate.
  - intros s Hs. cbn in Hs. repeat destruct Hs as [<-|Hs]; try contradiction; cbn; repeat constructor; cbn; intuition discriminate.
Qed.

Example C15_example_run :
  map f_id (restore_sel (fun _ => true) (fun _ => true) ex_snaps) = [20; 11; 31]%N /\
  map f_id (restore_sel (fun n => negb (String.eqb n "bb02")) (fun p => String.eqb p "/d/a.txt") ex_snaps) = [10]%N /\
  map s_id (ls_order (fun _ => true) ex_snaps) = [2; 1; 3; 4]%N /\
  map (fun p => f_id (snd p)) (lf_order (fun _ => true) (fun _ => true) ex_snaps) = [20; 10; 11; 30; 31]%N /\
  snd (delete_names ["aa01"; "cc03"]%string ex_snaps) = true /\
  delete_names ["aa01"; "snapshots/ab/cd-aa01"]%string ex_snaps = (ex_snaps, false) /\
  delete_names ["dd04"]%string ex_snaps = (ex_snaps, false) /\
  delete_names ["ee05"]%string ex_snaps = (ex_snaps, false).
Proof. vm_compute. repeat split; reflexivity. Qed.

Example C15_example_timestamps :
  render (mkdt 2024 1 1 0 0 0 0) = "2024-01-01 00:00:00"%string /\
  render (mkdt 2023 12 31 23 59 59 999999) = "2023-12-31 23:59:59.999999"%string /\
  render (mkdt 999 2 3 4 5 6 70) = "0999-02-03 04:05:06.000070"%string /\
  wf_dt (mkdt 9999 12 31 23 59 59 999999) /\
  str_cmp "2024-01-01 00:00:00" "2024-01-01 00:00:00.000001" = Lt.
Proof. vm_compute. repeat split; reflexivity. Qed.
