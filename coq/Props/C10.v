(* C10 - the chunker is a lossless, bounded, deterministic function of the stream.
   Only statements closed by [exact], each followed by Print Assumptions. *)
From Coq Require Import List NArith ZArith Arith Lia Bool.
From Replicat Require Import Model.Chunker Model.Clmul Proofs.ChunkerProofs Proofs.ChunkerTie Gen.SrcFacts Gen.ChunkerGen.
Import ListNotations.

Definition valid (mn mx : nat) : Prop := 1 <= mn /\ align4 mn <= mx.
Definition in_bounds {B} (mn mx : nat) (ch : list B) : Prop := mn <= length ch <= mx /\ length ch mod 4 = 0.

(* the alignment the model hard-wires is the one the adapter declares *)
Theorem C10_alignment_fact : chunker_alignment = 4.
Proof. exact eq_refl. Qed.
Print Assumptions C10_alignment_fact.

(* the built-in default parameters are valid *)
Theorem C10_defaults_valid :
  (1 <=? chunker_MIN_LENGTH)%N = true /\ (4 * ((chunker_MIN_LENGTH + 3) / 4) <=? chunker_MAX_LENGTH)%N = true.
Proof. exact (conj eq_refl eq_refl). Qed.
Print Assumptions C10_defaults_valid.

Section Generic.
Context {B : Type}.
Variable hash : list B -> N.

(* concatenation of the chunks = the stream, for every segmentation, junk, hash; 1 <= min <= max *)
Theorem C10_lossless : forall mn mx, 1 <= mn -> mn <= mx -> forall pieces junk,
  concat (chunkify hash mn mx pieces junk) = concat pieces.
Proof. exact (lossless hash). Qed.

(* no chunk is empty *)
Theorem C10_nonempty : forall mn mx, valid mn mx -> forall pieces junk,
  Forall (fun ch => ch <> []) (chunkify hash mn mx pieces junk).
Proof. exact (fun mn mx H => nonempty hash mn mx (proj1 H) (proj2 H)). Qed.

(* never determined by memory outside the data, nor by the number of earlier calls *)
Theorem C10_junk_independent : forall mn mx, valid mn mx -> forall pieces j1 j2,
  chunkify hash mn mx pieces j1 = chunkify hash mn mx pieces j2.
Proof. exact (fun mn mx H => junk_independent hash mn mx (proj1 H) (proj2 H)). Qed.

(* two segmentations of one stream share a head [hd]; every chunk of it is within bounds and
   4-aligned; whatever differs starts within the last 2*mx bytes *)
Theorem C10_bounds_and_segmentation : forall mn mx, valid mn mx ->
  forall p1 p2 j1 j2, concat p1 = concat p2 ->
  exists hd t1 t2,
    chunkify hash mn mx p1 j1 = hd ++ t1 /\ chunkify hash mn mx p2 j2 = hd ++ t2 /\
    Forall (in_bounds mn mx) hd /\
    length (concat p1) - length (concat hd) < 2 * mx.
Proof. exact (fun mn mx H => segmentation_independent hash mn mx (proj1 H) (proj2 H)). Qed.

(* the head is the segmentation-free reference sequence *)
Theorem C10_head_prefix : forall mn mx, valid mn mx -> forall pieces junk,
  exists tl, chunkify hash mn mx pieces junk = head hash mn mx (length (concat pieces)) (concat pieces) ++ tl.
Proof. exact (fun mn mx H => head_prefix hash mn mx (proj1 H) (proj2 H)). Qed.
End Generic.

Print Assumptions C10_lossless.
Print Assumptions C10_nonempty.
Print Assumptions C10_junk_independent.
Print Assumptions C10_bounds_and_segmentation.
Print Assumptions C10_head_prefix.

(* B1: the decision logic of gclmulchunker::next_cut translated from src/adapters.cpp is the model's.
   [next_cut] = its early branches, else the scan; early branches, scan range/stride/strictness/window and
   the fallback agree with the translated C++ for all values; the Python driver loop has the modelled shape *)
Theorem C10_tie_next_cut_structure : forall {B} (hash : list B -> N) mn mx buf junk final,
  next_cut hash mn mx buf junk final =
  match model_early mn mx final (length buf) with Some n => n | None => ref_cut hash mn mx (buf ++ junk) end.
Proof. exact (fun B => @next_cut_early B). Qed.
Theorem C10_tie_early_branches : forall (mn mx size : nat) (final : bool),
  option_map Z.of_nat (model_early mn mx final size) = gen_early final (Z.of_nat size) (Z.of_nat mn) (Z.of_nat mx).
Proof. exact tie_early. Qed.
Theorem C10_tie_scan : forall mx : nat,
  gen_scan_start = 4%Z /\ gen_scan_stride = 4%Z /\ gen_scan_strict = true /\ gen_window_back = 4%Z /\ gen_window_bytes = 8%Z /\
  (forall mn, gen_scan_bound mn (Z.of_nat mx) = Z.of_nat mx) /\
  Z.of_nat (ncand mx) = Z.max 0 ((gen_scan_bound 0 (Z.of_nat mx) - gen_scan_start + gen_scan_stride - 1) / gen_scan_stride).
Proof. exact tie_scan. Qed.
Theorem C10_tie_fallback : forall mn mx m : nat,
  gen_fallback_cond (Z.of_nat m) (Z.of_nat mn) (Z.of_nat mx) = (m <? mn) /\
  gen_fallback (Z.of_nat mn) (Z.of_nat mx) = Z.of_nat (align4 mn).
Proof. exact tie_fallback. Qed.
Theorem C10_tie_shapes : (gen_key_shape_ok && gen_driver_loop_ok)%bool = true.
Proof. exact tie_shapes. Qed.
Print Assumptions C10_tie_next_cut_structure.
Print Assumptions C10_tie_early_branches.
Print Assumptions C10_tie_scan.
Print Assumptions C10_tie_fallback.
Print Assumptions C10_tie_shapes.

(* non-vacuity: valid parameters exist, and the concrete chunker really cuts *)
Example C10_valid_inhabited : valid 16 64 /\ valid 5 8 /\ valid 1 4 /\ ~ valid 5 7.
Proof.
  unfold valid. repeat split; try (vm_compute; lia).
Qed.

Definition demo_stream : list N :=
  map (fun i => let n := N.of_nat i in ((n * n * 7 + n * 13 + 5) mod 251)%N) (seq 0 400).
Example C10_concrete_run :
  map (@length N) (gchunkify [1;2;3;4;5;6;7;8;9;10;11;12;13;14;15;16]%N 16 64 [firstn 100 demo_stream; skipn 100 demo_stream] (fun _ => []))
  = map (@length N) (gchunkify [1;2;3;4;5;6;7;8;9;10;11;12;13;14;15;16]%N 16 64 [demo_stream] (fun _ => [255;255;255;255;255;255;255;255]%N))
  /\ 4 <= length (gchunkify [1;2;3;4;5;6;7;8;9;10;11;12;13;14;15;16]%N 16 64 [demo_stream] (fun _ => [])).
Proof. vm_compute. split; [reflexivity|lia]. Qed.
