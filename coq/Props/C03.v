(* C03 - interrupted commands leave a consistent, usable repository. *)
From Coq Require Import List Arith Bool.
From Replicat Require Import Model.Repo Proofs.RepoProofs Proofs.RepoTie Gen.RepoFacts.
From Replicat Require Import Model.Store Model.LocalFs Proofs.LocalFsProofs Proofs.LocalRefine.
From Replicat Require Gen.C13Facts.
From Replicat Require Proofs.RepoPartial.
From Replicat Require Model.LocalBuf Proofs.LocalBufProofs Proofs.LocalBufTie Gen.LocalBufGen.
Import ListNotations.

(* the step relation contains a crash of any running snapshot instance at any point (S_crash) and of
   a running delete/clean at any point (S_des_crash); both preserve J like every other step, so
   every prefix of every mutation sequence leaves every visible snapshot complete *)
Theorem C03_crash_steps_are_steps :
  (forall st run1 i run2 des,
      step {| g_st := st; g_run := run1 ++ i :: run2; g_des := des |} {| g_st := st; g_run := run1 ++ run2; g_des := des |}) /\
  (forall st run p, step {| g_st := st; g_run := run; g_des := Some p |} {| g_st := st; g_run := run; g_des := None |}).
Proof. exact (conj S_crash S_des_crash). Qed.
Print Assumptions C03_crash_steps_are_steps.

Theorem C03_every_prefix_consistent : forall st g, Inv st -> reachable (quiescent st) g -> Inv (g_st g).
Proof. exact every_history_safe. Qed.
Print Assumptions C03_every_prefix_consistent.

(* ... and clean afterwards removes every orphan of the caller's family and nothing referenced *)
Theorem C03_clean_collects_orphans : forall st g f, Inv st -> reachable (quiescent st) g ->
  Inv (fst (exec (g_st g) (OClean f))) /\
  forall d, In (f, d) (chunks (fst (exec (g_st g) (OClean f)))) <->
            exists s, In s (snaps (g_st g)) /\ s_fam s = f /\ In d (s_tab s).
Proof. exact clean_after_any_history. Qed.
Print Assumptions C03_clean_collects_orphans.

(* the facts that make the step order of the model the order of the code: the snapshot object is
   uploaded after all chunk work, delete removes snapshot objects before chunk objects *)
Theorem C03_source_order_facts :
  (fact_worker_checks_then_uploads_then_records && fact_snapshot_object_uploaded_last && fact_snapshot_table_is_chunk_table = true) /\
  (fact_delete_keeps_chunks_of_all_other_loaded_snapshots && fact_delete_refuses_before_mutating && fact_delete_snapshots_then_chunks = true).
Proof. exact (conj fact_snapshot_order fact_delete_shape). Qed.
Print Assumptions C03_source_order_facts.

(* "a backend call fails for good": the loader of delete / clean does not leave a listed snapshot out because its download or
   its verification failed - the command fails instead (source facts) - and that is what the plan needs: computed from a view that
   lacks one snapshot, clean removes chunks that snapshot still needs; likewise a chunk removed while a named snapshot object is
   still in place (a refused removal the command did not stop at) *)
Theorem C03_loader_source_facts :
  fact_load_aborts_on_corrupted_snapshot && fact_load_fails_when_a_listed_snapshot_cannot_be_downloaded = true.
Proof. exact fact_loader_complete. Qed.
Print Assumptions C03_loader_source_facts.
Theorem C03_clean_with_full_view_safe : forall f st, Inv st -> Inv (RepoPartial.clean_seeing f (snaps st) st).
Proof. exact RepoPartial.clean_with_full_view_safe. Qed.
Print Assumptions C03_clean_with_full_view_safe.
Theorem C03_clean_with_partial_view_refuted :
  exists st seen f, Inv st /\ incl seen (snaps st) /\ ~ Inv (RepoPartial.clean_seeing f seen st).
Proof. exact RepoPartial.clean_with_partial_view_refuted. Qed.
Print Assumptions C03_clean_with_partial_view_refuted.
Theorem C03_chunk_removed_before_snapshot_refuted :
  exists st u f ids p c, plan_delete u f ids st = Some p /\ In c (d_chunks p) /\ Inv st /\
    ~ Inv {| chunks := filter (fun x => negb (pair_eqb c x)) (chunks st); snaps := snaps st |}.
Proof. exact RepoPartial.chunk_removed_before_snapshot_refuted. Qed.
Print Assumptions C03_chunk_removed_before_snapshot_refuted.

(* local backend, INSIDE a mutation: at every one of the micro-steps of an upload (temp file created,
   partially / fully written, renamed) every legal name reads either as before or as after the whole
   upload - never a partial object (directory-tree model of Model/LocalFs.v, proved for C13) *)
Theorem C03_local_upload_atomic : forall U, legalU U -> forall f st n d tmp k, l_rel U f st -> In n U -> tmp_ok U n tmp ->
  exists fk, l_upload_prefix k n d tmp f = Some fk /\
    ((forall u, In u U -> l_read u fk = alookup path_eqb u st) \/
     (forall u, In u U -> l_read u fk = alookup path_eqb u (aput path_eqb n d st))).
Proof. exact local_upload_atomic. Qed.
Print Assumptions C03_local_upload_atomic.

(* ... and the facts that make that model the code: temp file beside the destination, written first,
   then replace(); listing hides the temp suffix *)
Theorem C03_local_source_facts :
  C13Facts.local_temp_then_replace = true /\ C13Facts.local_tmp_in_parent = true /\
  C13Facts.local_list_suffix_filter = C13Facts.local_tmp_suffix.
Proof. exact (conj eq_refl (conj eq_refl eq_refl)). Qed.
Print Assumptions C03_local_source_facts.

(* ... and one level further down, where a process can really die: data written to the temporary sits in the process's buffer
   until the library / OS flushes some of it (any amount, any time) or the file is closed; a kill discards the buffer.  For the
   order of open / write / close / rename TRANSLATED from Local.upload_stream and Local.upload of the working tree, with flushes
   interleaved arbitrarily and the kill at any point: a later process finds under the destination name either what was there
   before or the complete new object *)
Theorem C03_local_buffered_upload_stream_atomic : forall (byte : Type) (pieces : list (list byte)) l,
  LocalBuf.unflush byte l = LocalBufGen.gen_upload_stream_ops pieces ->
  forall p q, l = p ++ q ->
    LocalBuf.visible _ (LocalBuf.exec byte p) = None \/ LocalBuf.visible _ (LocalBuf.exec byte p) = Some (concat pieces).
Proof. exact LocalBufTie.translated_upload_stream_atomic. Qed.
Theorem C03_local_buffered_upload_atomic : forall (byte : Type) (data : list byte) l,
  LocalBuf.unflush byte l = LocalBufGen.gen_upload_ops data ->
  forall p q, l = p ++ q ->
    LocalBuf.visible _ (LocalBuf.exec byte p) = None \/ LocalBuf.visible _ (LocalBuf.exec byte p) = Some data.
Proof. exact LocalBufTie.translated_upload_atomic. Qed.
Print Assumptions C03_local_buffered_upload_stream_atomic.
Print Assumptions C03_local_buffered_upload_atomic.
(* the order is what carries it: renaming inside the open block exposes an empty file to a kill *)
Theorem C03_local_rename_before_close_refuted :
  let l := [LocalBuf.BOpen; LocalBuf.BWrite [1; 2; 3]; LocalBuf.BRename; LocalBuf.BClose] in
  LocalBuf.atomic_order nat l = false /\
  exists p q, l = p ++ q /\ LocalBuf.visible _ (LocalBuf.exec nat p) = Some [] /\ LocalBuf.written nat l = [1; 2; 3].
Proof. exact LocalBufProofs.rename_before_close_refuted. Qed.
Print Assumptions C03_local_rename_before_close_refuted.

(* non-vacuity: a snapshot instance crashes after uploading one of two chunks: orphan (0,5) *)
Example C03_concrete :
  exists g, reachable (quiescent empty_store) g /\ g_run g = [] /\ chunks (g_st g) = [(0,5)] /\ snaps (g_st g) = [] /\
            chunks (fst (exec (g_st g) (OClean 0))) = [].
Proof.
  pose (i0 := {| i_fam := 0; i_usr := 1; i_id := 9; i_all := [5;6]; i_pending := [5;6]; i_toput := []; i_done := [] |}).
  pose (i1 := {| i_fam := 0; i_usr := 1; i_id := 9; i_all := [5;6]; i_pending := [6]; i_toput := [5]; i_done := [] |}).
  pose (i2 := {| i_fam := 0; i_usr := 1; i_id := 9; i_all := [5;6]; i_pending := [6]; i_toput := []; i_done := [5] |}).
  pose (st1 := {| chunks := [(0,5)]; snaps := [] |}).
  exists {| g_st := st1; g_run := []; g_des := None |}. split; [|cbn; repeat split].
  apply reach_step with (g := {| g_st := st1; g_run := [i2]; g_des := None |}); [|exact (S_crash st1 [] i2 [] None)].
  apply reach_step with (g := {| g_st := empty_store; g_run := [i1]; g_des := None |});
    [|exact (S_put empty_store [] i1 [] 5 [] [] eq_refl)].
  apply reach_step with (g := {| g_st := empty_store; g_run := [i0]; g_des := None |});
    [|exact (S_check empty_store [] i0 [] 5 [6] eq_refl)].
  apply reach_step with (g := quiescent empty_store); [apply reach_refl|].
  apply (S_start i0 empty_store []). repeat split.
Qed.
