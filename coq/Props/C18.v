(* C18 - the snapshot cache never changes what a command does.
   A cache is an arbitrary partial map path -> bytes: missing, empty, any proper prefix, another
   snapshot's bytes, entries left by other keys / repositories / interrupted writes are all just
   "some bytes".  Premise of the generic part: the hash is injective.  The symbolic instance
   (free constructors) is closed.  Only statements closed by [exact] + Print Assumptions. *)
From Coq Require Import List NArith Bool.
From Replicat Require Import Model.Crypto Model.Objects Model.Cache Proofs.CryptoProofs Proofs.CacheProofs Gen.CacheFacts.
Import ListNotations.

(* B1: in _download_snapshot_threadsafe the digest comparison covers bytes read from the cache, only
   verified bytes are stored, and the cache is consulted only for listed paths *)
Theorem C18_source_facts :
  digest_check_covers_cached = true /\ cache_stores_only_verified = true /\ cache_read_only_for_listed = true.
Proof. exact (conj eq_refl (conj eq_refl eq_refl)). Qed.
Print Assumptions C18_source_facts.

Section Generic.
Variables (P B D Body : Type).
Variable hash : B -> D.
Variable deqb : D -> D -> bool.
Variable expected : P -> option D.
Variable decode : B -> res Body.
Hypothesis deqb_spec : forall x y, deqb x y = true <-> x = y.
Hypothesis hash_inj : forall a b, hash a = hash b -> a = b.

(* for EVERY cache state, loading the listed snapshots returns what the cache-less load returns;
   the verification flag is the one read from the source *)
Theorem C18_load_transparent : forall (ca : option (P -> option B)) be listing,
  intact hash expected be listing ->
  load hash deqb expected decode digest_check_covers_cached ca be listing
  = load hash deqb expected decode digest_check_covers_cached None be listing.
Proof. exact (load_transparent P B D Body hash deqb expected decode deqb_spec hash_inj). Qed.

(* without any assumption on the backend object: accepted bytes hash to the expected digest, and a
   cache never turns a success of the cache-less client into anything else *)
Theorem C18_fetch_sound : forall ca (be : P -> option B) p d x,
  fetch hash deqb digest_check_covers_cached ca be p d = Ok x -> hash x = d.
Proof. exact (fetch_sound P B D hash deqb deqb_spec). Qed.

Theorem C18_fetch_monotone : forall ca (be : P -> option B) p d y,
  fetch hash deqb digest_check_covers_cached None be p d = Ok y -> fetch hash deqb digest_check_covers_cached ca be p d = Ok y.
Proof. exact (fetch_monotone P B D hash deqb deqb_spec hash_inj). Qed.

(* entries under paths the backend does not list (stale entries of deleted snapshots, other
   repositories' entries) are inert, whatever they contain *)
Theorem C18_only_listed_read : forall vc (c1 c2 : P -> option B) be listing, (forall p, In p listing -> c1 p = c2 p) ->
  load hash deqb expected decode vc (Some c1) be listing = load hash deqb expected decode vc (Some c2) be listing.
Proof. exact (load_reads_listed_only P B D Body hash deqb expected decode). Qed.

(* what a load writes into the cache is the verified backend object *)
Theorem C18_cache_holds_verified : forall ca (be : P -> option B) p d b,
  fetch_stores hash deqb digest_check_covers_cached ca be p d = Some b -> be p = Some b /\ hash b = d.
Proof. exact (fetch_stores_valid P B D hash deqb deqb_spec). Qed.

(* hence every command, and every history of commands each seeing an arbitrary cache, has the
   results and the final backend state of the cache-less history *)
Variables (St Out : Type).
Variable objs : St -> P -> option B.
Variable names : St -> list P.
Variable Inv : St -> Prop.
Hypothesis Inv_intact : forall s, Inv s -> intact hash expected (objs s) (names s).

Theorem C18_histories_generic : forall (h : list (option (P -> option B) * command P Body St Out)) s,
  (forall ca c, In (ca, c) h -> forall s', Inv s' ->
     Inv (snd (c (load hash deqb expected decode digest_check_covers_cached None (objs s') (names s')) s'))) ->
  Inv s ->
  run hash deqb expected decode objs names digest_check_covers_cached h s
  = run hash deqb expected decode objs names digest_check_covers_cached (without_cache h) s.
Proof. exact (run_transparent P B D Body hash deqb expected decode deqb_spec hash_inj St Out objs names Inv Inv_intact). Qed.
End Generic.

Print Assumptions C18_load_transparent.
Print Assumptions C18_fetch_sound.
Print Assumptions C18_fetch_monotone.
Print Assumptions C18_only_listed_read.
Print Assumptions C18_cache_holds_verified.
Print Assumptions C18_histories_generic.

(* symbolic instance, closed: histories of snapshot / load (list, restore) / delete operations by any
   number of clients; caches start with arbitrary contents, may be shared by clients, and any entry may
   be rewritten or removed at any point (OCacheSet).  Observations and the final store are those of
   the cache-less run. *)
Theorem C18_histories : forall h caches st, sym_intact st -> Forall (fun x => wf_op (snd x)) h ->
  observations (run_ops digest_check_covers_cached caches st h) = observations (run_ops digest_check_covers_cached [] st (strip h)) /\
  snd (run_ops digest_check_covers_cached caches st h) = snd (run_ops digest_check_covers_cached [] st (strip h)).
Proof. exact run_ops_transparent. Qed.
Print Assumptions C18_histories.

(* ---------------------------------------------------------------- non-vacuity and the repaired defect *)
Definition kr : keyring := {| k_shared := Bytes 1; k_salt := Bytes 2; k_mac := Bytes 3; k_user := Kdf (Bytes 4) (Bytes 5) |}.
Definition sn (i : N) : term := encrypt_body (Some kr) (2 * i) (2 * i + 1) (tlist [Hash (Bytes (100 + i))]) (enc_data (Bytes (80 + i)) []).
Definition p (i : N) : loc := snapshot_loc (Some kr) (Hash (sn i)).

Example C18_empty_store_intact : sym_intact [].
Proof. intros n t obj H; discriminate H. Qed.

(* a history with a truncated entry, a foreign entry, a stale entry and a shared cache: same observations *)
Definition c0 := (Some 0%nat, Some kr). Definition c1 := (Some 1%nat, Some kr). Definition cn := (@None nat, Some kr).
Definition demo : list (option nat * mode * op) :=
  [ (c0, OPut (p 1) (sn 1)); (c0, OLoad None);
    (c0, OCacheSet (p 1) (Some (Garbage 7)));           (* truncated *)
    (c1, OPut (p 2) (sn 2));
    (c0, OCacheSet (p 2) (Some (sn 1)));                (* another snapshot's bytes *)
    (c0, OLoad None); (c1, OLoad (Some [Hash (sn 2)]));
    (c1, ODelete [Hash (sn 1)]);                        (* client 0's entry for p 1 is now stale *)
    (c0, OLoad None); (cn, OLoad None) ].

Example C18_demo_runs :
  observations (run_ops true [[]; []] [] demo)
  = [ (0, []); (0, [(Hash (sn 1), true)]); (0, []); (0, []); (0, []);
      (0, [(Hash (sn 2), true); (Hash (sn 1), true)]); (0, [(Hash (sn 2), true)]); (0, []);
      (0, [(Hash (sn 2), true)]); (0, [(Hash (sn 2), true)]) ]%N
  /\ Forall (fun x => wf_op (snd x)) demo.
Proof. split; [vm_compute; reflexivity | repeat constructor]. Qed.

(* the behaviour before the repair (cached bytes trusted): a truncated entry changes the result *)
Example C18_unverified_cache_refuted :
  let st := [(p 1, sn 1)] in
  sym_load false (Some kr) (fun _ => true) (Some [(p 1, Garbage 7)]) st <> sym_load false (Some kr) (fun _ => true) None st
  /\ sym_load false (Some kr) (fun _ => true) (Some [(p 1, Garbage 7)]) st = Err Malformed.
Proof. split; [vm_compute; discriminate | vm_compute; reflexivity]. Qed.
