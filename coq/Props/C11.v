(* C11 - chunk boundaries are content-defined and re-synchronise after edits.
   Only statements closed by [exact], each followed by Print Assumptions.  Proofs: Proofs/ResyncProofs.v.
   What is NOT a theorem: the re-synchronisation DISTANCE on high-entropy data (probabilistic; it is a
   measured quantity of harness/c11.py, see design/C11.md). *)
From Coq Require Import List NArith ZArith Arith Lia Bool.
From Replicat Require Import Lib.ListX Model.Chunker Model.Clmul Model.Stream Model.Resync
  Proofs.ChunkerProofs Proofs.ResyncProofs Proofs.C01Tie Gen.SrcFacts Gen.StreamGen.
Import ListNotations.

(* ---------------------------------------------------------------- ties to the source *)
(* the stride / residue class hard-wired in the model is the alignment the adapter declares, and it is
   the alignment _stream_files pads to *)
Theorem C11_alignment_fact : chunker_alignment = 4.
Proof. exact eq_refl. Qed.
Print Assumptions C11_alignment_fact.

(* pad_len is the padding expression of _stream_files as translated from the source, and the padding
   is yielded as zero bytes before the next file is registered *)
Theorem C11_padding_source : forall a n off, 1 <= a ->
  Z.of_nat (pad_len a n) = gen_padding (Z.of_nat off) (Z.of_nat (off + n)) (Z.of_nat a).
Proof. exact tie_padding. Qed.
Print Assumptions C11_padding_source.

Theorem C11_padding_is_zero_bytes : gen_padding_is_zero_bytes = true.
Proof. exact eq_refl. Qed.
Print Assumptions C11_padding_is_zero_bytes.

Section Generic.
Context {B : Type}.
Variable hash : list B -> N.

(* ---------------------------------------------------------------- suffix determinism *)
(* the reference sequence from a boundary on is the reference sequence of the remaining bytes: the
   decision for a chunk is a function of the bytes from its start *)
Theorem C11_head_from_boundary : forall mn mx, 1 <= mn -> align4 mn <= mx -> forall (P Sx : list B) q k,
  boundary_at (head hash mn mx (length (P ++ Sx)) (P ++ Sx)) k (length P + q) ->
  skipn k (head hash mn mx (length (P ++ Sx)) (P ++ Sx)) = head hash mn mx (length (skipn q Sx)) (skipn q Sx).
Proof. exact (head_from_boundary hash). Qed.

(* two streams P1 ++ Sx, P2 ++ Sx, ANY two segmentations, any memory behind the buffers: if both chunk
   sequences have a boundary at offset q of Sx (after k1 resp. k2 chunks) then what follows is, in both,
   the same list [common] of chunks (the reference sequence of the rest of Sx) followed by tails that
   start within the last 2*mx bytes *)
Theorem C11_suffix_determinism : forall mn mx, 1 <= mn -> align4 mn <= mx ->
  forall (P1 P2 Sx : list B) q pieces1 pieces2 j1 j2 k1 k2,
  concat pieces1 = P1 ++ Sx -> concat pieces2 = P2 ++ Sx ->
  boundary_at (chunkify hash mn mx pieces1 j1) k1 (length P1 + q) ->
  boundary_at (chunkify hash mn mx pieces2 j2) k2 (length P2 + q) ->
  exists common t1 t2,
    skipn k1 (chunkify hash mn mx pieces1 j1) = common ++ t1 /\
    skipn k2 (chunkify hash mn mx pieces2 j2) = common ++ t2 /\
    common = head hash mn mx (length (skipn q Sx)) (skipn q Sx) /\
    length Sx - q - length (concat common) < 2 * mx.
Proof. exact (suffix_determinism hash). Qed.

(* chunks BEFORE an edit: two streams with the common prefix A (any segmentations) share a list [pre]
   of chunks that reaches to within align4 mx bytes of the end of A (or into a tail zone) *)
Theorem C11_prefix_determinism : forall mn mx, 1 <= mn -> align4 mn <= mx ->
  forall (A R1 R2 : list B) pieces1 pieces2 j1 j2,
  concat pieces1 = A ++ R1 -> concat pieces2 = A ++ R2 ->
  exists pre t1 t2,
    chunkify hash mn mx pieces1 j1 = pre ++ t1 /\ chunkify hash mn mx pieces2 j2 = pre ++ t2 /\
    length (concat pre) <= length A /\
    (length A - length (concat pre) < align4 mx \/
     length (A ++ R1) - length (concat pre) < 2 * mx \/
     length (A ++ R2) - length (concat pre) < 2 * mx).
Proof. exact (prefix_determinism hash). Qed.

(* boundaries outside the tail zone are multiples of 4 from the start of the stream, so a common
   boundary exists only for prefix lengths that agree mod 4 (the "aligned prefixes" of the property) *)
Theorem C11_boundary_aligned : forall mn mx, 1 <= mn -> align4 mn <= mx -> forall (s : list B) k b,
  boundary_at (head hash mn mx (length s) s) k b -> b mod 4 = 0.
Proof. exact (boundary_aligned hash). Qed.

(* ---------------------------------------------------------------- locality: first maximum, dominant cut *)
(* the scan returns 0 when all candidates hash to 0 and otherwise the FIRST offset carrying the
   maximal hash (ties towards the smaller offset): the cut is a deterministic function of the
   candidates' hashes *)
Theorem C11_scan_first_max : forall mx (mem : list B),
  let r := scan hash mem 4 (ncand mx) 0 0%N in
  (r = 0 /\ forall j, j < ncand mx -> cand hash mem (4 + 4 * j) = 0%N) \/
  (exists j0, j0 < ncand mx /\ r = 4 + 4 * j0 /\ (0 < cand hash mem r)%N /\
     (forall j, j < j0 -> (cand hash mem (4 + 4 * j) < cand hash mem r)%N) /\
     (forall j, j < ncand mx -> (cand hash mem (4 + 4 * j) <= cand hash mem r)%N)).
Proof. exact (scan_first_max hash). Qed.

(* a candidate offset i0 in [mn, mx) whose hash is positive and strictly above all other candidates
   of the buffer is the cut *)
Theorem C11_ref_cut_dominant : forall mn mx (mem : list B) i0,
  4 <= i0 -> i0 < mx -> i0 mod 4 = 0 -> mn <= i0 -> (0 < cand hash mem i0)%N ->
  (forall i, 4 <= i -> i < mx -> i mod 4 = 0 -> i <> i0 -> (cand hash mem i < cand hash mem i0)%N) ->
  ref_cut hash mn mx mem = i0.
Proof. exact (ref_cut_dominant hash). Qed.

(* stream level: q dominant (strictly maximal among the positions of its residue class less than mx
   away on either side) => EVERY chunk starting at st with q - st a multiple of 4 in [mn, mx) ends at q *)
Theorem C11_dominant_cut : forall mn mx (s : list B) q st,
  dominant hash mx s q -> st < q -> (q - st) mod 4 = 0 -> st + mn <= q -> q < st + mx ->
  ref_cut hash mn mx (skipn st s) = q - st.
Proof. exact (dominant_cut hash). Qed.

Theorem C11_dominant_boundary : forall mn mx, 1 <= mn -> align4 mn <= mx -> forall (s : list B) q st k,
  dominant hash mx s q -> st < q -> (q - st) mod 4 = 0 -> st + mn <= q -> q < st + mx ->
  2 * mx <= length s - st ->
  boundary_at (head hash mn mx (length s) s) k st ->
  boundary_at (head hash mn mx (length s) s) (S k) q /\
  skipn (S k) (head hash mn mx (length s) s) = head hash mn mx (length (skipn q s)) (skipn q s).
Proof. exact (dominant_boundary hash). Qed.

(* the mechanism of re-synchronisation: whatever the two prefixes are, and wherever the two streams
   stand (st1, st2) when they come within reach of a dominant position q of the common suffix, both cut
   at q and are identical from there on *)
Theorem C11_resync_at_dominant : forall mn mx, 1 <= mn -> align4 mn <= mx ->
  forall (P1 P2 Sx : list B) q st1 st2 k1 k2,
  dominant hash mx Sx q ->
  st1 < q -> (q - st1) mod 4 = 0 -> st1 + mn <= q -> q < st1 + mx -> 2 * mx <= length Sx - st1 ->
  st2 < q -> (q - st2) mod 4 = 0 -> st2 + mn <= q -> q < st2 + mx -> 2 * mx <= length Sx - st2 ->
  boundary_at (head hash mn mx (length (P1 ++ Sx)) (P1 ++ Sx)) k1 (length P1 + st1) ->
  boundary_at (head hash mn mx (length (P2 ++ Sx)) (P2 ++ Sx)) k2 (length P2 + st2) ->
  skipn (S k1) (head hash mn mx (length (P1 ++ Sx)) (P1 ++ Sx)) =
  skipn (S k2) (head hash mn mx (length (P2 ++ Sx)) (P2 ++ Sx)).
Proof. exact (resync_at_dominant hash). Qed.

(* the boolean used in computations implies the predicate *)
Theorem C11_dominantb_sound : forall mx (s : list B) q, 1 <= mx ->
  dominantb hash mx s q = true -> dominant hash mx s q.
Proof. exact (dominantb_sound hash). Qed.

(* ---------------------------------------------------------------- padding *)
Variable zero : B.
(* every file sits in the snapshot stream at its extent and the extent starts at a multiple of the
   alignment: equal files see equal candidate offsets *)
Theorem C11_padding_aligns : forall a (files : list (list B)), 1 <= a ->
  Forall2 (fun e f => sub (stream zero a files) (fst e) (snd e) = f /\ fst e mod a = 0)
          (extents a 0 (map (@length B) files)) files.
Proof. exact (padding_aligns zero). Qed.

(* equal trailing files form a common suffix behind prefixes whose lengths are multiples of the
   alignment - the situation C11_suffix_determinism / C11_resync_at_dominant speak about *)
Theorem C11_stream_common_suffix : forall a (fs1 fs2 rest : list (list B)), 1 <= a -> rest <> [] ->
  exists P1 P2, stream zero a (fs1 ++ rest) = P1 ++ stream zero a rest /\
                stream zero a (fs2 ++ rest) = P2 ++ stream zero a rest /\
                length P1 mod a = 0 /\ length P2 mod a = 0.
Proof. exact (stream_common_suffix zero). Qed.
End Generic.

Print Assumptions C11_head_from_boundary.
Print Assumptions C11_suffix_determinism.
Print Assumptions C11_prefix_determinism.
Print Assumptions C11_boundary_aligned.
Print Assumptions C11_scan_first_max.
Print Assumptions C11_ref_cut_dominant.
Print Assumptions C11_dominant_cut.
Print Assumptions C11_dominant_boundary.
Print Assumptions C11_resync_at_dominant.
Print Assumptions C11_dominantb_sound.
Print Assumptions C11_padding_aligns.
Print Assumptions C11_stream_common_suffix.

(* ---------------------------------------------------------------- the key *)
(* k1 is an xor mask on the compared 64-bit values; it never changes which windows compare equal *)
Theorem C11_keyf_k1_xor : forall k0 k1 w, keyf k0 k1 w = N.lxor (N.land k1 M64) (keyf k0 0 w).
Proof. exact keyf_k1_xor. Qed.
Print Assumptions C11_keyf_k1_xor.

Theorem C11_keyf_k1_eq : forall k0 k1 w1 w2, keyf k0 k1 w1 = keyf k0 k1 w2 <-> keyf k0 0 w1 = keyf k0 0 w2.
Proof. exact keyf_k1_eq. Qed.
Print Assumptions C11_keyf_k1_eq.

(* concrete data for the existential statement and the non-vacuity examples *)
Definition demo (n : nat) (a b : N) : list N :=
  map (fun i => let x := N.of_nat i in ((x * x * a + x * b + 5) mod 251)%N) (seq 0 n).
Definition dS := demo 360 3 1.
Definition dP1 := demo 36 3 5.
Definition dP2 := demo 44 11 2.
Definition dK  := [1;2;3;4;5;6;7;8;9;10;11;12;13;14;15;16]%N.
Definition dK0 := [2;2;3;4;5;6;7;8;9;10;11;12;13;14;15;16]%N.      (* differs in k0 only *)
Definition dK1 := [1;2;3;4;5;6;7;8;9;10;11;12;13;14;15;144]%N.     (* differs in k1 only *)
Definition dh := gkeyf dK.

Lemma key_matters_witness :
  (exists key1 key2 mn mx stream,
     k1_of (key_schedule key1) = k1_of (key_schedule key2) /\ key_ok key1 = true /\ key_ok key2 = true /\
     gboundaries key1 mn mx [stream] <> gboundaries key2 mn mx [stream]) /\
  (exists key1 key2 mn mx stream,
     k0_of (key_schedule key1) = k0_of (key_schedule key2) /\ key_ok key1 = true /\
     gboundaries key1 mn mx [stream] <> gboundaries key2 mn mx [stream]).
Proof.
  split.
  - exists dK, dK0, 8, 32, dS. vm_compute. repeat split; discriminate.
  - exists dK, dK1, 8, 32, dS. vm_compute. repeat split; discriminate.
Qed.

(* different keys (in k0 alone, and in k1 alone) cut the same data differently *)
Theorem C11_key_matters :
  (exists key1 key2 mn mx stream,
     k1_of (key_schedule key1) = k1_of (key_schedule key2) /\ key_ok key1 = true /\ key_ok key2 = true /\
     gboundaries key1 mn mx [stream] <> gboundaries key2 mn mx [stream]) /\
  (exists key1 key2 mn mx stream,
     k0_of (key_schedule key1) = k0_of (key_schedule key2) /\ key_ok key1 = true /\
     gboundaries key1 mn mx [stream] <> gboundaries key2 mn mx [stream]).
Proof. exact key_matters_witness. Qed.
Print Assumptions C11_key_matters.

(* ---------------------------------------------------------------- non-vacuity *)
(* suffix determinism: the premises hold for two different prefixes (boundary at offset 72 of dS after
   6 resp. 7 chunks) and the common part really has chunks *)
Example C11_suffix_premises :
  let c1 := gchunkify dK 8 32 [dP1; dS] (fun _ => []) in
  let c2 := gchunkify dK 8 32 [firstn 100 (dP2 ++ dS); skipn 100 (dP2 ++ dS)] (fun _ => [7;7;7;7;7;7;7;7]%N) in
  boundary_at c1 6 (length dP1 + 72) /\ boundary_at c2 7 (length dP2 + 72) /\
  firstn 6 c1 <> firstn 7 c2 /\
  10 <= length (head dh 8 32 (length (skipn 72 dS)) (skipn 72 dS)) /\
  firstn 10 (skipn 6 c1) = firstn 10 (skipn 7 c2).
Proof. vm_compute. repeat split; try discriminate; lia. Qed.

(* dominant cut / re-synchronisation: position 72 of dS is dominant for mx = 32; the two streams reach
   it from different boundaries (44 and 48 of dS) and both cut there *)
Example C11_dominant_premises :
  dominantb dh 32 dS 72 = true /\
  boundary_at (head dh 8 32 (length (dP1 ++ dS)) (dP1 ++ dS)) 5 (length dP1 + 44) /\
  boundary_at (head dh 8 32 (length (dP2 ++ dS)) (dP2 ++ dS)) 6 (length dP2 + 48) /\
  (72 - 44) mod 4 = 0 /\ 44 + 8 <= 72 /\ 72 < 44 + 32 /\ 2 * 32 <= length dS - 44 /\
  (72 - 48) mod 4 = 0 /\ 48 + 8 <= 72 /\ 72 < 48 + 32 /\ 2 * 32 <= length dS - 48 /\
  ref_cut dh 8 32 (skipn 44 dS) = 28 /\ ref_cut dh 8 32 (skipn 48 dS) = 24.
Proof. vm_compute. repeat split; lia. Qed.

(* the first-maximum rule on a tie: two equal windows, the first wins *)
Example C11_tie_first :
  let mem := ([1;2;3;4;5;6;7;8] ++ [1;2;3;4;5;6;7;8] ++ [0;0;0;0])%N in
  cand dh mem 4 = cand dh mem 12 /\ (cand dh mem 8 < cand dh mem 4)%N /\
  scan dh mem 4 (ncand 16) 0 0%N = 4.
Proof. vm_compute. repeat split. Qed.

(* padding: three files, alignment 4; extents start at multiples of 4 and hold the files *)
Example C11_padding_concrete :
  extents 4 0 [5; 0; 3] = [(0, 5); (8, 8); (8, 11)] /\
  stream 0%N 4 [[1;2;3;4;5]; []; [9;9;9]]%N = [1;2;3;4;5;0;0;0;9;9;9]%N /\
  (forall n, n < 40 -> (n + pad_len 4 n) mod 4 = 0 /\ pad_len 4 n < 4).
Proof.
  split; [reflexivity|]. split; [reflexivity|].
  intros n Hn. do 40 (destruct n as [|n]; [vm_compute; split; [reflexivity|lia]|]). lia.
Qed.
