(* JSON with byte-string hints (replicat/utils/__init__.py: type_hint, type_reverse;
   replicat/repository.py: serialize, deserialize) at the level of the value tree.
   base64 and the JSON text codec are parameters.  Executable definitions only. *)
From Coq Require Import String Ascii List Bool.
Import ListNotations.
Local Open Scope string_scope.

(* Python values that serialize() accepts: None, bool, numbers, str, bytes, list, dict with str keys *)
Inductive jv (B Num : Type) : Type :=
| JNull
| JBool (b : bool)
| JNum (n : Num)
| JStr (s : string)
| JBytes (b : B)
| JArr (l : list (jv B Num))
| JObj (kv : list (string * jv B Num)).
Arguments JNull {B Num}.
Arguments JBool {B Num} b.
Arguments JNum {B Num} n.
Arguments JStr {B Num} s.
Arguments JBytes {B Num} b.
Arguments JArr {B Num} l.
Arguments JObj {B Num} kv.

Definition BANG : string := "!b".

Section Json.
Context {B Num : Type}.
Notation jv := (jv B Num).
Variables (b64 : B -> string) (unb64 : string -> B).

(* type_hint: {'!b': str(base64.standard_b64encode(object), 'ascii')} *)
Definition type_hint (b : B) : jv := JObj [(BANG, JStr (b64 b))].

(* dict access as the callers use it; KeyError = None *)
Fixpoint lookup (k : string) (kv : list (string * jv)) : option jv :=
  match kv with
  | [] => None
  | (k', v) :: t => if String.eqb k k' then Some v else lookup k t
  end.

(* base64.standard_b64decode(encoded) on a JSON value.  (A non-string makes the Python raise; the
   model returns [dflt] - no statement below reaches that case.) *)
Definition b64decode_value (dflt encoded : jv) : jv :=
  match encoded with JStr s => JBytes (unb64 s) | _ => dflt end.

(* type_reverse, the object_hook: len(object) != 1 -> object; no '!b' key -> object; else decode *)
Definition type_reverse (object : list (string * jv)) : jv :=
  if negb (Nat.eqb (length object) 1) then JObj object else
  match lookup BANG object with
  | None => JObj object
  | Some encoded => b64decode_value (JObj object) encoded
  end.

(* json.dumps(default=type_hint): every bytes leaf replaced by its hint *)
Fixpoint hint_tree (v : jv) : jv :=
  match v with
  | JBytes b => type_hint b
  | JArr l => JArr (map hint_tree l)
  | JObj kv => JObj (map (fun p => (fst p, hint_tree (snd p))) kv)
  | _ => v
  end.

(* json.loads(object_hook=type_reverse): the hook is applied to every object, innermost first *)
Fixpoint reverse_tree (v : jv) : jv :=
  match v with
  | JArr l => JArr (map reverse_tree l)
  | JObj kv => type_reverse (map (fun p => (fst p, reverse_tree (snd p))) kv)
  | _ => v
  end.

(* a one-key object whose key is '!b' *)
Definition is_bang (kv : list (string * jv)) : bool :=
  match kv with [(k, _)] => String.eqb k BANG | _ => false end.
Fixpoint no_bang (v : jv) : bool :=
  match v with
  | JArr l => forallb no_bang l
  | JObj kv => negb (is_bang kv) && forallb (fun p => no_bang (snd p)) kv
  | _ => true
  end.
(* what the JSON text can carry: no bytes leaves *)
Fixpoint pure (v : jv) : bool :=
  match v with
  | JBytes _ => false
  | JArr l => forallb pure l
  | JObj kv => forallb (fun p => pure (snd p)) kv
  | _ => true
  end.

(* the text codec: json.dumps(separators=(',', ':')) -> ascii bytes, json.loads.  [Text] is the type
   of serialized objects (the repository uses byte strings again, Text = B) *)
Context {Text : Type}.
Variables (dumps : jv -> Text) (loads : Text -> option jv).
Definition serialize (v : jv) : Text := dumps (hint_tree v).
Definition deserialize (data : Text) : option jv := option_map reverse_tree (loads data).

Definition field (k : string) (v : jv) : option jv := match v with JObj kv => lookup k kv | _ => None end.
Definition field_bytes (k : string) (v : jv) : option B :=
  match field k v with Some (JBytes b) => Some b | _ => None end.
End Json.
