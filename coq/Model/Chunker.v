(* Executable model of the gclmul chunker: src/adapters.cpp (next_cut) and the Python
   driver loop replicat/utils/adapters.py gclmulchunker.__call__.  No proofs here. *)
From Coq Require Import List NArith Arith Bool.
Import ListNotations.

Section Chunker.
Context {B : Type}.
Variable hash : list B -> N.        (* gclmulchunker::key on the 8-byte window *)
Variables mn mx : nat.              (* min_length, max_length *)

(* (n + 3) & -4 *)
Definition align4 (n : nat) : nat := 4 * ((n + 3) / 4).

(* for (i = 4; i < max_length; i += 4) if (key(buf, i) > max_value) {max_index = i; max_value = k;}
   the window of candidate i is the 8 bytes at [i-4, i+4) of the memory [mem] *)
Fixpoint scan (mem : list B) (i k best_i : nat) (best_v : N) : nat :=
  match k with
  | O => best_i
  | S k' =>
    let v := hash (firstn 8 (skipn (i - 4) mem)) in
    if N.ltb best_v v then scan mem (i + 4) k' i v else scan mem (i + 4) k' best_i best_v
  end.

(* number of candidates 4, 8, ... < mx *)
Definition ncand : nat := (mx - 1) / 4.

Definition ref_cut (mem : list B) : nat :=
  let m := scan mem 4 ncand 0 0%N in
  if m <? mn then align4 mn else m.

(* next_cut(buffer, final); [junk] is whatever lies in memory behind the buffer *)
Definition next_cut (buf junk : list B) (final : bool) : nat :=
  let size := length buf in
  if final && (size <? 2 * mx) then
    if size <=? mx then size
    else if size <? mx + mn then size / 2
    else mx
  else if negb final && (size <? align4 mx) then O
  else ref_cut (buf ++ junk).

(* inner "while True: pos = next_cut(...); if not pos: break; yield buffer[:pos]; del buffer[:pos]" *)
Fixpoint drain (fuel : nat) (buf : list B) (final : bool) (junk : nat -> list B) (calls : nat)
  : list (list B) * list B * nat :=
  match fuel with
  | O => ([], buf, calls)
  | S f =>
    let pos := next_cut buf (junk calls) final in
    match pos with
    | O => ([], buf, S calls)
    | _ =>
      let '(out, b, c) := drain f (skipn pos buf) final junk (S calls) in
      (firstn pos buf :: out, b, c)
    end
  end.

(* outer loop with its one-piece lookahead: final = there is no next piece *)
Fixpoint feed (pieces : list (list B)) (buf : list B) (junk : nat -> list B) (calls : nat)
  : list (list B) :=
  match pieces with
  | [] => []
  | p :: rest =>
    let buf' := buf ++ p in
    let '(out, b, c) :=
      drain (S (length buf')) buf' (match rest with [] => true | _ => false end) junk calls in
    out ++ feed rest b junk c
  end.

Definition chunkify (pieces : list (list B)) (junk : nat -> list B) : list (list B) :=
  feed pieces [] junk O.

(* segmentation-free reference: cut ref_cut while at least 2*mx bytes remain *)
Fixpoint head (fuel : nat) (s : list B) : list (list B) :=
  match fuel with
  | O => []
  | S f =>
    if 2 * mx <=? length s then
      let c := ref_cut s in firstn c s :: head f (skipn c s)
    else []
  end.

End Chunker.
