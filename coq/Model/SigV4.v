(* C16 - hand model of the signing code of replicat/backends/s3c.py (the code's path) and of what httpx
   puts on the wire.  Definitions only.  The definitions inside Section Code are written in exactly
   the shape the translator (translate/units_c16.py -> Gen/SigV4Gen.v) produces from the source, so that
   Proofs/SigV4Tie.v proves Gen = Model by reflexivity.  Strings are byte strings (the UTF-8 encoding of
   the Python str).  The clock enters as its two strftime renderings now_ymd (%Y%m%d) and now_hms (%H%M%S). *)
From Coq Require Import List NArith Bool String.
From Coq Require Import Strings.Byte.
From Replicat Require Import Model.SigV4Prims.
Import ListNotations.

Section Code.

(* hashlib / hmac primitives: arbitrary *)
Variable sha256hex : bytes -> bytes.      (* hashlib.sha256(x).hexdigest() *)
Variable hmac : bytes -> bytes -> bytes.  (* hmac.new(key, msg, sha256).digest() *)
Variable hex : bytes -> bytes.            (* bytes.hex() *)

Definition make_signature_key (key : bytes) (date : bytes) (region : bytes) (service : bytes) : bytes :=
  let date_key := (hmac ((b "AWS4") ++ key) date) in
  let date_region_key := (hmac date_key region) in
  let date_region_service_key := (hmac date_region_key service) in
  let signing_key := (hmac date_region_service_key (b "aws4_request")) in
  signing_key.
Definition make_canonical_headers (headers : list (bytes * bytes)) : bytes :=
  let result := (join nl (map (fun kv => ((fst kv) ++ (b ":") ++ (snd kv))) headers)) in
  let result := (result ++ nl) in
  result.
Definition make_credential_scope (date : bytes) (region : bytes) (service : bytes) : bytes :=
  (join (b "/") [date; region; service; (b "aws4_request")]).
Definition make_canonical_request (method : bytes) (canonical_uri : bytes) (canonical_query : bytes) (canonical_headers : bytes) (signed_headers : bytes) (payload_digest : bytes) : bytes :=
  (join nl [method; canonical_uri; canonical_query; canonical_headers; signed_headers; payload_digest]).
Definition make_string_to_sign (amzdate : bytes) (credential_scope : bytes) (canonical_request : bytes) : bytes :=
  (join nl [(b "AWS4-HMAC-SHA256"); amzdate; credential_scope; (sha256hex canonical_request)]).
Definition empty_payload_digest : bytes := sha256hex [].

(* the adapter instance *)
Variables self_host self_region self_key_id self_access_key self_url self_bucket_name : bytes.
Definition prepare_request (now_ymd now_hms : bytes) (method canonical_uri : bytes) (query : list (bytes * bytes)) (payload_digest : bytes) (headers : list (bytes * bytes)) : bytes * bytes * list (bytes * bytes) :=
  let encoded_canonical_uri := (py_quote (b "/") canonical_uri) in
  let url := (self_url ++ encoded_canonical_uri) in
  let '(query_string, url) :=
    if truthy query then let query_string := (urlencode_quote (sorted_items query)) in let url := (url ++ ((b "?") ++ query_string)) in (query_string, url)
    else let query_string := [] in (query_string, url) in
  let x_amz_date := ((now_ymd ++ (b "T") ++ now_hms) ++ (b "Z")) in
  let date := now_ymd in
  let canonical_headers := [((b "host"), self_host); ((b "x-amz-content-sha256"), payload_digest); ((b "x-amz-date"), x_amz_date)] in
  let signed_headers := (join (b ";") (map fst canonical_headers)) in
  let canonical_request := (make_canonical_request method encoded_canonical_uri query_string (make_canonical_headers canonical_headers) signed_headers payload_digest) in
  let credential_scope := (make_credential_scope date self_region (b "s3")) in
  let string_to_sign := (make_string_to_sign x_amz_date credential_scope canonical_request) in
  let signing_key := (make_signature_key self_access_key date self_region (b "s3")) in
  let signature := (hex (hmac signing_key string_to_sign)) in
  let authorization_header := ((b "AWS4-HMAC-SHA256 Credential=") ++ self_key_id ++ (b "/") ++ credential_scope ++ (b ", SignedHeaders=") ++ signed_headers ++ (b ", Signature=") ++ signature) in
  let headers := dict_set headers (b "host") self_host in
  let headers := dict_set headers (b "x-amz-content-sha256") payload_digest in
  let headers := dict_set headers (b "x-amz-date") x_amz_date in
  let headers := dict_set headers (b "authorization") authorization_header in
  (method, url, headers).
Definition list_objects_query (continuation_token : option bytes) (prefix : bytes) : list (bytes * bytes) :=
  let query := [((b "list-type"), (b "2"))] in
  let query := match continuation_token with Some token => dict_set query (b "continuation-token") token | None => query end in
  let query := if truthy prefix then dict_set query (b "prefix") prefix else query in
  query.
Definition op_exists (now_ymd now_hms : bytes) (name : bytes) : bytes * bytes * list (bytes * bytes) :=
  prepare_request now_ymd now_hms (b "HEAD") ((b "/") ++ self_bucket_name ++ (b "/") ++ name) [] empty_payload_digest [].
Definition op_put_object (now_ymd now_hms : bytes) (name : bytes) (data : bytes) (payload_digest : bytes) : bytes * bytes * list (bytes * bytes) :=
  prepare_request now_ymd now_hms (b "PUT") ((b "/") ++ self_bucket_name ++ (b "/") ++ name) [] payload_digest [((b "content-length"), (py_str_len data))].
Definition op_put_object_stream (now_ymd now_hms : bytes) (name : bytes) (length : N) (payload_digest : bytes) : bytes * bytes * list (bytes * bytes) :=
  prepare_request now_ymd now_hms (b "PUT") ((b "/") ++ self_bucket_name ++ (b "/") ++ name) [] payload_digest [((b "content-length"), (py_str_N length))].
Definition op_download (now_ymd now_hms : bytes) (name : bytes) : bytes * bytes * list (bytes * bytes) :=
  prepare_request now_ymd now_hms (b "GET") ((b "/") ++ self_bucket_name ++ (b "/") ++ name) [] empty_payload_digest [].
Definition op_download_stream (now_ymd now_hms : bytes) (name : bytes) : bytes * bytes * list (bytes * bytes) :=
  prepare_request now_ymd now_hms (b "GET") ((b "/") ++ self_bucket_name ++ (b "/") ++ name) [] empty_payload_digest [].
Definition op_delete (now_ymd now_hms : bytes) (name : bytes) : bytes * bytes * list (bytes * bytes) :=
  prepare_request now_ymd now_hms (b "DELETE") ((b "/") ++ self_bucket_name ++ (b "/") ++ name) [] empty_payload_digest [].
Definition op_list_objects (now_ymd now_hms : bytes) (query : list (bytes * bytes)) : bytes * bytes * list (bytes * bytes) :=
  prepare_request now_ymd now_hms (b "GET") ((b "/") ++ self_bucket_name) query empty_payload_digest [].
End Code.

Definition aws_host (region : bytes) : bytes := ((b "s3.") ++ region ++ (b ".amazonaws.com")).

(* ------------------------------------------------------------------ what httpx sends *)
(* split on a separator byte *)
Fixpoint split_on (c : byte) (s : bytes) : list bytes :=
  match s with
  | [] => [[]]
  | x :: r => if Byte.eqb x c then [] :: split_on c r
              else match split_on c r with [] => [[x]] | h :: t => (x :: h) :: t end
  end.

(* httpx._urlparse.normalize_path on the path it is given *)
Definition is_dot_segment (seg : bytes) : bool := bytes_eqb seg (b ".") || bytes_eqb seg (b "..").
Fixpoint remove_dots (out : list bytes) (comps : list bytes) : list bytes :=
  match comps with
  | [] => out
  | c :: r =>
      if bytes_eqb c (b ".") then remove_dots out r
      else if bytes_eqb c (b "..") then
             remove_dots (match out with [] => [] | [e] => if bytes_eqb e [] then out else [] | _ => removelast out end) r
      else remove_dots (out ++ [c]) r
  end.
Definition httpx_normalize_path (path : bytes) : bytes :=
  let comps := split_on "/" path in
  if existsb is_dot_segment comps then join (b "/") (remove_dots [] comps) else path.

Definition no_dot_segments (path : bytes) : bool := negb (existsb is_dot_segment (split_on "/" path)).

(* the request target httpx sends for scheme://host ++ path [++ ? ++ query]: the path normalised, the rest as given
   (the path and query the adapter builds contain only unreserved characters, "/", "%XX" and, in the query, "=" "&":
   httpx re-quotes none of these; checked on every run by the correspondence at the transport) *)
Definition split_first (c : byte) (s : bytes) : bytes * option bytes :=
  (fix go (s : bytes) : bytes * option bytes :=
     match s with
     | [] => ([], None)
     | x :: r => if Byte.eqb x c then ([], Some r) else let '(h, t) := go r in (x :: h, t)
     end) s.

Definition httpx_target (path_and_query : bytes) : bytes :=
  let '(path, q) := split_first "?" path_and_query in
  match q with None => httpx_normalize_path path | Some q => httpx_normalize_path path ++ b "?" ++ q end.

Record wire := { w_method : bytes; w_target : bytes; w_headers : list (bytes * bytes) }.

(* extra: the headers httpx adds itself (Accept, Accept-Encoding, Connection, User-Agent, ...) *)
Definition wire_of (self_url : bytes) (extra : list (bytes * bytes)) (req : bytes * bytes * list (bytes * bytes)) : wire :=
  let '(method, url, headers) := req in
  {| w_method := method; w_target := httpx_target (skipn (List.length self_url) url); w_headers := extra ++ headers |}.

(* ------------------------------------------------------------------ payload: bytes and streams *)
(* iter(lambda: stream.read(n), b'') on a stream positioned at 0 holding [content] *)
Fixpoint read_chunks (fuel : nat) (n : nat) (content : bytes) : list bytes :=
  match fuel with
  | O => []
  | S f => match firstn n content with
           | [] => []
           | chunk => chunk :: read_chunks f n (skipn n content)
           end
  end.
Definition stream_chunks (n : N) (content : bytes) : list bytes := read_chunks (S (List.length content)) (N.to_nat n) content.
