(* Snapshot object layout (replicat/repository.py: _encrypt_snapshot_body, _decrypt_snapshot_body) as
   symbolic terms - which key encrypts which field - and the time-stamp finalisation of restore
   (restore_metadata, current and pre-1.3 metadata).  Executable definitions only; a raise is [None]. *)
From Coq Require Import String Ascii List Bool.
From Replicat Require Import Lib.PyStr Model.Json Model.Stream.
Import ListNotations.
Local Open Scope string_scope.

Section Body.
Context {B Num R : Type}.
Notation jv := (jv B Num).
(* serialize/deserialize of the repository object; AEAD with its randomness explicit; hash of the
   repository; derive_shared_subkey (shared key and parameters are part of the key); the user key *)
Variables (serialize : jv -> B) (deserialize : B -> option jv).
Variables (encrypt : R -> B -> B -> B) (decrypt : B -> B -> option B).
Variables (hash derive : B -> B) (userkey : B).

Definition mk_body (chunks data : jv) : jv := JObj [("chunks", chunks); ("data", data)].

(* body[k] = v on an existing key (dict order kept) *)
Fixpoint set_kv (k : string) (v : jv) (kv : list (string * jv)) : list (string * jv) :=
  match kv with
  | [] => [(k, v)]
  | (k', x) :: t => if String.eqb k k' then (k', v) :: t else (k', x) :: set_kv k v t
  end.
Definition set_field (k : string) (v : jv) (o : jv) : jv :=
  match o with JObj kv => JObj (set_kv k v kv) | _ => o end.

(* private data under the user key; the chunk table under a key derived from the shared key and
   the hash of the ENCRYPTED private data *)
Definition encrypt_snapshot_body (encrypted : bool) (r1 r2 : R) (snapshot_body : jv) : option B :=
  if encrypted then
    obind (field "data" snapshot_body) (fun v1 =>
    let encrypted_private_data := encrypt r1 (serialize v1) userkey in
    obind (field "chunks" snapshot_body) (fun v2 =>
    let encrypted_body :=
      JObj [("chunks", JBytes (encrypt r2 (serialize v2) (derive (hash encrypted_private_data))));
            ("data", JBytes encrypted_private_data)] in
    Some (serialize encrypted_body)))
  else
    let encrypted_body := snapshot_body in
    Some (serialize encrypted_body).

(* the reader; a failed decryption of the private data (someone else's snapshot) leaves data = None *)
Definition decrypt_snapshot_body (encrypted : bool) (contents : B) : option jv :=
  obind (deserialize contents) (fun body =>
  if encrypted then
    obind (field_bytes "chunks" body) (fun b1 =>
    obind (field_bytes "data" body) (fun b2 =>
    obind (decrypt b1 (derive (hash b2))) (fun b3 =>
    obind (deserialize b3) (fun v4 =>
    let body := set_field "chunks" v4 body in
    obind (field_bytes "data" body) (fun b5 =>
    obind (match decrypt b5 userkey with
           | None => Some JNull
           | Some data => deserialize data
           end) (fun v6 =>
    let body := set_field "data" v6 body in
    Some body))))))
  else Some body).

(* a chunk object: the plaintext chunk under a key derived from the shared key and the chunk's digest *)
Definition chunk_ciphertext (r : R) (output_chunk : B) : option B :=
  Some (encrypt r output_chunk (derive (hash output_chunk))).
Definition chunk_plaintext (digest contents : B) : option B :=
  obind (decrypt contents (derive digest)) Some.
End Body.

(* ------------------------------------------------------------------ time stamps on restore *)
Inductive utime_call (T : Type) : Type :=
| UtimeNs (atime mtime : T)        (* os.utime(path, ns=(a, m)) *)
| UtimeTimes (atime mtime : T).    (* os.utime(path, times=(a, m)) *)
Arguments UtimeNs {T}.
Arguments UtimeTimes {T}.

(* metadata as a dict: key -> value, KeyError = None *)
Definition restore_metadata {T} (metadata : string -> option T) : option (utime_call T) :=
  match opair (metadata "st_atime_ns") (metadata "st_mtime_ns") with
  | Some ns => Some (UtimeNs (fst ns) (snd ns))
  | None => obind (opair (metadata "st_atime") (metadata "st_mtime")) (fun t => Some (UtimeTimes (fst t) (snd t)))
  end.

(* one file of a snapshot as restore sees it: chunk references and an opaque metadata dict *)
Record file_entry (M : Type) : Type := { fe_refs : list ref; fe_meta : M }.
Arguments fe_refs {M}.
Arguments fe_meta {M}.
(* (writes planned, size the file is truncated to, the utime call) *)
Definition restore_entry {M T} (finalise : M -> option (utime_call T)) (e : file_entry M)
  : list (nat * ref) * nat * option (utime_call T) :=
  (plan (fe_refs e), plan_size (fe_refs e), finalise (fe_meta e)).
