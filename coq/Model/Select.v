(* What restore, list-snapshots, list-files and delete select (replicat/repository.py:
   _load_snapshots, restore, list_snapshots, list_files, delete_snapshots; utils.bytes_to_human,
   utils.combine_regexes; __main__._combine_optional_regexes).  The regular-expression engine is
   not modelled: filters are predicates on strings ([smatch] on the parsed snapshot NAME, [fmatch]
   on the file path), obtained from an abstract matcher by [opt_match].
   Executable definitions only. *)
From Coq Require Import List NArith Bool String.
From Replicat Require Import Model.Timestamp.
Import ListNotations.
Local Open Scope N_scope.

(* ------------------------------------------------------------------ list.sort(key=..., reverse=True) *)
(* stable: elements with equal keys keep their original order *)
Section Sort.
Context {A : Type}.
Variable key : A -> string.
Fixpoint insert_desc (x : A) (l : list A) : list A :=
  match l with
  | [] => [x]
  | y :: t => if str_leb (key y) (key x) then x :: l else y :: insert_desc x t
  end.
Definition sort_desc (l : list A) : list A := fold_right insert_desc [] l.
End Sort.

(* ------------------------------------------------------------------ snapshots as the caller sees them *)
(* Own: the caller's key decrypts the body.  Family: the tag verifies under the caller's shared
   key but the body does not decrypt (data = None).  Foreign: the tag does not verify, the
   snapshot is skipped by _load_snapshots. *)
Inductive access := Own | Family | Foreign.
(* f_id identifies the version (content, digest, metadata) recorded for the path in that snapshot;
   f_ranges are the [start, end] pairs of its chunk references *)
Record file := mkfile { f_path : string; f_id : N; f_ranges : list (N * N) }.
Record snap := mksnap { s_name : string; s_id : N; s_ts : string; s_access : access; s_files : list file }.

Definition visible (s : snap) : bool := match s_access s with Foreign => false | _ => true end.
Definition readable (s : snap) : bool := match s_access s with Own => true | _ => false end.
Definition mem_str (x : string) (l : list string) : bool := existsb (String.eqb x) l.

(* sizes: sum(r[1] - r[0] for r in ranges) *)
Definition range_len (r : N * N) : N := snd r - fst r.
Definition ranges_size (rs : list (N * N)) : N := fold_right (fun r acc => range_len r + acc) 0 rs.
Definition file_size (f : file) : N := ranges_size (f_ranges f).
Definition snap_size (s : snap) : N := ranges_size (flat_map f_ranges (s_files s)).

(* bytes_to_human: choice of divisor and unit (the rounding to two places is done by the caller) *)
Definition bth_unit (v : N) : N * string :=
  if v <? 1000 then (1, "B"%string)
  else if v <? 1000000 then (1000, "K"%string)
  else if v <? 1000000000 then (1000000, "M"%string)
  else (1000000000, "G"%string).

(* ------------------------------------------------------------------ table cells *)
Inductive cell :=
| CStr (s : string)                         (* printed as is *)
| CNum (n : N)                              (* str(int) *)
| CSize (bytes divisor : N) (unit : string) (* f'{round(bytes / divisor, 2):g}{unit}' *)
| CRef (what : string) (id : N)             (* a recorded value printed from the body: note, digest, times *)
| CNone.                                    (* EMPTY_TABLE_VALUE *)
Definition human (v : N) : cell := let (d, u) := bth_unit v in CSize v d u.

Inductive scol := SName | SNote | STimestamp | SFileCount | SSize.
Inductive fcol := FSnapshotName | FSnapshotDate | FPath | FChunkCount | FSize | FDigest | FAtime | FMtime | FCtime.
Definition scol_idx (c : scol) : N :=
  match c with SName => 0 | SNote => 1 | STimestamp => 2 | SFileCount => 3 | SSize => 4 end.
Definition fcol_idx (c : fcol) : N :=
  match c with FSnapshotName => 0 | FSnapshotDate => 1 | FPath => 2 | FChunkCount => 3 | FSize => 4
             | FDigest => 5 | FAtime => 6 | FMtime => 7 | FCtime => 8 end.
(* row = {}; row[column] = value : a repeated column keeps its first position *)
Fixpoint dedup {C} (idx : C -> N) (seen : list N) (cols : list C) : list C :=
  match cols with
  | [] => []
  | c :: t => if existsb (N.eqb (idx c)) seen then dedup idx seen t else c :: dedup idx (idx c :: seen) t
  end.

Definition scell (s : snap) (c : scol) : cell :=
  match c with
  | SName => CStr (s_name s)                                  (* parse_snapshot_location(path).name *)
  | SNote => if readable s then CRef "note" (s_id s) else CNone
  | STimestamp => if readable s then CStr (seconds_part (s_ts s)) else CNone
  | SFileCount => if readable s then CNum (N.of_nat (List.length (s_files s))) else CNone
  | SSize => if readable s then human (snap_size s) else CNone
  end.
Definition fcell (p : snap * file) (c : fcol) : cell :=
  let (s, f) := p in
  match c with
  | FSnapshotName => CStr (s_name s)
  | FSnapshotDate => CStr (seconds_part (s_ts s))
  | FPath => CStr (f_path f)
  | FChunkCount => CNum (N.of_nat (List.length (f_ranges f)))
  | FSize => human (file_size f)
  | FDigest => CRef "digest" (f_id f)
  | FAtime => CRef "atime" (f_id f)
  | FMtime => CRef "mtime" (f_id f)
  | FCtime => CRef "ctime" (f_id f)
  end.

(* ------------------------------------------------------------------ the commands *)
Section Commands.
Variable smatch : string -> bool.     (* snapshot filter, applied to the NAME *)
Variable fmatch : string -> bool.     (* file filter, applied to the path *)

(* what _load_snapshots yields, in some order *)
Definition loaded (snaps : list snap) : list snap :=
  filter (fun s => visible s && smatch (s_name s)) snaps.
Definition loaded_readable (snaps : list snap) : list snap := filter readable (loaded snaps).

(* restore: snapshots.sort(key=utc_timestamp, reverse=True); for each file of each snapshot:
   if file_path in files_digests: continue; if file_re.search(file_path) is None: continue; take it *)
Fixpoint first_wins (seen : list string) (L : list file) : list file :=
  match L with
  | [] => []
  | f :: t =>
    if mem_str (f_path f) seen then first_wins seen t
    else if fmatch (f_path f) then f :: first_wins (f_path f :: seen) t
    else first_wins seen t
  end.
Definition restore_order (snaps : list snap) : list snap := sort_desc s_ts (loaded_readable snaps).
Definition restore_sel (snaps : list snap) : list file :=
  first_wins [] (flat_map s_files (restore_order snaps)).

(* list_snapshots: every loaded snapshot, key = (timestamp or '') *)
Definition ls_key (s : snap) : string := if readable s then s_ts s else ""%string.
Definition ls_order (snaps : list snap) : list snap := sort_desc ls_key (loaded snaps).
Definition ls_rows (cols : list scol) (snaps : list snap) : list (N * list cell) :=
  map (fun s => (s_id s, map (scell s) (dedup scol_idx [] cols))) (ls_order snaps).

(* list_files: the matching files of the loaded readable snapshots, key = the snapshot's timestamp *)
Definition lf_pairs (snaps : list snap) : list (snap * file) :=
  flat_map (fun s => map (pair s) (filter (fun f => fmatch (f_path f)) (s_files s))) (loaded_readable snaps).
Definition lf_key (p : snap * file) : string := s_ts (fst p).
Definition lf_order (snaps : list snap) : list (snap * file) := sort_desc lf_key (lf_pairs snaps).
Definition lf_rows (cols : list fcol) (snaps : list snap) : list (N * list cell) :=
  map (fun p => (f_id (snd p), map (fcell p) (dedup fcol_idx [] cols))) (lf_order snaps).
End Commands.

(* delete_snapshots(names): every loaded snapshot (no filter) whose name is listed must be readable
   ("different key" otherwise), every listed name must have been met ("not available" otherwise);
   nothing is deleted before both checks passed *)
Definition named (names : list string) (s : snap) : bool := visible s && mem_str (s_name s) names.
Definition delete_ok (names : list string) (snaps : list snap) : bool :=
  forallb (fun n => existsb (fun s => visible s && String.eqb (s_name s) n) snaps) names
  && forallb (fun s => negb (named names s) || readable s) snaps.
Definition delete_names (names : list string) (snaps : list snap) : list snap * bool :=
  if delete_ok names snaps then (filter (fun s => negb (named names s)) snaps, true) else (snaps, false).

(* ------------------------------------------------------------------ filters from regular expressions *)
Section Regex.
Context {regex : Type}.
Variable matches : regex -> string -> bool.      (* re.compile(r).search(s) is not None *)
(* _compile_or_none: no pattern = no filtering *)
Definition opt_match (o : option regex) (s : string) : bool :=
  match o with None => true | Some r => matches r s end.
End Regex.

(* utils.combine_regexes = '|'.join ; __main__._combine_optional_regexes *)
Definition join_bar (ps : list string) : string := String.concat "|" ps.
Definition combine_optional (o : option (list string)) : option string := option_map join_bar o.
(* the documented meaning of repeated -S / -F options: "matching ANY of the given regexes" *)
Definition any_of (matches : string -> string -> bool) (o : option (list string)) (s : string) : bool :=
  match o with None => true | Some ps => existsb (fun p => matches p s) ps end.

(* the matcher used by the correspondence harness: a filter is handed over as the table of the
   strings (of the history at hand) on which Python's re.search succeeded *)
Definition table_matches (tbl : list string) (s : string) : bool := mem_str s tbl.

(* What CPython's re answers on the witnesses of the known finding (DESIGN section 5, row 16):
   (joined pattern, subject, Some (search succeeded) | None = re.error at compile time).  The same
   table is recomputed from the interpreter on every run (Gen/SelectGen.v, tie_re_observed). *)
Definition observed_re : list (string * string * option bool) :=
  [("(x)\1", "yy", Some false); ("(y)\1", "yy", Some true); ("(x)\1|(y)\1", "yy", Some false);
   ("x", "ABC", Some false); ("(?i)abc", "ABC", Some true); ("x|(?i)abc", "ABC", None)]%string.
(* a rejected pattern selects nothing (the command fails) *)
Definition observed_matches (p s : string) : bool :=
  match find (fun e => String.eqb (fst (fst e)) p && String.eqb (snd (fst e)) s) observed_re with
  | Some (_, _, Some b) => b
  | _ => false
  end.
