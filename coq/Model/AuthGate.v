(* C09 - the first authentication of a thread backend (utils.requires_auth, plain wrapper) under any arrival order of transfer
   threads.  A thread that finds the per-backend lock attribute published goes straight to its transfer; otherwise it tries the lock:
   the winner authenticates, the others wait for the lock and then transfer.  [publish_first] says whether the attribute is
   published before authenticate() has finished (the other shape) or after it (the shape the translator finds).  One thread moves
   at a time; any number of threads; any interleaving.  Definitions only. *)
From Coq Require Import List Bool Arith.
Import ListNotations.

Inductive astate := AIdle | AAuthing | AWaiting | ADone.
Record gate := { authed : bool; published : bool; started : bool; aholder : option nat; ats : nat -> astate }.
Definition aupd (f : nat -> astate) (i : nat) (v : astate) : nat -> astate := fun j => if Nat.eqb j i then v else f j.

(* Call b: a transfer is issued; b = an authorisation is in place at that moment *)
Inductive aev := Call (b : bool).

Section Gate.
  Variable publish_first : bool.
  Inductive astep : gate -> list aev -> gate -> Prop :=
  | A_fast g i : ats g i = AIdle -> published g = true ->           (* attribute there: no waiting at all *)
      astep g [Call (authed g)] {| authed := authed g; published := published g; started := started g; aholder := aholder g; ats := aupd (ats g) i ADone |}
  | A_win g i : ats g i = AIdle -> published g = false -> aholder g = None ->
      astep g [] {| authed := authed g; published := publish_first; started := true; aholder := Some i; ats := aupd (ats g) i AAuthing |}
  | A_lose g i : ats g i = AIdle -> published g = false -> aholder g <> None ->
      astep g [] {| authed := authed g; published := published g; started := started g; aholder := aholder g; ats := aupd (ats g) i AWaiting |}
  | A_authenticated g i : ats g i = AAuthing -> aholder g = Some i -> (* authenticate() returns; publish; release; transfer *)
      astep g [Call true] {| authed := true; published := true; started := started g; aholder := None; ats := aupd (ats g) i ADone |}
  | A_wake g i : ats g i = AWaiting -> aholder g = None ->           (* `with lock: pass`, then transfer *)
      astep g [Call (authed g)] {| authed := authed g; published := published g; started := started g; aholder := aholder g; ats := aupd (ats g) i ADone |}.

  Inductive areach : gate -> list aev -> gate -> Prop :=
  | areach_refl g : areach g [] g
  | areach_step g tr g1 e g2 : areach g tr g1 -> astep g1 e g2 -> areach g (tr ++ e) g2.
End Gate.

Definition ginit : gate := {| authed := false; published := false; started := false; aholder := None; ats := fun _ => AIdle |}.
