(* The snapshot timestamp: [str(datetime.utcnow())] = "YYYY-MM-DD HH:MM:SS", with ".ffffff" appended
   only when microsecond <> 0 (datetime.__str__ = isoformat(sep=' ')), and the order Python uses on
   such values: [str] comparison = lexicographic by code point, a proper prefix sorting first.
   (replicat/repository.py: snapshot() 'utc_timestamp': str(now); restore / list_snapshots /
   list_files sort by that string.)  Executable definitions only. *)
From Coq Require Import List NArith Ascii String.
Import ListNotations.
Local Open Scope N_scope.

(* ------------------------------------------------------------------ strings as code points *)
Fixpoint codes (s : string) : list N :=
  match s with EmptyString => [] | String c r => N_of_ascii c :: codes r end.
Fixpoint of_codes (l : list N) : string :=
  match l with [] => EmptyString | c :: r => String (ascii_of_N c) (of_codes r) end.

(* Python's comparison of two str values *)
Fixpoint lex_cmp (a b : list N) : comparison :=
  match a, b with
  | [], [] => Eq
  | [], _ :: _ => Lt
  | _ :: _, [] => Gt
  | x :: a', y :: b' => match x ?= y with Eq => lex_cmp a' b' | c => c end
  end.
Definition str_cmp (s t : string) : comparison := lex_cmp (codes s) (codes t).
Definition str_leb (s t : string) : bool := match str_cmp s t with Gt => false | _ => true end.

(* ------------------------------------------------------------------ datetime and its rendering *)
Record dt := mkdt { dY : N; dM : N; dD : N; dh : N; dm : N; ds : N; dus : N }.

(* the field ranges of a Python datetime (year 1..9999; the rendering is fixed-width for all of them) *)
Definition wf_dt (t : dt) : Prop :=
  dY t < 10000 /\ dM t < 100 /\ dD t < 100 /\ dh t < 100 /\ dm t < 100 /\ ds t < 100 /\ dus t < 1000000.

(* "%0wd": w decimal digits, most significant first (for n < 10^w) *)
Fixpoint digits (w : nat) (n : N) : list N :=
  match w with
  | O => []
  | S w' => 48 + n / 10 ^ N.of_nat w' :: digits w' (n mod 10 ^ N.of_nat w')
  end.

Definition c_dash : N := 45.  Definition c_space : N := 32.
Definition c_colon : N := 58. Definition c_dot : N := 46.

Definition fraction (us : N) : list N := if us =? 0 then [] else c_dot :: digits 6 us.

Definition render_codes (t : dt) : list N :=
  digits 4 (dY t) ++ c_dash :: digits 2 (dM t) ++ c_dash :: digits 2 (dD t) ++ c_space ::
  digits 2 (dh t) ++ c_colon :: digits 2 (dm t) ++ c_colon :: digits 2 (ds t) ++ fraction (dus t).
Definition render (t : dt) : string := of_codes (render_codes t).

(* chronological order of calendar values in one time zone = lexicographic on the fields *)
Definition thenc (c d : comparison) : comparison := match c with Eq => d | _ => c end.
Definition dt_cmp (a b : dt) : comparison :=
  thenc (dY a ?= dY b) (thenc (dM a ?= dM b) (thenc (dD a ?= dD b) (thenc (dh a ?= dh b)
  (thenc (dm a ?= dm b) (thenc (ds a ?= ds b) (dus a ?= dus b)))))).

(* isoformat(sep=' ', timespec='seconds') of a parsed timestamp = its first 19 characters *)
Definition seconds_part (s : string) : string := substring 0 19 s.
