(* C20 - model of replicat.utils.RateLimitedIO / _RateLimitedFileWrapper over Q.
   Definitions only (executable), no proofs.  The definitions of [pause], [wrapper_read],
   [wrapper_write], [wrapper_seek/tell/truncate] are written in exactly the shape the translator
   (translate/units_c20.py -> Gen/RateLimitGen.v) produces from the source, so that
   Proofs/RateLimitTie.v can prove Gen = Model by reflexivity.

   Conventions: [clock] is the wall clock (time.perf_counter), [amortised] is
   _read_sleep_amortised / _write_sleep_amortised, [over] is the amount by which time.sleep
   over-sleeps (0 = exact sleep), [e] is the duration of the underlying read/write. *)
From Coq Require Import QArith List Bool.
Import ListNotations.
Open Scope Q_scope.

(* Python max(a, b): a unless b > a *)
Definition py_max (a b : Q) : Q := if negb (Qle_bool b a) then b else a.

(* RateLimitedIO.pause_reads / pause_writes : returns (clock, amortised, seconds slept) *)
Definition pause (PAUSE_LIMIT PAUSE_THRESHOLD_SECONDS over clock amortised seconds : Q) : Q * Q * Q :=
  let amortised := amortised + seconds in
  let amortised := if negb (Qle_bool amortised PAUSE_LIMIT) then PAUSE_LIMIT else amortised in
  if Qle_bool amortised PAUSE_THRESHOLD_SECONDS then (clock, amortised, 0) else
  let sleep_start := clock in
  let slept := amortised in
  let clock := clock + (amortised + over) in
  let amortised := amortised - (clock - sleep_start) in
  (clock, amortised, slept).

(* the same without the PAUSE_LIMIT cap (used to state that the cap never fires) *)
Definition pause_nocap (PAUSE_THRESHOLD_SECONDS over clock amortised seconds : Q) : Q * Q * Q :=
  let amortised := amortised + seconds in
  if Qle_bool amortised PAUSE_THRESHOLD_SECONDS then (clock, amortised, 0) else
  let sleep_start := clock in
  let slept := amortised in
  let clock := clock + (amortised + over) in
  let amortised := amortised - (clock - sleep_start) in
  (clock, amortised, slept).

Section Wrapper.
Context {F A D : Type}.
Variable file_read : F -> A -> D * F.      (* underlying read(size): data, new file state *)
Variable file_write : F -> D -> Q * F.     (* underlying write(data): bytes written, new file state *)
Variable len : D -> Q.

Definition wrapper_read (PAUSE_LIMIT PAUSE_THRESHOLD_SECONDS read_limit over e clock amortised : Q)
    (file : F) (size : A) : D * F * (Q * Q * Q) :=
  let start := clock in
  let '(data, file) := file_read file size in
  let clock := clock + e in
  let real_elapsed := clock - start in
  let expected_elapsed := len data / read_limit in
  let '(clock, amortised, slept) :=
    pause PAUSE_LIMIT PAUSE_THRESHOLD_SECONDS over clock amortised (py_max (expected_elapsed - real_elapsed) 0) in
  (data, file, (clock, amortised, slept)).

Definition wrapper_write (PAUSE_LIMIT PAUSE_THRESHOLD_SECONDS write_limit over e clock amortised : Q)
    (file : F) (data : D) : Q * F * (Q * Q * Q) :=
  let start := clock in
  let '(bytes_written, file) := file_write file data in
  let clock := clock + e in
  let real_elapsed := clock - start in
  let expected_elapsed := bytes_written / write_limit in
  let '(clock, amortised, slept) :=
    pause PAUSE_LIMIT PAUSE_THRESHOLD_SECONDS over clock amortised (py_max (expected_elapsed - real_elapsed) 0) in
  (bytes_written, file, (clock, amortised, slept)).
End Wrapper.

(* seek / tell / truncate: the wrapper returns what the underlying call returns *)
Definition wrapper_passthrough {F A R : Type} (file_op : F -> A -> R * F) (file : F) (args : A) : R * F :=
  file_op file args.

(* ------------------------------------------------------------------ timing of one rate-limited call *)
(* what wrapper_read/wrapper_write do to (clock, amortised) when the underlying call moves n bytes in e seconds *)
Definition io_timing (PL TH limit over e clock amortised n : Q) : Q * Q * Q :=
  pause PL TH over (clock + e) amortised (py_max (n / limit - (clock + e - clock)) 0).

(* ------------------------------------------------------------------ one stream *)
Record call := { c_gap : Q;     (* time the caller spends before this call *)
                 c_size : Q;    (* bytes moved by the underlying call *)
                 c_lat : Q;     (* duration of the underlying call *)
                 c_over : Q }.  (* over-sleep of time.sleep in this call *)
Record event := { ev_time : Q;   (* instant the underlying call returns: the bytes have passed *)
                  ev_bytes : Q;
                  ev_sleep : Q;  (* sleep requested *)
                  ev_debt : Q }. (* amortised debt after the call *)

(* the state carried to the next call is normalised (Qred x == x): this only keeps the numbers small when the
   model is executed *)
Fixpoint run (PL TH L clock debt : Q) (cs : list call) : list event :=
  match cs with
  | [] => []
  | c :: cs' =>
      let clock0 := clock + c_gap c in
      let '(clock1, debt1, slept) := io_timing PL TH L (c_over c) (c_lat c) clock0 debt (c_size c) in
      {| ev_time := clock0 + c_lat c; ev_bytes := c_size c; ev_sleep := slept; ev_debt := debt1 |}
        :: run PL TH L (Qred clock1) (Qred debt1) cs'
  end.

Definition io_timing_nocap (TH limit over e clock amortised n : Q) : Q * Q * Q :=
  pause_nocap TH over (clock + e) amortised (py_max (n / limit - (clock + e - clock)) 0).

Fixpoint run_nocap (TH L clock debt : Q) (cs : list call) : list event :=
  match cs with
  | [] => []
  | c :: cs' =>
      let clock0 := clock + c_gap c in
      let '(clock1, debt1, slept) := io_timing_nocap TH L (c_over c) (c_lat c) clock0 debt (c_size c) in
      {| ev_time := clock0 + c_lat c; ev_bytes := c_size c; ev_sleep := slept; ev_debt := debt1 |}
        :: run_nocap TH L (Qred clock1) (Qred debt1) cs'
  end.

Definition in_window (t T : Q) (ev : event) : bool := Qle_bool t (ev_time ev) && Qle_bool (ev_time ev) (t + T).
Definition sumQ (l : list Q) : Q := fold_right Qplus 0 l.
(* payload bytes whose passing instant lies in [t, t+T] *)
Definition window_bytes (t T : Q) (evs : list event) : Q := sumQ (map ev_bytes (filter (in_window t T) evs)).

(* ------------------------------------------------------------------ several streams on one limiter *)
(* Calls listed in the order in which they take the limiter's lock.  Thread [m_thread] starts its
   underlying call at [m_begin] (not before its previous call returned), the bytes pass at
   m_begin + m_lat, the lock is taken at [m_lock] (not before the bytes passed, not before the
   lock is free); the sleep happens while holding the lock (exact sleep). *)
Record mcall := { m_thread : nat; m_begin : Q; m_lat : Q; m_size : Q; m_lock : Q }.
Record mstate := { ms_lockfree : Q; ms_debt : Q; ms_ready : list (nat * Q) }.

Fixpoint ready_of (r : list (nat * Q)) (th : nat) : Q :=
  match r with [] => 0 | (k, v) :: r' => if Nat.eqb k th then v else ready_of r' th end.

Definition mcall_ok (st : mstate) (c : mcall) : bool :=
  Qle_bool (ready_of (ms_ready st) (m_thread c)) (m_begin c) && Qle_bool 0 (m_lat c)
  && Qle_bool (m_begin c + m_lat c) (m_lock c) && Qle_bool (ms_lockfree st) (m_lock c).

Definition mstep (PL TH L : Q) (st : mstate) (c : mcall) : mstate * event :=
  let '(clock1, debt1, slept) :=
    pause PL TH 0 (m_lock c) (ms_debt st) (py_max (m_size c / L - m_lat c) 0) in
  ({| ms_lockfree := Qred clock1; ms_debt := Qred debt1; ms_ready := (m_thread c, Qred clock1) :: ms_ready st |},
   {| ev_time := m_begin c + m_lat c; ev_bytes := m_size c; ev_sleep := slept; ev_debt := debt1 |}).

Fixpoint mrun (PL TH L : Q) (st : mstate) (cs : list mcall) : list event :=
  match cs with
  | [] => []
  | c :: cs' => let '(st', ev) := mstep PL TH L st c in ev :: mrun PL TH L st' cs'
  end.

Fixpoint mvalid (PL TH L : Q) (st : mstate) (cs : list mcall) : bool :=
  match cs with
  | [] => true
  | c :: cs' => mcall_ok st c && mvalid PL TH L (fst (mstep PL TH L st c)) cs'
  end.

Definition mstate0 : mstate := {| ms_lockfree := 0; ms_debt := 0; ms_ready := [] |}.

(* ------------------------------------------------------------------ transparency: op sequences *)
Section Ops.
Context {F A D S R : Type}.
Variable file_read : F -> A -> D * F.
Variable file_write : F -> D -> Q * F.
Variable file_seek : F -> S -> R * F.
Variable file_tell : F -> unit -> R * F.
Variable file_truncate : F -> S -> R * F.
Variable len : D -> Q.

Inductive op := ORead (size : A) | OWrite (data : D) | OSeek (args : S) | OTell | OTruncate (args : S).
Inductive result := RData (d : D) | RCount (n : Q) | RPos (r : R).

Definition raw_step (file : F) (o : op) : result * F :=
  match o with
  | ORead size => let '(d, f) := file_read file size in (RData d, f)
  | OWrite data => let '(n, f) := file_write file data in (RCount n, f)
  | OSeek a => let '(r, f) := file_seek file a in (RPos r, f)
  | OTell => let '(r, f) := file_tell file tt in (RPos r, f)
  | OTruncate a => let '(r, f) := file_truncate file a in (RPos r, f)
  end.

(* limiter parameters and the per-call environment (latency, over-sleep) are arbitrary *)
Record lim := { l_PL : Q; l_TH : Q; l_rlimit : Q; l_wlimit : Q }.
Record lstate := { s_clock : Q; s_rdebt : Q; s_wdebt : Q }.

Definition wrapped_step (p : lim) (env : Q * Q) (st : lstate) (file : F) (o : op) : result * F * lstate :=
  let '(e, over) := env in
  match o with
  | ORead size =>
      let '(d, f, (c, a, _)) := wrapper_read file_read len (l_PL p) (l_TH p) (l_rlimit p) over e (s_clock st) (s_rdebt st) file size in
      (RData d, f, {| s_clock := c; s_rdebt := a; s_wdebt := s_wdebt st |})
  | OWrite data =>
      let '(n, f, (c, a, _)) := wrapper_write file_write (l_PL p) (l_TH p) (l_wlimit p) over e (s_clock st) (s_wdebt st) file data in
      (RCount n, f, {| s_clock := c; s_rdebt := s_rdebt st; s_wdebt := a |})
  | OSeek a => let '(r, f) := wrapper_passthrough file_seek file a in (RPos r, f, st)
  | OTell => let '(r, f) := wrapper_passthrough file_tell file tt in (RPos r, f, st)
  | OTruncate a => let '(r, f) := wrapper_passthrough file_truncate file a in (RPos r, f, st)
  end.

Fixpoint run_raw (file : F) (os : list op) : list result * F :=
  match os with
  | [] => ([], file)
  | o :: os' => let '(r, f) := raw_step file o in let '(rs, f') := run_raw f os' in (r :: rs, f')
  end.

Fixpoint run_wrapped (p : lim) (st : lstate) (file : F) (os : list (op * (Q * Q))) : list result * F :=
  match os with
  | [] => ([], file)
  | (o, env) :: os' =>
      let '(r, f, st') := wrapped_step p env st file o in
      let '(rs, f') := run_wrapped p st' f os' in (r :: rs, f')
  end.
End Ops.
