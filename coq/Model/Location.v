(* Storage names (replicat/repository.py: get_chunk_location, parse_chunk_location,
   get_snapshot_location, parse_snapshot_location, _chunk_digest_to_location_parts,
   _snapshot_digest_to_location_parts).  Hand model over Lib/PyStr; a raise is [None].
   Executable definitions only. *)
From Coq Require Import String Ascii List.
From Replicat Require Import Lib.PyStr.
Import ListNotations.
Local Open Scope string_scope.

Definition CHUNK_PREFIX : string := "data/".
Definition SNAPSHOT_PREFIX : string := "snapshots/".

(* posixpath.join(CHUNK_PREFIX, tag[:2], tag[2:4], f'{tag[4:]}-{name}') *)
Definition get_chunk_location (name tag : string) : string :=
  posix_join CHUNK_PREFIX
    [py_slice tag None (Some 2); py_slice tag (Some 2) (Some 4); py_slice tag (Some 4) None ++ "-" ++ name].

(* startswith guard (ValueError); head, _, name = location.rpartition('-');
   parts = head.rsplit('/', 3); (name, parts[1] + parts[2] + parts[3]) *)
Definition parse_chunk_location (location : string) : option (string * string) :=
  if negb (startswith CHUNK_PREFIX location) then None else
  let head := rp_head (rpartition "-" location) in
  let name := rp_tail (rpartition "-" location) in
  let parts := rsplit "/" 3 head in
  opair (Some name) (oconcat (oconcat (py_index parts 1) (py_index parts 2)) (py_index parts 3)).

(* posixpath.join(SNAPSHOT_PREFIX, tag[:2], f'{tag[2:]}-{name}') *)
Definition get_snapshot_location (name tag : string) : string :=
  posix_join SNAPSHOT_PREFIX [py_slice tag None (Some 2); py_slice tag (Some 2) None ++ "-" ++ name].

Definition parse_snapshot_location (location : string) : option (string * string) :=
  if negb (startswith SNAPSHOT_PREFIX location) then None else
  let head := rp_head (rpartition "-" location) in
  let name := rp_tail (rpartition "-" location) in
  let parts := rsplit "/" 2 head in
  opair (Some name) (oconcat (py_index parts 1) (py_index parts 2)).

(* name and tag from a content digest: symbolic in the MAC and in bytes.hex *)
Section Parts.
Context {B : Type}.
Variables (mac : B -> B) (hex : B -> string).
(* chunk: name = MAC(digest), tag = MAC(MAC(digest)); unencrypted: both the digest *)
Definition chunk_parts (encrypted : bool) (digest : B) : string * string :=
  let digest_mac := if encrypted then mac digest else digest in
  let digest_mac_mac := if encrypted then mac (mac digest) else digest in
  (hex digest_mac, hex digest_mac_mac).
(* snapshot: name = digest of the object, tag = MAC(digest); unencrypted: both the digest *)
Definition snapshot_parts (encrypted : bool) (digest : B) : string * string :=
  let digest_mac := if encrypted then mac digest else digest in
  (hex digest, hex digest_mac).
Definition chunk_location (encrypted : bool) (digest : B) : string :=
  get_chunk_location (fst (chunk_parts encrypted digest)) (snd (chunk_parts encrypted digest)).
Definition snapshot_location (encrypted : bool) (digest : B) : string :=
  get_snapshot_location (fst (snapshot_parts encrypted digest)) (snd (snapshot_parts encrypted digest)).
End Parts.
