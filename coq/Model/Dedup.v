(* The chunk table of a snapshot: digests in first-occurrence order, refs carry the index
   (replicat/repository.py _chunk_producer: chunks_table[digest] = len(chunks_table)). *)
From Coq Require Import List Arith Bool.
Import ListNotations.

Section Dedup.
Context {D : Type}.
Variable deqb : D -> D -> bool.

Definition memd (d : D) (l : list D) : bool := existsb (deqb d) l.
Definition add_digest (table : list D) (d : D) : list D := if memd d table then table else table ++ [d].
Definition table_of (ds : list D) : list D := fold_left add_digest ds [].
Fixpoint index_of (d : D) (l : list D) : nat :=
  match l with [] => 0 | x :: t => if deqb d x then 0 else S (index_of d t) end.
End Dedup.
