(* C19 - model of how replicat.__main__.main() builds the effective value of every option from the command
   line, the environment, the selected profile and the default section of the configuration file, and the
   built-in default.  Option tables are data (extracted from the source into Gen/C19Tables.v).  Definitions only. *)
From Coq Require Import String Ascii ZArith List Bool.
From Replicat Require Import Model.PyVal.
Import ListNotations.
Open Scope string_scope.
Open Scope Z_scope.
Open Scope list_scope.

(* what the command handler / the backend constructor receives *)
Inductive eff :=
| EVal (v : value)                 (* None, bool, int, float, str *)
| ERepo (backend conn : string)    (* (backend module name, connection string) *)
| EPath (s : string)               (* pathlib.Path *)
| EBytes (s : string)              (* bytes of the string *)
| EFile (path : string)            (* bytes read from the file at this path *)
| EMissing.                        (* backend argument without default that nobody supplied: not passed *)

Inductive result := RSet (e : eff) | RKeep | RReject.

Inductive coercion :=
| CoRepo          (* utils.parse_repository *)
| CoNatCli        (* cli._natural_number *)
| CoNatFile       (* config._check_natural_number *)
| CoStoreTrue     (* argparse store_true *)
| CoBoolFile      (* config._check_boolean *)
| CoPath          (* pathlib.Path *)
| CoConstNone     (* argparse store_const, const=None  (--no-cache) *)
| CoNoCacheFile   (* _check_boolean(no-cache): true -> cache_directory = None, false -> unchanged *)
| CoBytes         (* os.fsencode / str.encode / os.environb *)
| CoReadFile      (* _read_bytes *)
| CoLogLevel      (* config._convert_log_level *)
| CoGuessCli      (* argparse type=guess_type on a command-line string *)
| CoGuessCfg.     (* guess_type in BaseBackendConfig.apply_known / apply_env, then argparse passes a parser-level
                     default that is a str through type=guess_type once more *)

(* ------------------------------------------------------------------ string helpers *)
Fixpoint split_colon (s : string) : string * option string :=
  match s with
  | EmptyString => (EmptyString, None)
  | String c r =>
    if (code c =? 58)%N then (EmptyString, Some r)
    else let '(a, b) := split_colon r in (String c a, b)
  end.

(* str.isidentifier on ASCII *)
Definition is_identifier (s : string) : bool :=
  match s with
  | EmptyString => false
  | String c r => is_letter c && all_chars (fun x => is_letter x || is_digit x) r
  end.

Definition parse_repository (s : string) : option (string * string) :=
  match split_colon s with
  | (conn, None) => Some ("local", conn)
  | (name, Some conn) => if is_identifier name then Some (name, conn) else None
  end.

(* int(str) on the fragment: optional sign, decimal digits *)
Definition py_int (s : string) : option Z :=
  let digits r := match r with EmptyString => None | _ => if all_chars is_digit r then Some (digits_value 0 r) else None end in
  match s with
  | String c r =>
    if (code c =? 45)%N then option_map Z.opp (digits r)
    else if (code c =? 43)%N then digits r
    else digits s
  | EmptyString => None
  end.

Definition log_levels : list (string * Z) :=
  [("fatal", 50); ("critical", 50); ("error", 40); ("warning", 30); ("info", 20); ("debug", 10)].

Fixpoint slookup {A} (k : string) (l : list (string * A)) : option A :=
  match l with
  | [] => None
  | (k', v) :: r => if String.eqb k k' then Some v else slookup k r
  end.

Definition check_boolean (v : value) : option bool :=
  match v with
  | VBool b => Some b
  | VStr s => match guess s with Some (VBool b) => Some b | _ => None end
  | _ => None
  end.

(* a second pass of guess_type over a value that is (still) a str *)
Definition recoerce (v : value) : option value :=
  match v with VStr s => guess s | _ => Some v end.

Definition apply_co (c : coercion) (raw : value) : result :=
  match c with
  | CoRepo => match raw with
              | VStr s => match parse_repository s with Some (n, conn) => RSet (ERepo n conn) | None => RReject end
              | _ => RReject
              end
  | CoNatCli => match raw with
                | VStr s => match py_int s with Some z => if 1 <=? z then RSet (EVal (VInt z)) else RReject | None => RReject end
                | _ => RReject
                end
  | CoNatFile => match raw with
                 | VStr s => match py_int s with Some z => if 1 <=? z then RSet (EVal (VInt z)) else RReject | None => RReject end
                 | VInt z => if 1 <=? z then RSet (EVal (VInt z)) else RReject
                 | VBool true => RSet (EVal (VBool true))          (* bool is an int; True >= 1 *)
                 | _ => RReject
                 end
  | CoStoreTrue => RSet (EVal (VBool true))
  | CoBoolFile => match check_boolean raw with Some b => RSet (EVal (VBool b)) | None => RReject end
  | CoPath => match raw with VStr s => RSet (EPath s) | _ => RReject end
  | CoConstNone => RSet (EVal VNull)
  | CoNoCacheFile => match check_boolean raw with Some true => RSet (EVal VNull) | Some false => RKeep | None => RReject end
  | CoBytes => match raw with VStr s => RSet (EBytes s) | _ => RReject end
  | CoReadFile => match raw with VStr s => RSet (EFile s) | _ => RReject end
  | CoLogLevel => match raw with
                  | VStr s => match slookup (lower s) log_levels with Some z => RSet (EVal (VInt z)) | None => RReject end
                  | _ => RReject
                  end
  | CoGuessCli => match raw with
                  | VStr s => match guess s with Some v => RSet (EVal v) | None => RReject end
                  | _ => RReject
                  end
  | CoGuessCfg => match guess_value raw with
                  | Some v => match recoerce v with Some v' => RSet (EVal v') | None => RReject end
                  | None => RReject
                  end
  end.

(* ------------------------------------------------------------------ option tables *)
Record optrow := {
  o_name : string;             (* configuration-file key = long command-line flag without the dashes *)
  o_dest : string;             (* attribute of the argparse namespace / constructor keyword *)
  o_cli : option coercion;     (* None: cannot be given on the command line *)
  o_env : option coercion;
  o_file : option coercion;
  o_builtin : eff;
}.

Fixpoint hyphenate (s : string) : string :=
  match s with
  | EmptyString => EmptyString
  | String c r => String (if (code c =? 95)%N then "-"%char else c) (hyphenate r)
  end.

(* a keyword-only constructor parameter of a backend; the parser-level default goes through type=guess_type
   when it is a str *)
Definition backend_builtin (dflt : option value) : eff :=
  match dflt with
  | None => EMissing
  | Some (VStr s) => match guess s with Some v => EVal v | None => EVal (VStr s) end
  | Some v => EVal v
  end.

Definition backend_row (p : string * option value) : optrow :=
  {| o_name := hyphenate (fst p); o_dest := fst p; o_cli := Some CoGuessCli; o_env := Some CoGuessCfg;
     o_file := Some CoGuessCfg; o_builtin := backend_builtin (snd p) |}.

(* ------------------------------------------------------------------ sources *)
Record sources := {
  s_cli : list (string * string);     (* option name -> string given on the command line ("" for flags) *)
  s_env : list (string * string);     (* option name -> value of its environment variable *)
  s_prof : list (string * value);     (* selected profile section (TOML values) *)
  s_dflt : list (string * value);     (* default section *)
}.

Inductive src := SrcFile | SrcEnv | SrcCli.
(* the order in which main() lets the sources overwrite each other (later wins) *)
Definition source_order : list src := [SrcFile; SrcEnv; SrcCli].
Inductive section := SecDefault | SecProfile.
(* read_config: the default section is updated by the profile *)
Definition file_merge_order : list section := [SecDefault; SecProfile].

Definition lookup_section (sec : section) (s : sources) (k : string) : option value :=
  match sec with SecDefault => slookup k (s_dflt s) | SecProfile => slookup k (s_prof s) end.

(* value of a key in the merged file options: later sections of the merge order win *)
Definition lookup_file_in (order : list section) (s : sources) (k : string) : option value :=
  fold_left (fun acc sec => match lookup_section sec s k with Some v => Some v | None => acc end) order None.
Definition lookup_file := lookup_file_in file_merge_order.

Definition get (x : src) (s : sources) (r : optrow) : option result :=
  match x with
  | SrcFile => match o_file r with Some co => option_map (apply_co co) (lookup_file s (o_name r)) | None => None end
  | SrcEnv => match o_env r with Some co => option_map (fun v => apply_co co (VStr v)) (slookup (o_name r) (s_env s)) | None => None end
  | SrcCli => match o_cli r with Some co => option_map (fun v => apply_co co (VStr v)) (slookup (o_name r) (s_cli s)) | None => None end
  end.

(* one source applied to the rows that write one destination, in table order; None = the program exits with an error *)
Definition apply_result (acc : option eff) (x : option result) : option eff :=
  match acc with
  | None => None
  | Some cur => match x with
                | None | Some RKeep => Some cur
                | Some (RSet e) => Some e
                | Some RReject => None
                end
  end.

Definition src_step (g : optrow -> option result) (rows : list optrow) (acc : option eff) : option eff :=
  fold_left (fun a r => apply_result a (g r)) rows acc.

Definition rows_for (table : list optrow) (d : string) : list optrow :=
  filter (fun r => String.eqb (o_dest r) d) table.
Definition builtin_for (table : list optrow) (d : string) : eff :=
  match rows_for table d with r :: _ => o_builtin r | [] => EMissing end.

Definition effective_in (order : list src) (table : list optrow) (s : sources) (d : string) : option eff :=
  fold_left (fun acc x => src_step (get x s) (rows_for table d) acc) order (Some (builtin_for table d)).
Definition effective_dest := effective_in source_order.

(* ------------------------------------------------------------------ mutually exclusive options *)
Definition present_file (s : sources) (k : string) : bool :=
  match lookup_file s k with Some _ => true | None => false end.
Definition present_cli (s : sources) (k : string) : bool :=
  match slookup k (s_cli s) with Some _ => true | None => false end.

Definition exclusive_violation (excl_file excl_cli : list (string * string)) (s : sources) : bool :=
  existsb (fun p => present_file s (fst p) && present_file s (snd p)) excl_file ||
  existsb (fun p => present_cli s (fst p) && present_cli s (snd p)) excl_cli.

Fixpoint dedup (l : list string) : list string :=
  match l with
  | [] => []
  | x :: r => if existsb (String.eqb x) r then dedup r else x :: dedup r
  end.

(* the whole namespace: None = the program exits with an error *)
Definition run_main (table : list optrow) (excl_file excl_cli : list (string * string)) (s : sources) : option (list (string * eff)) :=
  if exclusive_violation excl_file excl_cli s then None else
  fold_right (fun d acc => match acc, effective_dest table s d with
                           | Some l, Some e => Some ((d, e) :: l)
                           | _, _ => None
                           end) (Some []) (dedup (map o_dest table)).

(* ------------------------------------------------------------------ the tables the proofs expect
   (Gen.C19Tables must be equal to them) *)
Definition general_rows : list optrow := [
  {| o_name := "repository"; o_dest := "repository"; o_cli := Some CoRepo; o_env := Some CoRepo; o_file := Some CoRepo;
     o_builtin := ERepo "local" "<cwd>" |};
  {| o_name := "concurrent"; o_dest := "concurrent"; o_cli := Some CoNatCli; o_env := None; o_file := Some CoNatFile;
     o_builtin := EVal (VInt 5) |};
  {| o_name := "hide-progress"; o_dest := "quiet"; o_cli := Some CoStoreTrue; o_env := None; o_file := Some CoBoolFile;
     o_builtin := EVal (VBool false) |};
  {| o_name := "cache-directory"; o_dest := "cache_directory"; o_cli := Some CoPath; o_env := None; o_file := Some CoPath;
     o_builtin := EPath "<default-cache>" |};
  {| o_name := "no-cache"; o_dest := "cache_directory"; o_cli := Some CoConstNone; o_env := None; o_file := Some CoNoCacheFile;
     o_builtin := EPath "<default-cache>" |};
  {| o_name := "password"; o_dest := "password"; o_cli := Some CoBytes; o_env := Some CoBytes; o_file := Some CoBytes;
     o_builtin := EVal VNull |};
  {| o_name := "password-file"; o_dest := "password"; o_cli := Some CoReadFile; o_env := None; o_file := Some CoReadFile;
     o_builtin := EVal VNull |};
  {| o_name := "key"; o_dest := "key"; o_cli := None; o_env := None; o_file := Some CoBytes;
     o_builtin := EVal VNull |};
  {| o_name := "key-file"; o_dest := "key"; o_cli := Some CoReadFile; o_env := None; o_file := Some CoReadFile;
     o_builtin := EVal VNull |};
  {| o_name := "log-level"; o_dest := "log_level"; o_cli := None; o_env := None; o_file := Some CoLogLevel;
     o_builtin := EVal (VInt 30) |}
].
Definition excl_file : list (string * string) := [("key", "key-file"); ("password", "password-file")].
Definition excl_cli : list (string * string) := [("no-cache", "cache-directory"); ("password", "password-file")].

(* the table of one run: general options, then the backend's constructor keywords *)
Definition full_table (params : list (string * option value)) : list optrow := general_rows ++ map backend_row params.

(* environment variables of the general options; built-in backends: module, short name (prefix of their
   environment variables), keyword-only constructor parameters with defaults *)
Definition general_env : list (string * string) := [("repository", "REPLICAT_REPOSITORY"); ("password", "REPLICAT_PASSWORD")].
Definition builtin_backends : list (string * string * list (string * option value)) := [
  ("local", "Local", []);
  ("s3c", "S3C", [("key_id", None); ("access_key", None); ("region", None); ("host", None); ("scheme", Some (VStr "https"))]);
  ("s3", "S3", [("key_id", None); ("access_key", None); ("region", None)]);
  ("b2", "B2", [("key_id", None); ("application_key", None)])
].
