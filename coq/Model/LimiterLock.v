(* C09 - the rate limiter's shared pause account under any thread schedule.  Threads call RateLimitedIO.pause_reads (or
   pause_writes) with the amounts their transfers owe; the account, the cap and the threshold are as in the code; [locked_sleep]
   says whether the evaluation of the sleep length, the sleep and the settlement happen inside the same critical section as the
   addition and the threshold test (the shape the translator finds in the working tree) or after the lock has been released.
   Small-step, one thread moves at a time, any interleaving.  Definitions only. *)
From Coq Require Import ZArith List Bool.
Import ListNotations.
Local Open Scope Z_scope.

Inductive tstate :=
| TIdle (todo : list Z)                 (* outside the limiter; the amounts of its future calls *)
| TChecked (todo : list Z)              (* has added its amount and found the account above the threshold *)
| TSleeping (todo : list Z) (x : Z).    (* inside time.sleep(x) *)

Record lstate := { acct : Z; holder : option nat; ts : nat -> tstate }.
Definition upd (f : nat -> tstate) (i : nat) (v : tstate) : nat -> tstate := fun j => if Nat.eqb j i then v else f j.

Inductive ev := Sleep (x : Z).          (* the argument time.sleep is called with; negative = ValueError in the transfer *)

Section Limiter.
  Variables (cap thr : Z) (locked_sleep : bool).

  Inductive lstep : lstate -> list ev -> lstate -> Prop :=
  | L_enter_small s i a todo :            (* with lock: add, cap, test: nothing to wait for *)
      holder s = None -> ts s i = TIdle (a :: todo) -> Z.min cap (acct s + a) <= thr ->
      lstep s [] {| acct := Z.min cap (acct s + a); holder := None; ts := upd (ts s) i (TIdle todo) |}
  | L_enter_big s i a todo :              (* with lock: add, cap, test: a pause is due *)
      holder s = None -> ts s i = TIdle (a :: todo) -> thr < Z.min cap (acct s + a) ->
      lstep s [] {| acct := Z.min cap (acct s + a); holder := if locked_sleep then Some i else None;
                    ts := upd (ts s) i (TChecked todo) |}
  | L_eval s i todo :                     (* time.sleep(self._amortised): the account is read NOW *)
      ts s i = TChecked todo ->
      lstep s [Sleep (acct s)] {| acct := acct s; holder := holder s; ts := upd (ts s) i (TSleeping todo (acct s)) |}
  | L_wake s i todo x e :                 (* slept e >= x; settle the account (under the lock either way) *)
      ts s i = TSleeping todo x -> x <= e ->
      holder s = (if locked_sleep then Some i else None) ->
      lstep s [] {| acct := acct s - e; holder := None; ts := upd (ts s) i (TIdle todo) |}.

  Inductive lreach : lstate -> list ev -> lstate -> Prop :=
  | lreach_refl s : lreach s [] s
  | lreach_step s tr s1 e s2 : lreach s tr s1 -> lstep s1 e s2 -> lreach s (tr ++ e) s2.
End Limiter.

Definition linit (prog : nat -> list Z) : lstate := {| acct := 0; holder := None; ts := fun i => TIdle (prog i) |}.
