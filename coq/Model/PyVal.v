(* Python values as far as settings / option handling looks at them, and a model of
   replicat.utils.guess_type on a decidable fragment of strings (C17 flat CLI settings, C19).
   Definitions only. *)
From Coq Require Import String Ascii ZArith List Bool.
Import ListNotations.
Open Scope string_scope.
Open Scope Z_scope.

(* floats are restricted to half-integers: VHalf t is the float t/2 (1.5 = VHalf 3, 256.0 = VHalf 512) *)
Inductive value :=
| VNull
| VBool (b : bool)
| VInt (z : Z)
| VHalf (twice : Z)
| VStr (s : string)
| VOther                                  (* list, bytes, complex, ... : neither number, string nor mapping *)
| VDict (d : list (string * value)).

Definition dict := list (string * value).

Fixpoint lookup (k : string) (d : dict) : option value :=
  match d with
  | [] => None
  | (k', v) :: r => if String.eqb k k' then Some v else lookup k r
  end.

Fixpoint remove (k : string) (d : dict) : dict :=
  match d with
  | [] => []
  | (k', v) :: r => if String.eqb k k' then remove k r else (k', v) :: remove k r
  end.

(* d[k] = v : replaces in place, appends when absent (Python dict insertion order) *)
Fixpoint set (k : string) (v : value) (d : dict) : dict :=
  match d with
  | [] => [(k, v)]
  | (k', v') :: r => if String.eqb k k' then (k, v) :: r else (k', v') :: set k v r
  end.

Definition has (k : string) (d : dict) : bool := match lookup k d with Some _ => true | None => false end.

(* ------------------------------------------------------------------ numbers *)
Inductive num := NI (z : Z) | NH (twice : Z).
Definition twice (n : num) : Z := match n with NI z => 2 * z | NH t => t end.

(* bool is a subclass of int *)
Definition as_num (v : value) : option num :=
  match v with
  | VInt z => Some (NI z)
  | VBool b => Some (NI (if b then 1 else 0))
  | VHalf t => Some (NH t)
  | _ => None
  end.

(* isinstance(v, int) and its value *)
Definition int_of (v : value) : option Z :=
  match v with
  | VInt z => Some z
  | VBool b => Some (if b then 1 else 0)
  | _ => None
  end.

Definition num_value (n : num) : value := match n with NI z => VInt z | NH t => VHalf t end.

(* ------------------------------------------------------------------ characters *)
Definition code (c : ascii) : N := N_of_ascii c.
Definition is_digit (c : ascii) : bool := ((48 <=? code c) && (code c <=? 57))%N.
Definition is_upper (c : ascii) : bool := ((65 <=? code c) && (code c <=? 90))%N.
Definition is_lower (c : ascii) : bool := ((97 <=? code c) && (code c <=? 122))%N.
Definition is_letter (c : ascii) : bool := is_upper c || is_lower c || (code c =? 95)%N.
Definition lower_char (c : ascii) : ascii := if is_upper c then ascii_of_N (code c + 32) else c.

Fixpoint lower (s : string) : string :=
  match s with EmptyString => EmptyString | String c r => String (lower_char c) (lower r) end.

Fixpoint all_chars (p : ascii -> bool) (s : string) : bool :=
  match s with EmptyString => true | String c r => p c && all_chars p r end.

Fixpoint digits_value (acc : Z) (s : string) : Z :=
  match s with
  | EmptyString => acc
  | String c r => digits_value (10 * acc + Z.of_N (code c - 48)) r
  end.

(* decimal literal without sign: "0" or [1-9][0-9]* *)
Definition is_decimal (s : string) : bool :=
  match s with
  | EmptyString => false
  | String c EmptyString => is_digit c
  | String c r => is_digit c && negb (code c =? 48)%N && all_chars is_digit r
  end.

Fixpoint split_at_dot (s : string) : string * option string :=
  match s with
  | EmptyString => (EmptyString, None)
  | String c r =>
    if (code c =? 46)%N then (EmptyString, Some r)
    else let '(a, b) := split_at_dot r in (String c a, b)
  end.

(* unsigned number: decimal, or decimal ".0" / ".5" *)
Definition unsigned_number (s : string) : option num :=
  match split_at_dot s with
  | (a, None) => if is_decimal a then Some (NI (digits_value 0 a)) else None
  | (a, Some f) =>
    if is_decimal a then
      if String.eqb f "0" then Some (NH (2 * digits_value 0 a))
      else if String.eqb f "5" then Some (NH (2 * digits_value 0 a + 1))
      else None
    else None
  end.

Definition neg_num (n : num) : num := match n with NI z => NI (- z) | NH t => NH (- t) end.

Definition number (s : string) : option num :=
  match s with
  | String c r =>
    if (code c =? 45)%N then option_map neg_num (unsigned_number r)      (* '-' *)
    else if (code c =? 43)%N then unsigned_number r                       (* '+' *)
    else unsigned_number s
  | EmptyString => None
  end.

Fixpoint last_char (s : string) : option ascii :=
  match s with
  | EmptyString => None
  | String c EmptyString => Some c
  | String _ r => last_char r
  end.

Fixpoint drop_last (s : string) : string :=
  match s with
  | EmptyString => EmptyString
  | String _ EmptyString => EmptyString
  | String c r => String c (drop_last r)
  end.

Definition is_quote (c : ascii) : bool := (code c =? 34)%N || (code c =? 39)%N.
(* characters allowed inside a quoted literal of the fragment: printable, no quotes, no backslash *)
Definition plain_inner (c : ascii) : bool :=
  ((32 <=? code c) && (code c <=? 126))%N && negb (is_quote c) && negb (code c =? 92)%N.

(* 'xxx' or "xxx" *)
Definition quoted (s : string) : option string :=
  match s with
  | String q r =>
    if is_quote q then
      match last_char r with
      | Some q' => if (code q =? code q')%N && all_chars plain_inner (drop_last r) then Some (drop_last r) else None
      | None => None
      end
    else None
  | EmptyString => None
  end.

(* words that ast.literal_eval refuses (Name / Attribute / BinOp of names / syntax error): returned unchanged *)
Definition word_char (c : ascii) : bool :=
  is_letter c || is_digit c || (code c =? 46)%N || (code c =? 47)%N || (code c =? 45)%N || (code c =? 58)%N.
Definition is_word (s : string) : bool :=
  match s with
  | String c r => (is_letter c || (code c =? 47)%N) && all_chars word_char r
  | EmptyString => false
  end.

(* guess_type on the fragment; None = outside the fragment (not modelled) *)
Definition guess (s : string) : option value :=
  let l := lower s in
  if String.eqb s "" then Some (VStr "")          (* literal_eval('') is a SyntaxError: the empty string itself *)
  else if String.eqb l "none" then Some VNull
  else if String.eqb l "true" then Some (VBool true)
  else if String.eqb l "false" then Some (VBool false)
  else match number s with
  | Some n => Some (num_value n)
  | None =>
    match quoted s with
    | Some inner => Some (VStr inner)
    | None => if is_word s then Some (VStr s) else None
    end
  end.

(* guess_type applied to an arbitrary Python value: non-strings are returned unchanged *)
Definition guess_value (v : value) : option value :=
  match v with VStr s => guess s | _ => Some v end.
