(* Symbolic (Dolev-Yao style) byte strings.  DESIGN.md 3.3.
   Every byte string replicat handles is abstracted to a term.  Constructors are free: two terms
   are equal iff they are built the same way, i.e. no hash/MAC collision, no forgery, and the JSON
   encoding (Pair/Nil/Num) is injective.  That is the cryptographic idealisation (trusted base).
   Definitions only (executable); proofs are in Proofs/CryptoProofs.v. *)
From Coq Require Import List NArith Bool.
Import ListNotations.

Inductive term : Type :=
| Bytes (id : N)                    (* an atomic byte string (file data, a key, a salt, a setting ...) *)
| Garbage (id : N)                  (* adversary-made bytes without any structure *)
| Num (n : N)                       (* a JSON number *)
| Nil                               (* empty JSON list / null *)
| Pair (a b : term)                 (* JSON list cell / object with a fixed key order *)
| Hash (t : term)
| Mac (k t : term)
| Enc (k : term) (nonce : N) (t : term)    (* nonce ++ AEAD ciphertext ++ tag *)
| Kdf (pw salt : term)              (* slow KDF: user key *)
| Derive (k salt ctx : term).       (* fast KDF: sub-key of the shared key *)

Fixpoint term_eqb (x y : term) : bool :=
  match x, y with
  | Bytes a, Bytes b => N.eqb a b
  | Garbage a, Garbage b => N.eqb a b
  | Num a, Num b => N.eqb a b
  | Nil, Nil => true
  | Pair a1 b1, Pair a2 b2 => term_eqb a1 a2 && term_eqb b1 b2
  | Hash a, Hash b => term_eqb a b
  | Mac k1 a, Mac k2 b => term_eqb k1 k2 && term_eqb a b
  | Enc k1 n1 a, Enc k2 n2 b => term_eqb k1 k2 && N.eqb n1 n2 && term_eqb a b
  | Kdf p1 s1, Kdf p2 s2 => term_eqb p1 p2 && term_eqb s1 s2
  | Derive k1 s1 c1, Derive k2 s2 c2 => term_eqb k1 k2 && term_eqb s1 s2 && term_eqb c1 c2
  | _, _ => false
  end.

(* AEAD decryption: succeeds exactly with the key the term was built with *)
Definition dec (k c : term) : option term :=
  match c with
  | Enc k' _ t => if term_eqb k k' then Some t else None
  | _ => None
  end.

(* JSON-ish lists *)
Fixpoint tlist (l : list term) : term :=
  match l with [] => Nil | x :: r => Pair x (tlist r) end.

Fixpoint untlist (t : term) : option (list term) :=
  match t with
  | Nil => Some []
  | Pair a b => match untlist b with Some l => Some (a :: l) | None => None end
  | _ => None
  end.

Definition unhash (t : term) : option term :=
  match t with Hash c => Some c | _ => None end.

(* all nonces of the Enc nodes of a term, outermost first *)
Fixpoint nonces (t : term) : list N :=
  match t with
  | Bytes _ | Garbage _ | Num _ | Nil => []
  | Pair a b => nonces a ++ nonces b
  | Hash a => nonces a
  | Mac k a => nonces k ++ nonces a
  | Enc k n a => n :: nonces k ++ nonces a
  | Kdf p s => nonces p ++ nonces s
  | Derive k s c => nonces k ++ nonces s ++ nonces c
  end.

(* results of commands: a value or an error class *)
Inductive err : Type :=
| Corrupted          (* ReplicatError "... is corrupted" *)
| DecryptFail        (* DecryptionError *)
| Missing            (* the backend has no such object *)
| Malformed.         (* anything else: JSON/KeyError/... *)

Inductive res (A : Type) : Type :=
| Ok (a : A)
| Err (e : err).
Arguments Ok {A} a.
Arguments Err {A} e.

Definition bind {A B} (r : res A) (f : A -> res B) : res B :=
  match r with Ok a => f a | Err e => Err e end.

Fixpoint mapM {A B} (f : A -> res B) (l : list A) : res (list B) :=
  match l with
  | [] => Ok []
  | x :: r => bind (f x) (fun y => bind (mapM f r) (fun ys => Ok (y :: ys)))
  end.

Definition of_option {A} (e : err) (o : option A) : res A :=
  match o with Some a => Ok a | None => Err e end.
