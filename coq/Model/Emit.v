(* C05: everything init / add-key / snapshot / delete / clean send to the backend, write into key
   files or print, as symbolic terms; and the syntactic secrecy predicate.
   Follows repository.py: init/_make_key/_add_key (key file), snapshot/_chunk_producer (chunk objects,
   names), _encrypt_snapshot_body, delete_snapshots/clean (names only).  Definitions only. *)
From Coq Require Import List NArith Bool.
From Replicat Require Import Model.Crypto Model.Objects.
Import ListNotations.

(* ---------------------------------------------------------------- what is secret, what a term exposes *)
Section Secrecy.
Variable secret_atom : N -> bool.       (* which atomic byte strings are secret *)

(* secrets: secret atoms, the digest of a secret atom, keys derived from a secret password / master key *)
Definition sec (t : term) : bool :=
  match t with
  | Bytes i => secret_atom i
  | Hash (Bytes i) => secret_atom i
  | Kdf (Bytes i) _ => secret_atom i
  | Derive (Bytes i) _ _ => secret_atom i
  | _ => false
  end.

(* a key the observer cannot compute *)
Fixpoint hidden (k : term) : bool :=
  sec k || match k with
           | Kdf pw _ => hidden pw
           | Derive k' _ _ => hidden k'
           | _ => false
           end.

(* a secret occurs in t outside every Enc body / Mac message under a hidden key and outside the key
   position of Kdf / Derive with a hidden key.  Hash hides nothing (a digest confirms a guess). *)
Fixpoint leaks (t : term) : bool :=
  sec t ||
  match t with
  | Bytes _ | Garbage _ | Num _ | Nil => false
  | Pair a b => leaks a || leaks b
  | Hash u => leaks u
  | Mac k u => if hidden k then false else leaks k || leaks u
  | Enc k _ u => if hidden k then false else leaks k || leaks u
  | Kdf pw salt => if hidden pw then leaks salt else leaks pw || leaks salt
  | Derive k salt ctx => if hidden k then false else leaks k || leaks salt || leaks ctx
  end.
End Secrecy.

(* ---------------------------------------------------------------- keys *)
Record family : Type := {
  fm_shared : term; fm_salt : term; fm_mac : term; fm_chunker : term;      (* the shared secrets *)
  fm_shared_kdf_cfg : term; fm_mac_cfg : term                             (* algorithm settings stored with them *)
}.
Record user : Type := { u_pw : term; u_salt : term; u_kdf_cfg : term }.

Definition user_key (u : user) : term := Kdf (u_pw u) (u_salt u).
Definition keyring_of (f : family) (u : user) : keyring :=
  {| k_shared := fm_shared f; k_salt := fm_salt f; k_mac := fm_mac f; k_user := user_key u |}.

(* {"shared_key", "shared_kdf", "shared_kdf_params", "mac", "mac_params", "chunker_params"} *)
Definition private_section (f : family) : term :=
  tlist [fm_shared f; fm_shared_kdf_cfg f; fm_salt f; fm_mac_cfg f; fm_mac f; fm_chunker f].
(* {"kdf", "kdf_params", "private"} *)
Definition key_file (f : family) (u : user) (nonce : N) : term :=
  Pair (u_kdf_cfg u) (Pair (u_salt u) (Enc (user_key u) nonce (private_section f))).

(* ---------------------------------------------------------------- emitted items *)
Inductive item : Type :=
| IName (l : loc)                 (* a name sent to the backend (exists / delete / list result) *)
| IObj (l : loc) (t : term)       (* an upload *)
| IKey (t : term)                 (* a key file *)
| IOut (t : term).                (* printed *)

Definition loc_terms (l : loc) : list term :=
  match l with LChunk n t => [n; t] | LSnap n t => [n; t] | LOther _ => [] end.
Definition item_terms (i : item) : list term :=
  match i with
  | IName l => loc_terms l
  | IObj l t => t :: loc_terms l
  | IKey t => [t]
  | IOut t => [t]
  end.

(* one AEAD encryption operation: key, nonce, plaintext *)
Definition encop : Type := (term * N * term)%type.

Inductive cmd : Type :=
| CInit (cfg : term) (f : family) (u : user) (to_file : bool)
| CAddKey (f : family) (u : user) (to_file : bool)        (* shared: the caller's family; independent: a new one *)
| CSnapshot (f : family) (u : user) (chunks : list term) (info : term) (files : list file)
| CDelete (f : family) (u : user) (names : list term) (digests : list term)
| CClean (f : family) (u : user).

Definition key_item (to_file : bool) (t : term) : item := if to_file then IKey t else IOut t.

(* chunk i takes nonce n + i *)
Fixpoint chunk_items (m : mode) (n : N) (chunks : list term) : list item :=
  match chunks with
  | [] => []
  | c :: r => IName (chunk_loc m (Hash c)) :: IObj (chunk_loc m (Hash c)) (chunk_obj m n c) :: chunk_items m (N.succ n) r
  end.
Fixpoint chunk_ops (k : keyring) (n : N) (chunks : list term) : list encop :=
  match chunks with
  | [] => []
  | c :: r => (shared_subkey k (Hash c), n, c) :: chunk_ops k (N.succ n) r
  end.

Definition nlen {A} (l : list A) : N := N.of_nat (length l).

Definition snapshot_obj (m : mode) (n : N) (chunks : list term) (info : term) (files : list file) : term :=
  encrypt_body m (n + nlen chunks) (n + nlen chunks + 1) (tlist (map Hash chunks)) (enc_data info files).

(* items, encryption operations, next free nonce *)
Definition emit_cmd (n : N) (c : cmd) : list item * list encop * N :=
  match c with
  | CInit cfg f u to_file =>
      ([IObj (LOther 0) cfg; IOut cfg; key_item to_file (key_file f u n)], [(user_key u, n, private_section f)], N.succ n)
  | CAddKey f u to_file =>
      ([key_item to_file (key_file f u n)], [(user_key u, n, private_section f)], N.succ n)
  | CSnapshot f u chunks info files =>
      let k := keyring_of f u in
      let m := Some k in
      let obj := snapshot_obj m n chunks info files in
      let n1 := (n + nlen chunks)%N in
      (chunk_items m n chunks ++ [IObj (snapshot_loc m (Hash obj)) obj],
       chunk_ops k n chunks ++ [(k_user k, n1, enc_data info files);
                                (shared_subkey k (Hash (Enc (k_user k) n1 (enc_data info files))), (n1 + 1)%N, tlist (map Hash chunks))],
       (n1 + 2)%N)
  | CDelete f u names digests =>
      let m := Some (keyring_of f u) in
      (map (fun nm => IName (snapshot_loc m nm)) names ++ map (fun d => IName (chunk_loc m d)) digests, [], n)
  | CClean f u => ([], [], n)          (* deletes only names it read from the backend listing *)
  end.

Fixpoint emit (n : N) (p : list cmd) : list item * list encop * N :=
  match p with
  | [] => ([], [], n)
  | c :: r =>
      let '(i1, o1, n1) := emit_cmd n c in
      let '(i2, o2, n2) := emit n1 r in (i1 ++ i2, o1 ++ o2, n2)
  end.

Definition emitted (n : N) (p : list cmd) : list item := fst (fst (emit n p)).
Definition enc_ops (n : N) (p : list cmd) : list encop := snd (fst (emit n p)).
Definition emitted_terms (n : N) (p : list cmd) : list term := flat_map item_terms (emitted n p).

(* all Enc nodes of a term *)
Fixpoint enc_nodes (t : term) : list encop :=
  match t with
  | Bytes _ | Garbage _ | Num _ | Nil => []
  | Pair a b => enc_nodes a ++ enc_nodes b
  | Hash a => enc_nodes a
  | Mac k a => enc_nodes k ++ enc_nodes a
  | Enc k n a => (k, n, a) :: enc_nodes k ++ enc_nodes a
  | Kdf p s => enc_nodes p ++ enc_nodes s
  | Derive k s c => enc_nodes k ++ enc_nodes s ++ enc_nodes c
  end.

(* the same commands in an unencrypted repository (for contrast: everything is exposed) *)
Definition emit_snapshot_plain (chunks : list term) (info : term) (files : list file) : list item :=
  chunk_items None 0 chunks ++
  [IObj (snapshot_loc None (Hash (snapshot_obj None 0 chunks info files))) (snapshot_obj None 0 chunks info files)].
