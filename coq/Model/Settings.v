(* C17 - model of Repository.init's handling of custom settings: _validate_init_settings, flat_to_nested,
   adapters.from_config binding, the adapter constructors' own checks (as a small check language whose
   programs are extracted from replicat/utils/adapters.py), the trial use of the primitives before the
   config is uploaded, and the primitive domains ("usable").  Definitions only. *)
From Coq Require Import String Ascii ZArith List Bool.
From Replicat Require Import Model.PyVal.
Import ListNotations.
Open Scope string_scope.
Open Scope Z_scope.
Open Scope list_scope.

(* ------------------------------------------------------------------ the check language *)
Inductive expr :=
| EParam (p : string)
| EConst (z : Z)
| EAdd (a b : expr)
| ESub (a b : expr)
| EMul (a b : expr)
| EFloorDiv (a b : expr).

Inductive cmpop := OLt | OLe | OGt | OGe.

Inductive cond :=
| CIsInt (p : string)                            (* isinstance(p, int) *)
| CIn (p : string) (consts : list Z)             (* p in (c1, c2, ...) *)
| CCmp (a : expr) (rest : list (cmpop * expr))   (* a op1 b op2 c ...   (chained, short-circuit) *)
| CNot (c : cond)
| COr (a b : cond)
| CAnd (a b : cond).

Inductive kind := KCipher | KKdf | KMac | KHash | KChunker.
Definition kind_eqb (a b : kind) : bool :=
  match a, b with
  | KCipher, KCipher | KKdf, KKdf | KMac, KMac | KHash, KHash | KChunker, KChunker => true
  | _, _ => false
  end.

Record adapter := {
  a_name : string;
  a_kinds : list kind;                       (* abstract base classes *)
  a_params : list (string * option value);   (* keyword parameters of __init__ with defaults *)
  a_consts : list (string * Z);              (* integer class attributes *)
  a_raises : list cond;                      (* the "if <cond>: raise" statements of __init__, in order *)
}.

(* arithmetic: exact on ints and on half-integers combined with ints; None = TypeError *)
Definition num_add (a b : num) : num :=
  match a, b with NI x, NI y => NI (x + y) | _, _ => NH (twice a + twice b) end.
Definition num_sub (a b : num) : num :=
  match a, b with NI x, NI y => NI (x - y) | _, _ => NH (twice a - twice b) end.
Definition num_mul (a b : num) : num :=
  match a, b with NI x, NI y => NI (x * y) | _, _ => NH (twice a * twice b / 2) end.
(* floor division; division by zero raises *)
Definition num_floordiv (a b : num) : option num :=
  if twice b =? 0 then None else
  match a, b with
  | NI x, NI y => Some (NI (x / y))
  | _, _ => Some (NH (2 * (twice a / twice b)))
  end.

Fixpoint eval_expr (env : dict) (consts : list (string * Z)) (e : expr) : option num :=
  let bin f a b := match eval_expr env consts a, eval_expr env consts b with
                   | Some x, Some y => f x y | _, _ => None end in
  match e with
  | EParam p =>                       (* an argument / instance attribute, else a class attribute *)
    match lookup p env with
    | Some v => as_num v
    | None => match find (fun kz => String.eqb p (fst kz)) consts with Some kz => Some (NI (snd kz)) | None => None end
    end
  | EConst z => Some (NI z)
  | EAdd a b => bin (fun x y => Some (num_add x y)) a b
  | ESub a b => bin (fun x y => Some (num_sub x y)) a b
  | EMul a b => bin (fun x y => Some (num_mul x y)) a b
  | EFloorDiv a b => bin num_floordiv a b
  end.

Definition cmp (o : cmpop) (a b : num) : bool :=
  match o with
  | OLt => twice a <? twice b
  | OLe => twice a <=? twice b
  | OGt => twice b <? twice a
  | OGe => twice b <=? twice a
  end.

Fixpoint eval_chain (env : dict) (consts : list (string * Z)) (lhs : num) (rest : list (cmpop * expr)) : option bool :=
  match rest with
  | [] => Some true
  | (o, e) :: r =>
    match eval_expr env consts e with
    | None => None
    | Some rhs => if cmp o lhs rhs then eval_chain env consts rhs r else Some false
    end
  end.

(* None = the evaluation raises (TypeError) *)
Fixpoint eval_cond (env : dict) (consts : list (string * Z)) (c : cond) : option bool :=
  match c with
  | CIsInt p => match lookup p env with Some v => Some (match int_of v with Some _ => true | None => false end) | None => None end
  | CIn p cs =>
    match lookup p env with
    | None => None
    | Some v => match as_num v with
                | Some n => Some (existsb (fun k => twice n =? 2 * k) cs)
                | None => Some false
                end
    end
  | CCmp a rest => match eval_expr env consts a with Some l => eval_chain env consts l rest | None => None end
  | CNot c => option_map negb (eval_cond env consts c)
  | COr a b => match eval_cond env consts a with
               | Some true => Some true
               | Some false => eval_cond env consts b
               | None => None
               end
  | CAnd a b => match eval_cond env consts a with
                | Some false => Some false
                | Some true => eval_cond env consts b
                | None => None
                end
  end.

(* the constructor returns normally iff no raise-condition is true and none of them raises itself *)
Definition construct (a : adapter) (args : dict) : bool :=
  forallb (fun c => match eval_cond args (a_consts a) c with Some false => true | _ => false end) (a_raises a).

(* ------------------------------------------------------------------ from_config *)
Fixpoint find_adapter (table : list adapter) (n : string) : option adapter :=
  match table with
  | [] => None
  | a :: r => if String.eqb n (a_name a) then Some a else find_adapter r n
  end.

Definition param_names (a : adapter) : list string := map fst (a_params a).
Definition mem_str (s : string) (l : list string) : bool := existsb (String.eqb s) l.

(* inspect.signature(adapter).bind(kwargs) + apply_defaults: unknown keyword or missing required -> error *)
Definition bind (a : adapter) (kwargs : dict) : option dict :=
  if forallb (fun kv => mem_str (fst kv) (param_names a)) kwargs then
    fold_right (fun (pd : string * option value) acc =>
      match acc with
      | None => None
      | Some rest =>
        match lookup (fst pd) kwargs, snd pd with
        | Some v, _ => Some ((fst pd, v) :: rest)
        | None, Some d => Some ((fst pd, d) :: rest)
        | None, None => None
        end
      end) (Some []) (a_params a)
  else None.

(* from_config called with the settings and the extra keywords, with settings.setdefault('name', default_name) done by the caller;
   a key present in both is Python's "got multiple values for keyword argument" *)
Definition from_config (table : list adapter) (default_name : string) (settings extra : dict) : option (adapter * dict) :=
  let name := match lookup "name" settings with Some v => v | None => VStr default_name end in
  match name with
  | VStr n =>
    match find_adapter table n with
    | None => None
    | Some a =>
      let kw := remove "name" settings in
      if existsb (fun kv => has (fst kv) kw || String.eqb (fst kv) "name") extra then None
      else match bind a (kw ++ extra) with Some args => Some (a, args) | None => None end
    end
  | _ => None
  end.

(* ------------------------------------------------------------------ _validate_settings *)
Definition is_mapping (v : value) : bool := match v with VDict _ => true | _ => false end.
Definition is_mapping_or_none (v : value) : bool := match v with VDict _ | VNull => true | _ => false end.

Fixpoint schema_type (schema : list (string * (value -> bool))) (k : string) : option (value -> bool) :=
  match schema with
  | [] => None
  | (k', t) :: r => if String.eqb k k' then Some t else schema_type r k
  end.

Definition validate_settings (schema : list (string * (value -> bool))) (obj : dict) : bool :=
  forallb (fun kv => match schema_type schema (fst kv) with Some t => t (snd kv) | None => false end) obj.

(* schema tables: key, and whether None is allowed besides a mapping *)
Definition schema_of (keys : list (string * bool)) : list (string * (value -> bool)) :=
  map (fun kn : string * bool => (fst kn, if snd kn then is_mapping_or_none else is_mapping)) keys.
Definition init_schema_keys : list (string * bool) := [("hashing", false); ("chunking", false); ("encryption", true)].
Definition init_encryption_schema_keys : list (string * bool) := [("cipher", false); ("kdf", false)].
Definition init_schema := schema_of init_schema_keys.
Definition init_encryption_schema := schema_of init_encryption_schema_keys.

Definition validate_init_settings (s : dict) : bool :=
  validate_settings init_schema s &&
  match lookup "encryption" s with
  | Some (VDict e) => validate_settings init_encryption_schema e
  | _ => true
  end.

Definition add_key_schema_keys : list (string * bool) := [("encryption", false)].
Definition add_key_encryption_schema_keys : list (string * bool) := [("kdf", false)].
Definition add_key_schema := schema_of add_key_schema_keys.
Definition add_key_encryption_schema := schema_of add_key_encryption_schema_keys.
(* settings['encryption'] is subscripted: a missing key raises KeyError *)
Definition validate_add_key_settings (s : dict) : bool :=
  validate_settings add_key_schema s &&
  match lookup "encryption" s with
  | Some (VDict e) => validate_settings add_key_encryption_schema e
  | _ => false
  end.

(* ------------------------------------------------------------------ flat_to_nested *)
Fixpoint split_dots_aux (cur : string -> string) (s : string) : list string :=
  match s with
  | EmptyString => [cur EmptyString]
  | String c r =>
    if (code c =? 46)%N then cur EmptyString :: split_dots_aux (fun x => x) r
    else split_dots_aux (fun x => cur (String c x)) r
  end.
Definition split_dots (s : string) : list string := split_dots_aux (fun x => x) s.

(* walk the ancestors with setdefault(x, {}) then assign; a non-mapping on the way is 'Conflicting options' *)
Fixpoint insert_path (path : list string) (v : value) (d : dict) : option dict :=
  match path with
  | [] => None
  | [k] => Some (set k v d)
  | k :: rest =>
    match lookup k d with
    | None => match insert_path rest v [] with Some sub => Some (set k (VDict sub) d) | None => None end
    | Some (VDict sub) => match insert_path rest v sub with Some sub' => Some (set k (VDict sub') d) | None => None end
    | Some _ => None
    end
  end.

Fixpoint insert_sorted (kv : string * value) (l : list (string * value)) : list (string * value) :=
  match l with
  | [] => [kv]
  | h :: t => if String.leb (fst kv) (fst h) then kv :: l else h :: insert_sorted kv t
  end.
Definition sort_items (l : list (string * value)) : list (string * value) := fold_right insert_sorted [] l.

Definition flat_to_nested (flat : list (string * value)) : option dict :=
  fold_left (fun acc kv => match acc with Some root => insert_path (split_dots (fst kv)) (snd kv) root | None => None end)
            (sort_items flat) (Some []).

(* parse_cli_settings: "--flag value" pairs; dashes in the flag become underscores; value through guess_type.
   Result: None when a value lies outside the modelled fragment of guess_type. *)
Fixpoint lstrip_dashes (s : string) : string :=
  match s with String c r => if (code c =? 45)%N then lstrip_dashes r else s | EmptyString => EmptyString end.
Fixpoint dashes_to_underscores (s : string) : string :=
  match s with
  | String c r => String (if (code c =? 45)%N then "_"%char else c) (dashes_to_underscores r)
  | EmptyString => EmptyString
  end.
Definition starts_with_two_dashes (s : string) : bool :=
  match s with String a (String b _) => (code a =? 45)%N && (code b =? 45)%N | _ => false end.

Fixpoint parse_cli_settings_aux (args : list string) (flag : option string) (mapping : dict) (unknown : list string)
  : option (dict * list string) :=
  match args with
  | [] => Some (mapping, match flag with Some f => unknown ++ [f] | None => unknown end)
  | a :: r =>
    if starts_with_two_dashes a then
      parse_cli_settings_aux r (Some a) mapping (match flag with Some f => unknown ++ [f] | None => unknown end)
    else match flag with
         | Some f =>
           match guess a with
           | Some v => parse_cli_settings_aux r None (set (dashes_to_underscores (lstrip_dashes f)) v mapping) unknown
           | None => None
           end
         | None => parse_cli_settings_aux r None mapping (unknown ++ [a])
         end
  end.
Definition parse_cli_settings (args : list string) : option (dict * list string) :=
  parse_cli_settings_aux args None [] [].

(* ------------------------------------------------------------------ primitive domains (assumptions about
   hashlib / cryptography / the native chunker; the last one is C10's [valid]) *)
Definition int_arg (p : string) (args : dict) : option Z :=
  match lookup p args with Some v => int_of v | None => None end.
Definition memz (z : Z) (l : list Z) : bool := existsb (Z.eqb z) l.

Definition hash_domain (name : string) (args : dict) : bool :=
  if String.eqb name "blake2b" then
    match int_arg "length" args with Some z => (1 <=? z) && (z <=? 64) | None => false end
  else if String.eqb name "sha2" || String.eqb name "sha3" then
    match int_arg "bits" args with Some z => memz z [224; 256; 384; 512] | None => false end
  else false.

Definition chunker_domain (name : string) (args : dict) : bool :=
  String.eqb name "gclmulchunker" &&
  match int_arg "min_length" args, int_arg "max_length" args with
  | Some mn, Some mx => (1 <=? mn) && (4 * ((mn + 3) / 4) <=? mx) && (mx <=? 9223372036854775807)   (* 2 * mx fits size_t *)
  | _, _ => false
  end.

(* AEAD key and nonce sizes in bytes *)
Definition aead_domain (name : string) (key_bytes nonce_bytes : Z) : bool :=
  if String.eqb name "aes_gcm" then memz key_bytes [16; 24; 32] && (8 <=? nonce_bytes) && (nonce_bytes <=? 128)
  else if String.eqb name "chacha20_poly1305" then (key_bytes =? 32) && (nonce_bytes =? 12)
  else false.

Fixpoint is_pow2_pos (p : positive) : bool :=
  match p with xH => true | xO q => is_pow2_pos q | xI _ => false end.
Definition is_pow2 (z : Z) : bool := match z with Zpos p => is_pow2_pos p | _ => false end.

(* KDF used on a password of pwlen bytes to produce a key of key_bytes bytes *)
Definition kdf_domain (name : string) (args : dict) (key_bytes pwlen : Z) : bool :=
  if String.eqb name "scrypt" then
    match int_arg "length" args, int_arg "n" args, int_arg "r" args, int_arg "p" args with
    | Some l, Some n, Some r, Some p => (l =? key_bytes) && (1 <? n) && is_pow2 n && (1 <=? r) && (1 <=? p)
    | _, _, _, _ => false
    end
  else if String.eqb name "blake2b" then
    match int_arg "length" args with
    | Some l => (l =? key_bytes) && (1 <=? l) && (l <=? 64) && (pwlen <=? 64)     (* the password is blake2b's key *)
    | None => false
    end
  else false.

(* ------------------------------------------------------------------ Repository.init as a sequence of steps *)
Record config := {
  c_hash : adapter * dict;
  c_chunk : adapter * dict;
  c_cipher : option (adapter * dict);
}.

Record keyinfo := { k_kdf : adapter * dict; k_key_bytes : Z; k_nonce_bytes : Z }.

Inductive step := SValidate | SMakeConfig | SInstantiateConfig | SMakeKey | SInstantiateKey | SEncryptPrivate | SUploadConfig.

Record state := {
  st_settings : option dict;      (* None = no settings given *)
  st_pwlen : option Z;            (* length of the password in bytes, None = no password *)
  st_cfg : option config;
  st_instantiated : bool;
  st_sizes : option (num * num);  (* key_bytes, nonce_bytes of the cipher object *)
  st_kdf : option (adapter * dict);
  st_derived : bool;
  st_encrypted_private : bool;
  st_puts : list string;
}.

Definition init_state (pwlen : option Z) (settings : option dict) : state :=
  {| st_settings := settings; st_pwlen := pwlen; st_cfg := None; st_instantiated := false; st_sizes := None;
     st_kdf := None; st_derived := false; st_encrypted_private := false; st_puts := [] |}.

Definition settings_dict (s : state) : dict := match st_settings s with Some d => d | None => [] end.
Definition sub_dict (k : string) (d : dict) : dict := match lookup k d with Some (VDict x) => x | _ => [] end.
Definition has_kind (k : kind) (a : adapter) : bool := existsb (kind_eqb k) (a_kinds a).

(* Repository.DEFAULT_*_NAME *)
Definition DEFAULT_CHUNKER_NAME := "gclmulchunker".
Definition DEFAULT_CIPHER_NAME := "aes_gcm".
Definition DEFAULT_HASHER_NAME := "blake2b".
Definition DEFAULT_MAC_NAME := "blake2b".
Definition DEFAULT_USER_KDF_NAME := "scrypt".
Definition DEFAULT_SHARED_KDF_NAME := "blake2b".
(* _instantiate_config: the adapter class configured for a role must be a subclass of the role's base class *)
Definition kind_checks : list (string * kind) := [("chunker", KChunker); ("hasher", KHash); ("cipher", KCipher)].

Section WithTable.
Variable table : list adapter.
(* AEADCipherAdapterMixin.__init__: key_bits // 8, nonce_bits // 8 *)
Variable key_bytes_expr nonce_bytes_expr : expr.

Definition make_config (settings : dict) : option config :=
  match from_config table DEFAULT_HASHER_NAME (sub_dict "hashing" settings) [],
        from_config table DEFAULT_CHUNKER_NAME (sub_dict "chunking" settings) [] with
  | Some h, Some c =>
    match lookup "encryption" settings with
    | Some VNull => Some {| c_hash := h; c_chunk := c; c_cipher := None |}
    | _ =>
      match from_config table DEFAULT_CIPHER_NAME (sub_dict "cipher" (sub_dict "encryption" settings)) [] with
      | Some ci => Some {| c_hash := h; c_chunk := c; c_cipher := Some ci |}
      | None => None
      end
    end
  | _, _ => None
  end.

(* attributes of the cipher object: constructor arguments, then class constants *)
Definition cipher_sizes (ci : adapter * dict) : option (num * num) :=
  match eval_expr (snd ci) (a_consts (fst ci)) key_bytes_expr, eval_expr (snd ci) (a_consts (fst ci)) nonce_bytes_expr with
  | Some k, Some n => Some (k, n)
  | _, _ => None
  end.

Definition instantiate_config (cfg : config) : option (option (num * num)) :=
  if has_kind KChunker (fst (c_chunk cfg)) && has_kind KHash (fst (c_hash cfg))
     && construct (fst (c_chunk cfg)) (snd (c_chunk cfg)) && construct (fst (c_hash cfg)) (snd (c_hash cfg)) then
    match c_cipher cfg with
    | None => Some None
    | Some ci =>
      if has_kind KCipher (fst ci) && construct (fst ci) (snd ci) then
        match cipher_sizes ci with Some sz => Some (Some sz) | None => None end
      else None
    end
  else None.

(* os.urandom(n): n must be a non-negative int *)
Definition urandom_ok (n : num) : bool := match n with NI z => 0 <=? z | NH _ => false end.

Definition do_step (x : step) (s : state) : option state :=
  match x with
  | SValidate =>
    match st_settings s with
    | Some ((_ :: _) as d) => if validate_init_settings d then Some s else None
    | _ => Some s                                   (* "if settings:" - None and {} are not validated *)
    end
  | SMakeConfig =>
    match make_config (settings_dict s) with
    | Some cfg => Some {| st_settings := st_settings s; st_pwlen := st_pwlen s; st_cfg := Some cfg;
                          st_instantiated := false; st_sizes := None; st_kdf := None; st_derived := false;
                          st_encrypted_private := false; st_puts := st_puts s |}
    | None => None
    end
  | SInstantiateConfig =>
    match st_cfg s with
    | Some cfg =>
      match instantiate_config cfg with
      | Some sz => Some {| st_settings := st_settings s; st_pwlen := st_pwlen s; st_cfg := st_cfg s;
                           st_instantiated := true; st_sizes := sz; st_kdf := None; st_derived := false;
                           st_encrypted_private := false; st_puts := st_puts s |}
      | None => None
      end
    | None => None
    end
  | SMakeKey =>
    if negb (st_instantiated s) then None else
    match st_sizes s with
    | None => Some s                                 (* not encrypted: no key *)
    | Some (kb, nb) =>
      match st_pwlen s with
      | None => None                                 (* a password is needed *)
      | Some _ =>
        let enc := sub_dict "encryption" (settings_dict s) in
        match from_config table DEFAULT_USER_KDF_NAME (sub_dict "kdf" enc) [("length", num_value kb)],
              from_config table DEFAULT_SHARED_KDF_NAME [] [("length", num_value kb)],
              from_config table DEFAULT_MAC_NAME [] [] with
        | Some kdf, Some shared, Some mac =>
          if construct (fst kdf) (snd kdf) && construct (fst shared) (snd shared) && construct (fst mac) (snd mac)
             && has_kind KKdf (fst shared) && has_kind KMac (fst mac) && urandom_ok kb then
            Some {| st_settings := st_settings s; st_pwlen := st_pwlen s; st_cfg := st_cfg s;
                    st_instantiated := true; st_sizes := st_sizes s; st_kdf := Some kdf; st_derived := false;
                    st_encrypted_private := false; st_puts := st_puts s |}
          else None
        | _, _, _ => None
        end
      end
    end
  | SInstantiateKey =>
    if negb (st_instantiated s) then None else
    match st_sizes s, st_kdf s, st_pwlen s with
    | None, _, _ => Some s
    | Some (NI kb, _), Some kdf, Some pwlen =>
      if has_kind KKdf (fst kdf) && kdf_domain (a_name (fst kdf)) (snd kdf) kb pwlen then
        Some {| st_settings := st_settings s; st_pwlen := st_pwlen s; st_cfg := st_cfg s;
                st_instantiated := true; st_sizes := st_sizes s; st_kdf := st_kdf s; st_derived := true;
                st_encrypted_private := false; st_puts := st_puts s |}
      else None
    | _, _, _ => None
    end
  | SEncryptPrivate =>
    if negb (st_instantiated s) then None else
    match st_sizes s, st_cfg s with
    | None, _ => Some s
    | Some (NI kb, NI nb), Some cfg =>
      match c_cipher cfg with
      | Some ci =>
        if st_derived s && aead_domain (a_name (fst ci)) kb nb then
          Some {| st_settings := st_settings s; st_pwlen := st_pwlen s; st_cfg := st_cfg s;
                  st_instantiated := true; st_sizes := st_sizes s; st_kdf := st_kdf s; st_derived := true;
                  st_encrypted_private := true; st_puts := st_puts s |}
        else None
      | None => None
      end
    | _, _ => None
    end
  | SUploadConfig =>
    Some {| st_settings := st_settings s; st_pwlen := st_pwlen s; st_cfg := st_cfg s;
            st_instantiated := st_instantiated s; st_sizes := st_sizes s; st_kdf := st_kdf s; st_derived := st_derived s;
            st_encrypted_private := st_encrypted_private s; st_puts := st_puts s ++ ["config"] |}
  end.

(* runs the steps; returns the backend writes performed and the final state, None after a failed step *)
Fixpoint run (steps : list step) (s : state) : list string * option state :=
  match steps with
  | [] => (st_puts s, Some s)
  | x :: r => match do_step x s with Some s' => run r s' | None => (st_puts s, None) end
  end.

Definition init_steps : list step :=
  [SValidate; SMakeConfig; SInstantiateConfig; SMakeKey; SInstantiateKey; SEncryptPrivate; SUploadConfig].

(* what an accepted init leaves behind: the stored config and, when encrypted, the key's KDF and sizes *)
Record accepted := { acc_config : config; acc_key : option keyinfo; acc_pwlen : option Z }.

Definition result_of (s : state) : option accepted :=
  match st_cfg s with
  | None => None
  | Some cfg =>
    if negb (st_instantiated s) then None else
    match st_sizes s, st_kdf s with
    | None, _ => Some {| acc_config := cfg; acc_key := None; acc_pwlen := st_pwlen s |}
    | Some (NI kb, NI nb), Some kdf =>
      if st_derived s && st_encrypted_private s then
        Some {| acc_config := cfg; acc_key := Some {| k_kdf := kdf; k_key_bytes := kb; k_nonce_bytes := nb |}; acc_pwlen := st_pwlen s |}
      else None
    | _, _ => None
    end
  end.

Definition init (pwlen : option Z) (settings : option dict) : list string * option accepted :=
  match run init_steps (init_state pwlen settings) with
  | (puts, Some s) => (puts, result_of s)
  | (puts, None) => (puts, None)
  end.

Definition accept (pwlen : option Z) (settings : option dict) : option accepted := snd (init pwlen settings).

(* flat command-line form: "--hashing.name sha2 --hashing.bits 256 ..." *)
Definition accept_cli (pwlen : option Z) (args : list string) : option accepted :=
  match parse_cli_settings args with
  | Some (flat, []) => match flat_to_nested flat with Some s => accept pwlen (Some s) | None => None end
  | _ => None
  end.

(* add-key: settings validation and KDF binding for the new key, given the repository's cipher sizes *)
Definition add_key_accept (pwlen : option Z) (key_bytes : Z) (settings : option dict) : option (adapter * dict) :=
  let ok := match settings with Some ((_ :: _) as d) => validate_add_key_settings d | _ => true end in
  if negb ok then None else
  match pwlen with
  | None => None
  | Some pl =>
    let d := match settings with Some d => d | None => [] end in
    match from_config table DEFAULT_USER_KDF_NAME (sub_dict "kdf" (sub_dict "encryption" d)) [("length", VInt key_bytes)] with
    | Some kdf =>
      if construct (fst kdf) (snd kdf) && has_kind KKdf (fst kdf) && kdf_domain (a_name (fst kdf)) (snd kdf) key_bytes pl
      then Some kdf else None
    | None => None
    end
  end.

End WithTable.

(* ------------------------------------------------------------------ usable *)
Definition usable (r : accepted) : bool :=
  let cfg := acc_config r in
  has_kind KHash (fst (c_hash cfg)) && hash_domain (a_name (fst (c_hash cfg))) (snd (c_hash cfg)) &&
  has_kind KChunker (fst (c_chunk cfg)) && chunker_domain (a_name (fst (c_chunk cfg))) (snd (c_chunk cfg)) &&
  match c_cipher cfg, acc_key r, acc_pwlen r with
  | None, None, _ => true
  | Some ci, Some k, Some pwlen =>
    has_kind KCipher (fst ci) && aead_domain (a_name (fst ci)) (k_key_bytes k) (k_nonce_bytes k) &&
    has_kind KKdf (fst (k_kdf k)) && kdf_domain (a_name (fst (k_kdf k))) (snd (k_kdf k)) (k_key_bytes k) pwlen
  | _, _, _ => false
  end.

(* ------------------------------------------------------------------ the adapter table the proofs are about
   (Gen.C17Adapters.adapters, extracted from replicat/utils/adapters.py, must be equal to it) *)
Definition aes_gcm_spec : adapter :=
  {| a_name := "aes_gcm"; a_kinds := [KCipher];
     a_params := [("key_bits", Some (VInt 256)); ("nonce_bits", Some (VInt 96))]; a_consts := [];
     a_raises := [CNot (CIn "key_bits" [128; 192; 256])] |}.
Definition chacha20_poly1305_spec : adapter :=
  {| a_name := "chacha20_poly1305"; a_kinds := [KCipher];
     a_params := []; a_consts := [("key_bits", 256); ("nonce_bits", 96)]; a_raises := [] |}.
Definition scrypt_spec : adapter :=
  {| a_name := "scrypt"; a_kinds := [KKdf];
     a_params := [("length", None); ("n", Some (VInt 1048576)); ("r", Some (VInt 8)); ("p", Some (VInt 1))];
     a_consts := []; a_raises := [] |}.
Definition blake2b_spec : adapter :=
  {| a_name := "blake2b"; a_kinds := [KKdf; KMac; KHash];
     a_params := [("length", Some (VInt 64))]; a_consts := [];
     a_raises := [COr (CNot (CIsInt "length")) (CNot (CCmp (EConst 1) [(OLe, EParam "length"); (OLe, EConst 64)]))] |}.
(* getattr(hashlib, f'sha{bits}') : only the decimal spelling of an int names a hashlib constructor *)
Definition sha2_spec : adapter :=
  {| a_name := "sha2"; a_kinds := [KHash];
     a_params := [("bits", Some (VInt 512))]; a_consts := [];
     a_raises := [CNot (CIn "bits" [224; 256; 384; 512]); CNot (CIsInt "bits")] |}.
Definition sha3_spec : adapter :=
  {| a_name := "sha3"; a_kinds := [KHash];
     a_params := [("bits", Some (VInt 512))]; a_consts := [];
     a_raises := [CNot (CIn "bits" [224; 256; 384; 512]); CNot (CIsInt "bits")] |}.
Definition gclmulchunker_spec : adapter :=
  {| a_name := "gclmulchunker"; a_kinds := [KChunker];
     a_params := [("min_length", Some (VInt 128000)); ("max_length", Some (VInt 5120000))];
     a_consts := [("MIN_LENGTH", 128000); ("MAX_LENGTH", 5120000); ("alignment", 4)];
     a_raises := [COr (CNot (CIsInt "min_length")) (CNot (CIsInt "max_length"));
                  CCmp (EParam "min_length") [(OLt, EConst 1)];
                  CCmp (EParam "min_length") [(OGt, EParam "max_length")];
                  CCmp (EParam "max_length") [(OGt, EConst 9223372036854775807)];     (* sys.maxsize: size_t arithmetic on 2 * max *)
                  CCmp (EMul (EFloorDiv (ESub (EAdd (EParam "min_length") (EParam "alignment")) (EConst 1)) (EParam "alignment"))
                             (EParam "alignment")) [(OGt, EParam "max_length")]] |}.

Definition adapters : list adapter :=
  [aes_gcm_spec; chacha20_poly1305_spec; scrypt_spec; blake2b_spec; sha2_spec; sha3_spec; gclmulchunker_spec].

Definition key_bytes_expr : expr := EFloorDiv (EParam "key_bits") (EConst 8).
Definition nonce_bytes_expr : expr := EFloorDiv (EParam "nonce_bits") (EConst 8).

Definition accept_std := accept adapters key_bytes_expr nonce_bytes_expr.
Definition accept_cli_std := accept_cli adapters key_bytes_expr nonce_bytes_expr.
Definition init_std := init adapters key_bytes_expr nonce_bytes_expr.
Definition add_key_accept_std := add_key_accept adapters.
