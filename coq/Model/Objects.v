(* Repository objects as symbolic terms: names, chunk objects, snapshot objects (writing side),
   and the reading side: loading a snapshot, fetching a chunk, restore.   DESIGN.md 3.4 layer 2.
   Follows replicat/repository.py: _chunk_digest_to_location_parts, _snapshot_digest_to_location_parts,
   _encrypt_snapshot_body, _decrypt_snapshot_body, _load_snapshots/_download_snapshot,
   _download_snapshot_threadsafe (backend branch), restore/_download_chunk.
   Definitions only. *)
From Coq Require Import List NArith Bool.
From Replicat Require Import Model.Crypto.
Import ListNotations.

(* ---------------------------------------------------------------- keys and names *)
Record keyring : Type := {
  k_shared : term;     (* SharedKey *)
  k_salt : term;       (* SharedKdfParams *)
  k_mac : term;        (* SharedMacKey *)
  k_user : term        (* UserKey = Kdf password salt *)
}.
Definition mode : Type := option keyring.      (* None = unencrypted repository *)

Definition mac_or_id (m : mode) (t : term) : term :=
  match m with Some k => Mac (k_mac k) t | None => t end.

(* (name, tag) *)
Definition chunk_name_parts (m : mode) (d : term) : term * term :=
  (mac_or_id m d, mac_or_id m (mac_or_id m d)).
Definition snapshot_name_parts (m : mode) (d : term) : term * term :=
  (d, mac_or_id m d).

Definition shared_subkey (k : keyring) (ctx : term) : term := Derive (k_shared k) (k_salt k) ctx.

Inductive loc : Type :=
| LChunk (name tag : term)
| LSnap (name tag : term)
| LOther (id : N).

Definition loc_eqb (x y : loc) : bool :=
  match x, y with
  | LChunk n1 t1, LChunk n2 t2 => term_eqb n1 n2 && term_eqb t1 t2
  | LSnap n1 t1, LSnap n2 t2 => term_eqb n1 n2 && term_eqb t1 t2
  | LOther a, LOther b => N.eqb a b
  | _, _ => false
  end.

Definition chunk_loc (m : mode) (d : term) : loc :=
  let '(n, t) := chunk_name_parts m d in LChunk n t.
Definition snapshot_loc (m : mode) (d : term) : loc :=
  let '(n, t) := snapshot_name_parts m d in LSnap n t.

(* ---------------------------------------------------------------- writing side *)
Definition chunk_obj (m : mode) (nonce : N) (c : term) : term :=
  match m with
  | Some k => Enc (shared_subkey k (Hash c)) nonce c
  | None => c
  end.

(* {'chunks': ..., 'data': ...}; n1 is drawn first (data), n2 second (chunks) *)
Definition encrypt_body (m : mode) (n1 n2 : N) (table data : term) : term :=
  match m with
  | Some k =>
      let ed := Enc (k_user k) n1 data in
      Pair (Enc (shared_subkey k (Hash ed)) n2 table) ed
  | None => Pair table data
  end.

(* file entries of the snapshot's private data *)
Definition ref : Type := (N * N * N)%type.            (* index into the table, range start, range end; counter order *)
Record file : Type := { f_path : term; f_refs : list ref; f_digest : term; f_meta : term }.

Definition enc_ref (r : ref) : term := let '(i, s, e) := r in Pair (Num i) (Pair (Num s) (Num e)).
Definition enc_file (f : file) : term :=
  Pair (f_path f) (Pair (tlist (map enc_ref (f_refs f))) (Pair (f_digest f) (f_meta f))).
(* info = timestamp and note *)
Definition enc_data (info : term) (files : list file) : term := Pair info (tlist (map enc_file files)).

Fixpoint omapM {A B} (f : A -> option B) (l : list A) : option (list B) :=
  match l with
  | [] => Some []
  | x :: r => match f x with
              | Some y => match omapM f r with Some ys => Some (y :: ys) | None => None end
              | None => None
              end
  end.

Definition dec_ref (t : term) : option ref :=
  match t with Pair (Num i) (Pair (Num s) (Num e)) => Some (i, s, e) | _ => None end.
Definition dec_file (t : term) : option file :=
  match t with
  | Pair p (Pair rs (Pair d mt)) =>
      match untlist rs with
      | Some l => match omapM dec_ref l with
                  | Some refs => Some {| f_path := p; f_refs := refs; f_digest := d; f_meta := mt |}
                  | None => None
                  end
      | None => None
      end
  | _ => None
  end.
Definition dec_data (t : term) : option (term * list file) :=
  match t with
  | Pair info fs => match untlist fs with
                    | Some l => match omapM dec_file l with Some files => Some (info, files) | None => None end
                    | None => None
                    end
  | _ => None
  end.

(* ---------------------------------------------------------------- reading side *)
(* structural facts about the source the integrity argument rests on (Gen/IntegrityFacts.v) *)
Record facts : Type := {
  f_rehash_chunk : bool;        (* _download_chunk compares hash(plaintext) with the referenced digest *)
  f_verify_snapshot : bool;     (* downloaded snapshot bytes are hashed and compared with the name *)
  f_check_tag : bool            (* encrypted: mac(name) must equal the tag, else the object is skipped *)
}.
Definition intended : facts := {| f_rehash_chunk := true; f_verify_snapshot := true; f_check_tag := true |}.

Definition store : Type := list (loc * term).
Fixpoint lookup (st : store) (l : loc) : option term :=
  match st with
  | [] => None
  | (l', t) :: r => if loc_eqb l l' then Some t else lookup r l
  end.

(* body after decryption: chunk table, and the private data unless it belongs to another user *)
Definition body : Type := (list term * option (term * list file))%type.

(* _decrypt_snapshot_body + shape of the JSON *)
Definition decode_body (m : mode) (contents : term) : res body :=
  match contents with
  | Pair ec ed =>
      match m with
      | None =>
          bind (of_option Malformed (untlist ec)) (fun table =>
          bind (of_option Malformed (dec_data ed)) (fun d => Ok (table, Some d)))
      | Some k =>
          bind (of_option DecryptFail (dec (shared_subkey k (Hash ed)) ec)) (fun tt =>
          bind (of_option Malformed (untlist tt)) (fun table =>
          match dec (k_user k) ed with
          | None => Ok (table, None)
          | Some dt => bind (of_option Malformed (dec_data dt)) (fun d => Ok (table, Some d))
          end))
      end
  | _ => Err Malformed
  end.

(* _download_snapshot for one listed location: None = skipped *)
Definition load_one (fc : facts) (m : mode) (st : store) (name tag : term) : res (option body) :=
  if (match m with Some k => f_check_tag fc && negb (term_eqb (Mac (k_mac k) name) tag) | None => false end)
  then Ok None
  else
    bind (of_option Missing (lookup st (LSnap name tag))) (fun c =>
    if f_verify_snapshot fc && negb (term_eqb (Hash c) name) then Err Corrupted
    else bind (decode_body m c) (fun b => Ok (Some b))).

(* _download_chunk *)
Definition fetch_chunk (fc : facts) (m : mode) (st : store) (d : term) : res term :=
  bind (of_option Missing (lookup st (chunk_loc m d))) (fun o =>
  bind (match m with
        | Some k => of_option DecryptFail (dec (shared_subkey k d) o)
        | None => Ok o
        end) (fun c =>
  if f_rehash_chunk fc && negb (term_eqb (Hash c) d) then Err Corrupted else Ok c)).

(* what is written into a file: the sequence of (chunk plaintext, range) in counter order *)
Definition parts : Type := list (term * N * N).

Definition restore_file (fc : facts) (m : mode) (st : store) (table : list term) (f : file) : res (term * parts) :=
  bind (mapM (fun r : ref => let '(i, s, e) := r in
              bind (of_option Malformed (nth_error table (N.to_nat i))) (fun d =>
              bind (fetch_chunk fc m st d) (fun c => Ok (c, s, e)))) (f_refs f))
       (fun ps => Ok (f_path f, ps)).

Definition restore_body (fc : facts) (m : mode) (st : store) (b : body) : res (list (term * parts)) :=
  match b with
  | (_, None) => Ok []                                  (* another user's snapshot: not restored *)
  | (table, Some (_, files)) => mapM (restore_file fc m st table) files
  end.

Definition snapshot_locs (st : store) : list (term * term) :=
  flat_map (fun x => match fst x with LSnap n t => [(n, t)] | _ => [] end) st.

Fixpoint somes {A} (l : list (option A)) : list A :=
  match l with [] => [] | Some a :: r => a :: somes r | None :: r => somes r end.

(* restore --snapshot-regex <full name>: only the listed snapshots with that name are loaded.
   The listing is taken first; the store the downloads see may differ from it (objects changed or removed
   by somebody else after the listing) *)
Definition restore_listed (fc : facts) (m : mode) (listing : list (term * term)) (st : store) (target : term) : res (list (term * parts)) :=
  let cands := filter (fun nt => term_eqb (fst nt) target) listing in
  bind (mapM (fun nt => load_one fc m st (fst nt) (snd nt)) cands) (fun bodies =>
  bind (mapM (restore_body fc m st) (somes bodies)) (fun outs => Ok (concat outs))).

Definition restore (fc : facts) (m : mode) (st : store) (target : term) : res (list (term * parts)) :=
  restore_listed fc m (snapshot_locs st) st target.

(* what a snapshot NAME denotes, independently of any store: the files and parts recorded in the
   unique contents that hash to it *)
Definition recorded_file (table : list term) (f : file) : option (term * parts) :=
  match omapM (fun r : ref => let '(i, s, e) := r in
               match nth_error table (N.to_nat i) with
               | Some d => match unhash d with Some c => Some (c, s, e) | None => None end
               | None => None
               end) (f_refs f) with
  | Some ps => Some (f_path f, ps)
  | None => None
  end.

Definition recorded_body (b : body) : option (list (term * parts)) :=
  match b with
  | (_, None) => Some []
  | (table, Some (_, files)) => omapM (recorded_file table) files
  end.

Definition authentic (m : mode) (target : term) : option (list (term * parts)) :=
  match target with
  | Hash c => match decode_body m c with Ok b => recorded_body b | Err _ => None end
  | _ => None
  end.

(* ---------------------------------------------------------------- corruption of a store (harness) *)
(* replace / insert (Some) or delete (None) the object at a location *)
Fixpoint remove (st : store) (l : loc) : store :=
  match st with
  | [] => []
  | (l', t) :: r => if loc_eqb l l' then remove r l else (l', t) :: remove r l
  end.
Definition apply_mod (st : store) (md : loc * option term) : store :=
  match snd md with
  | Some t => (fst md, t) :: remove st (fst md)
  | None => remove st (fst md)
  end.
Definition apply_mods (st : store) (mods : list (loc * option term)) : store := fold_left apply_mod mods st.

(* outcome class compared with the implementation *)
Inductive outcome : Type := OOk (files : list (term * parts)) | OErr (e : err).
Definition outcome_of (r : res (list (term * parts))) : outcome :=
  match r with Ok a => OOk a | Err e => OErr e end.

(* compact printable summary of a restore result (harness): class 0 = Ok, 1..4 = error classes;
   files as (path atom, [(chunk atom, start, end)]) *)
Definition atom_id (t : term) : N := match t with Bytes n => n | _ => 0%N end.
Definition err_code (e : err) : N :=
  match e with Corrupted => 1 | DecryptFail => 2 | Missing => 3 | Malformed => 4 end%N.
Definition summary (r : res (list (term * parts))) : N * list (N * list (N * N * N)) :=
  match r with
  | Ok fs => (0%N, map (fun f => (atom_id (fst f), map (fun p => (atom_id (fst (fst p)), snd (fst p), snd p)) (snd f))) fs)
  | Err e => (err_code e, [])
  end.
