(* Restore target as a map from paths to contents: each snapshot file is restored at its own path
   (Path(target, *Path(file_path).parts[1:]) is injective in file_path), on top of whatever the
   path held before; every other path is left alone. *)
From Coq Require Import List Arith Bool.
From Replicat Require Import Model.Stream.
Import ListNotations.

Section FsTree.
Context {B : Type}.
Variable zero : B.
Definition fs := nat -> option (list B).
Definition upd (f : fs) (p : nat) (c : list B) : fs := fun q => if Nat.eqb q p then Some c else f q.
Definition content (f : fs) (p : nat) : list B := match f p with Some c => c | None => [] end.

(* one item = (path, manifest entry, part writes in the order the threads ran them) *)
Definition item := (nat * list ref * list (nat * list B))%type.
Definition restore_item (chunks : list (list B)) (f : fs) (it : item) : fs :=
  let '(p, m, order) := it in upd f p (restore_file zero chunks m order (content f p)).
Definition restore_all (chunks : list (list B)) (items : list item) (f : fs) : fs :=
  fold_left (restore_item chunks) items f.
End FsTree.
