(* C13 specification: the plain name -> bytes map every backend adapter must behave like,
   plus the string / association-list functions shared by the service and file-system models.
   Definitions only (executable); proofs are in Proofs/StoreProofs.v. *)
From Coq Require Import List NArith Bool.
Import ListNotations.
Local Open Scope N_scope.

Definition bytes := list N.
Definition str := list N.           (* code points; order by code point = UTF-8 binary order *)

Fixpoint str_eqb (a b : str) : bool :=
  match a, b with
  | [], [] => true
  | x :: a', y :: b' => (x =? y) && str_eqb a' b'
  | _, _ => false
  end.

(* Python s.startswith(p) *)
Fixpoint starts_with (s p : str) : bool :=
  match p, s with
  | [], _ => true
  | y :: p', x :: s' => (x =? y) && starts_with s' p'
  | _ :: _, [] => false
  end.

Definition ends_with (s suf : str) : bool := starts_with (rev s) (rev suf).

Fixpoint str_cmp (a b : str) : comparison :=
  match a, b with
  | [], [] => Eq
  | [], _ :: _ => Lt
  | _ :: _, [] => Gt
  | x :: a', y :: b' => match x ?= y with Eq => str_cmp a' b' | c => c end
  end.

Definition last_opt {A} (l : list A) : option A :=
  match l with [] => None | x :: t => Some (last t x) end.

Section Assoc.
  Context {K V : Type}.
  Variable keq : K -> K -> bool.
  Fixpoint alookup (k : K) (l : list (K * V)) : option V :=
    match l with
    | [] => None
    | (k', v) :: t => if keq k k' then Some v else alookup k t
    end.
  Fixpoint aremove (k : K) (l : list (K * V)) : list (K * V) :=
    match l with
    | [] => []
    | (k', v) :: t => if keq k k' then aremove k t else (k', v) :: aremove k t
    end.
  Definition aput (k : K) (v : V) (l : list (K * V)) : list (K * V) := (k, v) :: aremove k l.
End Assoc.

(* association lists kept sorted by a comparison function: the service models keep their keys sorted *)
Section Sorted.
  Context {K V : Type}.
  Variable cmp : K -> K -> comparison.
  Definition ceq (a b : K) : bool := match cmp a b with Eq => true | _ => false end.
  Definition clt (a b : K) : bool := match cmp a b with Lt => true | _ => false end.
  Definition cle (a b : K) : bool := match cmp a b with Gt => false | _ => true end.
  Fixpoint sinsert (k : K) (v : V) (l : list (K * V)) : list (K * V) :=
    match l with
    | [] => [(k, v)]
    | (k', v') :: t =>
        match cmp k k' with
        | Lt => (k, v) :: l
        | Eq => (k, v) :: t
        | Gt => (k', v') :: sinsert k v t
        end
    end.
End Sorted.

(* the seven adapter operations and what they return *)
Inductive op (K P : Type) : Type :=
| Upload (k : K) (v : bytes)
| UploadStream (k : K) (v : bytes)
| Delete (k : K)
| Exists (k : K)
| Download (k : K)
| DownloadStream (k : K)
| ListFiles (p : P).
Arguments Upload {K P}. Arguments UploadStream {K P}. Arguments Delete {K P}. Arguments Exists {K P}.
Arguments Download {K P}. Arguments DownloadStream {K P}. Arguments ListFiles {K P}.

Inductive obs (K : Type) : Type :=
| ODone                      (* upload / delete returned *)
| OBool (b : bool)           (* exists *)
| OData (d : bytes)          (* download: the bytes / the final contents of the stream *)
| OMissing                   (* download of a name that is not there: an error *)
| ONames (l : list K)        (* list_files *)
| OFail.                     (* the adapter failed (never for legal histories: theorem) *)
Arguments ODone {K}. Arguments OBool {K}. Arguments OData {K}. Arguments OMissing {K}.
Arguments ONames {K}. Arguments OFail {K}.

Section Spec.
  Context {K P : Type}.
  Variable keq : K -> K -> bool.
  Variable matches : P -> K -> bool.
  Definition store := list (K * bytes).
  Definition spec_step (o : op K P) (s : store) : store * obs K :=
    match o with
    | Upload k v | UploadStream k v => (aput keq k v s, ODone)
    | Delete k => (aremove keq k s, ODone)
    | Exists k => (s, OBool (match alookup keq k s with Some _ => true | None => false end))
    | Download k | DownloadStream k => (s, match alookup keq k s with Some d => OData d | None => OMissing end)
    | ListFiles p => (s, ONames (filter (matches p) (map fst s)))
    end.
End Spec.

(* running an operation history on any machine *)
Section Run.
  Context {O S B : Type}.
  Variable step : O -> S -> S * B.
  Fixpoint run (ops : list O) (s : S) : list B :=
    match ops with
    | [] => []
    | o :: r => let '(s', b) := step o s in b :: run r s'
    end.
  Fixpoint final (ops : list O) (s : S) : S :=
    match ops with
    | [] => s
    | o :: r => final r (fst (step o s))
    end.
End Run.

(* listings are compared as sets with "each once"; everything else literally *)
Definition obs_equiv {K} (impl spec : obs K) : Prop :=
  match impl, spec with
  | ONames l1, ONames l2 => NoDup l1 /\ (forall k, In k l1 <-> In k l2)
  | _, _ => impl = spec
  end.

Definition op_key {K P} (o : op K P) : list K :=
  match o with
  | Upload k _ | UploadStream k _ | Delete k | Exists k | Download k | DownloadStream k => [k]
  | ListFiles _ => []
  end.
