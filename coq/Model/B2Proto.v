(* B2: a service model (file versions newest first, hide markers, b2_hide_file answering already_hidden /
   no_such_file, b2_list_file_names with startFileName / nextFileName, download by name) and the
   adapter's client logic over it (replicat/backends/b2.py).  Definitions only. *)
From Coq Require Import List NArith Bool Arith.
From Replicat Require Import Model.Store.
Import ListNotations.

Inductive version := VUpload (d : bytes) | VHide.

Definition b2_visible (vs : list version) : option bytes :=
  match vs with VUpload d :: _ => Some d | _ => None end.

Inductive hide_result := HideOk | AlreadyHidden | NoSuchFile.

Section B2.
  Context {K P : Type}.
  Variable cmp : K -> K -> comparison.
  Variable matches : P -> K -> bool.

  Definition b2svc := list (K * list version).

  (* ---- service *)
  Definition b2_versions (k : K) (svc : b2svc) : list version :=
    match alookup (ceq cmp) k svc with Some vs => vs | None => [] end.

  Definition b2_upload_file (k : K) (d : bytes) (svc : b2svc) : b2svc :=
    sinsert cmp k (VUpload d :: b2_versions k svc) svc.

  Definition b2_hide_file (k : K) (svc : b2svc) : b2svc * hide_result :=
    match b2_versions k svc with
    | [] => (svc, NoSuchFile)
    | VHide :: _ => (svc, AlreadyHidden)
    | vs => (sinsert cmp k (VHide :: vs) svc, HideOk)
    end.

  Definition b2_download_by_name (k : K) (svc : b2svc) : option bytes := b2_visible (b2_versions k svc).

  Definition b2_names (svc : b2svc) : list K :=
    map fst (filter (fun kv => match b2_visible (snd kv) with Some _ => true | None => false end) svc).

  (* b2_list_file_names: visible names with the prefix, in name order, from startFileName on, at most ps;
     nextFileName = the first name not returned, or null *)
  Definition b2_list_page (ps : nat) (p : P) (start : option K) (svc : b2svc) : list K * option K :=
    let ks := filter (matches p) (b2_names svc) in
    let rest := match start with None => ks | Some t => filter (cle cmp t) ks end in
    (firstn ps rest, hd_error (skipn ps rest)).

  (* ---- client (b2.py) *)
  Fixpoint b2c_list_loop (fuel ps : nat) (p : P) (svc : b2svc) (start : option K) (acc : list K) (pages : nat)
    : option (list K * nat) :=
    match fuel with
    | O => None
    | S f =>
        let '(files, next) := b2_list_page ps p start svc in
        match next with
        | None => Some (acc ++ files, S pages)
        | Some t => b2c_list_loop f ps p svc (Some t) (acc ++ files) (S pages)
        end
    end.

  Definition b2c_list (ps : nat) (p : P) (svc : b2svc) : option (list K * nat) :=
    b2c_list_loop (S (length svc)) ps p svc None [] 0.

  Definition b2c_step (ps : nat) (o : op K P) (svc : b2svc) : b2svc * obs K :=
    match o with
    | Upload k v | UploadStream k v => (b2_upload_file k v svc, ODone)
    | Delete k =>
        (* 400 already_hidden / no_such_file are swallowed by the adapter *)
        let '(svc', r) := b2_hide_file k svc in
        (svc', match r with HideOk | AlreadyHidden | NoSuchFile => ODone end)
    | Exists k => (svc, OBool (match b2_download_by_name k svc with Some _ => true | None => false end))
    | Download k | DownloadStream k =>
        (svc, match b2_download_by_name k svc with Some d => OData d | None => OMissing end)
    | ListFiles p => (svc, match b2c_list ps p svc with Some (l, _) => ONames l | None => OFail end)
    end.

  Definition b2c_list_pages (ps : nat) (p : P) (svc : b2svc) : nat :=
    match b2c_list ps p svc with Some (_, n) => n | None => 0 end.
End B2.
