(* C18: loading snapshots through the local cache.  Follows _load_snapshots / _download_snapshot /
   _download_snapshot_threadsafe of replicat/repository.py.
   Generic part: bytes B, digests D, storage paths P, an arbitrary hash and an arbitrary decoder.
   A cache is an ARBITRARY partial map from paths to bytes (missing, empty, a prefix, another
   object's bytes, ...): nothing is assumed about what it holds.
   Definitions only. *)
From Coq Require Import List NArith Bool.
From Replicat Require Import Model.Crypto Model.Objects.
Import ListNotations.

Section Generic.
Variables (P B D Body : Type).
Variable hash : B -> D.
Variable deqb : D -> D -> bool.
Variable expected : P -> option D.    (* the digest a listed path must hash to; None = not loaded (filter, foreign tag) *)
Variable decode : B -> res Body.      (* _decrypt_snapshot_body *)

Definition download (be : P -> option B) (p : P) (d : D) : res B :=
  match be p with
  | None => Err Missing
  | Some b => if deqb (hash b) d then Ok b else Err Corrupted
  end.

(* verify_cached: the source fact "the digest check covers cached contents".
   ca = None: cache disabled. *)
Definition fetch (verify_cached : bool) (ca : option (P -> option B)) (be : P -> option B) (p : P) (d : D) : res B :=
  match ca with
  | None => download be p d
  | Some c =>
      match c p with
      | Some x => if verify_cached then (if deqb (hash x) d then Ok x else download be p d) else Ok x
      | None => download be p d
      end
  end.

(* what this fetch writes into the cache (only with a cache, only after a download) *)
Definition fetch_stores (verify_cached : bool) (ca : option (P -> option B)) (be : P -> option B) (p : P) (d : D) : option B :=
  match ca with
  | None => None
  | Some c =>
      let dl := match download be p d with Ok b => Some b | Err _ => None end in
      match c p with
      | Some x => if verify_cached then (if deqb (hash x) d then None else dl) else None
      | None => dl
      end
  end.

Definition load_path (vc : bool) (ca : option (P -> option B)) (be : P -> option B) (p : P) : res (option (P * Body)) :=
  match expected p with
  | None => Ok None
  | Some d => bind (fetch vc ca be p d) (fun b => bind (decode b) (fun body => Ok (Some (p, body))))
  end.

(* only the paths listed by the backend are looked at *)
Definition load (vc : bool) (ca : option (P -> option B)) (be : P -> option B) (listing : list P) : res (list (P * Body)) :=
  bind (mapM (load_path vc ca be) listing) (fun l => Ok (somes l)).

(* the listing is consistent with the objects and every object that will be loaded is intact *)
Definition intact (be : P -> option B) (listing : list P) : Prop :=
  forall p d, In p listing -> expected p = Some d -> exists b, be p = Some b /\ hash b = d.

(* histories: a command is any function of what was loaded and of the backend state *)
Variables (St Out : Type).
Variable objs : St -> P -> option B.
Variable names : St -> list P.
Definition command : Type := res (list (P * Body)) -> St -> Out * St.

Fixpoint run (vc : bool) (h : list (option (P -> option B) * command)) (s : St) : list Out * St :=
  match h with
  | [] => ([], s)
  | (ca, c) :: r =>
      let '(o, s') := c (load vc ca (objs s) (names s)) s in
      let '(os, s'') := run vc r s' in (o :: os, s'')
  end.

Definition without_cache (h : list (option (P -> option B) * command)) : list (option (P -> option B) * command) :=
  map (fun x => (None, snd x)) h.
End Generic.

Arguments download {P B D} hash deqb be p d.
Arguments fetch {P B D} hash deqb verify_cached ca be p d.
Arguments fetch_stores {P B D} hash deqb verify_cached ca be p d.
Arguments load_path {P B D Body} hash deqb expected decode vc ca be p.
Arguments load {P B D Body} hash deqb expected decode vc ca be listing.
Arguments intact {P B D} hash expected be listing.
Arguments run {P B D Body} hash deqb expected decode {St Out} objs names vc h s.
Arguments without_cache {P B Body St Out} h.

(* ---------------------------------------------------------------- symbolic instance (executable) *)
(* sel = the snapshot-regex filter on names; the tag check as in Objects.load_one *)
Definition sym_expected (m : mode) (sel : term -> bool) (p : loc) : option term :=
  match p with
  | LSnap name tag =>
      if negb (sel name) then None
      else match m with
           | Some k => if term_eqb (Mac (k_mac k) name) tag then Some name else None
           | None => Some name
           end
  | _ => None
  end.

Definition snapshot_paths (st : store) : list loc :=
  flat_map (fun x => match fst x with LSnap n t => [LSnap n t] | _ => [] end) st.

Definition sym_load (vc : bool) (m : mode) (sel : term -> bool) (ca : option store) (st : store) : res (list (loc * body)) :=
  load Hash term_eqb (sym_expected m sel) (decode_body m) vc (option_map lookup ca) (lookup st) (snapshot_paths st).

(* cache contents after a load: every downloaded object is stored under its path *)
Definition sym_cache_after (vc : bool) (m : mode) (sel : term -> bool) (ca : store) (st : store) : store :=
  fold_left (fun c p =>
               match sym_expected m sel p with
               | None => c
               | Some d => match fetch_stores Hash term_eqb vc (Some (lookup ca)) (lookup st) p d with
                           | Some b => (p, b) :: remove c p
                           | None => c
                           end
               end) (snapshot_paths st) ca.

(* client operations of the C18 histories; the store holds the snapshot objects *)
Inductive op : Type :=
| OPut (p : loc) (obj : term)              (* snapshot: uploads the object (its name is the hash of obj) *)
| OLoad (sel : option (list term))         (* list-snapshots / list-files / restore [--snapshot-regex] *)
| ODelete (names : list term)              (* delete: load all, refuse if a name is absent / not readable *)
| OCacheSet (p : loc) (e : option term)    (* something else rewrote / removed / truncated a cache entry *)
| ORemove (p : loc).                       (* another tool removed an object from the backend (delete-objects) *)

Definition mem (l : list term) (t : term) : bool := existsb (term_eqb t) l.
Definition loc_name (p : loc) : term := match p with LSnap n _ => n | LChunk n _ => n | LOther _ => Nil end.
Definition readable (b : body) : bool := match snd b with Some _ => true | None => false end.

(* observable result of a step: 0 + names loaded (readable flag), or an error code *)
Definition obs : Type := (N * list (term * bool))%type.

Definition step (vc : bool) (m : mode) (ca : option store) (st : store) (o : op) : obs * option store * store :=
  match o with
  | OPut p obj => ((0%N, []), ca, (p, obj) :: remove st p)
  | OCacheSet p e => ((0%N, []), option_map (fun c => apply_mod c (p, e)) ca, st)
  | ORemove p => ((0%N, []), ca, remove st p)
  | OLoad sel =>
      let f := match sel with Some l => mem l | None => fun _ => true end in
      let ca' := option_map (fun c => sym_cache_after vc m f c st) ca in
      match sym_load vc m f ca st with
      | Ok l => ((0%N, map (fun x => (loc_name (fst x), readable (snd x))) l), ca', st)
      | Err e => ((err_code e, []), ca', st)
      end
  | ODelete nms =>
      let ca' := option_map (fun c => sym_cache_after vc m (fun _ => true) c st) ca in
      match sym_load vc m (fun _ => true) ca st with
      | Err e => ((err_code e, []), ca', st)
      | Ok l =>
          let named := filter (fun x => mem nms (loc_name (fst x))) l in
          if forallb (fun n => existsb (fun x => term_eqb n (loc_name (fst x))) l) nms && forallb (fun x => readable (snd x)) named
          then ((0%N, []),
                option_map (fun c => fold_left (fun c x => remove c (fst x)) named c) ca',
                fold_left (fun s x => remove s (fst x)) named st)
          else ((5%N, []), ca', st)        (* ReplicatError: not available / different key *)
      end
  end.

Fixpoint set_nth {A} (n : nat) (a : A) (l : list A) : list A :=
  match n, l with
  | _, [] => []
  | O, _ :: r => a :: r
  | S k, x :: r => x :: set_nth k a r
  end.

(* a step is run by a client = (cache slot or None when the cache is disabled, key ring) *)
Fixpoint run_ops (vc : bool) (caches : list store) (st : store) (h : list (option nat * mode * op))
  : list (obs * option store) * list store * store :=
  match h with
  | [] => ([], caches, st)
  | (cl, m, o) :: r =>
      let ca := match cl with Some i => nth_error caches i | None => None end in
      let '(ob, ca', st') := step vc m ca st o in
      let caches' := match cl, ca' with Some i, Some c => set_nth i c caches | _, _ => caches end in
      let '(obs, cs, s) := run_ops vc caches' st' r in ((ob, ca') :: obs, cs, s)
  end.

Definition observations (x : list (obs * option store) * list store * store) : list obs := map fst (fst (fst x)).

(* validity of the cache entries for the snapshot paths of a store: 1 valid, 0 absent, 2 present but not the object *)
Definition entry_state (ca : store) (p : loc) : N :=
  match lookup ca p with
  | None => 0%N
  | Some x => if term_eqb (Hash x) (loc_name p) then 1%N else 2%N
  end.
