(* Local backend: a directory tree indexed by paths (segment lists) with files and directories,
   and the adapter's operations over it (replicat/backends/local.py): mkdir -p of the parent,
   temporary file + rename, unlink(missing_ok), os.path.exists, read, and list_files = scandir of the
   prefix's dirname, first-level filter by the prefix's basename, recursive scan below matching
   directories, '.tmp' suffix filter, slicing of the entry path.  Definitions only. *)
From Coq Require Import List NArith Bool Arith.
From Replicat Require Import Model.Store.
Import ListNotations.
Local Open Scope N_scope.

Definition seg := str.
Definition path := list seg.

Fixpoint path_eqb (a b : path) : bool :=
  match a, b with
  | [], [] => true
  | x :: a', y :: b' => str_eqb x y && path_eqb a' b'
  | _, _ => false
  end.

(* strip d p = Some q  iff  p = d ++ q *)
Fixpoint strip (d p : path) : option path :=
  match d, p with
  | [], _ => Some p
  | x :: d', y :: p' => if str_eqb x y then strip d' p' else None
  | _ :: _, [] => None
  end.

Inductive entry := EFile (d : bytes) | EDir.
Definition fs := list (path * entry).          (* the root directory [] is implicit *)

Definition fs_lookup (p : path) (f : fs) : option entry := alookup path_eqb p f.

Definition is_dir (p : path) (f : fs) : bool :=
  match p with
  | [] => true
  | _ => match fs_lookup p f with Some EDir => true | _ => false end
  end.

(* destination.parent.mkdir(parents=True, exist_ok=True): every non-empty initial segment of the path,
   shortest first, is created unless it is already a directory *)
Fixpoint inits_ne (pre rest : path) : list path :=
  match rest with
  | [] => []
  | s :: r => (pre ++ [s]) :: inits_ne (pre ++ [s]) r
  end.
Fixpoint mkdirs (qs : list path) (f : fs) : option fs :=
  match qs with
  | [] => Some f
  | q :: r =>
      match fs_lookup q f with
      | Some EDir => mkdirs r f
      | Some (EFile _) => None                    (* FileExistsError / NotADirectoryError *)
      | None => mkdirs r ((q, EDir) :: f)
      end
  end.
Definition mkdir_p (p : path) (f : fs) : option fs := mkdirs (inits_ne [] p) f.

Definition parent (p : path) : path := removelast p.

(* Path.replace *)
Definition fs_rename (src dst : path) (f : fs) : option fs :=
  match fs_lookup src f, fs_lookup dst f with
  | Some (EFile _), Some EDir => None              (* IsADirectoryError *)
  | Some (EFile d), _ => Some (aput path_eqb dst (EFile d) (aremove path_eqb src f))
  | _, _ => None
  end.

(* the micro-steps of upload / upload_stream; tmp is the name NamedTemporaryFile picked *)
Definition up_mkdir (n : path) (f : fs) : option fs := mkdir_p (parent n) f.
Definition up_mktemp (n : path) (tmp : seg) (f : fs) : option fs :=
  let t := parent n ++ [tmp] in
  match fs_lookup t f with Some _ => None | None => Some ((t, EFile []) :: f) end.   (* O_EXCL *)
Definition up_write (n : path) (tmp : seg) (d : bytes) (f : fs) : option fs :=
  Some (aput path_eqb (parent n ++ [tmp]) (EFile d) f).
Definition up_replace (n : path) (tmp : seg) (f : fs) : option fs := fs_rename (parent n ++ [tmp]) n f.

Definition obind {A B} (x : option A) (g : A -> option B) : option B :=
  match x with Some a => g a | None => None end.

Definition l_upload (n : path) (d : bytes) (tmp : seg) (f : fs) : option fs :=
  obind (up_mkdir n f) (fun f1 => obind (up_mktemp n tmp f1) (fun f2 =>
  obind (up_write n tmp d f2) (fun f3 => up_replace n tmp f3))).

(* the state after the first k micro-steps (k = 0..4), for the atomicity statement *)
Definition l_upload_prefix (k : nat) (n : path) (d : bytes) (tmp : seg) (f : fs) : option fs :=
  match k with
  | O => Some f
  | 1%nat => up_mkdir n f
  | 2%nat => obind (up_mkdir n f) (up_mktemp n tmp)
  | 3%nat => obind (up_mkdir n f) (fun f1 => obind (up_mktemp n tmp f1) (up_write n tmp d))
  | _ => l_upload n d tmp f
  end.

(* (self.path / name).unlink(missing_ok=True) *)
Definition l_delete (n : path) (f : fs) : option fs :=
  match fs_lookup n f with
  | Some (EFile _) => Some (aremove path_eqb n f)
  | None => Some f
  | Some EDir => None                              (* IsADirectoryError *)
  end.

Definition l_exists (n : path) (f : fs) : bool :=
  match n with [] => true | _ => match fs_lookup n f with Some _ => true | None => false end end.

Definition l_read (n : path) (f : fs) : option bytes :=
  match fs_lookup n f with Some (EFile d) => Some d | _ => None end.

(* iterative_scandir(entry): every file strictly below p *)
Definition files_below (p : path) (f : fs) : list path :=
  flat_map (fun qe : path * entry =>
              match snd qe, strip p (fst qe) with
              | EFile _, Some (_ :: _) => [fst qe]
              | _, _ => []
              end) f.

Definition tmp_suffix : str := [46; 116; 109; 112].       (* ".tmp" *)

Definition is_tmp_name (q : path) : bool := ends_with (last q []) tmp_suffix.

(* list_files(prefix) with os.path.split(prefix) = (d, b).  Only a missing directory / a non-directory
   on the way means "empty" (FileNotFoundError / NotADirectoryError, after the fix of defect 15). *)
Definition l_list (d : path) (b : seg) (f : fs) : list path :=
  if is_dir d f then
    let found :=
      flat_map (fun qe : path * entry =>
                  match strip d (fst qe) with
                  | Some [s] =>
                      if starts_with s b
                      then match snd qe with EFile _ => [fst qe] | EDir => files_below (fst qe) f end
                      else []
                  | _ => []
                  end) f in
    filter (fun q => negb (is_tmp_name q)) found
  else [].

(* prefix test on segment lists: n = d ++ s :: rest with s starting with b *)
Definition seg_starts (pb : path * seg) (n : path) : bool :=
  match strip (fst pb) n with
  | Some (s :: _) => starts_with s (snd pb)
  | _ => false
  end.

Definition lop := (op path (path * seg) * seg)%type.      (* operation + temporary name picked for it *)

Definition local_step (ot : lop) (f : fs) : fs * obs path :=
  let '(o, tmp) := ot in
  match o with
  | Upload n v | UploadStream n v =>
      match l_upload n v tmp f with Some f' => (f', ODone) | None => (f, OFail) end
  | Delete n => match l_delete n f with Some f' => (f', ODone) | None => (f, OFail) end
  | Exists n => (f, OBool (l_exists n f))
  | Download n | DownloadStream n => (f, match l_read n f with Some d => OData d | None => OMissing end)
  | ListFiles (d, b) => (f, ONames (l_list d b f))
  end.

(* ---- flat names: what the adapter's callers pass are '/'-joined strings *)
Definition slash : N := 47.
Fixpoint flat (n : path) : str :=
  match n with
  | [] => []
  | [s] => s
  | s :: rest => s ++ slash :: flat rest
  end.
(* the prefix string whose os.path.split is (d, b) *)
Fixpoint flatp (d : path) (b : seg) : str :=
  match d with
  | [] => b
  | s :: d' => s ++ slash :: flatp d' b
  end.

(* slicing of an entry path: the entry path is <scanned directory as spelled> / <relative part>;
   repaired code: path[len(os.path.join(scanned, '')):]; code before the fix of defect 7:
   path[len(str(self.path)) + 1:] *)
Definition entry_path (scanned : str) (rel : str) : str := scanned ++ slash :: rel.
Definition slice_fixed (scanned : str) (p : str) : str := skipn (length scanned + 1) p.
Definition slice_old (root_str : str) (p : str) : str := skipn (length root_str + 1) p.

(* legality of names (the property's quantifier) *)
Definition legal_seg (s : seg) : bool :=
  negb (str_eqb s []) && negb (str_eqb s [46]) && negb (str_eqb s [46; 46])
  && forallb (fun c => negb (c =? slash) && negb (c =? 0)) s.
Definition legal_name (n : path) : bool :=
  match n with [] => false | _ => forallb legal_seg n && negb (is_tmp_name n) end.

(* what an HTTP client does to '.' and '..' segments of a URL path (RFC 3986 remove_dot_segments, as
   httpx applies it): the S3 and B2 adapters put the name into the URL path *)
Fixpoint dot_normalize_from (acc : list seg) (n : path) : path :=
  match n with
  | [] => rev acc
  | s :: r =>
      if str_eqb s [46] then dot_normalize_from acc r
      else if str_eqb s [46; 46] then dot_normalize_from (tl acc) r
      else dot_normalize_from (s :: acc) r
  end.
Definition dot_normalize (n : path) : path := dot_normalize_from [] n.
