(* Snapshot stream layout, attribution of chunk ranges to files (_chunk_done), restore plan and
   file-part writes (replicat/repository.py: _stream_files, _chunk_done, restore, _write_file_part).
   Executable definitions only. *)
From Coq Require Import List Arith Bool.
From Replicat Require Import Lib.ListX.
Import ListNotations.

(* ------------------------------------------------------------------ layout (lengths only) *)
(* -(n) % alignment *)
Definition pad_len (a n : nat) : nat := (a - n mod a) mod a.

(* (stream_start, stream_end) of every file, files streamed in the given order with padding
   after each file (the padding after the last one is never produced, which changes no extent) *)
Fixpoint extents (a off : nat) (lens : list nat) : list (nat * nat) :=
  match lens with
  | [] => []
  | n :: rest => (off, off + n) :: extents a (off + n + pad_len a n) rest
  end.

Record ref := mkref { r_start : nat; r_end : nat; r_counter : nat }.

(* a chunk [cs, ce) is considered for a file [fs, fe] when fs <= ce (bisect on (ce + 1,)) and
   not fe < cs (the break of the backwards loop) *)
Definition touches (fs fe cs ce : nat) : bool := (fs <=? ce) && negb (fe <? cs).

(* range = [max(fs - cs, 0), min(fe, ce) - cs] *)
Definition ref_of (fs fe cs ce counter : nat) : ref :=
  mkref (fs - cs) (Nat.min fe ce - cs) counter.

(* all chunk ranges attributed to the file [fs, fe), chunks given by their lengths in stream
   (= counter) order; off = stream offset of the first chunk, counter = its counter *)
Fixpoint refs_from (fs fe off counter : nat) (clens : list nat) : list ref :=
  match clens with
  | [] => []
  | n :: rest =>
    (if touches fs fe off (off + n) then [ref_of fs fe off (off + n) counter] else [])
    ++ refs_from fs fe (off + n) (S counter) rest
  end.

Definition refs_of (ext : nat * nat) (clens : list nat) : list ref :=
  refs_from (fst ext) (snd ext) 0 1 clens.

(* the whole manifest: per file (in stream order) its refs in counter order *)
Definition manifest (a : nat) (flens clens : list nat) : list (list ref) :=
  map (fun e => refs_of e clens) (extents a 0 flens).

(* ------------------------------------------------------------------ sorting by counter *)
Fixpoint insert_ref (r : ref) (l : list ref) : list ref :=
  match l with
  | [] => [r]
  | x :: t => if r_counter r <=? r_counter x then r :: l else x :: insert_ref r t
  end.
Definition sort_refs (l : list ref) : list ref := fold_right insert_ref [] l.

(* ------------------------------------------------------------------ restore plan *)
(* chunk_size = end - start; chunk_position accumulates *)
Fixpoint plan_from (pos : nat) (rs : list ref) : list (nat * ref) :=
  match rs with
  | [] => []
  | r :: t => (pos, r) :: plan_from (pos + (r_end r - r_start r)) t
  end.
Definition plan (m : list ref) : list (nat * ref) := plan_from 0 (sort_refs m).
Definition plan_size (m : list ref) : nat := fold_right (fun r acc => (r_end r - r_start r) + acc) 0 m.

(* ------------------------------------------------------------------ contents *)
Section Contents.
Context {B : Type}.
Variable zero : B.

(* the byte stream: file, padding, file, padding, ... *)
Fixpoint stream (a : nat) (files : list (list B)) : list B :=
  match files with
  | [] => []
  | f :: rest =>
    f ++ match rest with
         | [] => []                      (* the padding is produced when the next file starts *)
         | _ => repeat zero (pad_len a (length f)) ++ stream a rest
         end
  end.

(* counter c (1-based) -> chunk contents *)
Definition chunk_at (chunks : list (list B)) (c : nat) : list B := nth (c - 1) chunks [].
(* contents[start : start + chunk_size] *)
Definition slice_of (chunks : list (list B)) (r : ref) : list B :=
  sub (chunk_at chunks (r_counter r)) (r_start r) (r_start r + (r_end r - r_start r)).

(* _write_file_part: open r+b (or create), file_end = seek(0, END),
   truncate(max(file_end, offset + len(data))), seek(offset), write(data) *)
Definition fs_truncate (n : nat) (l : list B) : list B := firstn n l ++ repeat zero (n - length l).
Definition fs_write (l : list B) (off : nat) (d : list B) : list B :=
  firstn off l ++ d ++ skipn (off + length d) l.
Definition write_part (pre : list B) (off : nat) (d : list B) : list B :=
  let file_end := length pre in
  fs_write (fs_truncate (Nat.max file_end (off + length d)) pre) off d.

Definition apply_writes (ws : list (nat * list B)) (pre : list B) : list B :=
  fold_left (fun l w => write_part l (fst w) (snd w)) ws pre.

Definition writes_of (chunks : list (list B)) (m : list ref) : list (nat * list B) :=
  map (fun pr => (fst pr, slice_of chunks (snd pr))) (plan m).

(* restoring one file: the writes in the order the scheduler happens to run them, then
   finalisation to the recorded size *)
Definition restore_file (chunks : list (list B)) (m : list ref) (order : list (nat * list B)) (pre : list B)
  : list B :=
  fs_truncate (plan_size m) (apply_writes order pre).
End Contents.
