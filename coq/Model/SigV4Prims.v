(* C16 - byte strings and the Python library functions the S3 adapter's signing code calls
   (urllib.parse.quote, urlencode(quote_via=quote), sorted(dict.items()), str.join, dict item assignment,
   str(int)).  Executable definitions only.  Used by the translated code (Gen/SigV4Gen.v) and by the hand
   model (Model/SigV4.v).  The independent specification of SigV4 (Model/SigV4Spec.v) does not use the
   quoting functions of this file. *)
From Coq Require Import List NArith Bool String.
From Coq Require Import Strings.Byte.
Import ListNotations.

Definition bytes := list byte.
Definition b (s : string) : bytes := list_byte_of_string s.
Definition nl : bytes := [x0a].
Definition bs (l : list N) : bytes := map (fun n => match Byte.of_N n with Some c => c | None => x00 end) l.
Definition ns (s : bytes) : list N := map Byte.to_N s.

Definition in_range (lo hi : N) (c : byte) : bool := let n := Byte.to_N c in (N.leb lo n) && (N.leb n hi).

(* urllib.parse._ALWAYS_SAFE = ASCII letters, digits, "_.-~" *)
Definition py_always_safe (c : byte) : bool :=
  in_range 65 90 c || in_range 97 122 c || in_range 48 57 c
  || Byte.eqb c "_" || Byte.eqb c "." || Byte.eqb c "-" || Byte.eqb c "~".

Definition hex_upper (n : N) : byte := nth (N.to_nat n) (b "0123456789ABCDEF") x00.
Definition pct_encode (c : byte) : bytes := let n := Byte.to_N c in [x25; hex_upper (N.div n 16); hex_upper (N.modulo n 16)].

(* urllib.parse.quote(s, safe) on the UTF-8 bytes of s *)
Definition py_quote_byte (safe : bytes) (c : byte) : bytes :=
  if py_always_safe c || existsb (Byte.eqb c) safe then [c] else pct_encode c.
Definition py_quote (safe : bytes) (s : bytes) : bytes := flat_map (py_quote_byte safe) s.

(* sep.join(list) *)
Definition join (sep : bytes) (l : list bytes) : bytes :=
  match l with [] => [] | x :: r => x ++ flat_map (fun y => sep ++ y) r end.

(* urlencode(pairs, quote_via=quote): urlencode hands its own safe='' to quote_via *)
Definition urlencode_quote (pairs : list (bytes * bytes)) : bytes :=
  join (b "&") (map (fun kv => py_quote [] (fst kv) ++ b "=" ++ py_quote [] (snd kv)) pairs).

(* order of Python str / bytes (code point order = byte order of the UTF-8 encodings) *)
Fixpoint bytes_leb (x y : bytes) : bool :=
  match x, y with
  | [], _ => true
  | _ :: _, [] => false
  | a :: x', c :: y' => if N.ltb (Byte.to_N a) (Byte.to_N c) then true
                        else if N.ltb (Byte.to_N c) (Byte.to_N a) then false else bytes_leb x' y'
  end.
Fixpoint bytes_eqb (x y : bytes) : bool :=
  match x, y with
  | [], [] => true
  | a :: x', c :: y' => Byte.eqb a c && bytes_eqb x' y'
  | _, _ => false
  end.
Definition pair_leb (p q : bytes * bytes) : bool :=
  if bytes_eqb (fst p) (fst q) then bytes_leb (snd p) (snd q) else bytes_leb (fst p) (fst q).

Section Sort.
Context {A : Type} (leb : A -> A -> bool).
Fixpoint insert (x : A) (l : list A) : list A :=
  match l with [] => [x] | y :: r => if leb x y then x :: l else y :: insert x r end.
Definition isort (l : list A) : list A := fold_right insert [] l.
End Sort.

(* sorted(d.items()) *)
Definition sorted_items (d : list (bytes * bytes)) : list (bytes * bytes) := isort pair_leb d.

(* d[k] = v on a dict kept as an association list in insertion order *)
Fixpoint dict_set (d : list (bytes * bytes)) (k v : bytes) : list (bytes * bytes) :=
  match d with
  | [] => [(k, v)]
  | (k', v') :: r => if bytes_eqb k' k then (k', v) :: r else (k', v') :: dict_set r k v
  end.

Definition truthy {A : Type} (l : list A) : bool := match l with [] => false | _ => true end.

(* str(n) for a natural number *)
Definition digit (n : N) : byte := nth (N.to_nat n) (b "0123456789") x00.
Fixpoint dec_fuel (fuel : nat) (n : N) (acc : bytes) : bytes :=
  match fuel with
  | O => acc
  | S f => let acc' := digit (N.modulo n 10) :: acc in
           if N.ltb n 10 then acc' else dec_fuel f (N.div n 10) acc'
  end.
Definition py_str_N (n : N) : bytes := dec_fuel (S (N.to_nat (N.log2 n))) n [].
Definition py_str_len (s : bytes) : bytes := py_str_N (N.of_nat (List.length s)).
