(* Concrete hash of the chunker: gclmulchunker::key (src/adapters.cpp) as arithmetic on N. *)
From Coq Require Import List NArith Arith Bool.
Import ListNotations.
Local Open Scope N_scope.

(* carry-less product of a (taken bit by bit, [bits] low bits) and b *)
Fixpoint clmul_aux (bits : nat) (i : N) (a b acc : N) : N :=
  match bits with
  | O => acc
  | S n => clmul_aux n (i + 1) a b (if N.testbit a i then N.lxor acc (N.shiftl b i) else acc)
  end.
Definition clmul (a b : N) : N := clmul_aux 64 0 a b 0.

Definition M64 : N := 18446744073709551615.

(* little-endian value of a byte list *)
Fixpoint le_val (l : list N) : N :=
  match l with [] => 0 | b :: r => b + 256 * le_val r end.

(* u = (k0, 27); v = load64(buf+off-4); v = clmul(k0, v); u = clmul(27, hi64 v); key = lo64(k1 ^ u ^ v) *)
Definition keyf (k0 k1 : N) (window : list N) : N :=
  let p := clmul k0 (le_val window) in
  let u := clmul 27 (N.shiftr p 64) in
  N.land (N.lxor (N.lxor k1 u) p) M64.

(* key schedule of the Python adapter: None/empty -> 0xFF*16; else repeat to >= 16 and cut *)
Fixpoint repeat_to (fuel : nat) (p : list N) : list N :=
  match fuel with O => p | S f => if (length p <? 16)%nat then repeat_to f (p ++ p) else p end.
Definition key_schedule (params : list N) : list N :=
  match params with
  | [] => repeat 255 16
  | _ => firstn 16 (repeat_to 5 params)
  end.
Definition k0_of (key : list N) : N := le_val (firstn 8 key).
Definition k1_of (key : list N) : N := le_val (firstn 8 (skipn 8 key)).

(* The concrete chunker of the repository: Chunker.chunkify instantiated with keyf. *)
From Replicat Require Import Model.Chunker.
Definition gchunkify (params : list N) (mn mx : nat) (pieces : list (list N)) (junk : nat -> list N)
  : list (list N) :=
  let key := key_schedule params in
  chunkify (keyf (k0_of key) (k1_of key)) mn mx pieces junk.
Definition gnext_cut (params : list N) (mn mx : nat) (buf junk : list N) (final : bool) : nat :=
  let key := key_schedule params in
  next_cut (keyf (k0_of key) (k1_of key)) mn mx buf junk final.
(* constructor check of src/adapters.cpp: 16-byte key with k0 <> 0, min <= max *)
Definition key_ok (params : list N) : bool := negb (N.eqb (k0_of (key_schedule params)) 0).
