(* Layer-1 repository model (DESIGN.md 3.4): chunk objects as (family, digest) pairs, snapshot
   objects with their chunk tables; running snapshot / delete / clean instances whose backend
   steps interleave; crashes.  Plus a sequential executable semantics [exec] used by the
   correspondence with the real commands.  Definitions only. *)
From Coq Require Import List Arith Bool.
Import ListNotations.
Definition fam := nat. Definition usr := nat. Definition dig := nat. Definition sid := nat.
Record snap := { s_id : sid; s_fam : fam; s_usr : usr; s_tab : list dig }.
Record store := { chunks : list (fam * dig); snaps : list snap }.

(* running snapshot instance *)
Record sinst := { i_fam : fam; i_usr : usr; i_id : sid; i_all : list dig;
                  i_pending : list dig; i_toput : list dig; i_done : list dig }.

Definition pair_eqb (a b : fam * dig) := Nat.eqb (fst a) (fst b) && Nat.eqb (snd a) (snd b).
Definition memc (c : fam * dig) (l : list (fam * dig)) := existsb (pair_eqb c) l.
Definition Inv (st : store) : Prop :=
  forall s, In s (snaps st) -> forall d, In d (s_tab s) -> In (s_fam s, d) (chunks st).
Definition IOk (st : store) (i : sinst) : Prop :=
  (forall d, In d (i_done i) -> In (i_fam i, d) (chunks st)) /\
  (forall d, In d (i_all i) -> In d (i_pending i) \/ In d (i_toput i) \/ In d (i_done i)).

(* global state: store, running snapshot instances, optional destructive instance
   (remaining snapshot ids to delete, then chunks to delete) *)
Record dinst := { d_fam : fam; d_snaps : list sid; d_chunks : list (fam * dig) }.
Record gstate := { g_st : store; g_run : list sinst; g_des : option dinst }.

Definition remove_snaps (f : fam) (ids : list sid) (l : list snap) :=
  filter (fun s => negb (Nat.eqb (s_fam s) f && existsb (Nat.eqb (s_id s)) ids)) l.
Definition referenced (f : fam) (l : list snap) (d : dig) : bool :=
  existsb (fun s => Nat.eqb (s_fam s) f && existsb (Nat.eqb d) (s_tab s)) l.

(* plan of delete by user u of ids: None if refused *)
Definition plan_delete (u : usr) (f : fam) (ids : list sid) (st : store) : option dinst :=
  let named := filter (fun s => existsb (Nat.eqb (s_id s)) ids && Nat.eqb (s_fam s) f) (snaps st) in
  if forallb (fun id => existsb (fun s => Nat.eqb (s_id s) id && Nat.eqb (s_usr s) u) named) ids then
    let others := remove_snaps f ids (snaps st) in
    let cand := flat_map (fun s => map (fun d => (f, d)) (s_tab s)) named in
    Some {| d_fam := f; d_snaps := ids; d_chunks := filter (fun c => negb (referenced f others (snd c))) cand |}
  else None.
Definition plan_clean (f : fam) (st : store) : dinst :=
  {| d_fam := f; d_snaps := []; d_chunks := filter (fun c => Nat.eqb (fst c) f && negb (referenced f (snaps st) (snd c))) (chunks st) |}.

Definition g_pending_ok (i : sinst) : Prop := i_pending i = i_all i /\ i_toput i = [] /\ i_done i = [].
Inductive step : gstate -> gstate -> Prop :=
| S_start i st run : g_pending_ok i ->
    step {| g_st := st; g_run := run; g_des := None |} {| g_st := st; g_run := i :: run; g_des := None |}
| S_check st run1 i run2 d rest :
    i_pending i = d :: rest ->
    step {| g_st := st; g_run := run1 ++ i :: run2; g_des := None |}
         {| g_st := st; g_des := None;
            g_run := run1 ++ (if memc (i_fam i, d) (chunks st)
                     then {| i_fam := i_fam i; i_usr := i_usr i; i_id := i_id i; i_all := i_all i; i_pending := rest; i_toput := i_toput i; i_done := d :: i_done i |}
                     else {| i_fam := i_fam i; i_usr := i_usr i; i_id := i_id i; i_all := i_all i; i_pending := rest; i_toput := d :: i_toput i; i_done := i_done i |}) :: run2 |}
| S_put st run1 i run2 d l1 l2 :
    i_toput i = l1 ++ d :: l2 ->
    step {| g_st := st; g_run := run1 ++ i :: run2; g_des := None |}
         {| g_st := {| chunks := (i_fam i, d) :: chunks st; snaps := snaps st |}; g_des := None;
            g_run := run1 ++ {| i_fam := i_fam i; i_usr := i_usr i; i_id := i_id i; i_all := i_all i; i_pending := i_pending i; i_toput := l1 ++ l2; i_done := d :: i_done i |} :: run2 |}
| S_commit st run1 i run2 :
    i_pending i = [] -> i_toput i = [] ->
    step {| g_st := st; g_run := run1 ++ i :: run2; g_des := None |}
         {| g_st := {| chunks := chunks st; snaps := {| s_id := i_id i; s_fam := i_fam i; s_usr := i_usr i; s_tab := i_all i |} :: snaps st |};
            g_run := run1 ++ run2; g_des := None |}
| S_crash st run1 i run2 des :
    step {| g_st := st; g_run := run1 ++ i :: run2; g_des := des |} {| g_st := st; g_run := run1 ++ run2; g_des := des |}
| S_plan_delete st u f ids p : plan_delete u f ids st = Some p ->
    step {| g_st := st; g_run := []; g_des := None |} {| g_st := st; g_run := []; g_des := Some p |}
| S_plan_clean st f :
    step {| g_st := st; g_run := []; g_des := None |} {| g_st := st; g_run := []; g_des := Some (plan_clean f st) |}
| S_del_snap st f l1 id l2 cs :
    step {| g_st := st; g_run := []; g_des := Some {| d_fam := f; d_snaps := l1 ++ id :: l2; d_chunks := cs |} |}
         {| g_st := {| chunks := chunks st; snaps := remove_snaps f [id] (snaps st) |}; g_run := [];
            g_des := Some {| d_fam := f; d_snaps := l1 ++ l2; d_chunks := cs |} |}
| S_del_chunk st f l1 c l2 :
    step {| g_st := st; g_run := []; g_des := Some {| d_fam := f; d_snaps := []; d_chunks := l1 ++ c :: l2 |} |}
         {| g_st := {| chunks := filter (fun x => negb (pair_eqb c x)) (chunks st); snaps := snaps st |}; g_run := [];
            g_des := Some {| d_fam := f; d_snaps := []; d_chunks := l1 ++ l2 |} |}
| S_des_done st run f : step {| g_st := st; g_run := run; g_des := Some {| d_fam := f; d_snaps := []; d_chunks := [] |} |} {| g_st := st; g_run := run; g_des := None |}
| S_des_crash st run p : step {| g_st := st; g_run := run; g_des := Some p |} {| g_st := st; g_run := run; g_des := None |}.

Definition DOk (st : store) (p : dinst) : Prop :=
  forall c, In c (d_chunks p) -> fst c = d_fam p /\
    forall s, In s (snaps st) -> s_fam s = fst c -> In (snd c) (s_tab s) -> In (s_id s) (d_snaps p).
Definition J (g : gstate) : Prop :=
  Inv (g_st g) /\ (forall i, In i (g_run g) -> IOk (g_st g) i) /\
  match g_des g with None => True | Some p => g_run g = [] /\ DOk (g_st g) p end.


(* ------------------------------------------------------------------ sequential commands *)
Inductive op :=
| OSnap (u : usr) (f : fam) (id : sid) (tab : list dig)
| ODel (u : usr) (f : fam) (ids : list sid)
| OClean (f : fam).

(* exists-check, then upload what is missing *)
Definition missing (f : fam) (tab : list dig) (cs : list (fam * dig)) : list dig :=
  filter (fun d => negb (memc (f, d) cs)) (nodup Nat.eq_dec tab).
Definition add_chunks (f : fam) (tab : list dig) (cs : list (fam * dig)) : list (fam * dig) :=
  cs ++ map (fun d => (f, d)) (missing f tab cs).
Definition remove_chunks (del cs : list (fam * dig)) : list (fam * dig) :=
  filter (fun x => negb (memc x del)) cs.

(* result: new store, and whether the command succeeded (false = refused with an error) *)
Definition exec (st : store) (o : op) : store * bool :=
  match o with
  | OSnap u f id tab =>
    ({| chunks := add_chunks f tab (chunks st);
        snaps := {| s_id := id; s_fam := f; s_usr := u; s_tab := tab |} :: snaps st |}, true)
  | ODel u f ids =>
    match plan_delete u f ids st with
    | None => (st, false)
    | Some p => ({| chunks := remove_chunks (d_chunks p) (chunks st);
                    snaps := remove_snaps f ids (snaps st) |}, true)
    end
  | OClean f =>
    ({| chunks := remove_chunks (d_chunks (plan_clean f st)) (chunks st); snaps := snaps st |}, true)
  end.

Definition run (ops : list op) (st : store) : store := fold_left (fun s o => fst (exec s o)) ops st.
Definition empty_store : store := {| chunks := []; snaps := [] |}.

(* the chunk objects of a family are exactly the referenced ones, each stored once *)
Definition Exact (st : store) : Prop :=
  NoDup (chunks st) /\
  forall c, In c (chunks st) <-> exists s, In s (snaps st) /\ s_fam s = fst c /\ In (snd c) (s_tab s).
