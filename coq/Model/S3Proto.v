(* S3: a service model (objects kept sorted by key; PUT/GET/HEAD/DELETE; ListObjectsV2 with any page
   size, IsTruncated / NextContinuationToken, token = last key of the page) and the adapter's client
   logic over it (replicat/backends/s3c.py: status mapping and the list_files loop).  Definitions only. *)
From Coq Require Import List NArith Bool Arith.
From Replicat Require Import Model.Store.
Import ListNotations.

Section S3.
  Context {K P : Type}.
  Variable cmp : K -> K -> comparison.
  Variable matches : P -> K -> bool.

  Definition s3svc := list (K * bytes).

  (* ---- service *)
  Inductive s3req := PutObject (k : K) (v : bytes) | GetObject (k : K) | HeadObject (k : K) | DeleteObject (k : K).
  Inductive s3resp := R200 (body : bytes) | R204 | R404.

  Definition s3_serve (r : s3req) (svc : s3svc) : s3svc * s3resp :=
    match r with
    | PutObject k v => (sinsert cmp k v svc, R200 [])
    | GetObject k => (svc, match alookup (ceq cmp) k svc with Some d => R200 d | None => R404 end)
    | HeadObject k => (svc, match alookup (ceq cmp) k svc with Some _ => R200 [] | None => R404 end)
    | DeleteObject k => (aremove (ceq cmp) k svc, R204)
    end.

  Record s3page := { pg_keys : list K; pg_truncated : bool; pg_next : option K }.

  (* ListObjectsV2: keys with the prefix, in key order, strictly after the token, at most ps of them *)
  Definition s3_list_page (ps : nat) (p : P) (token : option K) (svc : s3svc) : s3page :=
    let ks := filter (matches p) (map fst svc) in
    let rest := match token with None => ks | Some t => filter (clt cmp t) ks end in
    let page := firstn ps rest in
    let more := Nat.ltb ps (length rest) in
    {| pg_keys := page; pg_truncated := more; pg_next := if more then last_opt page else None |}.

  (* ---- client (s3c.py) *)
  (* list_files: is_truncated stays True until an IsTruncated=false element is seen; the token is replaced
     whenever a NextContinuationToken element is present; every Key element is yielded *)
  Fixpoint s3c_list_loop (fuel ps : nat) (p : P) (svc : s3svc) (token : option K) (acc : list K) (pages : nat)
    : option (list K * nat) :=
    match fuel with
    | O => None
    | S f =>
        let pg := s3_list_page ps p token svc in
        let acc' := acc ++ pg_keys pg in
        if pg_truncated pg
        then s3c_list_loop f ps p svc (match pg_next pg with Some t => Some t | None => token end) acc' (S pages)
        else Some (acc', S pages)
    end.

  Definition s3c_list (ps : nat) (p : P) (svc : s3svc) : option (list K * nat) :=
    s3c_list_loop (S (length svc)) ps p svc None [] 0.

  Definition s3c_step (ps : nat) (o : op K P) (svc : s3svc) : s3svc * obs K :=
    match o with
    | Upload k v | UploadStream k v =>
        let '(svc', r) := s3_serve (PutObject k v) svc in
        (svc', match r with R200 _ => ODone | _ => OFail end)
    | Delete k =>
        let '(svc', r) := s3_serve (DeleteObject k) svc in
        (svc', match r with R404 => OFail | _ => ODone end)
    | Exists k =>
        let '(svc', r) := s3_serve (HeadObject k) svc in
        (svc', match r with R404 => OBool false | _ => OBool true end)
    | Download k | DownloadStream k =>
        let '(svc', r) := s3_serve (GetObject k) svc in
        (svc', match r with R200 d => OData d | R404 => OMissing | R204 => OFail end)
    | ListFiles p =>
        (svc, match s3c_list ps p svc with Some (l, _) => ONames l | None => OFail end)
    end.

  (* number of ListObjectsV2 requests a listing takes (compared with the fake service's log) *)
  Definition s3c_list_pages (ps : nat) (p : P) (svc : s3svc) : nat :=
    match s3c_list ps p svc with Some (_, n) => n | None => 0 end.
End S3.
