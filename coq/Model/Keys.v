(* C17 - symbolic model of key files and add-key chains (Repository._make_key / _instantiate_key / add_key).
   The KDF and the AEAD cipher are parameters; definitions only. *)
From Coq Require Import List Bool.
Import ListNotations.

Section Keys.
Variables Pw Salt Prm UKey Nonce Priv Blob : Type.
Variable kdf : Prm -> Pw -> Salt -> UKey.          (* user key = KDF(params)(password, salt) *)
Variable enc : UKey -> Nonce -> Priv -> Blob.      (* AEAD encryption of the private section *)
Variable dec : UKey -> Blob -> option Priv.        (* None = DecryptionError *)

Record keyfile := { kf_prm : Prm; kf_salt : Salt; kf_blob : Blob }.

(* _make_key + encrypting the private section under the derived user key *)
Definition make_key (prm : Prm) (salt : Salt) (nonce : Nonce) (pw : Pw) (priv : Priv) : keyfile :=
  {| kf_prm := prm; kf_salt := salt; kf_blob := enc (kdf prm pw salt) nonce priv |}.

(* _instantiate_key *)
Definition unlock (k : keyfile) (pw : Pw) : option Priv := dec (kdf (kf_prm k) pw (kf_salt k)) (kf_blob k).

(* one holder of a key: the key file, the password it was made for, the private section it protects *)
Record holder := { h_key : keyfile; h_pw : Pw; h_priv : Priv }.

Inductive op :=
| OpIndependent (pw : Pw) (prm : Prm) (salt : Salt) (nonce : Nonce) (fresh : Priv)   (* add-key: new secrets *)
| OpShared (src : nat) (pw : Pw) (prm : Prm) (salt : Salt) (nonce : Nonce)            (* add-key --shared, run by holder src *)
| OpClone (src : nat) (prm : Prm) (salt : Salt) (nonce : Nonce).                      (* add-key --clone, run by holder src *)

(* shared / clone first unlock the repository with the source holder's key and password and copy
   the private section obtained that way; None = the command fails *)
Definition apply_op (st : list holder) (o : op) : option (list holder) :=
  match o with
  | OpIndependent pw prm salt nonce fresh =>
    Some (st ++ [{| h_key := make_key prm salt nonce pw fresh; h_pw := pw; h_priv := fresh |}])
  | OpShared src pw prm salt nonce =>
    match nth_error st src with
    | Some h => match unlock (h_key h) (h_pw h) with
                | Some p => Some (st ++ [{| h_key := make_key prm salt nonce pw p; h_pw := pw; h_priv := p |}])
                | None => None
                end
    | None => None
    end
  | OpClone src prm salt nonce =>
    match nth_error st src with
    | Some h => match unlock (h_key h) (h_pw h) with
                | Some p => Some (st ++ [{| h_key := make_key prm salt nonce (h_pw h) p; h_pw := h_pw h; h_priv := p |}])
                | None => None
                end
    | None => None
    end
  end.

Fixpoint apply_ops (st : list holder) (ops : list op) : option (list holder) :=
  match ops with
  | [] => Some st
  | o :: r => match apply_op st o with Some st' => apply_ops st' r | None => None end
  end.

(* init creates the first key *)
Definition init_holders (pw : Pw) (prm : Prm) (salt : Salt) (nonce : Nonce) (priv : Priv) : list holder :=
  [{| h_key := make_key prm salt nonce pw priv; h_pw := pw; h_priv := priv |}].

(* who can open whose key file: row i = key of holder i tried with every holder's password *)
Definition unlock_matrix (st : list holder) : list (list bool) :=
  map (fun hi => map (fun hj => match unlock (h_key hi) (h_pw hj) with Some _ => true | None => false end) st) st.
End Keys.

Arguments kf_prm {_ _ _}.
Arguments kf_salt {_ _ _}.
Arguments kf_blob {_ _ _}.
Arguments h_key {_ _ _ _ _}.
Arguments h_pw {_ _ _ _ _}.
Arguments h_priv {_ _ _ _ _}.

(* ------------------------------------------------------------------ a concrete free-constructor instance
   (used to run the model on the harness's chains, and to show the premises are satisfiable) *)
From Coq Require Import NArith.
Definition tkey : Type := (N * N * N)%type.      (* kdf params, password, salt *)
Definition tkdf (prm pw salt : N) : tkey := (prm, pw, salt).
Definition tblob : Type := (tkey * N)%type.
Definition tenc (k : tkey) (_ : N) (m : N) : tblob := (k, m).
Definition tkey_eqb (a b : tkey) : bool :=
  let '(a1, a2, a3) := a in let '(b1, b2, b3) := b in (N.eqb a1 b1 && N.eqb a2 b2 && N.eqb a3 b3)%bool.
Definition tdec (k : tkey) (b : tblob) : option N := if tkey_eqb k (fst b) then Some (snd b) else None.

Inductive top := TIndependent (pw prm salt fresh : N) | TShared (src : nat) (pw prm salt : N) | TClone (src : nat) (prm salt : N).
Definition top_op (o : top) : op N N N N N :=
  match o with
  | TIndependent pw prm salt fresh => OpIndependent _ _ _ _ _ pw prm salt 0%N fresh
  | TShared src pw prm salt => OpShared _ _ _ _ _ src pw prm salt 0%N
  | TClone src prm salt => OpClone _ _ _ _ _ src prm salt 0%N
  end.

(* chain of add-key operations after an init with password pw0: the unlock matrix and the private sections *)
Definition toy_chain (pw0 : N) (ops : list top) : option (list (list bool) * list N) :=
  match apply_ops _ _ _ _ _ _ _ tkdf tenc tdec (init_holders _ _ _ _ _ _ _ tkdf tenc pw0 0%N 0%N 0%N 1000%N) (map top_op ops) with
  | Some st => Some (unlock_matrix _ _ _ _ _ _ tkdf tdec st, map h_priv st)
  | None => None
  end.
