(* Vocabulary of C11 (content-defined boundaries, re-synchronisation) on top of Model/Chunker.v.
   Executable definitions and predicates only; the proofs are in Proofs/ResyncProofs.v. *)
From Coq Require Import List NArith Arith Bool.
From Replicat Require Import Model.Chunker Model.Clmul.
Import ListNotations.

Section Resync.
Context {B : Type}.
Variable hash : list B -> N.

(* value the scan of src/adapters.cpp computes for the candidate cut at offset i of [mem]:
   key(buffer, i) reads the 8 bytes [i-4, i+4) *)
Definition cand (mem : list B) (i : nat) : N := hash (firstn 8 (skipn (i - 4) mem)).

(* after k chunks the chunk list stands at stream offset b *)
Definition boundary_at (chunks : list (list B)) (k b : nat) : Prop :=
  length (concat (firstn k chunks)) = b.

(* all boundary offsets (prefix sums of the chunk lengths), executable *)
Fixpoint boundaries (off : nat) (chunks : list (list B)) : list nat :=
  match chunks with
  | [] => []
  | c :: r => (off + length c) :: boundaries (off + length c) r
  end.

(* position q of stream s is dominant: its hash is positive (a hash of 0 never wins against the
   initial max_value = 0) and strictly greater than that of every other candidate position of the
   same residue mod 4 less than mx away on either side *)
Definition dominant (mx : nat) (s : list B) (q : nat) : Prop :=
  (0 < cand s q)%N /\
  forall p, p <> q -> 4 <= p -> q < p + mx -> p < q + mx -> p mod 4 = q mod 4 ->
            (cand s p < cand s q)%N.

(* the same as a boolean, for computation *)
Definition dominantb (mx : nat) (s : list B) (q : nat) : bool :=
  N.ltb 0 (cand s q) &&
  forallb (fun p => (p =? q) || (p <? 4) || (q + mx <=? p) || negb (p mod 4 =? q mod 4) || N.ltb (cand s p) (cand s q))
          (seq (q + 1 - mx) (2 * mx - 1)).

End Resync.

(* the concrete chunker: boundary offsets of a stream under a key *)
Definition gboundaries (params : list N) (mn mx : nat) (pieces : list (list N)) : list nat :=
  boundaries 0 (gchunkify params mn mx pieces (fun _ => [])).

Definition gkeyf (params : list N) : list N -> N :=
  let key := key_schedule params in keyf (k0_of key) (k1_of key).
