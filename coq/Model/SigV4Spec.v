(* C16 - an independent specification of AWS Signature Version 4 for S3 (single-chunk payload,
   Authorization header), written from the published algorithm and working only from the request
   on the wire (Model.SigV4.wire) and the account (key id, secret, region).  It does not use the
   quoting functions of SigV4Prims.v (py_quote, urlencode_quote, sorted_items); it shares only the
   byte-string type, join, and the byte-string order. *)
From Coq Require Import List NArith Bool String.
From Coq Require Import Strings.Byte.
From Replicat Require Import Model.SigV4Prims Model.SigV4.
Import ListNotations.

(* ------------------------------------------------------------------ UriEncode *)
(* "URI encode every byte except the unreserved characters: 'A'-'Z', 'a'-'z', '0'-'9', '-', '.', '_', and '~'.
    The space character is a reserved character and must be encoded as "%20" (and not as "+").
    Each URI encoded byte is formed by a '%' and the two-digit hexadecimal value of the byte.
    Letters in the hexadecimal value must be uppercase." *)
Definition unreserved (c : byte) : bool :=
  let n := Byte.to_N c in
  ((N.leb 65 n) && (N.leb n 90)) || ((N.leb 97 n) && (N.leb n 122)) || ((N.leb 48 n) && (N.leb n 57))
  || N.eqb n 45 || N.eqb n 46 || N.eqb n 95 || N.eqb n 126.

Definition hex_char (n : N) : byte :=
  match Byte.of_N (if N.ltb n 10 then 48 + n else 55 + n)%N with Some c => c | None => x00 end.

Definition uri_encode_byte (c : byte) : bytes :=
  if unreserved c then [c] else let n := Byte.to_N c in ["%"%byte; hex_char (N.div n 16); hex_char (N.modulo n 16)].
Definition uri_encode (s : bytes) : bytes := flat_map uri_encode_byte s.

(* ------------------------------------------------------------------ percent-decoding of what arrives *)
Definition hex_val (c : byte) : option N :=
  let n := Byte.to_N c in
  if (N.leb 48 n) && (N.leb n 57) then Some (n - 48)%N
  else if (N.leb 65 n) && (N.leb n 70) then Some (n - 55)%N
  else if (N.leb 97 n) && (N.leb n 102) then Some (n - 87)%N
  else None.

(* plus: decode '+' as a space (query strings are decoded the way HTML forms are) *)
Fixpoint pct_decode (plus : bool) (s : bytes) : bytes :=
  match s with
  | [] => []
  | c :: r =>
      if Byte.eqb c "%" then
        match r with
        | h1 :: h2 :: r' =>
            match hex_val h1, hex_val h2 with
            | Some a, Some d => match Byte.of_N (16 * a + d)%N with Some x => x :: pct_decode plus r' | None => c :: pct_decode plus r end
            | _, _ => c :: pct_decode plus r
            end
        | _ => c :: pct_decode plus r
        end
      else if plus && Byte.eqb c "+" then " "%byte :: pct_decode plus r
      else c :: pct_decode plus r
  end.

(* ------------------------------------------------------------------ canonical URI and query *)
(* S3: "URI-encode each path segment" exactly once, no path normalisation *)
Definition canonical_uri (path : bytes) : bytes :=
  join (b "/") (map (fun seg => uri_encode (pct_decode false seg)) (split_on "/" path)).

Definition split_pair (p : bytes) : bytes * bytes :=
  let '(k, v) := split_first "=" p in (k, match v with Some v => v | None => [] end).

(* "URI-encode each parameter name and value; sort the encoded parameter names in ascending order;
    build the string name=value joined by &" *)
Definition canonical_query (q : option bytes) : bytes :=
  match q with
  | None => []
  | Some q =>
      let params := filter truthy (split_on "&" q) in
      let enc := map (fun p => let '(k, v) := split_pair p in (uri_encode (pct_decode true k), uri_encode (pct_decode true v))) params in
      join (b "&") (map (fun kv => fst kv ++ b "=" ++ snd kv) (isort pair_leb enc))
  end.

(* ------------------------------------------------------------------ canonical headers *)
Definition lower_byte (c : byte) : byte :=
  let n := Byte.to_N c in
  if (N.leb 65 n) && (N.leb n 90) then match Byte.of_N (n + 32)%N with Some x => x | None => c end else c.
Definition lower (s : bytes) : bytes := map lower_byte s.

(* Trim: no leading/trailing spaces, sequential spaces collapsed to one *)
Fixpoint collapse (prev_space : bool) (s : bytes) : bytes :=
  match s with
  | [] => []
  | c :: r => if Byte.eqb c " " then (if prev_space then collapse true r else c :: collapse true r)
              else c :: collapse false r
  end.
Definition strip_trailing_space (s : bytes) : bytes :=
  match rev s with c :: r => if Byte.eqb c " " then rev r else s | [] => s end.
Definition trimall (s : bytes) : bytes := strip_trailing_space (collapse true s).

(* all values of the header [name] (lower-case), in order of appearance *)
Definition header_values (hs : list (bytes * bytes)) (name : bytes) : list bytes :=
  map snd (filter (fun h => bytes_eqb (lower (fst h)) name) hs).

Definition canonical_headers (hs : list (bytes * bytes)) (signed : list bytes) : bytes :=
  flat_map (fun name => name ++ b ":" ++ join (b ",") (map trimall (header_values hs name)) ++ nl) signed.

Definition first_value (hs : list (bytes * bytes)) (name : bytes) : bytes :=
  match header_values hs name with v :: _ => v | [] => [] end.

(* ------------------------------------------------------------------ the signature *)
Section Spec.
Variable sha256hex : bytes -> bytes.
Variable hmac : bytes -> bytes -> bytes.
Variable hex : bytes -> bytes.

(* the list of signed header names: the sorted lower-cased names *)
Definition signed_names (names : list bytes) : list bytes := isort bytes_leb (map lower names).

Definition canonical_request_spec (w : wire) (names : list bytes) : bytes :=
  let '(path, q) := split_first "?" (w_target w) in
  let signed := signed_names names in
  join nl [ w_method w; canonical_uri path; canonical_query q; canonical_headers (w_headers w) signed;
            join (b ";") signed; first_value (w_headers w) (b "x-amz-content-sha256") ].

Definition scope_spec (w : wire) (region service : bytes) : bytes :=
  join (b "/") [ firstn 8 (first_value (w_headers w) (b "x-amz-date")); region; service; b "aws4_request" ].

Definition string_to_sign_spec (w : wire) (names : list bytes) (region service : bytes) : bytes :=
  join nl [ b "AWS4-HMAC-SHA256"; first_value (w_headers w) (b "x-amz-date"); scope_spec w region service;
            sha256hex (canonical_request_spec w names) ].

Definition signing_key_spec (secret date region service : bytes) : bytes :=
  hmac (hmac (hmac (hmac (b "AWS4" ++ secret) date) region) service) (b "aws4_request").

Definition signature_spec (w : wire) (names : list bytes) (secret region service : bytes) : bytes :=
  hex (hmac (signing_key_spec secret (firstn 8 (first_value (w_headers w) (b "x-amz-date"))) region service)
            (string_to_sign_spec w names region service)).

(* the Authorization header a correct signer produces for this request *)
Definition authorization_spec (w : wire) (names : list bytes) (key_id secret region service : bytes) : bytes :=
  b "AWS4-HMAC-SHA256 Credential=" ++ key_id ++ b "/" ++ scope_spec w region service
  ++ b ", SignedHeaders=" ++ join (b ";") (signed_names names)
  ++ b ", Signature=" ++ signature_spec w names secret region service.
End Spec.

(* headers that must be signed: host and every x-amz-* header present *)
Definition starts_with (p s : bytes) : bool := bytes_eqb (firstn (List.length p) s) p.
Definition must_sign (hs : list (bytes * bytes)) : list bytes :=
  filter (fun n => bytes_eqb n (b "host") || starts_with (b "x-amz-") n) (map (fun h => lower (fst h)) hs).
