(* Scheduling models for C09 (replicat/repository.py):
   1. connection slots: _acquire_slot / _acquire_slot_threadsafe around every backend transfer;
   2. snapshot pipeline: chunk producer -> bounded queue -> N workers, exit test of _worker;
   3. restore finalisation: per-file sets of pending digests under glock.
   Each is a transition system whose steps may be taken in any order (= any schedule). *)
From Coq Require Import List Arith Bool.
Import ListNotations.

(* ------------------------------------------------------------------ 1. slots *)
Inductive tstate := TIdle | THolding | TDone.
Record slots := { free : nat; tasks : list tstate }.

Definition set_nth {A} (l : list A) (i : nat) (x : A) : list A := firstn i l ++ x :: skipn (S i) l.

(* a transfer = acquire; backend call (succeeds or fails); release in a finally block *)
Inductive sstep : slots -> slots -> Prop :=
| s_acquire s i : nth_error (tasks s) i = Some TIdle -> 0 < free s ->
    sstep s {| free := free s - 1; tasks := set_nth (tasks s) i THolding |}
| s_release s i (failed : bool) : nth_error (tasks s) i = Some THolding ->
    sstep s {| free := free s + 1; tasks := set_nth (tasks s) i TDone |}
| s_again s i : nth_error (tasks s) i = Some TDone ->       (* the same coroutine starts another transfer *)
    sstep s {| free := free s; tasks := set_nth (tasks s) i TIdle |}.

Definition holding (s : slots) : nat := length (filter (fun t => match t with THolding => true | _ => false end) (tasks s)).

(* ------------------------------------------------------------------ 2. snapshot pipeline *)
Record pipe := {
  to_produce : list nat;        (* chunks the producer thread has not yet put on the queue *)
  queue : list nat;
  in_hand : list (option nat);  (* per worker: the chunk it is processing *)
  exited : list bool;           (* per worker: has left its while loop *)
  processed : list nat;         (* chunks whose _chunk_done ran *)
}.
Definition producer_done (p : pipe) : bool := match to_produce p with [] => true | _ => false end.

Inductive pstep (cap : nat) : pipe -> pipe -> Prop :=
| p_put p c rest : to_produce p = c :: rest -> length (queue p) < cap ->
    pstep cap p {| to_produce := rest; queue := queue p ++ [c]; in_hand := in_hand p; exited := exited p; processed := processed p |}
| p_get p w c rest : queue p = c :: rest -> nth_error (in_hand p) w = Some None -> nth_error (exited p) w = Some false ->
    pstep cap p {| to_produce := to_produce p; queue := rest; in_hand := set_nth (in_hand p) w (Some c); exited := exited p; processed := processed p |}
| p_finish p w c : nth_error (in_hand p) w = Some (Some c) ->
    pstep cap p {| to_produce := to_produce p; queue := queue p; in_hand := set_nth (in_hand p) w None; exited := exited p; processed := c :: processed p |}
| p_exit p w : nth_error (in_hand p) w = Some None -> nth_error (exited p) w = Some false ->
    (* while not chunk_queue.empty() or not chunk_producer.done() *)
    queue p = [] -> producer_done p = true ->
    pstep cap p {| to_produce := to_produce p; queue := queue p; in_hand := in_hand p; exited := set_nth (exited p) w true; processed := processed p |}.

Definition in_flight (p : pipe) : list nat := flat_map (fun o => match o with Some c => [c] | None => [] end) (in_hand p).
Definition all_chunks (p : pipe) : list nat := to_produce p ++ queue p ++ in_flight p ++ processed p.
Definition pipe_init (chunks : list nat) (n : nat) : pipe :=
  {| to_produce := chunks; queue := []; in_hand := repeat None n; exited := repeat false n; processed := [] |}.

(* ------------------------------------------------------------------ 3. restore finalisation *)
(* pending: file -> digests still to be written; a loader that finished digest d for file f takes,
   under glock: remove d; if the set became empty, pop the file's metadata and finalise it *)
Definition pending := list (nat * list nat).
Fixpoint remove_nat (d : nat) (l : list nat) : list nat :=
  match l with [] => [] | x :: t => if Nat.eqb x d then t else x :: remove_nat d t end.
Fixpoint finish_digest (f d : nat) (p : pending) : pending * bool :=
  match p with
  | [] => ([], false)
  | (g, ds) :: t =>
    if Nat.eqb g f then
      let ds' := remove_nat d ds in
      match ds' with [] => (t, true) | _ => ((g, ds') :: t, false) end
    else let (t', b) := finish_digest f d t in ((g, ds) :: t', b)
  end.
(* running the events (file, digest) in some order; returns the files finalised, in order *)
Fixpoint run_events (evs : list (nat * nat)) (p : pending) : list nat * pending :=
  match evs with
  | [] => ([], p)
  | (f, d) :: rest =>
    let (p', fin) := finish_digest f d p in
    let (fs, p'') := run_events rest p' in
    ((if fin then [f] else []) ++ fs, p'')
  end.
Definition events_of (p : pending) : list (nat * nat) := flat_map (fun fd => map (fun d => (fst fd, d)) (snd fd)) p.

(* ------------------------------------------------------------------ 1b. slot traces (executable) *)
(* events observed on the real slot queue: a token is taken / put back *)
Inductive sev := EAcq (t : nat) | ERel (t : nat).
Fixpoint remove_tok (t : nat) (l : list nat) : list nat :=
  match l with [] => [] | x :: r => if Nat.eqb x t then r else x :: remove_tok t r end.
(* accepts a trace iff every acquisition takes a token that is free and every release returns a token that
   is out; returns the free tokens at the end, the number still held and the maximum held at any time *)
Fixpoint slot_trace (free : list nat) (evs : list sev) (held maxheld : nat) : option (list nat * nat * nat) :=
  match evs with
  | [] => Some (free, held, maxheld)
  | EAcq t :: r =>
    if existsb (Nat.eqb t) free then slot_trace (remove_tok t free) r (S held) (Nat.max maxheld (S held)) else None
  | ERel t :: r =>
    if existsb (Nat.eqb t) free then None
    else match held with O => None | S h => slot_trace (t :: free) r h maxheld end
  end.

(* ------------------------------------------------------------------ 2b. pipeline traces (executable) *)
(* events observed on the real snapshot pipeline: the producer thread put chunk c on the queue, a worker took c off
   the queue, the backend work for c completed (existence check answered "present", or upload finished) *)
Inductive pev := EvPut (c : nat) | EvGet (c : nat) | EvFin (c : nat).
Fixpoint remove_first (c : nat) (l : list nat) : option (list nat) :=
  match l with
  | [] => None
  | x :: r => if Nat.eqb x c then Some r else match remove_first c r with Some r' => Some (x :: r') | None => None end
  end.
(* accepts a trace iff puts respect the capacity, every get takes the HEAD of the queue, every completion is of a
   chunk some worker holds; returns (queue, in hand, processed) at the end *)
Fixpoint pipe_trace (cap : nat) (q hand done : list nat) (evs : list pev) : option (list nat * list nat * list nat) :=
  match evs with
  | [] => Some (q, hand, done)
  | EvPut c :: r => if length q <? cap then pipe_trace cap (q ++ [c]) hand done r else None
  | EvGet c :: r => match q with x :: q' => if Nat.eqb x c then pipe_trace cap q' (c :: hand) done r else None | [] => None end
  | EvFin c :: r => match remove_first c hand with Some hand' => pipe_trace cap q hand' (c :: done) r | None => None end
  end.
Definition puts_of (evs : list pev) : list nat := flat_map (fun e => match e with EvPut c => [c] | _ => [] end) evs.
