(* Model/LocalBuf.v - one upload of the local backend at the granularity at which a process can DIE:
   the temporary file is opened, data is written into the process's buffer, the library / OS moves buffered bytes to the
   disk whenever it likes (BFlush, adversarial), close moves the rest, rename makes the temporary's inode visible under the
   destination name.  A kill discards the buffer; what is on disk stays.  Executable definitions only. *)
From Coq Require Import List Bool Arith.
Import ListNotations.

Section Buf.
Variable byte : Type.
Definition bytes := list byte.

Inductive bop :=
| BOpen                      (* temp.open('wb') / the open inside write_bytes *)
| BWrite (d : bytes)         (* file.write(piece): into the buffer *)
| BFlush (n : nat)           (* n more buffered bytes reach the disk (any time, any amount) *)
| BClose                     (* everything buffered reaches the disk, the file is closed *)
| BRename.                   (* temp.replace(destination) *)

Record st := { disk : bytes; buf : bytes; is_open : bool; renamed : bool }.
Definition init : st := {| disk := []; buf := []; is_open := false; renamed := false |}.

Definition step (s : st) (o : bop) : st :=
  match o with
  | BOpen => {| disk := []; buf := []; is_open := true; renamed := renamed s |}
  | BWrite d => if is_open s then {| disk := disk s; buf := buf s ++ d; is_open := true; renamed := renamed s |} else s
  | BFlush n => {| disk := disk s ++ firstn n (buf s); buf := skipn n (buf s); is_open := is_open s; renamed := renamed s |}
  | BClose => {| disk := disk s ++ buf s; buf := []; is_open := false; renamed := renamed s |}
  | BRename => {| disk := disk s; buf := buf s; is_open := is_open s; renamed := true |}
  end.
Definition exec (l : list bop) : st := fold_left step l init.

(* what a later process finds under the destination name if this one dies now: the old object (None) until the rename,
   the temporary's DISK contents afterwards *)
Definition visible (s : st) : option bytes := if renamed s then Some (disk s) else None.

Definition written (l : list bop) : bytes := flat_map (fun o => match o with BWrite d => d | _ => [] end) l.
Definition unflush (l : list bop) : list bop := filter (fun o => match o with BFlush _ => false | _ => true end) l.

(* the order check: open, writes, close, rename - and nothing but flushes afterwards.  phase 0 = not opened, 1 = open, 2 = closed,
   3 = renamed *)
Fixpoint ok_scan (phase : nat) (l : list bop) : bool :=
  match l with
  | [] => true
  | BFlush _ :: r => ok_scan phase r
  | BOpen :: r => if Nat.eqb phase 0 then ok_scan 1 r else false
  | BWrite _ :: r => if Nat.eqb phase 1 then ok_scan 1 r else false
  | BClose :: r => if Nat.eqb phase 1 then ok_scan 2 r else false
  | BRename :: r => if Nat.eqb phase 2 then ok_scan 3 r else false
  end.
Definition atomic_order (l : list bop) : bool := ok_scan 0 l.

(* the code skeletons *)
Definition skeleton (pieces : list bytes) : list bop := [BOpen] ++ map BWrite pieces ++ [BClose] ++ [BRename].
End Buf.
Arguments BOpen {byte}. Arguments BWrite {byte}. Arguments BFlush {byte}. Arguments BClose {byte}. Arguments BRename {byte}.
