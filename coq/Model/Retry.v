(* C12 model: the retry machinery (backoff.on_exception with max_tries and giveup; the B2 on_backoff
   handler; utils.requires_auth with its bounded number of re-authentications) as functions over a fault
   sequence, and the adapters' streaming transfers as "attempts" with a fault allowed at every position.
   Definitions only (executable). *)
From Coq Require Import List NArith Bool Arith.
From Replicat Require Import Model.Store.
Import ListNotations.

(* ---- faults *)
Inductive fkind := KOs | KTransport | K5xx | K429 | K401 | K403 | K400.

Record fault := {
  f_before : bool;      (* before the transfer starts: nothing read / no response header seen *)
  f_after : nat;        (* otherwise: number of stream chunks that passed before the fault *)
  f_kind : fkind;
  f_applied : bool      (* the service performed the request but the answer was lost / an error *)
}.

Inductive flavour := FlLocal | FlS3 | FlB2.
Inductive disposition := DRetry | DGiveUp | DAuth.

(* what happens to an exception of this kind raised by one try; last_try = (tries = max_tries) *)
Definition dispose (fl : flavour) (k : fkind) (last_try : bool) : disposition :=
  match fl with
  | FlLocal => if last_try then DGiveUp else DRetry
  | FlS3 => match k with
            | K403 => DGiveUp
            | _ => if last_try then DGiveUp else DRetry
            end
  | FlB2 => match k with
            | K401 => DAuth              (* the response hook raises AuthRequired, which backoff does not catch *)
            | K403 => DGiveUp
            | K429 | KTransport | KOs => if last_try then DGiveUp else DRetry
            | K5xx | K400 => if last_try then DGiveUp else DAuth   (* on_backoff raises AuthRequired *)
            end
  end.

Inductive outcome (R : Type) := Done (r : R) | Failed (k : fkind).
Arguments Done {R}. Arguments Failed {R}.
Inductive result (R : Type) := ROk (r : R) | RError (k : fkind) | RAuthRequired.
Arguments ROk {R}. Arguments RError {R}. Arguments RAuthRequired {R}.

Section Retry.
  Context {St Res : Type}.
  Variable fl : flavour.
  Variable attempt : option fault -> St -> outcome Res * St.

  (* backoff.on_exception(..., max_tries=left, giveup=...): one fault-sequence element per try.
     Returns result, state, unconsumed faults, number of tries made so far *)
  Fixpoint backoff (left : nat) (fs : list (option fault)) (s : St) (cnt : nat)
    : result Res * St * list (option fault) * nat :=
    match left with
    | O => (RError KOs, s, fs, cnt)          (* max_tries = 0 is not a configuration of the code *)
    | S left' =>
        let '(o, s') := attempt (hd None fs) s in
        match o with
        | Done r => (ROk r, s', tl fs, S cnt)
        | Failed k =>
            match dispose fl k (Nat.eqb left' 0) with
            | DGiveUp => (RError k, s', tl fs, S cnt)
            | DAuth => (RAuthRequired, s', tl fs, S cnt)
            | DRetry => backoff left' (tl fs) s' (S cnt)
            end
        end
    end.

  (* utils.requires_auth after the fix of defect 6: at most [reauth] refreshes, then AuthRequired propagates.
     Returns also the number of re-authentications *)
  Fixpoint requires_auth (reauth : nat) (max_tries : nat) (fs : list (option fault)) (s : St) (cnt auths : nat)
    : result Res * St * list (option fault) * nat * nat :=
    let '(r, s', fs', cnt') := backoff max_tries fs s cnt in
    match r with
    | RAuthRequired =>
        match reauth with
        | O => (RAuthRequired, s', fs', cnt', auths)
        | S n => requires_auth n max_tries fs' s' cnt' (S auths)
        end
    | _ => (r, s', fs', cnt', auths)
    end.

  Definition run_method (max_tries reauth : nat) (fs : list (option fault)) (s : St)
    : result Res * St * nat * nat :=
    match fl with
    | FlB2 => let '(r, s', _, cnt, auths) := requires_auth reauth max_tries fs s 0 0 in (r, s', cnt, auths)
    | _ => let '(r, s', _, cnt) := backoff max_tries fs s 0 in (r, s', cnt, 0)
    end.
End Retry.

(* ---- streams and transfers *)
Record stream := { sdata : bytes; spos : nat }.

(* what the except paths and the transfers are assumed to do: discharged from Gen/C12Facts *)
Record facts := {
  fact_rewind : bool;         (* the except path does stream.seek(0) *)
  fact_truncate : bool;       (* downloads truncate the stream to the announced length before writing *)
  fact_unlink_temp : bool     (* local: the except path unlinks the temporary file *)
}.

(* upload_stream: source stream, the object under the name (service / directory), leftover temp files *)
Record ustate := { u_src : stream; u_obj : option bytes; u_temps : nat }.

Definition up_fail (F : facts) (uses_temp : bool) (k : fkind) (newpos : nat) (obj : option bytes) (s : ustate)
  : outcome unit * ustate :=
  (Failed k,
   {| u_src := {| sdata := sdata (u_src s); spos := if fact_rewind F then 0 else newpos |};
      u_obj := obj;
      u_temps := if uses_temp && negb (fact_unlink_temp F) then S (u_temps s) else u_temps s |}).

(* one try of an upload of the stream in chunks of c bytes, announced length = whole payload *)
Definition up_attempt (F : facts) (uses_temp : bool) (c : nat) (f : option fault) (s : ustate)
  : outcome unit * ustate :=
  let data := sdata (u_src s) in
  let pos := spos (u_src s) in
  let avail := skipn pos data in
  let complete := Nat.eqb (length avail) (length data) in
  match f with
  | None =>
      if complete
      then (Done tt, {| u_src := {| sdata := data; spos := length data |}; u_obj := Some avail; u_temps := u_temps s |})
      else up_fail F uses_temp K400 (length data) (u_obj s) s     (* IncompleteBody / digest mismatch *)
  | Some ft =>
      if f_before ft then up_fail F uses_temp (f_kind ft) pos (u_obj s) s
      else if f_applied ft && complete then up_fail F uses_temp (f_kind ft) (length data) (Some avail) s
      else up_fail F uses_temp (f_kind ft) (Nat.min (length data) (pos + f_after ft * c)) (u_obj s) s
  end.

(* download_stream: target stream, the object's bytes *)
Record dstate := { d_dst : stream; d_obj : bytes }.

(* BytesIO: truncate only shrinks; a write at pos overwrites / extends *)
Definition write_at (pos : nat) (w : bytes) (data : bytes) : bytes :=
  firstn pos data ++ repeat 0%N (pos - length data) ++ w ++ skipn (pos + length w) data.

Definition down_fail (F : facts) (k : fkind) (data : bytes) (newpos : nat) (s : dstate) : outcome unit * dstate :=
  (Failed k, {| d_dst := {| sdata := data; spos := if fact_rewind F then 0 else newpos |}; d_obj := d_obj s |}).

Definition down_attempt (F : facts) (c : nat) (f : option fault) (s : dstate) : outcome unit * dstate :=
  let D := d_obj s in
  let pos := spos (d_dst s) in
  let truncated := if fact_truncate F then firstn (length D) (sdata (d_dst s)) else sdata (d_dst s) in
  match f with
  | None => (Done tt, {| d_dst := {| sdata := write_at pos D truncated; spos := pos + length D |}; d_obj := D |})
  | Some ft =>
      if f_before ft then down_fail F (f_kind ft) (sdata (d_dst s)) pos s
      else let w := firstn (f_after ft * c) D in
           down_fail F (f_kind ft) (write_at pos w truncated) (pos + length w) s
  end.

(* the S3 adapter hashes the stream before the first try and must go back to the start *)
Definition s3_prehash (seek0 : bool) (s : ustate) : ustate :=
  {| u_src := {| sdata := sdata (u_src s); spos := if seek0 then 0 else length (sdata (u_src s)) |};
     u_obj := u_obj s; u_temps := u_temps s |}.

Definition all_true : facts := {| fact_rewind := true; fact_truncate := true; fact_unlink_temp := true |}.
