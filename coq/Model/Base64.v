(* Standard base64 (RFC 4648, '+' '/' alphabet, '=' padding) over bytes as [list N]: the executable
   instance of the b64 / unb64 parameters of Model/Json.v used when the model is run against the
   implementation.  Executable definitions only. *)
From Coq Require Import String Ascii List NArith.
Import ListNotations.
Local Open Scope N_scope.

Definition b64_alphabet : string := "ABCDEFGHIJKLMNOPQRSTUVWXYZabcdefghijklmnopqrstuvwxyz0123456789+/".
Definition b64_char (n : N) : ascii :=
  match String.get (N.to_nat n) b64_alphabet with Some c => c | None => "="%char end.
Fixpoint b64_index (c : ascii) (s : string) (i : N) : option N :=
  match s with
  | EmptyString => None
  | String a t => if Ascii.eqb a c then Some i else b64_index c t (i + 1)
  end.
Definition b64_val (c : ascii) : option N := b64_index c b64_alphabet 0.

Fixpoint b64_encode (l : list N) : string :=
  match l with
  | a :: b :: c :: t =>
    let n := a * 65536 + b * 256 + c in
    String (b64_char (n / 262144)) (String (b64_char ((n / 4096) mod 64))
      (String (b64_char ((n / 64) mod 64)) (String (b64_char (n mod 64)) (b64_encode t))))
  | [a; b] =>
    let n := a * 65536 + b * 256 in
    String (b64_char (n / 262144)) (String (b64_char ((n / 4096) mod 64)) (String (b64_char ((n / 64) mod 64)) "="))
  | [a] =>
    let n := a * 65536 in
    String (b64_char (n / 262144)) (String (b64_char ((n / 4096) mod 64)) "==")
  | [] => ""%string
  end.

Fixpoint b64_decode (s : string) : list N :=
  match s with
  | String c1 (String c2 (String c3 (String c4 t))) =>
    match b64_val c1, b64_val c2 with
    | Some v1, Some v2 =>
      match b64_val c3, b64_val c4 with
      | Some v3, Some v4 =>
        let n := v1 * 262144 + v2 * 4096 + v3 * 64 + v4 in
        (n / 65536) :: ((n / 256) mod 256) :: (n mod 256) :: b64_decode t
      | Some v3, None =>
        let n := v1 * 262144 + v2 * 4096 + v3 * 64 in [n / 65536; (n / 256) mod 256]
      | None, _ =>
        let n := v1 * 262144 + v2 * 4096 in [n / 65536]
      end
    | _, _ => []
    end
  | _ => []
  end.
