(* Python str operations over Coq [string] (ASCII), as used by the location codec of
   replicat/repository.py: slicing with constant bounds, startswith, rpartition / rsplit on a
   one-character separator, posixpath.join, indexing with IndexError as [None], and the lower-case
   hex predicate of bytes.hex().  Definitions first, lemmas after. *)
From Coq Require Import String Ascii List Arith Bool Lia.
Import ListNotations.
Local Open Scope string_scope.

(* ------------------------------------------------------------------ option plumbing *)
Definition obind {A B} (o : option A) (f : A -> option B) : option B :=
  match o with Some a => f a | None => None end.
(* a + b where either side may have raised *)
Definition oconcat (a b : option string) : option string :=
  obind a (fun x => obind b (fun y => Some (x ++ y))).
Definition opair {A B} (a : option A) (b : option B) : option (A * B) :=
  obind a (fun x => obind b (fun y => Some (x, y))).

(* ------------------------------------------------------------------ slicing *)
Fixpoint take (n : nat) (s : string) : string :=
  match n, s with
  | S n', String c s' => String c (take n' s')
  | _, _ => ""
  end.
Fixpoint drop (n : nat) (s : string) : string :=
  match n, s with
  | S n', String _ s' => drop n' s'
  | _, _ => s
  end.
(* s[lo:hi] for constant non-negative bounds, either of which may be omitted *)
Definition py_slice (s : string) (lo hi : option nat) : string :=
  let l := match lo with Some a => a | None => 0 end in
  match hi with
  | Some b => take (b - l) (drop l s)
  | None => drop l s
  end.

(* ------------------------------------------------------------------ predicates *)
Fixpoint startswith (p s : string) : bool :=
  match p, s with
  | "", _ => true
  | String a p', String b s' => Ascii.eqb a b && startswith p' s'
  | _, _ => false
  end.
Fixpoint has_char (c : ascii) (s : string) : bool :=
  match s with "" => false | String a s' => Ascii.eqb a c || has_char c s' end.
Fixpoint last_is (c : ascii) (s : string) : bool :=
  match s with
  | "" => false
  | String a "" => Ascii.eqb a c
  | String _ s' => last_is c s'
  end.
Definition is_hex_char (c : ascii) : bool :=
  let n := nat_of_ascii c in (Nat.leb 48 n && Nat.leb n 57) || (Nat.leb 97 n && Nat.leb n 102).
Fixpoint is_hex (s : string) : bool :=
  match s with "" => true | String a s' => is_hex_char a && is_hex s' end.

(* ------------------------------------------------------------------ rpartition / rsplit *)
(* split at the LAST occurrence of c *)
Fixpoint rsplit1 (c : ascii) (s : string) : option (string * string) :=
  match s with
  | "" => None
  | String a s' =>
    match rsplit1 c s' with
    | Some (h, t) => Some (String a h, t)
    | None => if Ascii.eqb a c then Some ("", s') else None
    end
  end.
(* s.rpartition(c) = (head, sep, tail); ('', '', s) when c does not occur *)
Definition rpartition (c : ascii) (s : string) : string * string * string :=
  match rsplit1 c s with
  | Some (h, t) => (h, String c "", t)
  | None => ("", "", s)
  end.
Definition rp_head (r : string * string * string) : string := fst (fst r).
Definition rp_tail (r : string * string * string) : string := snd r.
(* s.rsplit(c, n): at most n splits, from the right *)
Fixpoint rsplit (c : ascii) (n : nat) (s : string) : list string :=
  match n with
  | 0 => [s]
  | S n' => match rsplit1 c s with
            | Some (h, t) => (rsplit c n' h ++ [t])%list
            | None => [s]
            end
  end.
(* parts[i]; IndexError = None *)
Definition py_index (l : list string) (i : nat) : option string := nth_error l i.

(* ------------------------------------------------------------------ posixpath.join *)
Definition join2 (path b : string) : string :=
  if startswith "/" b then b
  else if (match path with "" => true | _ => false end) || last_is "/" path then path ++ b
  else path ++ "/" ++ b.
Definition posix_join (a : string) (ps : list string) : string := fold_left join2 ps a.

(* ================================================================== lemmas *)
Lemma append_nil_r (s : string) : s ++ "" = s.
Proof. induction s as [|a s IH]; cbn; [reflexivity | rewrite IH; reflexivity]. Qed.

Lemma append_assoc (a b c : string) : (a ++ b) ++ c = a ++ (b ++ c).
Proof. induction a as [|x a IH]; cbn; [reflexivity | rewrite IH; reflexivity]. Qed.

Lemma length_append (a b : string) : String.length (a ++ b) = String.length a + String.length b.
Proof. induction a as [|x a IH]; cbn; [reflexivity | rewrite IH; reflexivity]. Qed.

Lemma take_drop (n : nat) : forall s, take n s ++ drop n s = s.
Proof.
  induction n as [|n IH]; intros s; [reflexivity|].
  destruct s as [|a s]; cbn; [reflexivity | rewrite IH; reflexivity].
Qed.

Lemma take_length (n : nat) : forall s, n <= String.length s -> String.length (take n s) = n.
Proof.
  induction n as [|n IH]; intros s H; [reflexivity|].
  destruct s as [|a s]; cbn in *; [lia | rewrite IH by lia; reflexivity].
Qed.

Lemma drop_length (n : nat) : forall s, String.length (drop n s) = String.length s - n.
Proof.
  induction n as [|n IH]; intros s; cbn; [lia|].
  destruct s as [|a s]; cbn; [reflexivity | apply IH].
Qed.

Lemma drop_drop (n m : nat) : forall s, drop m (drop n s) = drop (n + m) s.
Proof.
  induction n as [|n IH]; intros s; [reflexivity|].
  destruct s as [|a s]; cbn; [destruct m; reflexivity | apply IH].
Qed.

(* tag = tag[:2] + tag[2:4] + tag[4:] *)
Lemma slices_2_4 (s : string) :
  py_slice s None (Some 2) ++ py_slice s (Some 2) (Some 4) ++ py_slice s (Some 4) None = s.
Proof.
  change (take 2 s ++ take 2 (drop 2 s) ++ drop 4 s = s).
  replace (drop 4 s) with (drop 2 (drop 2 s)) by (rewrite drop_drop; reflexivity).
  rewrite take_drop. apply take_drop.
Qed.
Lemma slices_2 (s : string) : py_slice s None (Some 2) ++ py_slice s (Some 2) None = s.
Proof. change (take 2 s ++ drop 2 s = s). apply take_drop. Qed.

Lemma has_char_app c (a b : string) : has_char c (a ++ b) = has_char c a || has_char c b.
Proof. induction a as [|x a IH]; cbn; [reflexivity | rewrite IH, orb_assoc; reflexivity]. Qed.

Lemma has_char_take c n : forall s, has_char c s = false -> has_char c (take n s) = false.
Proof.
  induction n as [|n IH]; intros s H; [reflexivity|].
  destruct s as [|a s]; cbn in *; [reflexivity|].
  apply orb_false_iff in H. destruct H as [H1 H2]. rewrite H1, IH by exact H2. reflexivity.
Qed.
Lemma has_char_drop c n : forall s, has_char c s = false -> has_char c (drop n s) = false.
Proof.
  induction n as [|n IH]; intros s H; [exact H|].
  destruct s as [|a s]; cbn in *; [reflexivity|].
  apply orb_false_iff in H. apply IH. apply H.
Qed.
Lemma has_char_slice c s lo hi : has_char c s = false -> has_char c (py_slice s lo hi) = false.
Proof.
  intros H. unfold py_slice. destruct hi; [apply has_char_take|]; apply has_char_drop; exact H.
Qed.

Lemma is_hex_char_not c a : is_hex_char a = true -> is_hex_char c = false -> Ascii.eqb a c = false.
Proof.
  intros Ha Hc. destruct (Ascii.eqb a c) eqn:E; [|reflexivity].
  apply Ascii.eqb_eq in E. subst. congruence.
Qed.
Lemma is_hex_no_char c s : is_hex_char c = false -> is_hex s = true -> has_char c s = false.
Proof.
  intros Hc. induction s as [|a s IH]; cbn; [reflexivity|]. intros H.
  apply andb_true_iff in H. destruct H as [H1 H2].
  rewrite (is_hex_char_not c a H1 Hc), IH by exact H2. reflexivity.
Qed.

Lemma startswith_app (p s : string) : startswith p (p ++ s) = true.
Proof. induction p as [|a p IH]; cbn; [reflexivity | rewrite Ascii.eqb_refl; exact IH]. Qed.

Lemma startswith_no_char c (s : string) : has_char c s = false -> startswith (String c "") s = false.
Proof.
  destruct s as [|a s]; cbn; [reflexivity|]. intros H. apply orb_false_iff in H. destruct H as [H _].
  rewrite Ascii.eqb_sym, H. reflexivity.
Qed.

Lemma last_is_app c (p a : string) : a <> "" -> last_is c (p ++ a) = last_is c a.
Proof.
  intros Ha. induction p as [|x p IH]; [reflexivity|].
  cbn [append]. cbn [last_is]. destruct (p ++ a) eqn:E; [|exact IH].
  destruct p; cbn in E; [contradiction | discriminate].
Qed.
Lemma last_is_no_char c (a : string) : has_char c a = false -> last_is c a = false.
Proof.
  induction a as [|x a IH]; [reflexivity|]. cbn [has_char]. intros H.
  apply orb_false_iff in H. destruct H as [H1 H2]. cbn [last_is].
  destruct a; [exact H1 | apply IH; exact H2].
Qed.

(* joining onto a path that ends in '/', or onto a non-empty separator-free segment *)
Lemma join2_after_slash (p b : string) : startswith "/" b = false -> join2 (p ++ "/") b = p ++ "/" ++ b.
Proof.
  intros Hb. unfold join2. rewrite Hb, last_is_app by discriminate. cbn [last_is].
  rewrite Ascii.eqb_refl, orb_true_r. apply append_assoc.
Qed.
Lemma join2_after_seg (p a b : string) : a <> "" -> has_char "/" a = false -> startswith "/" b = false ->
  join2 (p ++ a) b = p ++ a ++ "/" ++ b.
Proof.
  intros Ha Hs Hb. unfold join2. rewrite Hb, last_is_app, (last_is_no_char _ _ Hs) by exact Ha.
  destruct (p ++ a) eqn:E; [destruct p; cbn in E; [contradiction | discriminate]|].
  cbn [orb]. rewrite <- E. apply append_assoc.
Qed.

Lemma rsplit1_none c (t : string) : has_char c t = false -> rsplit1 c t = None.
Proof.
  induction t as [|a t IH]; [reflexivity|]. cbn [has_char rsplit1]. intros H.
  apply orb_false_iff in H. destruct H as [H1 H2]. rewrite IH, H1 by exact H2. reflexivity.
Qed.
(* the last occurrence: everything after it is free of c *)
Lemma rsplit1_app c (h t : string) : has_char c t = false -> rsplit1 c (h ++ String c t) = Some (h, t).
Proof.
  intros Ht. induction h as [|a h IH]; cbn [append rsplit1].
  - rewrite (rsplit1_none _ _ Ht), Ascii.eqb_refl. reflexivity.
  - rewrite IH. reflexivity.
Qed.
Lemma rpartition_app c (h t : string) : has_char c t = false ->
  rpartition c (h ++ String c t) = (h, String c "", t).
Proof. intros Ht. unfold rpartition. rewrite rsplit1_app by exact Ht. reflexivity. Qed.
Lemma rsplit_S_app c n (h t : string) : has_char c t = false ->
  rsplit c (S n) (h ++ String c t) = (rsplit c n h ++ [t])%list.
Proof. intros Ht. cbn [rsplit]. rewrite rsplit1_app by exact Ht. reflexivity. Qed.

Lemma take_nonempty n (s : string) : 0 < n -> s <> "" -> take n s <> "".
Proof. intros Hn Hs. destruct n; [lia|]. destruct s; [contradiction | discriminate]. Qed.
Lemma length_zero (s : string) : String.length s = 0 -> s = "".
Proof. destruct s; [reflexivity | discriminate]. Qed.
