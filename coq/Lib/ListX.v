(* List helpers shared by the models: Python slicing l[a:b] as [sub l a b]. *)
From Coq Require Import List Arith Lia.
Import ListNotations.

Section ListX.
Context {A : Type}.

Definition sub (l : list A) (a b : nat) : list A := firstn (b - a) (skipn a l).

Lemma skipn_add (a b : nat) : forall l : list A, skipn (a + b) l = skipn b (skipn a l).
Proof.
  induction a as [|a IH]; intros l; [reflexivity|].
  destruct l as [|x l]; cbn [plus skipn]; [rewrite skipn_nil; reflexivity | apply IH].
Qed.

Lemma sub_length l a b : b <= length l -> length (sub l a b) = b - a.
Proof. intros H. unfold sub. rewrite firstn_length, skipn_length. lia. Qed.

Lemma sub_nil_ge l a b : b <= a -> sub l a b = [].
Proof. intros H. unfold sub. replace (b - a) with 0 by lia. reflexivity. Qed.

Lemma sub_nil_past l a b : length l <= a -> sub l a b = [].
Proof. intros H. unfold sub. rewrite skipn_all2 by exact H. apply firstn_nil. Qed.

Lemma sub_full l : sub l 0 (length l) = l.
Proof. unfold sub. rewrite Nat.sub_0_r. cbn [skipn]. apply firstn_all. Qed.

(* l[a:b] of a concatenation splits into the parts falling into each half *)
Lemma sub_app (c r : list A) a b : a <= b ->
  sub (c ++ r) a b = sub c (Nat.min a (length c)) (Nat.min b (length c)) ++ sub r (a - length c) (b - length c).
Proof.
  intros Hab. unfold sub. rewrite skipn_app, firstn_app, skipn_length.
  f_equal.
  - destruct (Nat.le_gt_cases a (length c)) as [H|H].
    + rewrite (Nat.min_l a) by exact H.
      destruct (Nat.le_gt_cases b (length c)) as [H'|H'].
      * rewrite (Nat.min_l b) by exact H'. reflexivity.
      * rewrite (Nat.min_r b) by lia. rewrite !firstn_all2; [reflexivity| |]; rewrite skipn_length; lia.
    + rewrite (Nat.min_r a) by lia. rewrite (@skipn_all2 _ a c) by lia. rewrite (@skipn_all2 _ (length c) c) by lia.
      rewrite !firstn_nil. reflexivity.
  - f_equal. lia.
Qed.

Lemma firstn_add (p q : nat) : forall l : list A, firstn (p + q) l = firstn p l ++ firstn q (skipn p l).
Proof.
  induction p as [|p IH]; intros l; [reflexivity|].
  destruct l as [|x l]; cbn [plus firstn skipn app]; [rewrite firstn_nil; reflexivity|].
  f_equal. apply IH.
Qed.

Lemma sub_split l a m b : a <= m -> m <= b -> sub l a b = sub l a m ++ sub l m b.
Proof.
  intros H1 H2. unfold sub.
  replace (b - a) with ((m - a) + (b - m)) by lia.
  rewrite firstn_add. f_equal. rewrite <- skipn_add.
  replace (a + (m - a)) with m by lia. reflexivity.
Qed.

Lemma nth_firstn_lt (d : A) : forall n i (l : list A), i < n -> nth i (firstn n l) d = nth i l d.
Proof.
  induction n as [|n IH]; intros i l Hi; [lia|].
  destruct l as [|x l]; [destruct i; reflexivity|].
  destruct i as [|i]; cbn [firstn nth]; [reflexivity|]. apply IH. lia.
Qed.

Lemma nth_skipn_add (d : A) : forall n i (l : list A), nth i (skipn n l) d = nth (n + i) l d.
Proof.
  induction n as [|n IH]; intros i l; [reflexivity|].
  destruct l as [|x l]; cbn [skipn plus nth]; [destruct i; reflexivity | apply IH].
Qed.

End ListX.

Lemma Forall2_imp {A B} (P Q : A -> B -> Prop) l1 l2 :
  (forall a b, P a b -> Q a b) -> Forall2 P l1 l2 -> Forall2 Q l1 l2.
Proof. intros H F. induction F; constructor; auto. Qed.

Lemma Forall2_map_l {A A' B} (g : A -> A') (P : A' -> B -> Prop) l1 l2 :
  Forall2 (fun a b => P (g a) b) l1 l2 -> Forall2 P (map g l1) l2.
Proof. intros F. induction F; cbn [map]; constructor; auto. Qed.

Lemma filter_true {A} (l : list A) : filter (fun _ => true) l = l.
Proof. induction l as [|x t IH]; cbn [filter]; [reflexivity | f_equal; exact IH]. Qed.

Lemma NoDup_snoc {A} (x : A) : forall t, NoDup t -> ~ In x t -> NoDup (t ++ [x]).
Proof.
  induction t as [|y t IH]; intros Hn Hx; cbn [app]; [repeat constructor; intros []|].
  inversion Hn as [|? ? Hy Ht]; subst. constructor.
  - rewrite in_app_iff. intros [H|[H|[]]]; [contradiction|]. subst. apply Hx. left. reflexivity.
  - apply IH; [exact Ht|]. intros H. apply Hx. right. exact H.
Qed.
