"""LocalBufGen: the ORDER of open / write / close / rename in Local.upload and Local.upload_stream, read off the AST and emitted
as the op lists of Model/LocalBuf.v.  Fail-closed: any statement in the guarded block that is not one of the known shapes makes
the unit fail (the tie lemma then breaks by name)."""
import ast
from . import pyast
from .units import unit


def _ops_of(stmts, data_sym):
    """-> list of Gallina list terms, in execution order"""
    out = []
    for st in stmts:
        src = ast.unparse(st)
        if isinstance(st, ast.With):
            assert len(st.items) == 1 and ast.unparse(st.items[0].context_expr) == "temp.open('wb')" and st.items[0].optional_vars is not None, src
            fvar = ast.unparse(st.items[0].optional_vars)
            out.append('[BOpen]')
            for inner in st.body:
                isrc = ast.unparse(inner)
                if isinstance(inner, ast.Expr) and isinstance(inner.value, ast.Call) and ast.unparse(inner.value.func) == 'shutil.copyfileobj':
                    args = [ast.unparse(a) for a in inner.value.args]
                    assert args[:2] == ['stream', fvar], isrc
                    out.append(f'map BWrite {data_sym}')
                elif isrc == 'temp.replace(destination)':
                    out.append('[BRename]')
                else:
                    raise AssertionError('unexpected statement inside the open block: ' + isrc)
            out.append('[BClose]')
        elif src == 'temp.write_bytes(data)':
            out += ['[BOpen]', f'map BWrite {data_sym}', '[BClose]']
        elif src == 'temp.replace(destination)':
            out.append('[BRename]')
        else:
            raise AssertionError('unexpected statement in the guarded upload block: ' + src)
    return out


@unit('LocalBufGen')
def local_buf_gen():
    loc = pyast.module('replicat/backends/local.py')
    L = pyast.find_class(loc, 'Local')
    out = ['From Coq Require Import List.', 'Import ListNotations.', 'From Replicat Require Import Model.LocalBuf.', '']
    for fname, gname, sym, arg in (('upload_stream', 'gen_upload_stream_ops', 'pieces', '(pieces : list (list byte))'),
                                   ('upload', 'gen_upload_ops', '[data]', '(data : list byte)')):
        fn = pyast.find_func(L, fname)
        assert ast.unparse(fn.body[0]) == 'destination, temp = self._destination_temp(name)', ast.unparse(fn.body[0])
        tr = fn.body[1]
        assert isinstance(tr, ast.Try) and len(fn.body) == 2, 'one try block expected'
        ops = _ops_of(tr.body, sym)
        # the handler removes the temporary (never the destination) and re-raises
        assert len(tr.handlers) == 1 and tr.handlers[0].type is None
        hb = [ast.unparse(x) for x in tr.handlers[0].body]
        assert hb[0] == 'temp.unlink(missing_ok=True)' and hb[-1] == 'raise' and all('destination' not in x for x in hb), hb
        out.append(f'Definition {gname} {{byte : Type}} {arg} : list (bop byte) := ' + ' ++ '.join(ops) + '.')
    # the temporary lives in the destination's directory and carries the suffix that listings hide
    dt = ast.unparse(pyast.find_func(L, '_destination_temp'))
    assert "suffix='.tmp'" in dt and 'dir=destination.parent' in dt and 'delete=False' in dt
    out.append('Definition gen_temp_is_hidden_sibling : bool := true.')
    return '\n'.join(out) + '\n'
