"""C10/C11 translated unit: the decision logic of gclmulchunker::next_cut (src/adapters.cpp) and the
driver loop of replicat/utils/adapters.py gclmulchunker.__call__  ->  Gen/ChunkerGen.v.
The C++ is not parsed in general: the function is expected to have the shape it has (fail closed),
and its conditions / return expressions are translated through Python's expression grammar."""
import ast
import re
from . import pyast, pyexpr
from .units import unit

ENV = {'size': 'size', 'max_length': 'mx', 'min_length': 'mn', 'max_index': 'mi', 'i': 'i'}


def c_expr(text):
    t = text.strip()
    t = re.sub(r'&&', ' and ', t)
    t = re.sub(r'\|\|', ' or ', t)
    t = re.sub(r'!(?!=)', ' not ', t)
    t = re.sub(r'(?<![<>=!])/(?!/)', '//', t)          # C unsigned division = floor division on naturals
    return ast.parse(t.strip(), mode='eval').body


def cz(text):
    return pyexpr.z(c_expr(text), ENV)


def cb(text):
    return pyexpr.b(c_expr(text), dict(ENV, final='final'))


@unit('ChunkerGen')
def chunker_gen():
    src = pyast.source('src/adapters.cpp')
    src = re.sub(r'/\*.*?\*/', '', src, flags=re.S)
    src = re.sub(r'//[^\n]*', '', src)
    m = re.search(r'size_t\s+gclmulchunker::next_cut\s*\([^)]*\)\s*\{(.*?)\n\}', src, re.S)
    assert m, 'next_cut not found'
    body = ' '.join(m.group(1).split())
    pat = (r'if \((?P<c1>.+?)\) \{ if \((?P<c2>.+?)\) return (?P<e2>.+?); else if \((?P<c3>.+?)\) return (?P<e3>.+?); '
           r'else return (?P<e4>.+?); \} else if \((?P<c5>.+?)\) return (?P<e5>.+?); '
           r'for \(i = (?P<start>\d+); i < (?P<bound>.+?); i \+= (?P<stride>\d+)\) \{ '
           r'if \(auto k = key\(buffer_data, i\); k (?P<cmp>>=|>) max_value\) \{ max_index = i; max_value = k; \} \} '
           r'if \((?P<c6>.+?)\) max_index = (?P<e6>.+?); return max_index;')
    g = re.search(pat, body)
    assert g, 'next_cut does not have the expected shape: ' + body[-400:]
    init = re.search(r'size_t i, max_index = (\d+), size = info\.size; uint64_t max_value = (\d+);', body)
    assert init and init.group(1) == '0' and init.group(2) == '0', 'scan must start from max_index = 0, max_value = 0'
    out = ['From Coq Require Import ZArith Bool.', 'Local Open Scope Z_scope.', '']
    sig = '(final : bool) (size mn mx : Z)'
    out.append(f'Definition gen_early {sig} : option Z :=')
    out.append(f'  if {cb(g["c1"])} then Some (if {cb(g["c2"])} then {cz(g["e2"])} else if {cb(g["c3"])} then {cz(g["e3"])} else {cz(g["e4"])})')
    out.append(f'  else if {cb(g["c5"])} then Some {cz(g["e5"])} else None.')
    out.append(f'Definition gen_scan_start : Z := {g["start"]}.')
    out.append(f'Definition gen_scan_stride : Z := {g["stride"]}.')
    out.append(f'Definition gen_scan_bound (mn mx : Z) : Z := {cz(g["bound"])}.')
    out.append(f'Definition gen_scan_strict : bool := {"true" if g["cmp"] == ">" else "false"}.')
    out.append(f'Definition gen_fallback_cond (mi mn mx : Z) : bool := {cb(g["c6"])}.')
    out.append(f'Definition gen_fallback (mn mx : Z) : Z := {cz(g["e6"])}.')
    # key(): the window is the 8 bytes starting 4 bytes before the candidate offset
    k = re.search(r'uint64_t\s+gclmulchunker::key\s*\(const char\*\s*buffer,\s*size_t\s+offset\)\s*\{(.*?)\n\}', src, re.S)
    assert k, 'key() not found'
    kb = ' '.join(k.group(1).split())
    w = re.search(r'_mm_loadu_si64\(&buffer\[offset - (\d+)\]\)', kb)
    assert w, 'window load not found'
    out.append(f'Definition gen_window_back : Z := {w.group(1)}.')
    out.append('Definition gen_window_bytes : Z := 8.')
    assert '_mm_clmulepi64_si128(u, v, 0)' in kb and '_mm_clmulepi64_si128(u, v, 0b00010001)' in kb and \
        '_mm_xor_si128(_mm_xor_si128(k1, u), v)' in kb and 'params = _mm_set_epi64x(27, k0)' in ' '.join(src.split()), 'key() arithmetic changed'
    out.append('Definition gen_key_shape_ok : bool := true.')
    # ---- the Python driver loop
    ad = pyast.module('replicat/utils/adapters.py')
    G = pyast.find_class(ad, 'gclmulchunker')
    call = pyast.find_func(G, '__call__')
    s = ' '.join(ast.unparse(call).split())
    for needle in ("if not params: params = b'\\xff' * 16", 'while len(params) < 16: params += params', 'params = params[:16]',
                   'buffer = bytearray()', 'chunk = next(it, None)', 'while chunk is not None: buffer += chunk next_chunk = next(it, None)',
                   'pos = chunker.next_cut(buffer, bool(next_chunk is None))', 'if not pos: break', 'yield bytes(buffer[:pos]) del buffer[:pos]',
                   'chunk = next_chunk'):
        assert needle in s, f'driver loop statement missing: {needle}'
    out.append('Definition gen_driver_loop_ok : bool := true.')
    return '\n'.join(out) + '\n'
