"""C20 translated unit: coq/Gen/RateLimitGen.v from replicat/utils/__init__.py (RateLimitedIO,
_RateLimitedFileWrapper, TQDMIO*) and the rate-limited sites of replicat/repository.py.
Fail closed: any statement/expression outside the small whitelist raises."""
import ast
from fractions import Fraction

from . import pyast
from .units import unit

UTILS = 'replicat/utils/__init__.py'
REPOSITORY = 'replicat/repository.py'


class Shape(Exception):
    pass


def need(cond, msg):
    if not cond:
        raise Shape(msg)


def is_self_attr(node, attr=None):
    return (isinstance(node, ast.Attribute) and isinstance(node.value, ast.Name) and node.value.id == 'self'
            and (attr is None or node.attr == attr))


def is_call_to(node, dotted):
    """node is Call whose func is the dotted name, e.g. 'time.perf_counter'"""
    if not isinstance(node, ast.Call):
        return False
    return pyast.unparse(node.func) == dotted


def qlit(x):
    f = Fraction(x)   # exact value of the float literal
    need(f.denominator > 0, 'bad constant')
    return f'({f.numerator} # {f.denominator})'


class Tr:
    """expression translator; env maps python spellings to Gallina identifiers"""

    def __init__(self, env):
        self.env = env

    def expr(self, n):
        key = pyast.unparse(n)
        if key in self.env:
            return self.env[key]
        if isinstance(n, ast.Constant) and isinstance(n.value, (int, float)) and not isinstance(n.value, bool):
            return '0' if n.value == 0 else qlit(n.value)
        if isinstance(n, ast.BinOp) and isinstance(n.op, (ast.Add, ast.Sub, ast.Div)):
            op = {ast.Add: '+', ast.Sub: '-', ast.Div: '/'}[type(n.op)]
            return f'({self.expr(n.left)} {op} {self.expr(n.right)})'
        if is_call_to(n, 'time.perf_counter') and not n.args and not n.keywords:
            return 'clock'
        if is_call_to(n, 'max') and len(n.args) == 2 and not n.keywords:
            return f'(py_max {self.expr(n.args[0])} {self.expr(n.args[1])})'
        if is_call_to(n, 'len') and len(n.args) == 1 and not n.keywords:
            return f'(len {self.expr(n.args[0])})'
        raise Shape(f'expression not in the whitelist: {key}')

    def test(self, n):
        need(isinstance(n, ast.Compare) and len(n.ops) == 1, f'test not a simple comparison: {pyast.unparse(n)}')
        a, b = self.expr(n.left), self.expr(n.comparators[0])
        op = n.ops[0]
        if isinstance(op, ast.Gt):
            return f'negb (Qle_bool {a} {b})'
        if isinstance(op, ast.LtE):
            return f'Qle_bool {a} {b}'
        if isinstance(op, ast.Lt):
            return f'negb (Qle_bool {b} {a})'
        if isinstance(op, ast.GtE):
            return f'Qle_bool {b} {a}'
        raise Shape(f'comparison not in the whitelist: {pyast.unparse(n)}')


def tr_pause(fn, attr, lock):
    """RateLimitedIO.pause_reads / pause_writes -> Gallina body (clock, amortised, slept)"""
    need([a.arg for a in fn.args.args] == ['self', 'seconds'] and not fn.args.defaults, f'{fn.name}: signature')
    need(len(fn.body) == 1 and isinstance(fn.body[0], ast.With), f'{fn.name}: body is not one with-block')
    w = fn.body[0]
    need(len(w.items) == 1 and is_self_attr(w.items[0].context_expr, lock) and w.items[0].optional_vars is None,
         f'{fn.name}: not under self.{lock}')
    env = {f'self.{attr}': 'amortised', 'self.PAUSE_LIMIT': 'PAUSE_LIMIT',
           'self.PAUSE_THRESHOLD_SECONDS': 'PAUSE_THRESHOLD_SECONDS', 'seconds': 'seconds'}
    tr = Tr(env)
    lines = []
    slept = [None]

    def ret():
        return f'(clock, amortised, {slept[0] or "0"})'

    def target(t):
        if is_self_attr(t, attr):
            return 'amortised'
        if isinstance(t, ast.Name) and t.id not in ('clock', 'amortised', 'seconds', 'over', 'slept'):
            env[t.id] = t.id
            return t.id
        raise Shape(f'{fn.name}: assignment target {pyast.unparse(t)}')

    for st in w.body:
        if isinstance(st, ast.AugAssign) and isinstance(st.op, (ast.Add, ast.Sub)):
            v = tr.expr(st.value)
            t = target(st.target)
            op = '+' if isinstance(st.op, ast.Add) else '-'
            lines.append(f'let {t} := {t} {op} {v} in')
        elif isinstance(st, ast.Assign) and len(st.targets) == 1:
            v = tr.expr(st.value)
            lines.append(f'let {target(st.targets[0])} := {v} in')
        elif isinstance(st, ast.If) and not st.orelse and len(st.body) == 1 and isinstance(st.body[0], ast.Return) \
                and st.body[0].value is None:
            lines.append(f'if {tr.test(st.test)} then {ret()} else')
        elif isinstance(st, ast.If) and not st.orelse and len(st.body) == 1 and isinstance(st.body[0], ast.Assign) \
                and len(st.body[0].targets) == 1:
            c = tr.test(st.test)
            v = tr.expr(st.body[0].value)
            t = target(st.body[0].targets[0])
            lines.append(f'let {t} := if {c} then {v} else {t} in')
        elif isinstance(st, ast.Expr) and is_call_to(st.value, 'time.sleep') and len(st.value.args) == 1 and not st.value.keywords:
            need(slept[0] is None, f'{fn.name}: more than one sleep')
            v = tr.expr(st.value.args[0])
            lines.append(f'let slept := {v} in')
            lines.append(f'let clock := clock + ({v} + over) in')
            slept[0] = 'slept'
        else:
            raise Shape(f'{fn.name}: statement not in the whitelist: {pyast.unparse(st).splitlines()[0]}')
    lines.append(ret())
    head = f'Definition {fn.name} (PAUSE_LIMIT PAUSE_THRESHOLD_SECONDS over clock amortised seconds : Q) : Q * Q * Q :='
    return head + '\n  ' + '\n  '.join(lines) + '.'


def tr_io(fn, *, arg, op, pause, limit, result, sized):
    """_RateLimitedFileWrapper.read / write"""
    a = fn.args
    need([x.arg for x in a.args] == ['self', arg] and not a.vararg and not a.kwarg, f'{fn.name}: signature')
    env = {f'self._rate_limiter.{limit}': limit}
    tr = Tr(env)
    lines = []
    got_io = got_pause = False
    for st in fn.body:
        if isinstance(st, ast.Assign) and len(st.targets) == 1 and isinstance(st.targets[0], ast.Name):
            name = st.targets[0].id
            v = st.value
            if is_call_to(v, f'self._file.{op}'):
                need(len(v.args) == 1 and isinstance(v.args[0], ast.Name) and v.args[0].id == arg and not v.keywords,
                     f'{fn.name}: underlying {op} not called with exactly ({arg})')
                need(not got_io and name == result, f'{fn.name}: unexpected underlying call')
                got_io = True
                lines.append(f"let '({result}, file) := file_{op} file {arg} in")
                lines.append('let clock := clock + e in')
                env[result] = result
            else:
                need(name not in ('clock', 'amortised', 'file', 'e', 'over', 'slept', arg, result), f'{fn.name}: rebinding {name}')
                lines.append(f'let {name} := {tr.expr(v)} in')
                env[name] = name
        elif isinstance(st, ast.Expr) and is_call_to(st.value, f'self._rate_limiter.{pause}'):
            need(got_io and not got_pause and len(st.value.args) == 1 and not st.value.keywords, f'{fn.name}: pause call')
            got_pause = True
            lines.append(f"let '(clock, amortised, slept) := {pause} PAUSE_LIMIT PAUSE_THRESHOLD_SECONDS over clock amortised "
                         f'{tr.expr(st.value.args[0])} in')
        elif isinstance(st, ast.Return):
            need(st is fn.body[-1] and isinstance(st.value, ast.Name) and st.value.id == result and got_io and got_pause,
                 f'{fn.name}: does not end with "return {result}" after the underlying call and the pause')
            lines.append(f'({result}, file, (clock, amortised, slept))')
        else:
            raise Shape(f'{fn.name}: statement not in the whitelist: {pyast.unparse(st).splitlines()[0]}')
    need(isinstance(fn.body[-1], ast.Return), f'{fn.name}: no final return')
    rt = 'D' if sized else 'Q'
    argt = 'A' if op == 'read' else 'D'
    head = (f'Definition wrapper_{op} (PAUSE_LIMIT PAUSE_THRESHOLD_SECONDS {limit} over e clock amortised : Q) '
            f'(file : F) ({arg} : {argt}) : {rt} * F * (Q * Q * Q) :=')
    return head + '\n  ' + '\n  '.join(lines) + '.'


def passthrough(cls, name, inner):
    """def name(self, *args, **kwargs): return self.<inner>.name(*args, **kwargs)"""
    fn = pyast.find_func(cls, name)
    want = f'return self.{inner}.{name}(*args, **kwargs)'
    need(len(fn.body) == 1 and pyast.unparse(fn.body[0]) == want and fn.args.vararg and fn.args.kwarg
         and [x.arg for x in fn.args.args] == ['self'], f'{cls.name}.{name}: body is not "{want}"')


def body_is(cls, name, lines):
    fn = pyast.find_func(cls, name)
    got = [pyast.unparse(s) for s in fn.body]
    need(got == lines, f'{cls.name}.{name}: body {got} is not {lines}')


def chunk_sites(tree):
    """the functions of Repository that construct a RateLimitedIO: chunk-size formula and its use"""
    cls = pyast.find_class(tree, 'Repository')
    sites = []
    total_ctor = sum(1 for n in ast.walk(cls) if isinstance(n, ast.Call) and pyast.unparse(n.func).endswith('RateLimitedIO'))
    total_wrap = sum(1 for n in ast.walk(cls) if isinstance(n, ast.Call) and pyast.unparse(n.func) == 'rate_limiter.wrap')
    for fn in cls.body:
        if not isinstance(fn, (ast.FunctionDef, ast.AsyncFunctionDef)):
            continue
        ctors = [n for n in ast.walk(fn) if isinstance(n, ast.Call) and pyast.unparse(n.func).endswith('RateLimitedIO')]
        if not ctors:
            continue
        need(len(ctors) == 1 and pyast.unparse(ctors[0]) == 'utils.RateLimitedIO(rate_limit)', f'{fn.name}: limiter construction')
        # if rate_limit is not None: rate_limiter = ...; X_chunk_size = max(rate_limit // (self._concurrent * K), 1)
        found = None
        for n in ast.walk(fn):
            if isinstance(n, ast.If) and pyast.unparse(n.test) == 'rate_limit is not None' and len(n.body) == 2:
                a, b = n.body
                if pyast.unparse(a) == 'rate_limiter = utils.RateLimitedIO(rate_limit)' and isinstance(b, ast.Assign) \
                        and len(b.targets) == 1 and isinstance(b.targets[0], ast.Name):
                    v = b.value
                    need(is_call_to(v, 'max') and len(v.args) == 2 and pyast.unparse(v.args[1]) == '1', f'{fn.name}: chunk size is not max(..., 1)')
                    q = v.args[0]
                    need(isinstance(q, ast.BinOp) and isinstance(q.op, ast.FloorDiv) and pyast.unparse(q.left) == 'rate_limit'
                         and isinstance(q.right, ast.BinOp) and isinstance(q.right.op, ast.Mult)
                         and pyast.unparse(q.right.left) == 'self._concurrent' and isinstance(q.right.right, ast.Constant)
                         and isinstance(q.right.right.value, int), f'{fn.name}: chunk size formula {pyast.unparse(v)}')
                    found = (b.targets[0].id, q.right.right.value)
        need(found is not None, f'{fn.name}: no chunk size assignment next to the limiter')
        var, div = found
        # the variable is the chunk_size argument of the backend stream call in this function
        used = [n for n in ast.walk(fn) if isinstance(n, ast.Call) and n.args
                and pyast.unparse(n.args[0]) in ('self.backend.upload_stream', 'self.backend.download_stream')]
        need(len(used) == 1 and isinstance(used[0].args[-1], ast.Name) and used[0].args[-1].id == var and len(used[0].args) in (4, 5),
             f'{fn.name}: {var} is not the chunk size handed to the backend stream call')
        # the chunk-size variable is bound exactly twice in the whole function (the limited and the unlimited branch): nothing
        # - loop variable, later assignment, closure rebinding - changes it before the (possibly deferred) backend call reads it
        binds = [n for n in ast.walk(fn) if isinstance(n, ast.Name) and n.id == var and isinstance(n.ctx, (ast.Store, ast.Del))]
        binds += [a for f2 in ast.walk(fn) if isinstance(f2, (ast.FunctionDef, ast.AsyncFunctionDef, ast.Lambda)) and f2 is not fn
                  for a in f2.args.args + f2.args.kwonlyargs if a.arg == var]
        need(len(binds) == 2, f'{fn.name}: {var} is bound {len(binds)} times in the function (expected the two branches only)')
        wraps = [n for n in ast.walk(fn) if isinstance(n, ast.Call) and pyast.unparse(n.func) == 'rate_limiter.wrap']
        need(len(wraps) == 1, f'{fn.name}: expected one rate_limiter.wrap')
        # the stream handed to the backend is wrapped whenever there is a limiter - no further condition:
        #     if rate_limiter is not None: limited_wrapper = rate_limiter.wrap(stream)  else: limited_wrapper = stream
        guards = [n for n in ast.walk(fn) if isinstance(n, ast.If) and any(w in ast.walk(n) for w in wraps)
                  and not any(isinstance(m, ast.If) and m is not n and any(w in ast.walk(m) for w in wraps) for m in ast.walk(n))]
        need(len(guards) == 1 and pyast.unparse(guards[0].test) == 'rate_limiter is not None'
             and [pyast.unparse(s) for s in guards[0].body] == ['limited_wrapper = rate_limiter.wrap(stream)']
             and [pyast.unparse(s) for s in guards[0].orelse] == ['limited_wrapper = stream'],
             f'{fn.name}: the stream is not wrapped unconditionally when a limiter exists')
        # ... and it is the wrapped stream (possibly under progress wrappers) that reaches the backend, never `stream` itself
        need(pyast.unparse(used[0].args[2]) == 'tqdm_wrapper', f'{fn.name}: the backend is not handed tqdm_wrapper')
        tq = [n for n in ast.walk(fn) if isinstance(n, ast.Call) and pyast.unparse(n.func) in ('utils.TQDMIOReader', 'utils.TQDMIOWriter')]
        need(len(tq) == 1 and tq[0].args and pyast.unparse(tq[0].args[0]) in ('limited_wrapper', 'callback_wrapper'),
             f'{fn.name}: progress wrapper is not built over the limited stream')
        if pyast.unparse(tq[0].args[0]) == 'callback_wrapper':
            cb = [n for n in ast.walk(fn) if isinstance(n, ast.Assign) and pyast.unparse(n.targets[0]) == 'callback_wrapper']
            need(len(cb) == 1 and isinstance(cb[0].value, ast.Call) and len(cb[0].value.args) >= 2
                 and pyast.unparse(cb[0].value.args[1]) == 'limited_wrapper', f'{fn.name}: callback wrapper is not built over the limited stream')
        sites.append((fn.name, div))
    need(total_ctor == len(sites) and total_wrap == len(sites), 'limiter constructed or used outside the recognised sites')
    return sites


@unit('RateLimitGen')
def rate_limit_gen():
    tree = pyast.module(UTILS)
    R = pyast.find_class(tree, 'RateLimitedIO')
    W = pyast.find_class(tree, '_RateLimitedFileWrapper')
    out = ['From Coq Require Import QArith List Bool ZArith String.', 'Import ListNotations.', 'Open Scope Q_scope.', '']
    out.append(f'Definition PAUSE_THRESHOLD_SECONDS : Q := {qlit(pyast.class_const(R, "PAUSE_THRESHOLD_SECONDS"))}.')
    out.append(f'Definition PAUSE_LIMIT : Q := {qlit(pyast.class_const(R, "PAUSE_LIMIT"))}.')
    out.append('Definition py_max (a b : Q) : Q := if negb (Qle_bool b a) then b else a.')
    out.append('')
    out.append(tr_pause(pyast.find_func(R, 'pause_reads'), '_read_sleep_amortised', '_read_lock'))
    out.append(tr_pause(pyast.find_func(R, 'pause_writes'), '_write_sleep_amortised', '_write_lock'))
    out.append('')
    # limiter construction facts
    body_is(R, 'wrap', ['return _RateLimitedFileWrapper(file, self)'])
    init = [pyast.unparse(s) for s in pyast.find_func(R, '__init__').body]
    for line in ('self.read_limit = limit', 'self.write_limit = write_limit', 'self._read_sleep_amortised = 0',
                 'self._write_sleep_amortised = 0', 'self._read_lock = threading.Lock()', 'self._write_lock = threading.Lock()'):
        need(line in init, f'RateLimitedIO.__init__: missing "{line}"')
    need(init[0].replace('\n', ' ').split() == 'if write_limit is None: write_limit = limit'.split(), 'RateLimitedIO.__init__: write_limit default')
    out.append('Definition initial_amortised : Q := 0.')
    body_is(W, '__init__', ['self._file, self._rate_limiter = (file, rate_limiter)'])
    out.append('')
    out.append('Section Wrapper.')
    out.append('Context {F A D : Type}.')
    out.append('Variable file_read : F -> A -> D * F.')
    out.append('Variable file_write : F -> D -> Q * F.')
    out.append('Variable len : D -> Q.')
    rd = pyast.find_func(W, 'read')
    need(len(rd.args.defaults) == 1 and pyast.unparse(rd.args.defaults[0]) == '-1', 'read: default size')
    out.append(tr_io(rd, arg='size', op='read', pause='pause_reads', limit='read_limit', result='data', sized=True))
    wr = pyast.find_func(W, 'write')
    need(not wr.args.defaults, 'write: defaults')
    out.append(tr_io(wr, arg='data', op='write', pause='pause_writes', limit='write_limit', result='bytes_written', sized=False))
    out.append('End Wrapper.')
    out.append('')
    for name in ('seek', 'tell', 'truncate'):
        passthrough(W, name, '_file')
        out.append(f'Definition wrapper_{name} {{F A R : Type}} (file_{name} : F -> A -> R * F) (file : F) (args : A) : R * F := file_{name} file args.')
    out.append('')
    # progress wrappers stacked on top in repository.py: return what the wrapped stream returns
    TB = pyast.find_class(tree, 'TQDMIOBase')
    body_is(pyast.find_class(tree, 'TQDMIOReader'), 'read', ['data = self._stream.read(size)', 'self._tracker.update(len(data))', 'return data'])
    body_is(pyast.find_class(tree, 'TQDMIOWriter'), 'write', ['length = self._stream.write(data)', 'self._tracker.update(length)', 'return length'])
    body_is(TB, 'seek', ['pos = self._stream.seek(*args, **kwargs)', 'self._tracker.reset()', 'self._tracker.update(pos)', 'return pos'])
    body_is(TB, 'truncate', ['new_size = self._stream.truncate(size)', 'self._tracker.reset(new_size)', 'return new_size'])
    out.append('Definition tqdm_wrappers_return_underlying_result : bool := true.')
    out.append('')
    sites = chunk_sites(pyast.module(REPOSITORY))
    out.append('Definition rate_limited_sites_wrap_unconditionally : bool := true.')
    out.append('Definition rate_limited_sites : list (string * Z) := ['
               + '; '.join(f'("{n}"%string, {d}%Z)' for n, d in sites) + '].')
    return '\n'.join(out) + '\n'
