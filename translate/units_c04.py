"""C04 source facts -> coq/Gen/IntegrityFacts.v : the verification steps of restore / snapshot loading
(DESIGN.md C04).  Read off replicat/repository.py by AST; fail closed."""
import ast
from . import pyast
from .units import unit
from .symterm import SymEval, ContentsFlow, Untranslatable, attr_chain, _is_digest_mismatch, _mentions, coq_bool


def _repo_class():
    return pyast.find_class(pyast.module('replicat/repository.py'), 'Repository')


def download_chunk_facts():
    R = _repo_class()
    restore = pyast.find_func(R, 'restore')
    fn = pyast.find_func(restore, '_download_chunk')
    if [a.arg for a in fn.args.args][:1] != ['digest']:
        raise Untranslatable('_download_chunk: first parameter is not the digest')
    body = fn.body
    # location derived from the referenced digest
    loc_ok = False
    for st in body:
        if isinstance(st, ast.Assign) and isinstance(st.targets[0], ast.Name) and st.targets[0].id == 'location':
            v = st.value
            loc_ok = (isinstance(v, ast.Call) and attr_chain(v.func) == ['self', '_chunk_digest_to_location']
                      and len(v.args) == 1 and isinstance(v.args[0], ast.Name) and v.args[0].id == 'digest')
    if not loc_ok:
        raise Untranslatable('_download_chunk: location is not _chunk_digest_to_location(digest)')
    # the decryption step
    idx = [i for i, st in enumerate(body) if isinstance(st, ast.If) and attr_chain(st.test) == ['self', 'props', 'encrypted']
           and any(_mentions(s, 'decrypted_contents') for s in st.body)]
    if len(idx) != 1:
        raise Untranslatable('_download_chunk: decryption step not found')
    i = idx[0]
    enc = SymEval(True, {'contents': 'o', 'digest': 'd'})
    enc.block([body[i]])
    plain = SymEval(False, {'contents': 'o', 'digest': 'd'})
    plain.block([body[i]])
    if len(enc.decrypts) != 1 or enc.decrypts[0][0] != 'o' or enc.env.get('decrypted_contents') != '(PLAINTEXT_OF o)':
        raise Untranslatable('_download_chunk: unexpected decryption shape')
    if plain.decrypts or plain.env.get('decrypted_contents') != 'o':
        raise Untranslatable('_download_chunk: unexpected unencrypted shape')
    key = enc.decrypts[0][1]
    tolerated = enc.decrypts[0][2]
    # the re-hash: first statement after the decryption that mentions the plaintext must be the check
    rehash = False
    for st in body[i + 1:]:
        if not _mentions(st, 'decrypted_contents'):
            continue
        if (isinstance(st, ast.If) and _is_digest_mismatch(st.test, 'decrypted_contents', 'digest') == '!='
                and st.body and isinstance(st.body[-1], ast.Raise) and not st.orelse):
            rehash = True
        break
    return key, rehash and not tolerated


def download_snapshot_flow():
    fn = pyast.find_func(_repo_class(), '_download_snapshot_threadsafe')
    params = [a.arg for a in fn.args.args]
    if params[:3] != ['self', 'path', 'expected_digest']:
        raise Untranslatable('_download_snapshot_threadsafe: unexpected parameters')
    flow = ContentsFlow('contents', 'expected_digest')
    flow.block(fn.body, {'none'})
    if not flow.used:
        raise Untranslatable('_download_snapshot_threadsafe: contents never decrypted')
    return flow


def load_snapshots_facts():
    ls = pyast.find_func(_repo_class(), '_load_snapshots')
    fn = pyast.find_func(ls, '_download_snapshot')
    body = fn.body
    # name, tag = self.parse_snapshot_location(path)
    first = body[0]
    if not (isinstance(first, ast.Assign) and isinstance(first.targets[0], ast.Tuple)
            and [e.id for e in first.targets[0].elts] == ['name', 'tag']
            and attr_chain(first.value.func) == ['self', 'parse_snapshot_location']):
        raise Untranslatable('_download_snapshot: name, tag = parse_snapshot_location(path) not found')
    digest_ok, tag_checked, passes_digest = False, False, False
    for st in body[1:]:
        if isinstance(st, ast.Assign) and isinstance(st.targets[0], ast.Name) and st.targets[0].id == 'digest':
            v = st.value
            digest_ok = (isinstance(v, ast.Call) and attr_chain(v.func) == ['bytes', 'fromhex']
                         and isinstance(v.args[0], ast.Name) and v.args[0].id == 'name')
        elif isinstance(st, ast.If) and isinstance(st.test, ast.BoolOp) and isinstance(st.test.op, ast.And) and len(st.test.values) == 2:
            a, b = st.test.values
            if attr_chain(a) == ['self', 'props', 'encrypted'] and isinstance(b, ast.Compare) and isinstance(b.ops[0], ast.NotEq):
                l, r = ast.unparse(b.left), ast.unparse(b.comparators[0])
                if {l, r} == {'self.props.mac(digest)', 'bytes.fromhex(tag)'} and digest_ok \
                        and isinstance(st.body[-1], ast.Return) and st.body[-1].value is None and not st.orelse:
                    tag_checked = True
        elif isinstance(st, ast.Return) and isinstance(st.value, ast.Call) \
                and attr_chain(st.value.func) == ['self', '_download_snapshot_threadsafe']:
            a = st.value.args
            passes_digest = (len(a) == 2 and isinstance(a[1], ast.Name) and a[1].id == 'digest' and digest_ok
                             and isinstance(a[0], ast.Name) and a[0].id == 'path')
            if not tag_checked:
                # the download happens before / without the tag check
                pass
            break
    if not passes_digest:
        raise Untranslatable('_download_snapshot: the expected digest is not the object name')
    return tag_checked


@unit('IntegrityFacts')
def integrity_facts():
    key, rehash = download_chunk_facts()
    flow = download_snapshot_flow()
    download_verified = 'downloaded' not in flow.use_tags and 'none' not in flow.use_tags
    tag_checked = load_snapshots_facts()
    out = ['From Coq Require Import NArith Bool.',
           'From Replicat Require Import Model.Crypto Model.Objects.', '',
           '(* restore/_download_chunk: hash(plaintext) != digest -> raise, before the plaintext is used;',
           '   _download_snapshot_threadsafe: downloaded bytes reach _decrypt_snapshot_body only after the digest comparison;',
           '   _load_snapshots/_download_snapshot: encrypted and mac(name) != tag -> skipped *)',
           'Definition src_facts : facts :=',
           f'  {{| f_rehash_chunk := {coq_bool(rehash)}; f_verify_snapshot := {coq_bool(download_verified)}; '
           f'f_check_tag := {coq_bool(tag_checked)} |}}.', '',
           '(* key under which restore decrypts the object stored for digest d *)',
           f'Definition gen_fetch_chunk_key (k : keyring) (d : term) : term := {key}.']
    return '\n'.join(out) + '\n'
