"""C09 source facts: slot bracketing of every backend transfer, shape of the slot context managers,
the worker loop's exit test, the locked finalisation decision in restore (Gen/SchedFacts.v)."""
import ast
from . import pyast
from .units import unit

TRANSFERS = {'exists', 'upload', 'upload_stream', 'download', 'download_stream', 'delete', 'clean', 'close'}
SLOT_WRAPPERS = {'_exists', '_download', '_upload_data', '_delete', '_clean', '_close', '_exists_threadsafe', '_download_threadsafe',
                 '_upload_data_threadsafe', '_delete_threadsafe', '_clean_threadsafe', '_close_threadsafe'}


def _ws(text):
    return ' '.join(text.split())


def _is_slot_with(node):
    if not isinstance(node, (ast.With, ast.AsyncWith)):
        return False
    for item in node.items:
        c = item.context_expr
        if isinstance(c, ast.Call) and ast.unparse(c.func) in ('self._acquire_slot', 'self._acquire_slot_threadsafe'):
            return True
    return False


def _backend_refs(node):
    """attribute references self.backend.<transfer> below node"""
    out = []
    for n in ast.walk(node):
        if isinstance(n, ast.Attribute) and n.attr in TRANSFERS and ast.unparse(n.value) == 'self.backend':
            out.append(n)
    return out


@unit('SchedFacts')
def sched_facts():
    repo = pyast.module('replicat/repository.py')
    R = pyast.find_class(repo, 'Repository')
    out = []
    # 1. every reference to a backend transfer method lies inside a slot block
    all_refs = _backend_refs(R)
    inside = []
    slot_blocks = [n for n in ast.walk(R) if _is_slot_with(n)]
    for w in slot_blocks:
        inside += _backend_refs(w)
    missing = [ast.unparse(r) + f' (line {r.lineno})' for r in all_refs if r not in inside]
    assert not missing, f'backend transfer outside a connection slot: {missing}'
    assert len(all_refs) >= 14, 'expected the known transfer call sites'
    out.append('Definition fact_every_transfer_inside_a_slot : bool := true.')
    # 2. no nesting: inside a slot block, no slot-taking wrapper is called and no other slot block opens
    for w in slot_blocks:
        for n in ast.walk(w):
            if n is not w and _is_slot_with(n):
                raise AssertionError(f'nested slot acquisition at line {n.lineno}')
            if isinstance(n, ast.Call) and isinstance(n.func, ast.Attribute) and ast.unparse(n.func.value) == 'self' and n.func.attr in SLOT_WRAPPERS:
                raise AssertionError(f'slot-taking wrapper {n.func.attr} called while holding a slot (line {n.lineno})')
    out.append('Definition fact_slots_not_nested : bool := true.')
    # 3. the context managers release in a finally block
    a1 = pyast.find_func(R, '_acquire_slot')
    s1 = [ast.unparse(n) for n in a1.body]
    assert s1[0] == 'slot = await self._slots.get()' and isinstance(a1.body[1], ast.Try)
    t = a1.body[1]
    assert ast.unparse(t.body[0]) == 'yield slot' and len(t.finalbody) == 1 and ast.unparse(t.finalbody[0]) == 'self._slots.put_nowait(slot)' and not t.handlers
    a2 = pyast.find_func(R, '_acquire_slot_threadsafe')
    assert ast.unparse(a2.body[0]) == 'slot = self._run_coroutine_threadsafe(self._slots.get(), loop=loop)'
    t = a2.body[1]
    assert isinstance(t, ast.Try) and ast.unparse(t.body[0]) == 'yield slot' and len(t.finalbody) == 1 \
        and ast.unparse(t.finalbody[0]) == 'loop.call_soon_threadsafe(self._slots.put_nowait, slot)' and not t.handlers
    out.append('Definition fact_slot_released_in_finally : bool := true.')
    # 3b. a worker thread hands its coroutine to the loop and waits for it - but never for a loop that has been closed: the wait is
    #     a loop of bounded waits that gives up only when the future is done (its own outcome) or the loop is closed
    rc = pyast.find_func(R, '_run_coroutine_threadsafe')
    assert ast.unparse(rc.body[0]) == 'future = asyncio.run_coroutine_threadsafe(coroutine, loop)'
    loops_ = [n for n in rc.body if isinstance(n, ast.While)]
    assert len(loops_) == 1 and ast.unparse(loops_[0].test) == 'True' and len(loops_[0].body) == 3
    w0, w1, w2 = loops_[0].body
    assert isinstance(w0, ast.Assign) and ast.unparse(w0.value.func) == 'concurrent.futures.wait' and ast.unparse(w0.value.args[0]) == '[future]' \
        and [k.arg for k in w0.value.keywords] == ['timeout'] and ast.unparse(w0.targets[0]) == '(done, _)', 'bounded wait expected'
    assert isinstance(w1, ast.If) and ast.unparse(w1.test) == 'done' and ast.unparse(w1.body[0]) == 'return future.result()' and not w1.orelse
    assert isinstance(w2, ast.If) and ast.unparse(w2.test) == 'loop.is_closed()' and isinstance(w2.body[-1], ast.Raise) and not w2.orelse
    for fn in ('_maybe_run_coroutine_threadsafe',):
        src_ = _ws(ast.unparse(pyast.find_func(R, fn)))
        assert 'run_coroutine_threadsafe(func(*args, **kwargs), loop=loop)' in src_ and '.result()' not in src_
    # no other place blocks on a future of the loop without this guard
    for n in ast.walk(R):
        if isinstance(n, ast.Call) and ast.unparse(n.func) == 'asyncio.run_coroutine_threadsafe':
            owner = [f for f in ast.walk(R) if isinstance(f, (ast.FunctionDef, ast.AsyncFunctionDef)) and n in ast.walk(f)]
            assert any(f.name == '_run_coroutine_threadsafe' for f in owner), f'unguarded run_coroutine_threadsafe at line {n.lineno}'
    out.append('Definition fact_threads_never_wait_for_a_closed_loop : bool := true.')
    # 4. exactly `concurrent` tokens
    init = _ws(ast.unparse(pyast.find_func(R, '__init__')))
    assert 'self._slots = asyncio.PriorityQueue(maxsize=concurrent)' in init
    assert 'for slot in range(2, concurrent + 2): self._slots.put_nowait(slot)' in init
    out.append('Definition fact_concurrent_tokens : bool := true.')
    # 5. worker loop
    snap = pyast.find_func(R, 'snapshot')
    worker = pyast.find_func(snap, '_worker')
    loop = worker.body[0]
    assert isinstance(loop, ast.While) and ast.unparse(loop.test) == 'not chunk_queue.empty() or not chunk_producer.done()'
    tr = loop.body[0]
    assert isinstance(tr, ast.Try) and ast.unparse(tr.body[0]) == 'chunk = chunk_queue.get_nowait()'
    h = tr.handlers[0]
    assert ast.unparse(h.type) == 'queue.Empty' and isinstance(h.body[-1], ast.Continue) and 'await asyncio.sleep(queue_timeout)' in ast.unparse(h)
    s = _ws(ast.unparse(snap))
    assert 'chunk_queue = queue.Queue(maxsize=self._concurrent * 10)' in s
    assert 'chunk_producer_executor = ThreadPoolExecutor(max_workers=1' in s
    out.append('Definition fact_worker_exit_test : bool := true.')
    i1 = s.index('try: await asyncio.gather(*(_worker() for _ in range(self._concurrent)))')
    i2 = s.index('except: abort.set() raise', i1)
    i3 = s.index('finally: await chunk_producer', i2)
    prodf = pyast.find_func(snap, '_chunk_producer')
    # the put-retry loop must re-test the abort flag on EVERY iteration (a full queue is never drained once the workers died)
    retry = [n for n in ast.walk(prodf) if isinstance(n, ast.While) and 'chunk_queue.put(chunk, timeout=queue_timeout)' in ast.unparse(n)]
    assert len(retry) == 1 and ast.unparse(retry[0].test) == 'True', 'put-retry loop expected'
    first = retry[0].body[0]
    assert isinstance(first, ast.If) and ast.unparse(first.test) == 'abort.is_set()' and isinstance(first.body[-1], ast.Return), \
        'the retry loop must start by testing the abort flag and return'
    tr = retry[0].body[1]
    assert isinstance(tr, ast.Try) and ast.unparse(tr.handlers[0].type) == 'queue.Full' and isinstance(tr.orelse[0], ast.Break)
    out.append('Definition fact_abort_stops_producer : bool := true.')
    # 6. restore: removal, emptiness test and pop happen in ONE critical section
    rs = pyast.find_func(R, 'restore')
    dl = pyast.find_func(rs, '_download_chunk')
    loops = [n for n in ast.walk(dl) if isinstance(n, ast.For) and ast.unparse(n.iter) == 'referenced_paths']
    assert len(loops) == 1
    w = loops[0].body[0]
    assert isinstance(w, ast.With) and ast.unparse(w.items[0].context_expr) == 'glock'
    body = [ast.unparse(n) for n in w.body]
    assert body[0] == 'digests = files_digests[file_path]' and body[1] == 'digests.remove(digest)', body
    cond = w.body[2]
    assert isinstance(cond, ast.If) and ast.unparse(cond.test) == '(finished := (not digests))' and 'files_metadata.pop(file_path)' in ast.unparse(cond.body[0]), ast.unparse(cond.test)
    after = loops[0].body[1]
    assert isinstance(after, ast.If) and ast.unparse(after.test) == 'finished'
    assert 'files_digests' not in ast.unparse(after) and 'files_metadata' not in ast.unparse(after)
    out.append('Definition fact_finalisation_decided_under_lock : bool := true.')
    # 7. per-file write lock
    wr = _ws(ast.unparse(pyast.find_func(rs, '_write_chunk_ref')))
    assert 'with flock: self._write_file_part(' in wr
    out.append('Definition fact_writes_serialised_per_file : bool := true.')
    # 8. the rate limiter's shared pause account: addition, cap, threshold test, evaluation of the sleep length, sleep and settlement
    #    are ONE critical section (Model/LimiterLock.v takes the boolean as its parameter)
    utils = pyast.module('replicat/utils/__init__.py')
    RL = pyast.find_class(utils, 'RateLimitedIO')
    under = True
    for fname, attr, lock in (('pause_reads', '_read_sleep_amortised', '_read_lock'), ('pause_writes', '_write_sleep_amortised', '_write_lock')):
        fn = pyast.find_func(RL, fname)
        withs = [n for n in fn.body if isinstance(n, ast.With) and [ast.unparse(i.context_expr) for i in n.items] == [f'self.{lock}']]
        assert withs, f'{fname}: no block under self.{lock}'
        first = _ws(ast.unparse(withs[0]))
        assert f'self.{attr} += seconds' in first and f'if self.{attr} <= self.PAUSE_THRESHOLD_SECONDS: return' in first, \
            f'{fname}: addition and threshold test are not in one critical section'
        sleeps = [n for n in ast.walk(fn) if isinstance(n, ast.Call) and ast.unparse(n.func) == 'time.sleep']
        assert len(sleeps) == 1 and ast.unparse(sleeps[0].args[0]) == f'self.{attr}', f'{fname}: sleep length is not the shared account'
        settle = [n for n in ast.walk(fn) if isinstance(n, ast.AugAssign) and isinstance(n.op, ast.Sub) and ast.unparse(n.target) == f'self.{attr}']
        assert len(settle) == 1, f'{fname}: settlement not found'
        inside = {id(n) for n in ast.walk(withs[0])}
        under = under and id(sleeps[0]) in inside and id(settle[0]) in inside and len(fn.body) == 1
    consts = {ast.unparse(n.targets[0]): ast.literal_eval(n.value) for n in RL.body if isinstance(n, ast.Assign)}
    out.append('Definition limiter_sleeps_under_lock : bool := %s.' % ('true' if under else 'false'))
    out.append('Definition limiter_threshold_nonneg : bool := %s.' % ('true' if consts['PAUSE_THRESHOLD_SECONDS'] >= 0 else 'false'))
    # 9. requires_auth, plain wrapper: the per-backend lock attribute is published only after the first authenticate() has returned
    #    (Model/AuthGate.v takes the negation as its parameter); the async wrapper has the same order
    ra = pyast.find_func(utils, 'requires_auth')
    wrappers = [n for n in ast.walk(ra) if isinstance(n, (ast.FunctionDef, ast.AsyncFunctionDef)) and n.name == 'wrapper']
    assert len(wrappers) == 2, 'requires_auth: async and plain wrapper expected'
    after = True
    for w_, attr, auth in ((wrappers[0], 'self._async_auth_lock = lock', 'await self.authenticate()'),
                           (wrappers[1], 'self._auth_lock = lock', 'self.authenticate()')):
        tr_ = [n for n in w_.body if isinstance(n, ast.Try)]
        assert tr_ and isinstance(tr_[0].handlers[0].type, ast.Name) and tr_[0].handlers[0].type.id == 'AttributeError', 'first-use branch expected'
        first_use = _ws(ast.unparse(tr_[0].handlers[0]))
        assert first_use.count(attr) == 1 and first_use.count(auth) == 1, 'first-use branch: one authenticate, one publication'
        after = after and first_use.index(auth) < first_use.index(attr)
    out.append('Definition auth_lock_published_after_authenticate : bool := %s.' % ('true' if after else 'false'))
    names = [ln.split()[1] for ln in out]
    out.append('Definition all_sched_facts : bool := ' + ' && '.join(names) + '.')
    return 'From Coq Require Import Bool.\n' + '\n'.join(out) + '\n'
