"""C05 translated definitions -> coq/Gen/ObjTerms.v : the term structure of what replicat writes
(which key encrypts which field, how names are derived, nonce per encrypt call).  Fail closed."""
import ast
from . import pyast
from .units import unit
from .symterm import SymEval, Obj, Untranslatable, attr_chain, eval_function, coq_bool, _mentions
from .units_c04 import _repo_class


def _ret_term(ev):
    if ev.returned is None:
        raise Untranslatable('no return value')
    return ev.as_term(ev.returned)


def encrypt_snapshot_body():
    R = _repo_class()
    # snapshot() builds the body as {'chunks': ..., 'data': ...}
    snap = pyast.find_func(R, 'snapshot')
    ok = False
    for n in ast.walk(snap):
        if isinstance(n, ast.Assign) and isinstance(n.targets[0], ast.Name) and n.targets[0].id == 'snapshot_body' and isinstance(n.value, ast.Dict):
            ok = [k.value for k in n.value.keys if isinstance(k, ast.Constant)] == ['chunks', 'data']
    if not ok:
        raise Untranslatable("snapshot(): snapshot_body is not {'chunks': ..., 'data': ...}")
    fn = pyast.find_func(R, '_encrypt_snapshot_body')
    out = {}
    for enc in (True, False):
        ev = eval_function(fn, enc, {'snapshot_body': Obj(chunks='table', data='data')})
        if enc and ev.nonces != 2:
            raise Untranslatable(f'_encrypt_snapshot_body performs {ev.nonces} encryptions, expected 2')
        if not enc and ev.nonces:
            raise Untranslatable('encryption in an unencrypted repository')
        out[enc] = _ret_term(ev)
    return out


def name_parts(fname):
    fn = pyast.find_func(_repo_class(), fname)
    out = {}
    for enc in (True, False):
        ev = eval_function(fn, enc, {'digest': 'd'})
        r = ev.returned
        if not (isinstance(r, Obj) and list(r) == ['name', 'tag']):
            raise Untranslatable(f'{fname} does not return LocationParts(name=..., tag=...)')
        out[enc] = f'({ev.as_term(r["name"])}, {ev.as_term(r["tag"])})'
    return out


def chunk_object():
    snap = pyast.find_func(_repo_class(), 'snapshot')
    prod = pyast.find_func(snap, '_chunk_producer')
    loops = [n for n in prod.body if isinstance(n, ast.For)]
    if len(loops) != 1 or not (isinstance(loops[0].target, ast.Name) and loops[0].target.id == 'output_chunk'):
        raise Untranslatable('_chunk_producer: loop over output_chunk not found')
    body = loops[0].body
    dig = [s for s in body if isinstance(s, ast.Assign) and isinstance(s.targets[0], ast.Name) and s.targets[0].id == 'digest']
    enc_if = [s for s in body if isinstance(s, ast.If) and attr_chain(s.test) == ['self', 'props', 'encrypted']]
    if len(dig) != 1 or len(enc_if) != 1 or body.index(dig[0]) > body.index(enc_if[0]):
        raise Untranslatable('_chunk_producer: digest / encryption steps not found')
    # the uploaded contents and the location come from these
    uses = [n for n in ast.walk(loops[0]) if isinstance(n, ast.keyword) and n.arg == 'contents']
    if not (len(uses) == 1 and isinstance(uses[0].value, ast.Name) and uses[0].value.id == 'encrypted_contents'):
        raise Untranslatable('_chunk_producer: contents= is not encrypted_contents')
    locs = [n for n in ast.walk(loops[0]) if isinstance(n, ast.keyword) and n.arg == 'location']
    if not (len(locs) == 1 and ast.unparse(locs[0].value) == 'self._chunk_digest_to_location(digest)'):
        raise Untranslatable('_chunk_producer: location= is not _chunk_digest_to_location(digest)')
    out = {}
    for enc in (True, False):
        ev = SymEval(enc, {'output_chunk': 'c'})
        ev.block([dig[0], enc_if[0]])
        if ev.env.get('digest') != '(Hash c)':
            raise Untranslatable('_chunk_producer: digest is not hash_digest(output_chunk)')
        out[enc] = ev.as_term(ev.env['encrypted_contents'])
    return out


def decrypt_snapshot_body():
    fn = pyast.find_func(_repo_class(), '_decrypt_snapshot_body')
    ev = eval_function(fn, True, {'contents': Obj(chunks='ec', data='ed')})
    d = {ct: (key, tol) for ct, key, tol in ev.decrypts}
    if set(d) != {'ec', 'ed'} or len(ev.decrypts) != 2:
        raise Untranslatable('_decrypt_snapshot_body: expected exactly the two fields to be decrypted')
    plain = eval_function(fn, False, {'contents': Obj(chunks='ec', data='ed')})
    if plain.decrypts:
        raise Untranslatable('decryption in an unencrypted repository')
    return d


def encrypt_nonce_fact():
    ad = pyast.module('replicat/utils/adapters.py')
    mix = pyast.find_class(ad, 'AEADCipherAdapterMixin')
    fn = pyast.find_func(mix, 'encrypt')
    if [a.arg for a in fn.args.args] != ['self', 'data', 'key']:
        return False, False
    nonce_fresh = False
    for st in fn.body:
        if isinstance(st, ast.Assign) and len(st.targets) == 1 and isinstance(st.targets[0], ast.Name) and st.targets[0].id == 'nonce':
            nonce_fresh = ast.unparse(st.value) == 'os.urandom(self._nonce_bytes)'
    ret = fn.body[-1]
    prefix = isinstance(ret, ast.Return) and ast.unparse(ret.value) == 'nonce + cipher.encrypt(nonce, data, None)'
    assigns = [n for n in ast.walk(fn) if isinstance(n, ast.Assign) and any(_mentions(t, 'nonce') for t in n.targets)]
    nonce_fresh = nonce_fresh and len(assigns) == 1
    # no concrete cipher overrides encrypt
    for cls in ast.walk(ad):
        if isinstance(cls, ast.ClassDef) and cls.name != 'AEADCipherAdapterMixin' and any(
                isinstance(b, ast.Name) and b.id == 'AEADCipherAdapterMixin' for b in cls.bases):
            if any(isinstance(f, ast.FunctionDef) and f.name in ('encrypt', 'decrypt') for f in cls.body):
                return False, False
    return nonce_fresh, prefix


def key_private_encrypted_before_output(fname, userkey_exprs):
    """in init / _add_key: key['private'] = props.encrypt(serialize(key['private']), <user key>) precedes every
    statement that writes or prints the key"""
    fn = pyast.find_func(_repo_class(), fname)
    enc_line = None
    for n in ast.walk(fn):
        if isinstance(n, ast.Assign) and ast.unparse(n.targets[0]) == "key['private']" and isinstance(n.value, ast.Call):
            v = n.value
            if attr_chain(v.func) == ['props', 'encrypt'] and len(v.args) == 2 and ast.unparse(v.args[0]) == "self.serialize(key['private'])" \
                    and ast.unparse(v.args[1]) in userkey_exprs:
                enc_line = n.lineno
    if enc_line is None:
        return False
    outs = []
    for n in ast.walk(fn):
        if not isinstance(n, ast.Call):
            continue
        args = list(n.args) + [kw.value for kw in n.keywords]
        if not any(_mentions(a, 'key') for a in args):
            continue
        if isinstance(n.func, ast.Name) and n.func.id == 'print':
            outs.append(n.lineno)
        elif isinstance(n.func, ast.Attribute) and n.func.attr in ('write_bytes', 'write_text', 'upload', '_upload_data'):
            outs.append(n.lineno)
    return bool(outs) and all(l > enc_line for l in outs)


@unit('ObjTerms')
def obj_terms():
    body = encrypt_snapshot_body()
    cn = name_parts('_chunk_digest_to_location_parts')
    sn = name_parts('_snapshot_digest_to_location_parts')
    co = chunk_object()
    dk = decrypt_snapshot_body()
    fresh, prefix = encrypt_nonce_fact()
    kp = key_private_encrypted_before_output('init', {'props.userkey'}) and \
        key_private_encrypted_before_output('_add_key', {"key_props['userkey']"})
    out = ['From Coq Require Import NArith Bool.', 'From Replicat Require Import Model.Crypto Model.Objects.', '',
           '(* _encrypt_snapshot_body: n1 = first encrypt call (data), n2 = second (chunks) *)',
           f'Definition gen_encrypt_body_enc (k : keyring) (n1 n2 : N) (table data : term) : term := {body[True]}.',
           f'Definition gen_encrypt_body_plain (table data : term) : term := {body[False]}.',
           '(* _chunk_digest_to_location_parts / _snapshot_digest_to_location_parts: (name, tag) *)',
           f'Definition gen_chunk_name_enc (k : keyring) (d : term) : term * term := {cn[True]}.',
           f'Definition gen_chunk_name_plain (d : term) : term * term := {cn[False]}.',
           f'Definition gen_snapshot_name_enc (k : keyring) (d : term) : term * term := {sn[True]}.',
           f'Definition gen_snapshot_name_plain (d : term) : term * term := {sn[False]}.',
           '(* snapshot/_chunk_producer: contents uploaded for chunk c *)',
           f'Definition gen_chunk_obj_enc (k : keyring) (n1 : N) (c : term) : term := {co[True]}.',
           f'Definition gen_chunk_obj_plain (c : term) : term := {co[False]}.',
           '(* _decrypt_snapshot_body: key per field, and whether a failed authentication is tolerated (-> None) *)',
           f'Definition gen_dec_chunks_key (k : keyring) (ec ed : term) : term := {dk["ec"][0]}.',
           f'Definition gen_dec_data_key (k : keyring) (ec ed : term) : term := {dk["ed"][0]}.',
           f'Definition gen_dec_chunks_failure_tolerated : bool := {coq_bool(dk["ec"][1])}.',
           f'Definition gen_dec_data_failure_tolerated : bool := {coq_bool(dk["ed"][1])}.',
           '(* AEADCipherAdapterMixin.encrypt: nonce = os.urandom(nonce_bytes) on every call; output = nonce ++ AEAD(nonce, data) *)',
           f'Definition encrypt_draws_fresh_nonce : bool := {coq_bool(fresh)}.',
           f'Definition nonce_is_prefix_of_ciphertext : bool := {coq_bool(prefix)}.',
           "(* init / _add_key: key['private'] is replaced by its encryption under the user key before the key is written or printed *)",
           f'Definition key_private_encrypted_before_output : bool := {coq_bool(kp)}.']
    return '\n'.join(out) + '\n'
